import Pog.Lemmas.ClientGen
/-
  ClientGen — `client.py` (`APIClientProtocol`, `APIClient`) and `mocks/mock_client.py` (`MockAPIClient`) as
  `ClientVisitor` (visit/client_visitor.py) writes them.  Model: Pog/Model/ClientGen.lean (skeleton of the three classes as data).
  Claimed by C07 (every tag group is a property of APIClient), C20 (property names), C13 (the three surfaces agree),
  C01 (the generated modules compile: finding F31, `MockAPIClient.__init__` without a body).

  `✗` marks full statements that are FALSE of the current code: `_counterexample` (closed witness, `decide`) + `_partial`
  (hypothesis = the excluded input class).

    visit never raises                                                                   full  `visit_never_raises`
    one tuple per normalised key, built from the canonical tag of the key                full  `tag_tuples_one_per_key`
    tuples (= properties) in the code-point order of their keys                          full  `tag_tuples_sorted_by_key`
    1  every tag of every operation has its property on APIClient (C07)                  full  `every_tag_group_has_a_property`,
       number of properties = number of distinct keys; = the endpoint groups of the emitter    `property_count`, `tag_clients_are_properties`
       the property is named `_tag_attr_name(module)`: the module name unless that collides  full  `tag_attr_unchanged_iff`, `property_names_are_tag_attrs`
    2  property names are identifiers (C20)                                              ✗     `property_names_valid_partial` / `_counterexample`
       … never `config`                                                                  full  `property_name_never_config`
       … never `_base_url`, `__aenter__`, `__aexit__`, `__init__` (F64 repaired)          full  `property_names_avoid_dunder`,
                                                                                               `property_named_base_url_former_witness` (non-ASCII)
       … never `request`, `close`, `transport`, `self` (F64 repaired)                     full  `property_names`, `property_names_former_witness`
       no property is replaced by a method of the class body (F64 repaired)              full  `properties_not_shadowed_by_methods`
       every property survives in the finished class                                     ✗     `properties_survive_partial` (ASCII tags; the method names are
                                                                                               no longer excluded), `property_shadowed_former_witness`
    3  property names pairwise distinct                                                  ✗     `property_names_pairwise_distinct_partial` (ASCII tags),
                                                                                               `…_counterexample` (`aé` / `a`)
    4  Protocol, APIClient and MockAPIClient written from the SAME tuples agree (C13)    full  `surfaces_agree`
       … `MockAPIClient` as the mocks emitter calls it: the visitor's tuples (F23 repaired) full  `mock_surface`, `mock_surface_former_witness`,
                                                                                               `mock_surface_empty_tag_former_witness`
    5  `MockAPIClient.__init__` always has a body (C01, F31 repaired)                     full  `mock_init_body_never_empty`,
       `mock_client.py` compiles for a document without operations                             `mock_client_compiles_when_no_operation`
       tag spellings no longer give `__init__` a duplicate argument (F23 repaired)       full  `mock_duplicate_argument_former_witness`, `mock_init_keywords_distinct_partial` (ASCII tags)
       … the tag `self` is not one of them (F64 repaired)                                 full  `mock_self_never_a_keyword`, `mock_self_argument_former_witness`
    6  `_<attr>` differs from every own member of the class, `_base_url` included         full  `private_attr_never_own_member`, `fixed_attrs_assigned_once`,
       (F64 repaired)                                                                          `private_attr_base_url_former_witness`
       `_<attr>` differs from every property                                             ✗     `private_attr_names_distinct_from_public_partial`,
                                                                                               `private_attr_counterexample` (non-ASCII)
-/
namespace Pog.ClientGenProps
open Pog Pog.ClientGen

private def s (x : String) : Str := x.toList

/-- Every tag is ASCII or has an ASCII alphanumeric (`用户` is excluded, `données` and `-` are not). -/
def TagsOK (tagss : List (List Str)) : Prop :=
  ∀ ts ∈ tagss, ∀ t ∈ ts, t.all isAscii = true ∨ t.any isAlnumA = true

/-! ## The tag tuples -/

/-- `ClientVisitor.visit` never raises: `max(candidates)` is never applied to an empty list and `tag_map[key]` exists. -/
theorem visit_never_raises (u : UInfo) (tagss : List (List Str)) : tagTuplesRaw u tagss = some (tagTuples u tagss) :=
  tagTuplesRaw_eq u tagss

/-- There is exactly one tuple per normalised key that occurs (`ks` has no duplicates and contains exactly the keys of
    the tags of the operations, `default` for an untagged one), and the tuple of a key is built from the canonical tag
    of that key, which normalises to the key and is one of the tags that occur. -/
theorem tag_tuples_one_per_key (u : UInfo) (tagss : List (List Str)) :
    ∃ ks : List Str, ks.Nodup ∧ (∀ k, k ∈ ks ↔ ∃ ts ∈ tagss, ∃ t ∈ tagsOr ts, normTagKey u t = k) ∧
      tagTuples u tagss = ks.map (fun k => mkTuple u (canonicalTag u tagss k)) ∧
      ∀ k ∈ ks, normTagKey u (canonicalTag u tagss k) = k ∧ ∃ ts ∈ tagss, canonicalTag u tagss k ∈ tagsOr ts :=
  ⟨tupleKeys u tagss, tupleKeys_nodup u tagss, mem_tupleKeys u tagss, tagTuples_eq_map u tagss, canonicalTag_spec u tagss⟩

/-- `for key in sorted(tag_map)`: the tuples — hence the properties of all three classes — come in the code-point order of
    their normalised keys, whatever the order of the operations and of their tags. -/
theorem tag_tuples_sorted_by_key (u : UInfo) (tagss : List (List Str)) :
    ((tagTuples u tagss).map (fun t => normTagKey u t.tag)).Pairwise (fun a b => pyStrLe a b = true) := by
  rw [tagTuples_keys]
  exact tupleKeys_sorted u tagss

/-! ## 1 — every tag group has a property (C07) -/

/-- **C07.**  For every operation and every tag of it (or `default`), `APIClient` has a property named
    `_tag_attr_name(sanitize_module_name(c))` that returns `sanitize_class_name(c) + "Client"`, where `c` is the canonical tag of the
    normalised key of that tag; `c` has the same key and is itself a tag of some operation. -/
theorem every_tag_group_has_a_property (u : UInfo) (tagss : List (List Str)) (ts : List Str) (hts : ts ∈ tagss)
    (t : Str) (ht : t ∈ tagsOr ts) :
    let c := canonicalTag u tagss (normTagKey u t)
    (tagAttr (sanModule u c), sanClass c ++ kClientSuffix) ∈ (apiClientSkel (tagTuples u tagss)).props ∧
      normTagKey u c = normTagKey u t ∧ ∃ ts' ∈ tagss, c ∈ tagsOr ts' := by
  intro c
  have hk : normTagKey u t ∈ tupleKeys u tagss := (mem_tupleKeys u tagss _).2 ⟨ts, hts, t, ht, rfl⟩
  obtain ⟨h1, h2⟩ := canonicalTag_spec u tagss _ hk
  refine ⟨?_, h1, h2⟩
  simp only [apiClientSkel_props, tagTuples_eq_map, List.map_map]
  exact List.mem_map.2 ⟨_, hk, rfl⟩

/-- The properties of `APIClient` are, in order, one per distinct normalised key: hence their number is the number of
    distinct keys. -/
theorem property_count (u : UInfo) (tagss : List (List Str)) :
    ∃ ks : List Str, ks.Nodup ∧ (∀ k, k ∈ ks ↔ ∃ ts ∈ tagss, ∃ t ∈ tagsOr ts, normTagKey u t = k) ∧
      (apiClientSkel (tagTuples u tagss)).props =
        ks.map (fun k => (tagAttr (sanModule u (canonicalTag u tagss k)), sanClass (canonicalTag u tagss k) ++ kClientSuffix)) := by
  refine ⟨tupleKeys u tagss, tupleKeys_nodup u tagss, mem_tupleKeys u tagss, ?_⟩
  simp only [apiClientSkel_props, tagTuples_eq_map, List.map_map]
  rfl

/-- **C07.**  The properties of `APIClient` are exactly (up to the order `sorted(tag_map)`) the tag clients that
    `EndpointsEmitter.emit` writes for the same operations: property `_tag_attr_name(<module>)` returns class `<cls>` of
    `endpoints/<module>.py`.  Operation ids play no role. -/
theorem tag_clients_are_properties (u : UInfo) (ops : List TagOp) :
    ((apiClientSkel (tagTuples u (ops.map (·.tags)))).props).Perm
      ((groupEndpoints u ops).map fun g => (tagAttr g.module, g.cls)) := by
  have h := (tagTuples_perm_groups_ops u ops).map (fun t : TagTuple => (tagAttr t.module, t.cls))
  simpa [apiClientSkel_props, List.map_map, Function.comp_def, groupTuple, TagTuple.module, TagTuple.cls] using h

/-- Two operations, three spellings of one tag and an untagged operation. -/
example :
    (apiClientSkel (tagTuples UInfo.ascii [[s "Data Sources", s "admin-ops"], [s "dataSources"], []])).props =
      [(s "admin_ops", s "AdminOpsClient"), (s "data_sources", s "DataSourcesClient"), (s "default", s "DefaultClient")] := by
  decide

/-! ## 2 — property names (C20) -/

/-- **F64 repaired.**  The name under which a tag client is exposed is `_tag_attr_name(module)`: the module name, kept
    unchanged exactly when neither it nor `_` + it is one of the names the classes define themselves (`ownMembers`);
    otherwise a `_` is appended (ordinary tags keep their names). -/
theorem tag_attr_unchanged_iff (m : Str) : tagAttr m = m ↔ (m ∉ ownMembers ∧ privAttr m ∉ ownMembers) := by
  constructor
  · intro h
    rcases tagAttr_cases m with ⟨_, h1, h2⟩ | ⟨_, h'⟩
    · exact ⟨h1, h2⟩
    · rw [h] at h'
      have := congrArg List.length h'
      simp at this
  · rintro ⟨h1, h2⟩
    exact tagAttr_of_not m h1 h2

example : tagAttr (s "users") = s "users" ∧ tagAttr (s "request") = s "request_" ∧ tagAttr (s "base_url") = s "base_url_" ∧
    tagAttr (s "config_") = s "config_" := by decide

/-- The property names of the three classes, the private attributes and the keywords of `MockAPIClient.__init__` are all
    derived from the module names by `_tag_attr_name`. -/
theorem property_names_are_tag_attrs (tt : List TagTuple) :
    (apiClientSkel tt).props.map (·.1) = tt.map (fun t => tagAttr t.module) ∧
    (apiClientSkel tt).attrs = fixedAttrs ++ tt.map (fun t => privAttr (tagAttr t.module)) ∧
    (mockClientSkel tt).initParams = kSelf :: tt.map (fun t => tagAttr t.module) := by
  refine ⟨?_, rfl, rfl⟩
  simp [apiClientSkel_props, List.map_map, Function.comp_def]

/-- ✗ `property_names_valid`: every property name is a valid identifier that is no keyword — false (`-`, `用户`).
    Partial: when every tag has an ASCII alphanumeric; then the returned class names are identifiers too. -/
theorem property_names_valid_partial (u : UInfo) (tagss : List (List Str))
    (h : ∀ ts ∈ tagss, ∀ t ∈ ts, t.any isAlnumA = true) :
    ∀ p ∈ (apiClientSkel (tagTuples u tagss)).props, isPyIdent p.1 = true ∧ isKeyword p.1 = false ∧
      visitSyntaxOk (tagTuples u tagss) = true := by
  have hall : ∀ t ∈ tagTuples u tagss, isValidPyIdentifier t.module = true ∧ isValidPyIdentifier (tagAttr t.module) = true := by
    intro t ht
    obtain ⟨h1, h2⟩ := tuple_of_tags u tagss (fun c => c.any isAlnumA = true) kDefaultTag_alnum h t ht
    have hv : isValidPyIdentifier t.module = true := by
      rw [h1, tuple_module]
      have := sanModule_valid u _ h2
      simp [isValidPyIdentifier, this.1, this.2]
    exact ⟨hv, tagAttr_valid _ hv⟩
  intro p hp
  rw [apiClientSkel_props] at hp
  obtain ⟨t, ht, rfl⟩ := List.mem_map.1 hp
  have hv := (hall t ht).2
  simp only [isValidPyIdentifier, Bool.and_eq_true, Bool.not_eq_true'] at hv
  refine ⟨hv.2, hv.1, ?_⟩
  unfold visitSyntaxOk
  rw [List.all_eq_true]
  intro t' ht'
  simp [(hall t' ht').1, (hall t' ht').2]

example : ∀ ts ∈ [[s "Data Sources", s "class"], [s "1st"], []], ∀ t ∈ ts, t.any isAlnumA = true := by decide

/-- ✗ witness (defect class `client-syntax-error`): a tag without ASCII alphanumeric gives the property `def (self)`. -/
theorem property_names_valid_counterexample :
    (apiClientSkel (tagTuples UInfo.ascii [[s "-"]])).props = [([], s "UnnamedClassClient")] ∧
      visitSyntaxOk (tagTuples UInfo.ascii [[s "-"]]) = false ∧ mockSyntaxOk (mockTuples UInfo.ascii [[s "-"]]) = false := by
  decide

/-- **F64 repaired** (was `property_names_partial`: `TagsOK`, and no tag group called `request`, `close` or `transport`).
    For EVERY input and every case table, no property name is one of the names the class defines itself: a fixed method
    (`request`, `close`, `__aenter__`, `__aexit__`), a fixed instance attribute (`config`, `transport`, `_base_url`),
    `__init__`, or `self` (the receiver of `MockAPIClient.__init__`, whose keywords are the property names). -/
theorem property_names (u : UInfo) (tagss : List (List Str)) :
    ∀ p ∈ (apiClientSkel (tagTuples u tagss)).props, p.1 ∉ fixedMethods ++ fixedAttrs ++ [kInit] ∧ p.1 ≠ kSelf := by
  intro p hp
  rw [apiClientSkel_props] at hp
  obtain ⟨t, _, rfl⟩ := List.mem_map.1 hp
  have h := (tagAttr_not_own t.module).1
  simp only [ownMembers, List.mem_cons, List.not_mem_nil, or_false, not_or] at h
  simp only [fixedMethods, fixedAttrs, List.cons_append, List.nil_append, List.mem_cons, List.not_mem_nil, or_false, not_or]
  exact ⟨⟨h.2.2.2.1, h.2.2.2.2.1, h.2.2.2.2.2.1, h.2.2.2.2.2.2.1, h.1, h.2.1, h.2.2.1, h.2.2.2.2.2.2.2.1⟩, h.2.2.2.2.2.2.2.2⟩

/-- No property is ever called `config` (the instance attribute): `config` is a reserved name, the sanitiser appends `_`
    (and `_tag_attr_name` would).  Every input, every case table. -/
theorem property_name_never_config (u : UInfo) (tagss : List (List Str)) :
    ∀ p ∈ (apiClientSkel (tagTuples u tagss)).props, p.1 ≠ kConfig := by
  intro p hp
  have h := (property_names u tagss p hp).1
  simp only [fixedMethods, fixedAttrs, List.cons_append, List.nil_append, List.mem_cons, List.not_mem_nil, or_false, not_or] at h
  exact h.2.2.2.2.1

example : (apiClientSkel (tagTuples UInfo.ascii [[s "config"], [s "Config"]])).props = [(s "config_", s "Config_Client")] := by
  decide

/-- **F64 repaired** (was `property_names_avoid_dunder_partial`, hypothesis `TagsOK`).  For every input and every case table a
    property is never called `_base_url`, `__aenter__`, `__aexit__` or `__init__`. -/
theorem property_names_avoid_dunder (u : UInfo) (tagss : List (List Str)) :
    ∀ p ∈ (apiClientSkel (tagTuples u tagss)).props, p.1 ∉ [kBaseUrl, kAenter, kAexit, kInit] := by
  intro p hp
  have h := (property_names u tagss p hp).1
  simp only [fixedMethods, fixedAttrs, List.cons_append, List.nil_append, List.mem_cons, List.not_mem_nil, or_false, not_or] at h
  simp only [List.mem_cons, List.not_mem_nil, or_false, not_or]
  exact ⟨h.2.2.2.2.2.2.1, h.2.2.1, h.2.2.2.1, h.2.2.2.2.2.2.2⟩

/-- A case table in which the non-ASCII word character `é` lower-cases to the text `_base_url` (no CPython does that;
    the theorems quantify over every table). -/
def uOdd : UInfo := { UInfo.ascii with word := fun c => c == 'é', lower := fun c => if c == 'é' then s "_base_url" else [c] }

/-- The former witness of `property_named_base_url_counterexample`: even when the module name is `_base_url`, the property is
    `_base_url_` (and its private attribute `__base_url_`). -/
theorem property_named_base_url_former_witness :
    (apiClientSkel (tagTuples uOdd [[s "é"]])).props.map (·.1) = [s "_base_url_"] ∧
      (apiClientSkel (tagTuples uOdd [[s "é"]])).attrs = [kConfig, kTransport, kBaseUrl, s "__base_url_"] := by
  decide

/-- The former witnesses of `property_names_counterexample` (defect classes `property-shadowed-by-method`,
    `property-named-like-instance-attribute`): the tag clients of `request`, `close`, `Transport` are the properties
    `request_`, `close_`, `transport_`; their modules (import paths) keep their names. -/
theorem property_names_former_witness :
    (apiClientSkel (tagTuples UInfo.ascii [[s "request"], [s "close", s "Transport"]])).props.map (·.1) =
      [s "close_", s "request_", s "transport_"] ∧
    (apiClientSkel (tagTuples UInfo.ascii [[s "request"], [s "close", s "Transport"]])).methods = fixedMethods ∧
    (apiClientSkel (tagTuples UInfo.ascii [[s "request"], [s "close", s "Transport"]])).attrs =
      [kConfig, kTransport, kBaseUrl, s "_close_", s "_request_", s "_transport_"] ∧
    (tagTuples UInfo.ascii [[s "request"], [s "close", s "Transport"]]).map (·.module) = [kClose, kRequest, kTransport] := by
  decide

/-! ## 3 — pairwise distinct property names -/

/-- ✗ `property_names_pairwise_distinct` is false for non-ASCII tags.  Partial: ASCII tags — two different normalised keys
    never give the same module name (`Pog.normTagKey_eq_noUs_sanModule`: the key is the module name without underscores),
    e.g. `a1` / `a_1` and `dataSources` / `data_sources` share their KEY, hence their group. -/
theorem property_names_pairwise_distinct_partial (u : UInfo) (tagss : List (List Str))
    (hascii : ∀ ts ∈ tagss, ∀ t ∈ ts, t.all isAscii = true) :
    ((apiClientSkel (tagTuples u tagss)).props.map (·.1)).Nodup := by
  simp only [apiClientSkel_props, List.map_map]
  -- the key of a tuple is its attribute name without underscores; the keys are pairwise distinct
  apply nodup_map_of_factor (tagTuples u tagss) _ (fun t => normTagKey u t.tag) noUs
  · intro t ht
    obtain ⟨h1, h2⟩ := tuple_of_tags u tagss (fun c => c.all isAscii = true) kDefaultTag_ascii hascii t ht
    simp only [Function.comp_def]
    rw [noUs_tagAttr]
    conv => rhs; rw [h1, tuple_module]
    exact normTagKey_eq_noUs_sanModule u t.tag h2
  · rw [tagTuples_keys]
    exact tupleKeys_nodup u tagss

example : ∀ ts ∈ [[s "a1", s "a_1"], [s "dataSources"], [s "data_sources"]], ∀ t ∈ ts, t.all isAscii = true := by decide

example : (apiClientSkel (tagTuples UInfo.ascii [[s "a1", s "a_1"], [s "dataSources"], [s "data_sources"]])).props.map (·.1) =
    [s "a_1", s "data_sources"] := by decide

/-- `request` and `request_` (like `Request`, `re-quest`, `_request`) share their key, hence their group: the trailing underscore
    of `_tag_attr_name` cannot make two properties collide. -/
example : (apiClientSkel (tagTuples UInfo.ascii [[s "request"], [s "request_"], [s "re-quest"]])).props.map (·.1) =
    [s "re_quest"] := by decide

/-- CPython's view of `é`: a word character, lower-case of itself. -/
def uLatin : UInfo := { UInfo.ascii with word := fun c => c == 'é' }

/-- ✗ witness (defect class `duplicate-property-name`): the tags `aé` and `a` have different keys but the same module `a`
    and the same class `AClient`: two properties `a`, the first one is dead. -/
theorem property_names_pairwise_distinct_counterexample :
    (apiClientSkel (tagTuples uLatin [[s "aé"], [s "a"]])).props = [(s "a", s "AClient"), (s "a", s "AClient")] ∧
      propSurvives (apiClientSkel (tagTuples uLatin [[s "aé"], [s "a"]])) 0 = false := by
  decide

/-- ✗ `properties_survive`: every `@property` is still the attribute of that name in the finished class — false for
    non-ASCII tags only (`property_names_pairwise_distinct_counterexample`: two properties `a`).  Partial: ASCII tags.
    **F64 repaired**: the hypothesis "no tag group called `request` or `close`" is gone - no property is shadowed by one of
    the methods written after the properties (`property_names`). -/
theorem properties_survive_partial (u : UInfo) (tagss : List (List Str))
    (hascii : ∀ ts ∈ tagss, ∀ t ∈ ts, t.all isAscii = true)
    (i : Nat) (hi : i < (apiClientSkel (tagTuples u tagss)).props.length) :
    propSurvives (apiClientSkel (tagTuples u tagss)) i = true := by
  apply propSurvives_of _ (property_names_pairwise_distinct_partial u tagss hascii) _ i hi
  intro p hp
  have h := (property_names u tagss p hp).1
  simp only [List.mem_append, not_or] at h
  rw [apiClientSkel_methods]
  exact h.1.1

example : (∀ ts ∈ [[s "request", s "close"], [s "Users"]], ∀ t ∈ ts, t.all isAscii = true) ∧
    (apiClientSkel (tagTuples UInfo.ascii [[s "request", s "close"], [s "Users"]])).props.length = 3 := by decide

/-- No property is ever replaced by one of the methods written after the properties (every input, every case table): a
    property can only be shadowed by another property of the same name. -/
theorem properties_not_shadowed_by_methods (u : UInfo) (tagss : List (List Str)) :
    ∀ p ∈ (apiClientSkel (tagTuples u tagss)).props, p.1 ∉ (apiClientSkel (tagTuples u tagss)).methods := by
  intro p hp
  have h := (property_names u tagss p hp).1
  simp only [List.mem_append, not_or] at h
  rw [apiClientSkel_methods]
  exact h.1.1

/-- The former witness of `property_shadowed_counterexample`: the tag client of `request` is the property `request_`, which
    survives next to the method `request`. -/
theorem property_shadowed_former_witness :
    (apiClientSkel (tagTuples UInfo.ascii [[s "request"], [s "users"]])).props.map (·.1) = [s "request_", s "users"] ∧
      propSurvives (apiClientSkel (tagTuples UInfo.ascii [[s "request"], [s "users"]])) 0 = true ∧
      propSurvives (apiClientSkel (tagTuples UInfo.ascii [[s "request"], [s "users"]])) 1 = true := by
  decide

/-! ## 4 — the three surfaces (C13) -/

/-- **C13.**  Written from the same `tag_tuples` (as `ClientVisitor.visit` does for the Protocol and the implementation),
    the three classes expose the same property names in the same order; the property `<module>` returns `<Class>` in
    `APIClient` and `<Class>Protocol` in `APIClientProtocol` and `MockAPIClient`; `MockAPIClient.__init__` has exactly one
    keyword per property (same names, same order) whose default is `Mock<Class>()`; and the same four fixed methods. -/
theorem surfaces_agree (tt : List TagTuple) :
    (protocolSkel tt).props.map (·.1) = (apiClientSkel tt).props.map (·.1) ∧
    (mockClientSkel tt).props.map (·.1) = (apiClientSkel tt).props.map (·.1) ∧
    (protocolSkel tt).props.map (·.2) = (apiClientSkel tt).props.map (fun p => p.2 ++ kProtocolSuffix) ∧
    (mockClientSkel tt).props = (protocolSkel tt).props ∧
    (mockClientSkel tt).initParams = kSelf :: (mockClientSkel tt).props.map (·.1) ∧
    mockDefaults tt = (apiClientSkel tt).props.map (fun p => kMockPrefix ++ p.2) ∧
    (mockClientSkel tt).attrs = (mockClientSkel tt).props.map (fun p => privAttr p.1) ∧
    (protocolSkel tt).methods = (apiClientSkel tt).methods ∧ (mockClientSkel tt).methods = (apiClientSkel tt).methods := by
  simp [protocolSkel_props, apiClientSkel_props, mockClientSkel_props, mockClientSkel_initParams, mockClientSkel_attrs,
    protocolSkel_methods, apiClientSkel_methods, mockClientSkel_methods, mockDefaults, List.map_map, Function.comp_def]

/-- **C13, `mock_surface`** (F23 repaired; before the repair `MocksEmitter.emit` built its own tuples — FIRST tag only, RAW tag
    string, insertion order — and this was false): the tuples the mocks emitter hands to `generate_client_mock_class` are the
    tuples of `ClientVisitor.visit`, so `MockAPIClient` exposes the properties of `APIClient` — same names, same order, each
    returning the Protocol of the tag client — for EVERY list of operation tags. -/
theorem mock_surface (u : UInfo) (tagss : List (List Str)) :
    mockTuples u tagss = tagTuples u tagss ∧
    (mockClientSkel (mockTuples u tagss)).props.map (·.1) = (apiClientSkel (tagTuples u tagss)).props.map (·.1) ∧
    (mockClientSkel (mockTuples u tagss)).props = (protocolSkel (tagTuples u tagss)).props ∧
    (mockClientSkel (mockTuples u tagss)).initParams = kSelf :: (apiClientSkel (tagTuples u tagss)).props.map (·.1) := by
  have h := mockTuples_eq_tagTuples u tagss
  obtain ⟨_, h2, _, h4, h5, _⟩ := surfaces_agree (tagTuples u tagss)
  rw [h]
  exact ⟨rfl, h2, h4, by rw [h5, h2]⟩

/-- The former witnesses of F23 (defect classes `mock-groups-by-first-raw-tag`, `mock-client-props-order`): the second tag of an
    operation has its property on `MockAPIClient` too, and the order is `APIClient`'s (sorted by key). -/
theorem mock_surface_former_witness :
    (apiClientSkel (tagTuples UInfo.ascii [[s "Users", s "admin-ops"]])).props.map (·.1) = [s "admin_ops", s "users"] ∧
    (mockClientSkel (mockTuples UInfo.ascii [[s "Users", s "admin-ops"]])).props.map (·.1) = [s "admin_ops", s "users"] ∧
    (apiClientSkel (tagTuples UInfo.ascii [[s "b"], [s "a"]])).props.map (·.1) = [s "a", s "b"] ∧
    (mockClientSkel (mockTuples UInfo.ascii [[s "b"], [s "a"]])).props.map (·.1) = [s "a", s "b"] := by
  decide

/-- Former witness 3 (defect class `mock-client-props-differ`): the empty tag is the group `""` (module name `""`) for the mocks
    emitter as for `APIClient` — before the repair it was `default` for the mocks. -/
theorem mock_surface_empty_tag_former_witness :
    (apiClientSkel (tagTuples UInfo.ascii [[[]]])).props = [([], s "UnnamedClassClient")] ∧
    (mockClientSkel (mockTuples UInfo.ascii [[[]]])).props = [([], s "UnnamedClassClientProtocol")] := by
  decide

/-! ## 5 — the body of `MockAPIClient.__init__` (C01, finding F31) -/

/-- **F31, repaired.**  The `__init__` of `MockAPIClient` never has an empty body (without tag clients it is `pass`), whichever of
    the two tuple lists it is written from; nor has the `__init__` of `APIClient`. -/
theorem mock_init_body_never_empty (u : UInfo) (tagss : List (List Str)) :
    (mockClientSkel (mockTuples u tagss)).initBodyEmpty = false ∧
    (mockClientSkel (tagTuples u tagss)).initBodyEmpty = false ∧
    (apiClientSkel (tagTuples u tagss)).initBodyEmpty = false :=
  ⟨rfl, rfl, rfl⟩

/-- The former witness (defect class `mock-client-empty-init`): a document without operations gives a `mock_client.py` that
    compiles, like `client.py`. -/
theorem mock_client_compiles_when_no_operation (u : UInfo) :
    mockSyntaxOk (mockTuples u []) = true ∧ visitSyntaxOk (tagTuples u []) = true ∧
      (mockClientSkel (mockTuples u [])).initParams = [kSelf] := by
  refine ⟨rfl, rfl, rfl⟩

/-- The former witness of F23 (defect class `mock-client-duplicate-argument`): the tags `Users` and `users` of two operations are
    ONE group of the mocks emitter (before the repair: two groups with the same module name,
    `def __init__(self, users: …, users: …)`, a `SyntaxError`). -/
theorem mock_duplicate_argument_former_witness :
    (mockClientSkel (mockTuples UInfo.ascii [[s "Users"], [s "users"]])).initParams = [kSelf, s "users"] ∧
      mockSyntaxOk (mockTuples UInfo.ascii [[s "Users"], [s "users"]]) = true ∧
      visitSyntaxOk (tagTuples UInfo.ascii [[s "Users"], [s "users"]]) = true := by
  decide

/-- With ASCII tags the keywords of `MockAPIClient.__init__` are pairwise distinct, whatever spellings of a tag occur
    (`property_names_pairwise_distinct_partial` through `mock_surface`; non-ASCII tags: `property_names_pairwise_distinct_counterexample`). -/
theorem mock_init_keywords_distinct_partial (u : UInfo) (tagss : List (List Str))
    (hascii : ∀ ts ∈ tagss, ∀ t ∈ ts, t.all isAscii = true) :
    ((mockClientSkel (mockTuples u tagss)).initParams.drop 1).Nodup := by
  rw [(mock_surface u tagss).2.2.2]
  exact property_names_pairwise_distinct_partial u tagss hascii

example : ∀ ts ∈ [[s "Data Sources"], [s "data_sources", s "admin-ops"], []], ∀ t ∈ ts, t.all isAscii = true := by decide

/-- The former witness of `mock_self_argument_counterexample` (defect class `mock-client-self-argument`): the keyword of the tag
    `self` is `self_`, next to the receiver `self`: `mock_client.py` compiles. -/
theorem mock_self_argument_former_witness :
    (mockClientSkel (mockTuples UInfo.ascii [[s "self"]])).initParams = [kSelf, s "self_"] ∧
      mockSyntaxOk (mockTuples UInfo.ascii [[s "self"]]) = true ∧ visitSyntaxOk (tagTuples UInfo.ascii [[s "self"]]) = true := by
  decide

/-- **F64 repaired.**  For every list of tuples the receiver `self` of `MockAPIClient.__init__` differs from every keyword. -/
theorem mock_self_never_a_keyword (tt : List TagTuple) : kSelf ∉ (mockClientSkel tt).initParams.tail := by
  rw [mockClientSkel_initParams]
  intro h
  obtain ⟨t, _, ht⟩ := List.mem_map.1 h
  have h' := (tagAttr_not_own t.module).1
  rw [ht] at h'
  exact h' (by decide)

/-! ## 6 — private attributes -/

/-- **F64 repaired.**  For every input and every case table the private attribute `_<attr>` in which `APIClient` (and
    `MockAPIClient`) stores a tag client is none of the names the class defines itself: not `config`, `transport`, `_base_url`
    (the attribute that holds the base URL), a fixed method, or `__init__`. -/
theorem private_attr_never_own_member (u : UInfo) (tagss : List (List Str)) :
    ∀ a ∈ (apiClientSkel (tagTuples u tagss)).attrs.drop fixedAttrs.length, a ∉ fixedAttrs ++ fixedMethods ++ [kInit] := by
  intro a ha
  rw [apiClientSkel_attrs, List.drop_left] at ha
  obtain ⟨t, _, rfl⟩ := List.mem_map.1 ha
  have h := (tagAttr_not_own t.module).2
  simp only [ownMembers, List.mem_cons, List.not_mem_nil, or_false, not_or] at h
  simp only [fixedMethods, fixedAttrs, List.cons_append, List.nil_append, List.mem_cons, List.not_mem_nil, or_false, not_or]
  exact ⟨h.1, h.2.1, h.2.2.1, h.2.2.2.1, h.2.2.2.2.1, h.2.2.2.2.2.1, h.2.2.2.2.2.2.1, h.2.2.2.2.2.2.2.1⟩

/-- … hence the instance attributes assigned in `APIClient.__init__` never re-assign `config`, `transport` or `_base_url`. -/
theorem fixed_attrs_assigned_once (u : UInfo) (tagss : List (List Str)) :
    ∀ x ∈ fixedAttrs, (apiClientSkel (tagTuples u tagss)).attrs.count x = 1 := by
  intro x hx
  have hnot : x ∉ (tagTuples u tagss).map (fun t => privAttr (tagAttr t.module)) := by
    intro hmem
    have h1 : x ∈ (apiClientSkel (tagTuples u tagss)).attrs.drop fixedAttrs.length := by
      rw [apiClientSkel_attrs, List.drop_left]; exact hmem
    have := private_attr_never_own_member u tagss x h1
    simp only [List.mem_append, not_or] at this
    exact this.1.1 hx
  rw [apiClientSkel_attrs, List.count_append, List.count_eq_zero.2 hnot]
  simp only [fixedAttrs, List.mem_cons, List.not_mem_nil, or_false] at hx
  rcases hx with rfl | rfl | rfl <;> decide

/-- ✗ `private_attr_names_distinct_from_public` is false for non-ASCII tags (`private_attr_counterexample`).  Partial,
    `TagsOK`: the private attribute `_<attr>` of a tag client is never the name of a property; and (every input) it is none
    of `config`, `transport`, `_base_url`, nor a fixed method.  **F64 repaired**: `_base_url` is no longer excluded. -/
theorem private_attr_names_distinct_from_public_partial (u : UInfo) (tagss : List (List Str)) (hok : TagsOK tagss) :
    ∀ t ∈ tagTuples u tagss,
      privAttr (tagAttr t.module) ∉ (apiClientSkel (tagTuples u tagss)).props.map (·.1) ∧
      privAttr (tagAttr t.module) ∉ fixedAttrs ∧ privAttr (tagAttr t.module) ∉ fixedMethods := by
  have hmod : ∀ t ∈ tagTuples u tagss, ModOK t.module ∧ (t.tag.all isAscii = true ∨ t.tag.any isAlnumA = true) ∧
      t = mkTuple u t.tag := by
    intro t ht
    obtain ⟨h1, h2⟩ := tuple_of_tags u tagss (fun c => c.all isAscii = true ∨ c.any isAlnumA = true)
      (.inr kDefaultTag_alnum) hok t ht
    exact ⟨by rw [h1, tuple_module]; exact sanModule_modOK u _ h2, h2, h1⟩
  intro t ht
  have hown := (tagAttr_not_own t.module).2
  simp only [ownMembers, List.mem_cons, List.not_mem_nil, or_false, not_or] at hown
  refine ⟨?_, ?_, ?_⟩
  · intro hmem
    simp only [apiClientSkel_props, List.map_map] at hmem
    obtain ⟨t', ht', heq⟩ := List.mem_map.1 hmem
    simp only [Function.comp_def] at heq
    obtain ⟨hm, hta, hte⟩ := hmod t ht
    obtain ⟨hm', hta', hte'⟩ := hmod t' ht'
    obtain ⟨hu0, hu0'⟩ := priv_eq_mod _ _ (tagAttr_modOK _ hm) (tagAttr_modOK _ hm') heq.symm
    -- an attribute name of underscores only is the module name itself
    have ea := tagAttr_of_allUs _ hu0
    have ea' := tagAttr_of_allUs _ hu0'
    rw [ea] at hu0
    rw [ea'] at hu0'
    rw [ea, ea'] at heq
    -- both module names consist of underscores only: both tags are ASCII without alphanumeric, both keys are empty
    have key0 : ∀ x ∈ tagTuples u tagss, allUsB x.module = true → normTagKey u x.tag = [] := by
      intro x hx hxu
      obtain ⟨_, hxa, hxe⟩ := hmod x hx
      have hna : x.tag.any isAlnumA = false := by
        cases ha : x.tag.any isAlnumA with
        | false => rfl
        | true =>
          have := modHead_not_allUs _ (sanModule_modHead u x.tag ha)
          rw [hxe, tuple_module] at hxu
          rw [hxu] at this; cases this
      have hasc : x.tag.all isAscii = true := by
        rcases hxa with h | h
        · exact h
        · rw [hna] at h; cases h
      rw [normTagKey_eq_noUs_sanModule u _ hasc]
      apply noUs_of_all_us
      exact sanModule_all_us u _ hasc hna
    have hk := key0 t ht hu0
    have hk' := key0 t' ht' hu0'
    obtain ⟨k, hkm, hkt⟩ := mem_tagTuples u tagss t ht
    obtain ⟨k', hkm', hkt'⟩ := mem_tagTuples u tagss t' ht'
    have e1 : k = [] := by
      rw [← (canonicalTag_spec u tagss k hkm).1, ← hk, hkt]; rfl
    have e2 : k' = [] := by
      rw [← (canonicalTag_spec u tagss k' hkm').1, ← hk', hkt']; rfl
    have : t = t' := by rw [hkt, hkt', e1, e2]
    subst this
    have := congrArg List.length heq
    simp [privAttr] at this
  · simp only [fixedAttrs, List.mem_cons, List.not_mem_nil, or_false, not_or]
    exact ⟨hown.1, hown.2.1, hown.2.2.1⟩
  · simp only [fixedMethods, List.mem_cons, List.not_mem_nil, or_false, not_or]
    exact ⟨hown.2.2.2.1, hown.2.2.2.2.1, hown.2.2.2.2.2.1, hown.2.2.2.2.2.2.1⟩

example : TagsOK [[s "données", s "-"], [s "base_url"]] := by
  intro ts hts t ht
  simp only [List.mem_cons, List.not_mem_nil, or_false] at hts
  rcases hts with rfl | rfl
  · simp only [List.mem_cons, List.not_mem_nil, or_false] at ht
    rcases ht with rfl | rfl
    · exact .inr (by decide)
    · exact .inl (by decide)
  · simp only [List.mem_cons, List.not_mem_nil, or_false] at ht
    subst ht
    exact .inl (by decide)

/-- The former witness of `private_attr_base_url_counterexample` (defect class `private-attr-collision`): a tag group whose
    module name is `base_url` (`base_url`, `base-url`, `BaseUrl`, `base url` …) is the property `base_url_` and stores its lazily
    built client in `self._base_url_` — not in `self._base_url`, the attribute that holds the base URL. -/
theorem private_attr_base_url_former_witness :
    (apiClientSkel (tagTuples UInfo.ascii [[s "base-url"], [s "users"]])).attrs =
      [kConfig, kTransport, kBaseUrl, s "_base_url_", s "_users"] ∧
    (apiClientSkel (tagTuples UInfo.ascii [[s "base-url"], [s "users"]])).props.map (·.1) = [s "base_url_", s "users"] := by
  decide

/-- CPython's view of the Kelvin sign (U+212A, `'\u212a'`): a word character whose lower case is the ASCII letter `k`; `é` is a
    word character. -/
def uKelvin : UInfo :=
  { UInfo.ascii with word := fun c => c == '\u212a' || c == 'é', lower := fun c => if c == '\u212a' then ['k'] else [c] }

/-- ✗ witness (non-ASCII, defect class `private-attr-collision`): the tags `ké` and `_` + Kelvin sign have the keys `ké`
    and `k`, the modules `k` and `_k`: the private attribute of the first is the property of the second. -/
theorem private_attr_counterexample :
    (apiClientSkel (tagTuples uKelvin [[s "ké"], [['_', '\u212a']]])).props.map (·.1) = [s "_k", s "k"] ∧
    (apiClientSkel (tagTuples uKelvin [[s "ké"], [['_', '\u212a']]])).attrs.drop 3 = [s "__k", s "_k"] := by
  decide

end Pog.ClientGenProps
