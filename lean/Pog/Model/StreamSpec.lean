import Pog.Model.Stream
/-
  SPECIFICATION-level definitions for C18 (what the property statement talks about).  They are written
  independently of the loops in `Pog.Model.Stream`; `Pog.Props.C18` proves that the loops compute them.
-/
namespace Pog

/-- Put `acc` in front of the first block. -/
def consHead (acc : List Str) : List (List Str) → List (List Str)
  | [] => [acc]
  | b :: bs => (acc ++ b) :: bs

/-- Split a list of lines at the empty lines (like `str.split` with the empty line as separator:
    `n` empty lines give `n + 1` pieces, possibly empty). -/
def splitAtEmpty : List Str → List (List Str)
  | [] => [[]]
  | l :: ls => if l.isEmpty then [] :: splitAtEmpty ls else consHead [l] (splitAtEmpty ls)

/-- The events of a line list: the maximal runs of non-empty lines — one per blank-line-terminated
    block, plus the final unterminated block if it is not empty. -/
def blocks (ls : List Str) : List (List Str) := (splitAtEmpty ls).filter (fun b => !b.isEmpty)

/-- `some v` when `line` is `name ":" rest` and `v = rest.lstrip()`. -/
def fieldValue? (name : Str) (line : Str) : Option Str :=
  if (name ++ [':']).isPrefixOf line then some (lstripWs (line.drop (name.length + 1))) else none

/-- Not an SSE comment line. -/
def notComment (line : Str) : Bool := !(line.head? == some ':')

end Pog
