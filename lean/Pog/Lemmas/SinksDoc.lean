import Pog.Lemmas.Sinks
/-
  The docstring writers (`LineWriter`, `DocumentationWriter`, the `APIClient` docstring): clean text in,
  one triple-quoted literal out — for every `textwrap` that only rearranges characters.
-/
namespace Pog

/-- Hypothesis on the `textwrap.TextWrapper.wrap` parameter: every character of every output line is a
    character of the input text or a space (observed on every call by `corr_c15.py`). -/
def WrapSafe (W : Wrap) : Prop := ∀ w k t l, l ∈ W w k t → ∀ c ∈ l, c ∈ t ∨ c = ' '

/-- Hypothesis on the `textwrap.dedent` parameter: it only deletes characters. -/
def DedentSafe (D : Dedent) : Prop := ∀ t c, c ∈ D t → c ∈ t

theorem docClean_iff (s : Str) : docClean s = true ↔ ∀ c ∈ s, docChar c = true := by
  simp [docClean, List.all_eq_true]

theorem docClean_nil : docClean [] = true := rfl

theorem docClean_append (a b : Str) : docClean (a ++ b) = (docClean a && docClean b) := by
  simp [docClean, List.all_append]

theorem docClean_cons (c : Char) (s : Str) : docClean (c :: s) = (docChar c && docClean s) := by
  simp [docClean]

theorem docClean_spaces (n : Nat) : docClean (spaces n) = true := by
  rw [docClean_iff]
  intro c hc
  simp only [spaces, List.mem_replicate] at hc
  rw [hc.2]; decide

theorem docClean_of_subset (a b : Str) (hb : docClean b = true) (h : ∀ c ∈ a, c ∈ b ∨ c = ' ') : docClean a = true := by
  rw [docClean_iff] at hb ⊢
  intro c hc
  rcases h c hc with h1 | h1
  · exact hb c h1
  · rw [h1]; decide

theorem docClean_joinWith (ls : List Str) (h : ∀ l ∈ ls, docClean l = true) : docClean (joinWith ['\n'] ls) = true := by
  induction ls with
  | nil => rfl
  | cons x rest ih =>
    cases rest with
    | nil => simpa [joinWith] using h x (by simp)
    | cons y r =>
      simp only [joinWith, docClean_append, Bool.and_eq_true]
      refine ⟨⟨h x (by simp), by decide⟩, ih ?_⟩
      intro l hl
      exact h l (by simp [hl])

/-! ### `str.splitlines` only removes characters -/

theorem lstep_clean (s : LSt) (c : Char) (hs : docClean s.cur = true) (hc : docChar c = true) :
    (∀ l ∈ (lstep s c).1, docClean l = true) ∧ docClean (lstep s c).2.cur = true := by
  unfold lstep
  split
  · split
    · simp [hs, docClean_nil]
    · split
      · simp [hs, docClean_nil]
      · split
        · simp [hs, docClean_nil]
        · simp [hs, docClean_cons, hc, docClean_nil]
  · split
    · simp [hs]
    · split
      · simp [hs, docClean_nil]
      · simp [hs, docClean_append, docClean_cons, hc, docClean_nil]

theorem lrun_clean (s : LSt) (t : Str) (hs : docClean s.cur = true) (ht : docClean t = true) :
    (∀ l ∈ (lrun s t).1, docClean l = true) ∧ docClean (lrun s t).2.cur = true := by
  induction t generalizing s with
  | nil => simp [lrun, hs]
  | cons c cs ih =>
    rw [docClean_cons, Bool.and_eq_true] at ht
    have h1 := lstep_clean s c hs ht.1
    have h2 := ih (lstep s c).2 h1.2 ht.2
    simp only [lrun]
    refine ⟨?_, h2.2⟩
    intro l hl
    rcases List.mem_append.mp hl with h | h
    · exact h1.1 l h
    · exact h2.1 l h

theorem splitLines_clean (t : Str) (ht : docClean t = true) : ∀ l ∈ splitLines t, docClean l = true := by
  have h := lrun_clean LSt.init t rfl ht
  intro l hl
  simp only [splitLines] at hl
  rcases List.mem_append.mp hl with h1 | h1
  · exact h.1 l h1
  · unfold lfinish at h1
    split at h1
    · simp at h1; rw [h1]; exact h.2
    · split at h1
      · simp at h1
      · simp at h1; rw [h1]; exact h.2

/-! ### `LineWriter` keeps clean text clean -/

structure LW.Clean (w : LW) : Prop where
  done : ∀ l ∈ w.done, docClean l = true
  cur : docClean w.cur = true

theorem LW.clean_new (width level : Nat) : (LW.new width level).Clean :=
  ⟨by simp [LW.new], rfl⟩

theorem LW.clean_append (w : LW) (t : Str) (h : w.Clean) (ht : docClean t = true) : (w.append t).Clean := by
  unfold LW.append
  split
  · exact ⟨h.done, by simp [docClean_append, docClean_spaces, ht]⟩
  · exact ⟨h.done, by simp [docClean_append, h.cur, ht]⟩

theorem LW.clean_newline (w : LW) (h : w.Clean) : w.newline.Clean := by
  refine ⟨?_, rfl⟩
  intro l hl
  simp only [LW.newline, List.mem_append, List.mem_singleton] at hl
  rcases hl with h1 | h1
  · exact h.done l h1
  · rw [h1]; exact h.cur

theorem LW.clean_moveTo (w : LW) (col : Nat) (h : w.Clean) : (w.moveTo col).Clean := by
  unfold LW.moveTo
  split
  · exact ⟨h.done, by simp [docClean_append, h.cur, docClean_spaces]⟩
  · exact h

theorem LW.clean_setCur (w : LW) (l : Str) (h : w.Clean) (hl : docClean l = true) : ({ w with cur := l } : LW).Clean :=
  ⟨h.done, hl⟩

theorem LW.clean_putLines (w : LW) (ls : List Str) (h : w.Clean) (hl : ∀ l ∈ ls, docClean l = true) :
    (w.putLines ls).Clean := by
  induction ls generalizing w with
  | nil => exact h
  | cons l rest ih =>
    simp only [LW.putLines]
    apply ih
    · exact LW.clean_setCur _ l (LW.clean_newline w h) (hl l (by simp))
    · intro l' hl'; exact hl l' (by simp [hl'])

theorem LW.clean_appendWrapped (W : Wrap) (hW : WrapSafe W) (w : LW) (text : Str) (h : w.Clean)
    (ht : docClean text = true) : (LW.appendWrapped W w text).Clean := by
  unfold LW.appendWrapped
  split
  · exact h
  · have h1 : (if w.width ≤ w.column then w.newline else w).Clean := by
      split
      · exact LW.clean_newline w h
      · exact h
    generalize (if w.width ≤ w.column then w.newline else w) = w1 at h1
    simp only []
    have hpre : docClean (w1.cur ++ spaces (w1.column - w1.cur.length) ++ text) = true := by
      simp [docClean_append, h1.cur, docClean_spaces, ht]
    have hall : ∀ l ∈ W w1.width w1.column (w1.cur ++ spaces (w1.column - w1.cur.length) ++ text), docClean l = true := by
      intro l hl
      exact docClean_of_subset l _ hpre (hW _ _ _ l hl)
    split
    · exact h1
    · rename_i l ls heq
      rw [heq] at hall
      apply LW.clean_putLines
      · exact LW.clean_setCur w1 l h1 (hall l (by simp))
      · intro l' hl'; exact hall l' (by simp [hl'])

theorem LW.clean_getvalue (w : LW) (h : w.Clean) : docClean w.getvalue = true := by
  apply docClean_joinWith
  intro l hl
  simp only [LW.lines, List.mem_append, List.mem_singleton] at hl
  rcases hl with h1 | h1
  · exact h.done l h1
  · rw [h1]; exact h.cur

theorem LW.clean_valueLines (w : LW) (h : w.Clean) : ∀ l ∈ splitLines w.getvalue, docClean l = true :=
  splitLines_clean _ (LW.clean_getvalue w h)

/-! ### `DocumentationWriter` -/

structure DocArg.Clean (a : DocArg) : Prop where
  name : docClean a.name = true
  typ : ∀ t, a.typ = some t → docClean t = true
  desc : docClean a.desc = true

structure DocBlock.Clean (d : DocBlock) : Prop where
  summary : docClean d.summary = true
  description : docClean d.description = true
  args : ∀ a ∈ d.args, a.Clean
  returns : ∀ r, d.returns = some r → docClean r.1 = true ∧ docClean r.2 = true
  raises : ∀ r ∈ d.raises, docClean r.1 = true ∧ docClean r.2 = true

theorem fmtWrap_clean (W : Wrap) (hW : WrapSafe W) (text : Str) (indent : Nat) (ht : docClean text = true) :
    ∀ l ∈ fmtWrap W text indent, docClean l = true := by
  unfold fmtWrap
  split
  · simp
  · exact LW.clean_valueLines _ (LW.clean_appendWrapped W hW _ _ (LW.clean_new _ _) ht)

theorem argPrefix_clean (a : DocArg) (h : a.Clean) : docClean (argPrefix a) = true := by
  unfold argPrefix
  split
  · rename_i t ht
    have h1 : docClean " (".toList = true := by decide
    have h2 : docClean [')'] = true := by decide
    simp only [docClean_append, Bool.and_eq_true]
    exact ⟨⟨⟨h.name, h1⟩, h.typ t ht⟩, h2⟩
  · exact h.name

theorem renderArg_clean (W : Wrap) (hW : WrapSafe W) (indent : Nat) (a : DocArg) (h : a.Clean) :
    ∀ l ∈ renderArg W indent a, docClean l = true := by
  unfold renderArg
  simp only []
  apply LW.clean_valueLines
  apply LW.clean_appendWrapped W hW _ _ _ h.desc
  apply LW.clean_append _ _ _ (by decide)
  apply LW.clean_moveTo
  have h0 := LW.clean_append _ (argPrefix a) (LW.clean_new docWidth (indent / 4)) (argPrefix_clean a h)
  split
  · exact h0
  · exact LW.clean_newline _ h0

theorem renderReturns_clean (W : Wrap) (hW : WrapSafe W) (indent : Nat) (r : Str × Str)
    (h1 : docClean r.1 = true) (h2 : docClean r.2 = true) : ∀ l ∈ renderReturns W indent r, docClean l = true := by
  unfold renderReturns
  simp only []
  apply LW.clean_valueLines
  apply LW.clean_appendWrapped W hW _ _ _ h2
  apply LW.clean_append _ _ _ (by decide)
  apply LW.clean_append _ _ (LW.clean_new _ _)
  have : docClean [':'] = true := by decide
  simp [docClean_append, h1, this]

theorem raisesLoop_clean (W : Wrap) (hW : WrapSafe W) (w : LW) (rs : List (Str × Str)) (h : w.Clean)
    (hr : ∀ r ∈ rs, docClean r.1 = true ∧ docClean r.2 = true) : (raisesLoop W w rs).Clean := by
  induction rs generalizing w with
  | nil => exact h
  | cons r rest ih =>
    obtain ⟨code, desc⟩ := r
    simp only [raisesLoop]
    have hc := hr (code, desc) (by simp)
    apply ih
    · have h1 : (w.newline.append ("    ".toList ++ code ++ [':'])).Clean := by
        apply LW.clean_append _ _ (LW.clean_newline w h)
        have a1 : docClean "    ".toList = true := by decide
        have a2 : docClean [':'] = true := by decide
        simp only [docClean_append, Bool.and_eq_true]
        exact ⟨⟨a1, hc.1⟩, a2⟩
      split
      · exact h1
      · exact LW.clean_appendWrapped W hW _ _ (LW.clean_append _ _ h1 (by decide)) hc.2
    · intro r' hr'; exact hr r' (by simp [hr'])

theorem renderRaises_clean (W : Wrap) (hW : WrapSafe W) (indent : Nat) (rs : List (Str × Str))
    (hr : ∀ r ∈ rs, docClean r.1 = true ∧ docClean r.2 = true) : ∀ l ∈ renderRaises W indent rs, docClean l = true := by
  unfold renderRaises
  apply LW.clean_valueLines
  apply raisesLoop_clean W hW _ _ _ hr
  exact LW.clean_append _ _ (LW.clean_new _ _) (by decide)

/-- The lines between the opening and the closing `"""` line of `render_docstring`. -/
def docMid (W : Wrap) (d : DocBlock) (indent : Nat) : List Str :=
  (if d.summary.isEmpty then [] else fmtWrap W d.summary indent)
  ++ ((if d.description.isEmpty then []
      else (if d.summary.isEmpty then [] else [[]]) ++ fmtWrap W d.description indent)
  ++ ((if d.args.isEmpty then [] else [[], "Args:".toList] ++ d.args.flatMap (renderArg W (indent + 4)))
  ++ ((match d.returns with
      | some r => [[], "Returns:".toList] ++ renderReturns W (indent + 4) r
      | none => [])
  ++ (if d.raises.isEmpty then [] else [[], "Raises:".toList] ++ renderRaises W (indent + 4) d.raises))))

theorem docstringLines_eq (W : Wrap) (d : DocBlock) (indent : Nat) :
    docstringLines W d indent = tq3 :: (docMid W d indent ++ [tq3]) := by
  unfold docstringLines docMid
  cases d.returns <;> simp only [List.append_assoc, List.cons_append, List.nil_append, List.append_nil]

theorem docMid_clean (W : Wrap) (hW : WrapSafe W) (d : DocBlock) (hd : d.Clean) (indent : Nat) :
    ∀ l ∈ docMid W d indent, docClean l = true := by
  intro l hl
  simp only [docMid, List.mem_append] at hl
  rcases hl with hl | hl | hl | hl | hl
  · split at hl
    · simp at hl
    · exact fmtWrap_clean W hW _ _ hd.summary l hl
  · split at hl
    · simp at hl
    · rcases List.mem_append.mp hl with h1 | h1
      · split at h1
        · simp at h1
        · simp at h1; rw [h1]; rfl
      · exact fmtWrap_clean W hW _ _ hd.description l h1
  · split at hl
    · simp at hl
    · rcases List.mem_append.mp hl with h1 | h1
      · simp at h1
        rcases h1 with h1 | h1 <;> (rw [h1]; decide)
      · obtain ⟨a, ha, hla⟩ := List.mem_flatMap.mp h1
        exact renderArg_clean W hW _ a (hd.args a ha) l hla
  · split at hl
    · rename_i r hr
      rcases List.mem_append.mp hl with h1 | h1
      · simp at h1
        rcases h1 with h1 | h1 <;> (rw [h1]; decide)
      · exact renderReturns_clean W hW _ r (hd.returns r hr).1 (hd.returns r hr).2 l h1
    · simp at hl
  · split at hl
    · simp at hl
    · rcases List.mem_append.mp hl with h1 | h1
      · simp at h1
        rcases h1 with h1 | h1 <;> (rw [h1]; decide)
      · exact renderRaises_clean W hW _ _ hd.raises l h1

/-! ### `"\n".join` / `splitlines` / re-indentation of a `"""` … `"""` block -/

/-- Each line followed by a newline. -/
def linesNl (ls : List Str) : Str := ls.flatMap (· ++ ['\n'])

theorem joinWith_snoc (x : Str) (ys : List Str) (z : Str) :
    joinWith ['\n'] (x :: (ys ++ [z])) = x ++ '\n' :: (linesNl ys ++ z) := by
  induction ys generalizing x with
  | nil => simp [joinWith, linesNl]
  | cons y r ih =>
    simp only [List.cons_append, joinWith]
    rw [ih y]
    simp [linesNl, List.flatMap_cons, List.append_assoc]

theorem linesNl_clean (ls : List Str) (h : ∀ l ∈ ls, docClean l = true) : docClean (linesNl ls) = true := by
  induction ls with
  | nil => rfl
  | cons x r ih =>
    simp only [linesNl, List.flatMap_cons, docClean_append, Bool.and_eq_true]
    refine ⟨⟨h x (by simp), by decide⟩, ?_⟩
    exact ih (fun l hl => h l (by simp [hl]))

theorem lstep_nl_state (s : LSt) : (lstep s '\n').2 = LSt.init := by
  unfold lstep
  split <;> simp [LSt.init, isLineBreak]

theorem lrun_linesNl_state (ls : List Str) : (lrun LSt.init (linesNl ls)).2 = LSt.init := by
  induction ls with
  | nil => rfl
  | cons x r ih =>
    simp only [linesNl, List.flatMap_cons]
    rw [lrun_append, lrun_concat]
    simp only [lstep_nl_state]
    exact ih

/-- After complete lines, `splitlines` starts afresh. -/
theorem splitLines_linesNl_append (ls : List Str) (t : Str) :
    splitLines (linesNl ls ++ t) = splitLines (linesNl ls) ++ splitLines t := by
  simp only [splitLines]
  rw [lrun_append, lrun_linesNl_state]
  simp [lfinish, LSt.init, List.append_assoc]

theorem splitLines_tq3 : splitLines tq3 = [tq3] := by decide

theorem tq3_noBreak : tq3.all (fun c => !isLineBreak c) = true := by decide

/-- `splitlines` of `"""` NL lines… `"""`. -/
theorem splitLines_block (mid : List Str) :
    splitLines (joinWith ['\n'] (tq3 :: (mid ++ [tq3]))) = tq3 :: (splitLines (linesNl mid) ++ [tq3]) := by
  rw [joinWith_snoc, splitLines_break tq3 _ '\n' tq3_noBreak (by decide) (by decide),
    splitLines_linesNl_append, splitLines_tq3]

theorem dropIndent_spaces (n : Nat) (rest : Str) : dropIndent (spaces n ++ '"' :: rest) = '"' :: rest := by
  induction n with
  | zero => simp [spaces, dropIndent]
  | succ k ih =>
    simp only [spaces, List.replicate_succ, List.cons_append, dropIndent] at ih ⊢
    simpa using ih

/-- A `"""` line, clean lines, a `"""` line — each re-indented and joined — is one literal. -/
theorem block_inert (level : Nat) (L : List Str) (hL : ∀ l ∈ L, docClean l = true) :
    isOneTripleQuoted (dropIndent (joinWith ['\n'] ((tq3 :: (L ++ [tq3])).map (spaces (4 * level) ++ ·)))) = true := by
  simp only [List.map_cons, List.map_append, List.map_nil]
  rw [joinWith_snoc]
  have e : spaces (4 * level) ++ tq3 ++ '\n' :: (linesNl (L.map (spaces (4 * level) ++ ·)) ++ (spaces (4 * level) ++ tq3))
      = spaces (4 * level) ++ '"' :: ('"' :: '"' :: '\n' :: (linesNl (L.map (spaces (4 * level) ++ ·)) ++ spaces (4 * level) ++ tq3)) := by
    simp [tq3, List.append_assoc]
  rw [e, dropIndent_spaces]
  have e2 : '"' :: ('"' :: '"' :: '\n' :: (linesNl (L.map (spaces (4 * level) ++ ·)) ++ spaces (4 * level) ++ tq3))
      = tq3 ++ (('\n' :: (linesNl (L.map (spaces (4 * level) ++ ·)) ++ spaces (4 * level))) ++ tq3) := by
    simp [tq3, List.append_assoc]
  rw [e2]
  apply tq_of_clean
  rw [docClean_cons, docClean_append, docClean_spaces]
  have : docClean (linesNl (L.map (spaces (4 * level) ++ ·))) = true := by
    apply linesNl_clean
    intro l hl
    obtain ⟨l0, hl0, rfl⟩ := List.mem_map.mp hl
    simp [docClean_append, docClean_spaces, hL l0 hl0]
  simp [this]; decide

/-- `emitDoc level (render_docstring …)` is one triple-quoted literal for clean blocks. -/
theorem emitDoc_inert (W : Wrap) (hW : WrapSafe W) (d : DocBlock) (hd : d.Clean) (level : Nat) :
    isOneTripleQuoted (dropIndent (emitDoc level (renderDocstring W d))) = true := by
  unfold emitDoc renderDocstring
  rw [docstringLines_eq, splitLines_block]
  apply block_inert
  apply splitLines_clean
  exact linesNl_clean _ (docMid_clean W hW d hd 0)

/-! ### One-line docstrings -/

theorem oneLine_inert (pre post body : Str) (h1 : docClean pre = true) (h2 : docClean post = true)
    (hb : docClean body = true) : isOneTripleQuoted (tq3 ++ ((pre ++ body ++ post) ++ tq3)) = true := by
  apply tq_of_clean
  simp [docClean_append, h1, h2, hb]

theorem tagPropDoc_eq (tag : Str) :
    renderTagPropDoc tag = tq3 ++ (("Client for '".toList ++ tag ++ "' endpoints.".toList) ++ tq3) := by
  have e1 : "\"\"\"Client for '".toList = tq3 ++ "Client for '".toList := by decide
  have e2 : "' endpoints.\"\"\"".toList = "' endpoints.".toList ++ tq3 := by decide
  unfold renderTagPropDoc
  rw [e1, e2]
  simp only [List.append_assoc]

theorem tagClassDoc_eq (tag : Str) :
    renderTagClassDoc tag = tq3 ++ (("Client for ".toList ++ tag
      ++ " endpoints. Uses HttpTransport for all HTTP and header management.".toList) ++ tq3) := by
  have e1 : "\"\"\"Client for ".toList = tq3 ++ "Client for ".toList := by decide
  have e2 : " endpoints. Uses HttpTransport for all HTTP and header management.\"\"\"".toList
      = " endpoints. Uses HttpTransport for all HTTP and header management.".toList ++ tq3 := by decide
  unfold renderTagClassDoc
  rw [e1, e2]
  simp only [List.append_assoc]

/-! ### Class docstrings of dataclasses and enums -/

theorem dataclassBlock_clean (className desc : Str) (fields : List (Str × Str × Str))
    (hn : docClean className = true) (hd : docClean desc = true)
    (hf : ∀ f ∈ fields, docClean f.1 = true ∧ docClean f.2.1 = true ∧ docClean f.2.2 = true) :
    (dataclassBlock className desc fields).Clean := by
  refine ⟨?_, rfl, ?_, (fun r (hr : none = some r) => nomatch hr), (fun r (hr : r ∈ ([] : List (Str × Str))) => absurd hr List.not_mem_nil)⟩
  · show docClean (if desc.isEmpty then className ++ " dataclass".toList else desc) = true
    split
    · have : docClean " dataclass".toList = true := by decide
      simp only [docClean_append, hn, this, Bool.and_self]
    · exact hd
  · intro a ha
    obtain ⟨f, hfm, rfl⟩ := List.mem_map.mp ha
    have := hf f hfm
    exact ⟨this.1, by intro t ht; cases ht; exact this.2.1, this.2.2⟩

theorem enumBlock_clean (enumName desc baseType : Str) (members : List (Str × Str))
    (hn : docClean enumName = true) (hd : docClean desc = true) (hb : docClean baseType = true)
    (hm : ∀ m ∈ members, docClean m.1 = true ∧ docClean m.2 = true) :
    (enumBlock enumName desc baseType members).Clean := by
  refine ⟨?_, rfl, ?_, (fun r (hr : none = some r) => nomatch hr), (fun r (hr : r ∈ ([] : List (Str × Str))) => absurd hr List.not_mem_nil)⟩
  · show docClean (if desc.isEmpty then enumName ++ " Enum".toList else desc) = true
    split
    · have : docClean " Enum".toList = true := by decide
      simp only [docClean_append, hn, this, Bool.and_self]
    · exact hd
  · intro a ha
    obtain ⟨m, hmm, rfl⟩ := List.mem_map.mp ha
    have := hm m hmm
    refine ⟨this.2, by intro t ht; cases ht; exact hb, ?_⟩
    have a1 : docClean "Value for ".toList = true := by decide
    show docClean ("Value for ".toList ++ m.1) = true
    simp only [docClean_append, a1, this.1, Bool.and_self]

/-! ### The `APIClient` docstring -/

theorem frame_inert (n : Nat) (L : List Str) (hL : ∀ l ∈ L, docClean l = true) :
    isOneTripleQuoted (dropIndent (joinWith ['\n'] ((spaces n ++ tq3) :: (L ++ [spaces n ++ tq3])))) = true := by
  rw [joinWith_snoc]
  have e : spaces n ++ tq3 ++ '\n' :: (linesNl L ++ (spaces n ++ tq3))
      = spaces n ++ '"' :: ('"' :: '"' :: '\n' :: (linesNl L ++ spaces n ++ tq3)) := by
    simp [tq3, List.append_assoc]
  rw [e, dropIndent_spaces]
  have e2 : '"' :: ('"' :: '"' :: '\n' :: (linesNl L ++ spaces n ++ tq3))
      = tq3 ++ (('\n' :: (linesNl L ++ spaces n)) ++ tq3) := by
    simp [tq3, List.append_assoc]
  rw [e2]
  apply tq_of_clean
  rw [docClean_cons, docClean_append, docClean_spaces, linesNl_clean L hL]
  decide

theorem lstripC_mem (ch : Char) (s : Str) (c : Char) (h : c ∈ lstripC ch s) : c ∈ s := by
  induction s with
  | nil => simp [lstripC] at h
  | cons d ds ih =>
    simp only [lstripC] at h
    split at h
    · exact List.mem_cons_of_mem _ (ih h)
    · exact h

theorem rstripC_mem (ch : Char) (s : Str) (c : Char) (h : c ∈ rstripC ch s) : c ∈ s := by
  simp only [rstripC, List.mem_reverse] at h
  have := lstripC_mem ch _ c h
  simpa using this

theorem rstripC_clean (ch : Char) (s : Str) (h : docClean s = true) : docClean (rstripC ch s) = true := by
  rw [docClean_iff] at h ⊢
  intro c hc
  exact h c (rstripC_mem ch s c hc)

theorem lstripWs_mem (s : Str) (c : Char) (h : c ∈ lstripWs s) : c ∈ s := by
  induction s with
  | nil => simp [lstripWs] at h
  | cons d ds ih =>
    simp only [lstripWs] at h
    split at h
    · exact List.mem_cons_of_mem _ (ih h)
    · exact h

theorem stripWs_mem (s : Str) (c : Char) (h : c ∈ stripWs s) : c ∈ s := by
  simp only [stripWs, rstripWs, List.mem_reverse] at h
  have := lstripWs_mem _ c h
  simp only [List.mem_reverse] at this
  exact lstripWs_mem s c this

theorem replace3Run_mem (ch : Char) (rep : Str) (q : Nat) (s : Str) (c : Char)
    (h : c ∈ replace3Run ch rep q s) : c ∈ s ∨ c ∈ rep ∨ (c = ch ∧ 0 < q) := by
  induction s generalizing q with
  | nil =>
    simp only [replace3Run, List.mem_replicate] at h
    exact Or.inr (Or.inr ⟨h.2, by omega⟩)
  | cons d ds ih =>
    simp only [replace3Run] at h
    split at h
    · rename_i hd
      have hdc : d = ch := by simpa using hd
      split at h
      · rcases List.mem_append.mp h with h1 | h1
        · exact Or.inr (Or.inl h1)
        · rcases ih 0 h1 with h2 | h2 | h2
          · exact Or.inl (List.mem_cons_of_mem _ h2)
          · exact Or.inr (Or.inl h2)
          · omega
      · rcases ih (q + 1) h with h2 | h2 | h2
        · exact Or.inl (List.mem_cons_of_mem _ h2)
        · exact Or.inr (Or.inl h2)
        · left; rw [h2.1, ← hdc]; simp
    · rcases List.mem_append.mp h with h1 | h1
      · simp only [List.mem_replicate] at h1
        exact Or.inr (Or.inr ⟨h1.2, by omega⟩)
      · rcases List.mem_cons.mp h1 with h2 | h2
        · left; rw [h2]; simp
        · rcases ih 0 h2 with h3 | h3 | h3
          · exact Or.inl (List.mem_cons_of_mem _ h3)
          · exact Or.inr (Or.inl h3)
          · omega

theorem replace3_clean (ch : Char) (rep s : Str) (hr : docClean rep = true) (hs : docClean s = true) :
    docClean (replace3 ch rep s) = true := by
  rw [docClean_iff] at hr hs ⊢
  intro c hc
  rcases replace3Run_mem ch rep 0 s c hc with h | h | h
  · exact hs c h
  · exact hr c h
  · omega

theorem replace1_clean (rep s : Str) (hs : docClean s = true) : replace1 '\\' rep s = s := by
  induction s with
  | nil => rfl
  | cons c cs ih =>
    rw [docClean_cons, Bool.and_eq_true] at hs
    have hc : (c == '\\') = false := by
      have := hs.1
      simp only [docChar, Bool.not_eq_true', Bool.or_eq_false_iff] at this
      exact this.1.2
    rw [replace1_cons, ih hs.2, hc]
    rfl

theorem cleanClientDesc_clean (D : Dedent) (hD : DedentSafe D) (desc : Str) (h : docClean desc = true) :
    docClean (cleanClientDesc D desc) = true := by
  unfold cleanClientDesc
  have h1 := replace3_clean '"' ['\''] desc (by decide) h
  have h2 := replace3_clean '\'' ['\''] _ (by decide) h1
  rw [replace1_clean _ _ h2]
  rw [docClean_iff] at h2 ⊢
  intro c hc
  exact h2 c (stripWs_mem _ c (hD _ c hc))

theorem clientBlock_clean (tags : List (Str × Str × Str))
    (ht : ∀ t ∈ tags, docClean t.1 = true ∧ docClean t.2.1 = true ∧ docClean t.2.2 = true) :
    (clientBlock tags).Clean := by
  refine ⟨by show docClean clientSummary = true; decide, rfl, ?_, (fun r (hr : none = some r) => nomatch hr), (fun r (hr : r ∈ ([] : List (Str × Str))) => absurd hr List.not_mem_nil)⟩
  intro a ha
  simp only [clientBlock, List.cons_append, List.nil_append, List.mem_cons] at ha
  rcases ha with rfl | rfl | ha
  · exact ⟨by decide, by intro t ht; cases ht; decide, by decide⟩
  · exact ⟨by decide, by intro t ht; cases ht; decide, by decide⟩
  · obtain ⟨t, htm, rfl⟩ := List.mem_map.mp ha
    have := ht t htm
    refine ⟨this.2.2, by intro t' ht'; cases ht'; exact this.2.1, ?_⟩
    have a1 : docClean "Client for '".toList = true := by decide
    have a2 : docClean "' endpoints.".toList = true := by decide
    show docClean ("Client for '".toList ++ t.1 ++ "' endpoints.".toList) = true
    simp only [docClean_append, a1, a2, this.1, Bool.and_self]

theorem rstripC_tq3 : rstripC '"' tq3 = [] := by decide

theorem clientDoc_inert (W : Wrap) (hW : WrapSafe W) (D : Dedent) (hD : DedentSafe D)
    (title version desc : Str) (tags : List (Str × Str × Str))
    (h1 : docClean title = true) (h2 : docClean version = true) (h3 : docClean desc = true)
    (ht : ∀ t ∈ tags, docClean t.1 = true ∧ docClean t.2.1 = true ∧ docClean t.2.2 = true) :
    isOneTripleQuoted (dropIndent (renderClientDoc W D title version desc tags)) = true := by
  unfold renderClientDoc
  simp only [List.singleton_append]
  apply frame_inert
  intro l hl
  obtain ⟨l0, hl0, rfl⟩ := List.mem_map.mp hl
  unfold clientDocLines at hl0
  rw [renderDocstring, docstringLines_eq, splitLines_block] at hl0
  simp only [List.mem_append, List.mem_cons, List.mem_singleton, List.not_mem_nil, or_false] at hl0
  rcases hl0 with ((hl0 | hl0) | hl0) | hl0
  · rw [hl0]
    apply rstripC_clean
    have a1 : docClean " (version ".toList = true := by decide
    have a2 : docClean [')'] = true := by decide
    simp only [docClean_append, h1, h2, a1, a2, Bool.and_self]
  · split at hl0
    · simp at hl0
    · simp only [List.mem_cons, List.not_mem_nil, or_false] at hl0
      rcases hl0 with rfl | rfl
      · rfl
      · exact rstripC_clean _ _ (cleanClientDesc_clean D hD desc h3)
  · rw [hl0]; rfl
  · rcases hl0 with rfl | hl0 | rfl
    · rw [rstripC_tq3]; rfl
    · apply rstripC_clean
      exact splitLines_clean _ (linesNl_clean _ (docMid_clean W hW _ (clientBlock_clean tags ht) 0)) _ hl0
    · rw [rstripC_tq3]; rfl

/-! ### `write_block`: a second `splitlines()` over finished code -/

def noLineBreak (s : Str) : Bool := s.all (fun c => !isLineBreak c)

theorem noLineBreak_append (a b : Str) : noLineBreak (a ++ b) = (noLineBreak a && noLineBreak b) := by
  simp [noLineBreak, List.all_append]

/-- A non-empty line without any `str.splitlines` boundary is only re-indented. -/
theorem writeBlock_line (level : Nat) (line : Str) (hne : line ≠ []) (h : noLineBreak line = true) :
    writeBlock level line = spaces (4 * level) ++ line := by
  simp [writeBlock, emitDoc, splitLines_noBreak line hne h, joinWith]

theorem renderLit_noLineBreak (s : Str) (h : noLineBreak s = true) : noLineBreak (renderLit s) = true := by
  have e : renderLit s = ['"'] ++ (s ++ ['"']) := rfl
  rw [e, noLineBreak_append, noLineBreak_append, h]
  decide

theorem dictKey_noLineBreak (s var : Str) (h1 : noLineBreak s = true) (h2 : noLineBreak var = true) :
    noLineBreak (renderDictKey s var) = true := by
  have a1 : noLineBreak "    ".toList = true := by decide
  have a2 : noLineBreak ": DataclassSerializer.serialize(".toList = true := by decide
  have a3 : noLineBreak "),".toList = true := by decide
  simp only [renderDictKey, noLineBreak_append, a1, a2, a3, renderLit_noLineBreak s h1, h2, Bool.and_self]

end Pog
