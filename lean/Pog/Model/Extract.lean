import Pog.Model.Basic
import Pog.Model.Names
import Pog.Model.Fresh
/-
  M-extract: the two post-parsing passes of `core/loader/schemas/extractor.py`

    * `extract_inline_array_items`  (lines 54-150)   →  `extractArrayItems`
    * `extract_inline_enums`        (lines 153-324)  →  `extractEnums` (calls the former first, like the code)

  and the construct decision of `visit/model/model_visitor.py` `ModelVisitor.visit_IRSchema`
  (lines 81-166) → `modelKind`.

  The models are what the code DOES, branch for branch:
    * the registry is a python `dict` = association list (insertion order, `in` = key membership,
      `schemas[k]` = first entry with key `k`, `schemas.update(new)` = `dictUpdate`);
    * `for … in list(schemas.items())` is a snapshot: both passes walk the registry they were given
      and collect the promoted schemas in a side dictionary (`new_item_schemas` / `new_enums`) that is
      merged at the end, so promoted schemas are not re-visited by the pass that made them — but the enum
      pass DOES visit the item schemas the array pass promoted;
    * the property schemas are mutated in place (`name`, `type`, `generation_name`,
      `final_module_stem`, `enum = None`, `items.name`);
    * `IRSchema(name=…)` runs `__post_init__`, which class-cases `name`; `copy.deepcopy` and attribute
      assignment do not;
    * python truthiness: `None` and `""` / `[]` are both falsy (`truthy`), but `items.name is None` in the
      visitor is an identity test (`Option.isNone`);
    * the "reuse an enum made during parsing" branch (lines 268-277) is kept although it is dead
      (`Pog.Extract.reuse_branch_dead`).

  Value semantics: a `Schema` is a tree.  Python objects can be shared (the same `IRSchema` reachable
  from two places); the passes only mutate property schemas and `items` of property schemas, so the
  model is exact for registries in which those objects are not shared — the registries the
  correspondence builds.  (TRUSTED: absence of sharing; `copy.deepcopy` copies every modelled field.)

  The `while name in schemas or name in new: name = f"{base}{i}"` loops are `Pog.inlineName`
  (fuel `|taken| + 1`); `inlineName_total` proves the fuel suffices, `freshT` is the name found.
-/
namespace Pog.Extract
open Pog

/-! ### Schemas and registries -/

/-- The fields of `IRSchema` the two passes and the visitor's decision read or write. -/
structure Schema where
  name : Option Str := none
  ty : Option Str := none
  genName : Option Str := none            -- `generation_name`
  stem : Option Str := none               -- `final_module_stem`
  enumVals : Option (List Str) := none    -- `enum` (each value rendered as text)
  props : List (Str × Schema) := []       -- `properties` (dict order)
  items : Option Schema := none
  anyOf : Bool := false                   -- truthiness of `any_of`
  oneOf : Bool := false
  allOf : Bool := false

abbrev Reg := List (Str × Schema)

/-- python truthiness of `str | None` / `list | None`. -/
def truthy {α : Type} : Option (List α) → Bool
  | some (_ :: _) => true
  | _ => false

def regKeys (r : Reg) : List Str := r.map (·.1)

/-- `d[k] = v` on a python dict. -/
def dictSet (r : Reg) (k : Str) (v : Schema) : Reg :=
  match r with
  | [] => [(k, v)]
  | (k', v') :: rest => if k' == k then (k', v) :: rest else (k', v') :: dictSet rest k v

/-- `d.update(new)`. -/
def dictUpdate (r new : Reg) : Reg := new.foldl (fun acc kv => dictSet acc kv.1 kv.2) r

/-! ### String constants (explicit character lists so that they reduce everywhere) -/

abbrev sArray : Str := ['a','r','r','a','y']
abbrev sObject : Str := ['o','b','j','e','c','t']
abbrev sNull : Str := ['n','u','l','l']
abbrev sString : Str := ['s','t','r','i','n','g']
abbrev sInteger : Str := ['i','n','t','e','g','e','r']
abbrev sNumber : Str := ['n','u','m','b','e','r']
abbrev sResponse : Str := ['R','e','s','p','o','n','s','e']
abbrev sList : Str := ['L','i','s','t']
abbrev sItem : Str := ['I','t','e','m']
abbrev sEnum : Str := ['E','n','u','m']
abbrev sData : Str := ['d','a','t','a']
abbrev sItems : Str := ['i','t','e','m','s']
abbrev sResults : Str := ['r','e','s','u','l','t','s']
abbrev sContent : Str := ['c','o','n','t','e','n','t']

/-- `s.replace(pat, "")` for a non-empty literal `pat`, one character at a time: `skip` is the number of
    characters of the match at hand that are still to be dropped. -/
def dropSub (pat : Str) : Nat → Str → Str
  | _, [] => []
  | skip + 1, _ :: cs => dropSub pat skip cs
  | 0, c :: cs =>
    if pat.isPrefixOf (c :: cs) then dropSub pat (pat.length - 1) cs else c :: dropSub pat 0 cs

/-! ### `extract_inline_array_items` -/

/-- lines 84-90 -/
def isEmptyObject (it : Schema) : Bool :=
  it.ty == some sObject && it.props.isEmpty && !it.anyOf && !it.oneOf && !it.allOf

/-- lines 82-102 -/
def isComplexItem (it : Schema) : Bool :=
  !(it.ty == some sNull) && !isEmptyObject it &&
    (it.ty == some sObject || it.ty == some sArray || !it.props.isEmpty || it.anyOf || it.oneOf || it.allOf)

def wrapperProps : List Str := [sData, sItems, sResults, sContent]

/-- lines 108-125: the base name of a promoted item schema. -/
def itemBaseName (u : UInfo) (sname pname : Str) (it : Schema) : Str :=
  if wrapperProps.contains (u.lowerS pname) then
    if it.ty == some sObject && endsWith sname sResponse then
      dropSub sList 0 (dropSub sResponse 0 sname) ++ sItem
    else sanClass sname ++ sanClass pname ++ sItem
  else sanClass sname ++ sanClass pname ++ sItem

/-- The name the suffix loop ends with (`inlineName_total`: the `getD` default is never used). -/
def freshT (taken : List Str) (base : Str) : Str := (inlineName taken base).getD base

/-- line 78: does this property get its items promoted? -/
def wantsItem (ps : Schema) : Option Schema :=
  match ps.items with
  | some it =>
    if ps.ty == some sArray && !truthy it.name && isComplexItem it then some it else none
  | none => none

/-- One property (lines 78-139). `keys` = the keys of `schemas`, `new` = `new_item_schemas` so far. -/
def arrayProp (u : UInfo) (keys : List Str) (sname : Str) (new : Reg) (pn : Str) (ps : Schema) :
    Reg × Schema :=
  match wantsItem ps with
  | some it =>
    let nm := freshT (keys ++ regKeys new) (itemBaseName u sname pn it)
    (new ++ [(nm, { it with name := some nm })], { ps with items := some { it with name := some nm } })
  | none => (new, ps)

def arrayProps (u : UInfo) (keys : List Str) (sname : Str) :
    Reg → List (Str × Schema) → Reg × List (Str × Schema)
  | new, [] => (new, [])
  | new, (pn, ps) :: rest =>
    let r1 := arrayProp u keys sname new pn ps
    let r2 := arrayProps u keys sname r1.1 rest
    (r2.1, (pn, r1.2) :: r2.2)

def arraySchemas (u : UInfo) (keys : List Str) : Reg → Reg → Reg × Reg
  | new, [] => (new, [])
  | new, (k, s) :: rest =>
    let r1 := arrayProps u keys k new s.props
    let r2 := arraySchemas u keys r1.1 rest
    (r2.1, (k, { s with props := r1.2 }) :: r2.2)

/-- `(new_item_schemas, schemas after the in-place mutations)`. -/
def arrayPass (u : UInfo) (reg : Reg) : Reg × Reg := arraySchemas u (regKeys reg) [] reg

def extractArrayItems (u : UInfo) (reg : Reg) : Reg :=
  let r := arrayPass u reg
  dictUpdate r.2 r.1

/-! ### `extract_inline_enums` -/

def primEnumTypes : List Str := [sString, sInteger, sNumber]

/-- `s.enum and s.type in ["string", "integer", "number"]` (lines 195, 231). -/
def hasInlineEnum (ps : Schema) : Bool :=
  truthy ps.enumVals &&
    (match ps.ty with
     | some t => primEnumTypes.contains t
     | none => false)

/-- `x and x in schemas` → the entry `schemas[x]`. -/
def lookupRef (r : Reg) (x : Option Str) : Option (Str × Schema) :=
  match x with
  | some (c :: cs) => (r.lookup (c :: cs)).map (fun s => (c :: cs, s))
  | _ => none

/-- `x and x in schemas and schemas[x].enum` -/
def refsEnum (r : Reg) (x : Option Str) : Bool :=
  match lookupRef r x with
  | some (_, s) => truthy s.enumVals
  | none => false

/-- `c.isupper()` for one character. -/
def pyIsUpperChar (u : UInfo) (c : Char) : Bool := if isAscii c then isUpperA c else u.isupper c

/-- lines 252-255: `name and name[0].isupper() and "_" not in name and name != prop_name` -/
def classLike (u : UInfo) (name : Option Str) (pname : Str) : Bool :=
  match name with
  | some (c :: cs) => pyIsUpperChar u c && !(c :: cs).contains '_' && (c :: cs) != pname
  | _ => false

/-- lines 237-263 -/
def alreadyExtracted (u : UInfo) (view : Reg) (pn : Str) (ps : Schema) : Bool :=
  refsEnum view ps.genName || refsEnum view ps.name || classLike u ps.name pn || refsEnum view ps.ty

/-- `IRSchema.__post_init__` on `name`. -/
def postInitName (n : Option Str) : Option Str := if truthy n then n.map sanClass else n

/-- lines 297-304: the schema registered for an extracted enum. -/
def enumEntry (u : UInfo) (en : Str) (ty : Option Str) (vals : Option (List Str)) : Schema :=
  { name := postInitName (some en), ty := ty, genName := some en, stem := some (sanModule u en),
    enumVals := vals }

/-- lines 281-287 -/
def enumBaseName (sname pn : Str) (ps : Schema) : Str :=
  match ps.genName with
  | some (c :: cs) => c :: cs
  | _ => sanClass sname ++ sanClass pn ++ sEnum

/-- lines 308-313 -/
def pointAt (u : UInfo) (ps : Schema) (en : Str) : Schema :=
  { ps with name := some en, ty := some en, genName := some en, stem := some (sanModule u en),
            enumVals := none }

/-- lines 270-276 -/
def reusePoint (ps : Schema) (t : Str) (e : Schema) : Schema :=
  { ps with name := some t, genName := if truthy e.genName then e.genName else some t, stem := e.stem,
            enumVals := none }

/-- One property (lines 209-313).  `view` = `schemas` as it is when the property is looked at,
    `newE` = `new_enums` so far. -/
def enumProp (u : UInfo) (view : Reg) (disc : List (Str × Str)) (sname : Str) (newE : Reg) (pn : Str)
    (ps : Schema) : Reg × Schema :=
  if disc.contains (sname, pn) then (newE, ps)
  else if hasInlineEnum ps && !alreadyExtracted u view pn ps then
    match lookupRef view ps.ty with
    | some (t, e) =>
      if truthy e.enumVals then (newE, reusePoint ps t e)
      else
        let en := freshT (regKeys view ++ regKeys newE) (enumBaseName sname pn ps)
        (newE ++ [(en, enumEntry u en ps.ty ps.enumVals)], pointAt u ps en)
    | none =>
      let en := freshT (regKeys view ++ regKeys newE) (enumBaseName sname pn ps)
      (newE ++ [(en, enumEntry u en ps.ty ps.enumVals)], pointAt u ps en)
  else (newE, ps)

def enumProps (u : UInfo) (view : Reg) (disc : List (Str × Str)) (sname : Str) :
    Reg → List (Str × Schema) → Reg × List (Str × Schema)
  | newE, [] => (newE, [])
  | newE, (pn, ps) :: rest =>
    let r1 := enumProp u view disc sname newE pn ps
    let r2 := enumProps u view disc sname r1.1 rest
    (r2.1, (pn, r1.2) :: r2.2)

/-- lines 195-206: a top-level enum schema gets `generation_name = name` when it has none. -/
def fixTop (s : Schema) : Schema :=
  if hasInlineEnum s && !truthy s.genName then { s with genName := s.name } else s

/-- The outer loop.  `pre` = the entries already visited (as they are now), so that
    `pre ++ (k, fixTop s) :: rest` is the dictionary the body sees. -/
def enumSchemas (u : UInfo) (disc : List (Str × Str)) : Reg → Reg → Reg → Reg × Reg
  | _, newE, [] => (newE, [])
  | pre, newE, (k, s) :: rest =>
    let s1 := fixTop s
    let r1 := enumProps u (pre ++ (k, s1) :: rest) disc k newE s1.props
    let s2 : Schema := { s1 with props := r1.2 }
    let r2 := enumSchemas u disc (pre ++ [(k, s2)]) r1.1 rest
    (r2.1, (k, s2) :: r2.2)

/-- `(new_enums, schemas after the in-place mutations)` for a registry that already went through the
    array pass. -/
def enumPass (u : UInfo) (disc : List (Str × Str)) (reg1 : Reg) : Reg × Reg :=
  enumSchemas u disc [] [] reg1

def extractEnums (u : UInfo) (reg : Reg) (disc : List (Str × Str)) : Reg :=
  let r := enumPass u disc (extractArrayItems u reg)
  dictUpdate r.2 r.1

/-- The two post-condition tests at the end of both functions (lines 145-148, 319-322):
    `false` = a `RuntimeError` is raised. -/
def postOk (orig out : Reg) : Bool :=
  decide (orig.length ≤ out.length) && (regKeys orig).all (fun k => (regKeys out).contains k)

/-- The functions with their post-condition checks: `none` = `RuntimeError`. -/
def extractArrayItemsChecked (u : UInfo) (reg : Reg) : Option Reg :=
  let out := extractArrayItems u reg
  if postOk reg out then some out else none

def extractEnumsChecked (u : UInfo) (reg : Reg) (disc : List (Str × Str)) : Option Reg :=
  match extractArrayItemsChecked u reg with
  | none => none
  | some _ =>
    let out := extractEnums u reg disc
    if postOk reg out then some out else none

/-! ### `ModelVisitor.visit_IRSchema`: which construct a schema becomes -/

inductive Kind
  | enum | alias | dataclass | dataWrapperDataclass | skipped
  deriving DecidableEq, Repr

/-- The detection flags of lines 82-109, as they are when line 112 is reached. -/
structure KindFlags where
  isEnum : Bool
  isAlias : Bool
  isDataclass : Bool
  wrapper : Bool          -- `schema.is_data_wrapper = True` was executed
  deriving DecidableEq, Repr

/-- line 100: `type == "array" and items and items.type == "object" and items.name is None` -/
def anonObjectItems (s : Schema) : Bool :=
  s.ty == some sArray &&
    (match s.items with
     | some it => it.ty == some sObject && it.name.isNone
     | none => false)

def kindFlags (s : Schema) : KindFlags :=
  let named := truthy s.name
  let isEnum := named && truthy s.enumVals && (s.ty == some sString || s.ty == some sInteger)
  let isUnion := named && (s.oneOf || s.anyOf)
  let isAlias0 := named && s.props.isEmpty && !isEnum && (s.ty != some sObject || isUnion)
  let override := anonObjectItems s && isAlias0
  let isAlias := if override then false else isAlias0
  { isEnum := isEnum, isAlias := isAlias, isDataclass := !isEnum && !isAlias, wrapper := override }

/-- line 85: `schema.name in self.discriminator_skip_list` -/
def nameInSkip (s : Schema) (skip : List Str) : Bool :=
  match s.name with
  | some n => skip.contains n
  | none => false

/-- `none` = the `RuntimeError` of line 134 ("Schema must have a name or generation_name"). -/
def modelKindE (s : Schema) (skip : List Str) : Option Kind :=
  let f := kindFlags s
  if f.isEnum && nameInSkip s skip then some .skipped
  else if !truthy s.name && (f.isAlias || f.isEnum || f.isDataclass) then some .skipped
  else if !truthy s.genName && !truthy s.name then none
  else if f.isAlias then some .alias
  else if f.isEnum then some .enum
  else if f.isDataclass then some (if f.wrapper then .dataWrapperDataclass else .dataclass)
  else some .skipped

/-- The construct (`modelKindE_isSome`: the error branch is unreachable, the default is never used). -/
def modelKind (s : Schema) (skip : List Str) : Kind := (modelKindE s skip).getD .skipped

end Pog.Extract
