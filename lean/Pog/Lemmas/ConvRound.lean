import Pog.Lemmas.Conv
import Pog.Model.ConvSpec
/-
  Round-trip lemmas for the union-free fragment of M-conv (C16 `decode_encode`).
-/
namespace Pog

/-! ## association lists -/

theorem aset_of_not_mem {α : Type} (d : List (Str × α)) (k : Str) (v : α) (h : k ∉ akeys d) :
    aset d k v = d ++ [(k, v)] := by
  induction d with
  | nil => rfl
  | cons kv rest ih =>
    obtain ⟨k', v'⟩ := kv
    simp only [akeys, List.map_cons, List.mem_cons, not_or] at h
    have hne : ¬ k' = k := fun e => h.1 e.symm
    simp only [aset, hne, if_false, List.cons_append]
    rw [ih (by simpa [akeys] using h.2)]

theorem foldl_aset_of_nodup {α : Type} (kvs acc : List (Str × α))
    (hnd : (akeys kvs).Nodup) (hdisj : ∀ k ∈ akeys kvs, k ∉ akeys acc) :
    kvs.foldl (fun a kv => aset a kv.1 kv.2) acc = acc ++ kvs := by
  induction kvs generalizing acc with
  | nil => simp
  | cons kv rest ih =>
    obtain ⟨k, v⟩ := kv
    simp only [akeys, List.map_cons, List.nodup_cons] at hnd
    simp only [List.foldl_cons]
    rw [aset_of_not_mem acc k v (hdisj k (by simp [akeys]))]
    rw [ih (acc ++ [(k, v)]) hnd.2]
    · simp
    · intro k' hk'
      simp only [akeys, List.map_append, List.map_cons, List.map_nil, List.mem_append, List.mem_singleton, not_or]
      refine ⟨hdisj k' (by simp [akeys] at hk' ⊢; exact Or.inr hk'), ?_⟩
      intro e
      subst e
      exact hnd.1 (by simpa [akeys] using hk')

theorem aofPairs_of_nodup {α : Type} (kvs : List (Str × α)) (hnd : (akeys kvs).Nodup) : aofPairs kvs = kvs := by
  unfold aofPairs
  rw [foldl_aset_of_nodup kvs [] hnd (by simp [akeys])]
  simp

theorem aget_map_of_nodup {β γ : Type} (l : List β) (key : β → Str) (val : β → γ) (hnd : (l.map key).Nodup)
    (b : β) (hb : b ∈ l) : aget (l.map (fun g => (key g, val g))) (key b) = some (val b) := by
  induction l with
  | nil => cases hb
  | cons g gs ih =>
    simp only [List.map_cons, List.nodup_cons] at hnd
    simp only [List.map_cons, aget]
    rcases List.mem_cons.mp hb with e | hmem
    · subst e; simp
    · have hne : ¬ key g = key b := fun e => hnd.1 (e ▸ List.mem_map_of_mem hmem)
      simp only [hne, if_false]
      exact ih hnd.2 hmem

theorem aget_of_all {α : Type} (d : List (Str × α)) (p : Str × α → Bool) (h : d.all p = true) (k : Str) (v : α)
    (hk : aget d k = some v) : p (k, v) = true := by
  induction d with
  | nil => simp [aget] at hk
  | cons kv rest ih =>
    obtain ⟨k', v'⟩ := kv
    simp only [List.all_cons, Bool.and_eq_true] at h
    simp only [aget] at hk
    by_cases e : k' = k
    · simp only [e, if_true, Option.some.injEq] at hk
      subst e; subst hk; exact h.1
    · simp only [e, if_false] at hk
      exact ih h.2 hk

/-! ## `ofJson` -/

theorem ofJsons_eq_map (xs : List JsonV) : Val.ofJsons xs = xs.map Val.ofJson := by
  induction xs with
  | nil => rfl
  | cons x xs ih => simp [Val.ofJsons, ih]

theorem ofJsonKvs_eq_map (kvs : List (Str × JsonV)) :
    Val.ofJsonKvs kvs = kvs.map (fun kv => (kv.1, Val.ofJson kv.2)) := by
  induction kvs with
  | nil => rfl
  | cons kv rest ih => obtain ⟨k, v⟩ := kv; simp [Val.ofJsonKvs, ih]

theorem ofJson_none_iff (j : JsonV) : Val.ofJson j = .none ↔ j = .null := by
  cases j <;> simp [Val.ofJson]

/-! ## collecting loops -/

theorem structItems_roundtrip {ε : Type} (rec : JsonV → Except SErr Val) (un : Val → Except ε JsonV) (nm : JsonV → JsonV)
    (xs : List JsonV) (h : ∀ x ∈ xs, ∃ v, rec x = .ok v ∧ un v = .ok (nm x)) :
    ∃ vs, structItems rec xs = (vs, []) ∧ mapE un vs = .ok (xs.map nm) := by
  induction xs with
  | nil => exact ⟨[], rfl, rfl⟩
  | cons x xs ih =>
    obtain ⟨v, hv, hu⟩ := h x (by simp)
    obtain ⟨vs, hvs, hus⟩ := ih (fun y hy => h y (by simp [hy]))
    refine ⟨v :: vs, ?_, ?_⟩
    · simp [structItems, hv, hvs]
    · simp [mapE, hu, hus]

theorem structDictItems_roundtrip {ε : Type} (rec : JsonV → Except SErr Val) (un : Val → Except ε JsonV)
    (nm : JsonV → JsonV) (kvs : List (Str × JsonV))
    (h : ∀ kv ∈ kvs, ∃ v, rec kv.2 = .ok v ∧ un v = .ok (nm kv.2)) :
    ∃ vs, structDictItems rec kvs = (vs, []) ∧ akeys vs = akeys kvs ∧
      mapValsE un vs = .ok (kvs.map (fun kv => (kv.1, nm kv.2))) := by
  induction kvs with
  | nil => exact ⟨[], rfl, rfl, rfl⟩
  | cons kv rest ih =>
    obtain ⟨k, x⟩ := kv
    obtain ⟨v, hv, hu⟩ := h (k, x) (by simp)
    obtain ⟨vs, hvs, hks, hus⟩ := ih (fun y hy => h y (by simp [hy]))
    refine ⟨(k, v) :: vs, ?_, ?_, ?_⟩
    · simp only [structDictItems]; simp at hv; simp [hv, hvs]
    · simp [akeys] at hks ⊢; exact hks
    · simp only [mapValsE]; simp at hu; simp [hu, hus]

end Pog

namespace Pog

theorem mapE_map_ok {α β ε : Type} (f : β → Except ε α) (g : α → β) (xs : List α)
    (h : ∀ x ∈ xs, f (g x) = .ok x) : mapE f (xs.map g) = .ok xs := by
  induction xs with
  | nil => rfl
  | cons x xs ih =>
    simp [mapE, h x (by simp), ih (fun y hy => h y (by simp [hy]))]

theorem mapValsE_map_ok {α β ε : Type} (f : β → Except ε α) (g : α → β) (kvs : List (Str × α))
    (h : ∀ kv ∈ kvs, f (g kv.2) = .ok kv.2) : mapValsE f (kvs.map (fun kv => (kv.1, g kv.2))) = .ok kvs := by
  induction kvs with
  | nil => rfl
  | cons kv rest ih =>
    obtain ⟨k, x⟩ := kv
    have := h (k, x) (by simp)
    simp at this
    simp [mapValsE, this, ih (fun y hy => h y (by simp [hy]))]

/-- Runtime-class unstructuring of JSON-shaped data is the identity. -/
theorem unstr_dyn_ofJson (c : Codecs) (reg : List Str) (decls : Decls) (n : Nat) (j : JsonV)
    (h : jsonFits n j = true) : unstrF c n reg decls none (Val.ofJson j) = .ok j := by
  induction n generalizing j with
  | zero => simp [jsonFits] at h
  | succ n ih =>
    cases j with
    | null => simp [Val.ofJson, unstrF]
    | bool b => simp [Val.ofJson, unstrF]
    | int i => simp [Val.ofJson, unstrF]
    | str s => simp [Val.ofJson, unstrF]
    | arr xs =>
      simp only [jsonFits, List.all_eq_true] at h
      simp only [Val.ofJson, unstrF, ofJsons_eq_map]
      rw [mapE_map_ok _ _ xs (fun x hx => ih x (h x hx))]
      rfl
    | obj kvs =>
      simp only [jsonFits, List.all_eq_true, Bool.and_eq_true] at h
      simp only [Val.ofJson, unstrF, ofJsonKvs_eq_map]
      rw [mapValsE_map_ok _ _ kvs (fun kv hkv => ih kv.2 (h.2 kv hkv))]
      rfl

/-- `Optional[T]` through `_structure_union`: a non-null payload that `T` accepts is returned as `T` yields it. -/
theorem structUnion_optional_ok (rec : Ty → JsonV → Except SErr Val) (t : Ty) (j : JsonV) (v : Val)
    (hj : j ≠ .null) (h : rec t j = .ok v) (hnone : isNoneTy t = false)
    (hdc : isDcTy t = true → isObj j = true)
    (hda : isDictAny t = true → isObj j = true ∧ v = Val.ofJson j) :
    structUnion rec [t, .none] none j = .ok v := by
  by_cases h1 : isDcTy t = true
  · have ho := hdc h1
    have h2 : isDictAny t = false := by cases t <;> simp_all [isDcTy, isDictAny]
    cases j <;> simp_all [structUnion, isObj, firstOk, isNoneTy, isDcTy, isDictAny]
  · by_cases h2 : isDictAny t = true
    · obtain ⟨ho, hv⟩ := hda h2
      cases j <;> simp_all [structUnion, isObj, firstOk, isNoneTy, isDcTy, isDictAny]
    · cases j <;> simp_all [structUnion, isObj, firstOk, isNoneTy, isDcTy, isDictAny, isOtherVariant]

theorem structUnion_optional_null (rec : Ty → JsonV → Except SErr Val) (t : Ty) :
    structUnion rec [t, .none] none .null = .ok .none := by
  simp [structUnion, isNoneTy]

/-! ## the dataclass hook on a conforming object -/

theorem structFields_ok (rec : Ty → JsonV → Except SErr Val) (cd : ClassDecl) (kvs : List (Str × JsonV))
    (fv : Field → Val) (fs : List Field)
    (h : ∀ f ∈ fs, match aget kvs (loadKey cd f) with
      | some x => rec f.ty x = .ok (fv f)
      | none => f.dflt ≠ .required ∧ fv f = fieldDefault f.dflt) :
    structFields rec cd (.obj kvs) fs = some (fs.map (fun f => (f.pyName, fv f)), []) := by
  induction fs with
  | nil => rfl
  | cons f fs ih =>
    have hf := h f (by simp)
    have ih' := ih (fun g hg => h g (by simp [hg]))
    cases hk : aget kvs (loadKey cd f) with
    | some x =>
      rw [hk] at hf
      cases hd : f.dflt <;>
        simp [structFields, pyContains, pyGetItem, hk, hd, hf, ih']
    | none =>
      rw [hk] at hf
      cases hd : f.dflt
      · exact absurd hd hf.1
      all_goals simp [structFields, pyContains, hk, hd, hf.2, ih']

theorem unstrFields_ok {rec : Ty → Val → Except UErr JsonV} (cd : ClassDecl) (attrs : List (Str × Val))
    (fv : Field → Val) (nm : Field → JsonV) (fs : List Field)
    (hget : ∀ f ∈ fs, aget attrs f.pyName = some (fv f))
    (hrec : ∀ f ∈ fs, rec f.ty (fv f) = .ok (nm f)) :
    unstrFields rec cd true attrs fs = .ok (fs.map (fun f => (dumpKey cd f, nm f))) := by
  induction fs with
  | nil => rfl
  | cons f fs ih =>
    simp [unstrFields, hget f (by simp), hrec f (by simp),
      ih (fun g hg => hget g (by simp [hg])) (fun g hg => hrec g (by simp [hg]))]

theorem aget_mem {α : Type} (d : List (Str × α)) (k : Str) (v : α) (h : aget d k = some v) : (k, v) ∈ d := by
  induction d with
  | nil => simp [aget] at h
  | cons kv rest ih =>
    obtain ⟨k', v'⟩ := kv
    simp only [aget] at h
    by_cases e : k' = k
    · simp only [e, if_true, Option.some.injEq] at h; subst e; subst h; simp
    · simp only [e, if_false] at h; exact List.mem_cons_of_mem _ (ih h)

theorem declsOk_get (decls : Decls) (name : Str) (cd : ClassDecl) (h : declsOk decls = true)
    (hg : aget decls name = some cd) : classOk cd = true := by
  have := aget_mem decls name cd hg
  simp only [declsOk, List.all_eq_true] at h
  exact h _ this

theorem allRegistered_get (reg : List Str) (decls : Decls) (name : Str) (cd : ClassDecl)
    (h : allRegistered reg decls = true) (hg : aget decls name = some cd) : reg.contains name = true := by
  have := aget_mem decls name cd hg
  simp only [allRegistered, List.all_eq_true] at h
  exact h _ this

/-! ## facts about the leaf tables (re-checked by `decide` whenever the tables are regenerated) -/

theorem tbl_str : leafCanStructure .str = true ∧ leafHasUnstructureHook .str = false := by decide
theorem tbl_int : leafCanStructure .int = true ∧ leafHasUnstructureHook .int = false := by decide
theorem tbl_float : leafCanStructure .float = true ∧ leafHasUnstructureHook .float = false := by decide
theorem tbl_bool : leafCanStructure .bool = true ∧ leafHasUnstructureHook .bool = false := by decide
theorem tbl_bytes : leafCanStructure .bytes = true ∧ leafHasUnstructureHook .bytes = true := by decide
theorem tbl_datetime : leafCanStructure .datetime = true ∧ leafHasUnstructureHook .datetime = true := by decide
theorem tbl_date : leafCanStructure .date = true ∧ leafHasUnstructureHook .date = true := by decide
theorem tbl_time : leafCanStructure .time = true ∧ leafHasUnstructureHook .time = true := by decide
theorem tbl_uuid : leafCanStructure .uuid = true ∧ leafHasUnstructureHook .uuid = true := by decide

end Pog

namespace Pog

theorem unstr_default (c : Codecs) (reg : List Str) (decls : Decls) (n : Nat) (d : Dflt) (t : Ty)
    (hd : d ≠ .required) (hf : dfltFits d t = true) (hn : 2 ≤ n) :
    unstrF c n reg decls (some t) (fieldDefault d) = .ok (dfltJson d) := by
  obtain ⟨m, rfl⟩ : ∃ m, n = m + 2 := ⟨n - 2, by omega⟩
  cases d with
  | required => exact absurd rfl hd
  | none =>
    cases t <;> simp_all [dfltFits, unstrF, fieldDefault, dfltJson, unstrLeaf, identityJson, Val.toJson?]
  | list =>
    cases t with
    | optional t' => cases t' <;> simp_all [dfltFits, unstrF, fieldDefault, dfltJson, mapE, Except.map]
    | _ => simp_all [dfltFits, unstrF, fieldDefault, dfltJson, mapE, Except.map]
  | dict =>
    cases t with
    | optional t' => cases t' <;> simp_all [dfltFits, unstrF, fieldDefault, dfltJson, mapValsE, Except.map]
    | _ => simp_all [dfltFits, unstrF, fieldDefault, dfltJson, mapValsE, Except.map]

theorem enumLookup_self (members : List JsonV) (j : JsonV) (hok : enumOk members = true)
    (hmem : members.contains j = true) : enumLookup members j = some j := by
  have hmem' : j ∈ members := by simpa using hmem
  unfold enumLookup
  have key : ∀ m ∈ members, pyEqScalar m j = true → m = j := by
    intro m hm he
    simp only [enumOk, Bool.or_eq_true, List.all_eq_true] at hok
    rcases hok with hs | hi
    · have h1 := hs m hm; have h2 := hs j hmem'
      cases m <;> cases j <;> simp_all [JsonV.isStr, pyEqScalar]
    · have h1 := hi m hm; have h2 := hi j hmem'
      cases m <;> cases j <;> simp_all [JsonV.isInt, pyEqScalar]
  have hself : pyEqScalar j j = true := by
    simp only [enumOk, Bool.or_eq_true, List.all_eq_true] at hok
    rcases hok with hs | hi
    · have h2 := hs j hmem'; cases j <;> simp_all [JsonV.isStr, pyEqScalar]
    · have h2 := hi j hmem'; cases j <;> simp_all [JsonV.isInt, pyEqScalar]
  induction members with
  | nil => cases hmem'
  | cons m ms ih =>
    simp only [List.find?_cons]
    cases he : pyEqScalar m j with
    | true => rw [key m (by simp) he]
    | false =>
      have hne : m ≠ j := fun e => by rw [e, hself] at he; cases he
      have hmem2 : j ∈ ms := by
        rcases List.mem_cons.mp hmem' with e | h
        · exact absurd e.symm hne
        · exact h
      simp only [enumOk, Bool.or_eq_true, List.all_cons, Bool.and_eq_true] at hok
      exact ih (by simp only [enumOk, Bool.or_eq_true]; rcases hok with h | h; exact Or.inl h.2; exact Or.inr h.2)
        (by simpa using hmem2) hmem2 (fun m' hm' => key m' (by simp [hm']))

end Pog

namespace Pog

/-- The statement proved by induction on the depth budget. -/
def RoundTrips (c : Codecs) (reg : List Str) (decls : Decls) (n : Nat) (t : Ty) (j : JsonV) : Prop :=
  ∃ v, structF c n decls t j = .ok v
    ∧ unstrF c n reg decls (some t) v = .ok (normaliseF n decls t j)
    ∧ (v = .none → j = .null)

theorem roundtrip_leaf (c : Codecs) (reg : List Str) (decls : Decls) (n : Nat) (l : Leaf) (j : JsonV)
    (h : conformsF c (n + 1) decls (.leaf l) j = true) : RoundTrips c reg decls (n + 1) (.leaf l) j := by
  unfold RoundTrips
  simp only [conformsF, resolvable, Bool.and_eq_true] at h
  obtain ⟨hcan, hun, hconf⟩ := h
  cases l with
  | str =>
    cases j <;> simp [leafConforms] at hconf
    simp [structF, resolvable, hcan, structLeaf, pyStr, unstrF, unstrLeaf, tbl_str.2, identityJson, Val.toJson?, normaliseF]
  | int =>
    cases j <;> simp [leafConforms] at hconf
    simp [structF, resolvable, hcan, structLeaf, pyInt, unstrF, unstrLeaf, tbl_int.2, identityJson, Val.toJson?, normaliseF]
  | float =>
    cases j <;> simp [leafConforms] at hconf
    simp [structF, resolvable, hcan, structLeaf, pyInt, unstrF, unstrLeaf, tbl_float.2, identityJson, Val.toJson?, normaliseF]
  | bool =>
    cases j <;> simp [leafConforms] at hconf
    simp [structF, resolvable, hcan, structLeaf, pyTruthy, unstrF, unstrLeaf, tbl_bool.2, identityJson, Val.toJson?, normaliseF]
  | bytes =>
    cases j <;> simp [leafConforms] at hconf
    rename_i s
    simp only [LeafCodec.canon] at hconf
    cases hd : c.bytes.decode s with
    | none => simp [hd] at hconf
    | some v =>
      simp [hd] at hconf
      simp [structF, resolvable, hcan, structLeaf, hd, unstrF, unstrLeaf, tbl_bytes.2, hconf, normaliseF]
  | datetime =>
    cases j <;> simp [leafConforms] at hconf
    rename_i s
    simp only [LeafCodec.canon] at hconf
    cases hd : c.datetime.decode s with
    | none => simp [hd] at hconf
    | some v =>
      simp [hd] at hconf
      simp [structF, resolvable, hcan, structLeaf, hd, unstrF, unstrLeaf, unstrIso, tbl_datetime.2, hconf, normaliseF]
  | date =>
    cases j <;> simp [leafConforms] at hconf
    rename_i s
    simp only [LeafCodec.canon] at hconf
    cases hd : c.date.decode s with
    | none => simp [hd] at hconf
    | some v =>
      simp [hd] at hconf
      simp [structF, resolvable, hcan, structLeaf, hd, unstrF, unstrLeaf, unstrIso, tbl_date.2, hconf, normaliseF]
  | time =>
    cases j <;> simp [leafConforms] at hconf
    rename_i s
    simp only [LeafCodec.canon] at hconf
    cases hd : c.time.decode s with
    | none => simp [hd] at hconf
    | some v =>
      simp [hd] at hconf
      simp [structF, resolvable, hcan, structLeaf, hd, unstrF, unstrLeaf, unstrIso, tbl_time.2, hconf, normaliseF]
  | uuid =>
    cases j <;> simp [leafConforms] at hconf
    rename_i s
    simp only [LeafCodec.canon] at hconf
    cases hd : c.uuid.decode s with
    | none => simp [hd] at hconf
    | some v =>
      simp [hd] at hconf
      simp [structF, resolvable, hcan, structLeaf, hd, unstrF, unstrLeaf, tbl_uuid.2, hconf, normaliseF]

end Pog

namespace Pog

theorem conformsF_pos (c : Codecs) (decls : Decls) (n : Nat) (t : Ty) (j : JsonV)
    (h : conformsF c n decls t j = true) : ∃ m, n = m + 1 := by
  cases n with
  | zero => simp [conformsF] at h
  | succ m => exact ⟨m, rfl⟩

theorem roundtrip_any (c : Codecs) (reg : List Str) (decls : Decls) (n : Nat) (j : JsonV)
    (h : conformsF c (n + 1) decls .any j = true) : RoundTrips c reg decls (n + 1) .any j := by
  simp only [conformsF, resolvable, Bool.true_and] at h
  refine ⟨Val.ofJson j, by simp [structF, resolvable], ?_, (ofJson_none_iff j).mp⟩
  simp only [unstrF, normaliseF]
  exact unstr_dyn_ofJson c reg decls n j h

theorem roundtrip_enum (c : Codecs) (reg : List Str) (decls : Decls) (n : Nat) (name : Str) (ms : List JsonV)
    (j : JsonV) (h : conformsF c (n + 1) decls (.enum name ms) j = true) :
    RoundTrips c reg decls (n + 1) (.enum name ms) j := by
  simp only [conformsF, resolvable, Bool.true_and, Bool.and_eq_true] at h
  refine ⟨.enum name j, by simp [structF, resolvable, enumLookup_self ms j h.1 h.2], ?_, by simp⟩
  simp only [unstrF, normaliseF]
  split <;> simp [identityJson, Val.toJson?]

theorem roundtrip_list (c : Codecs) (reg : List Str) (decls : Decls) (n : Nat) (t : Ty) (j : JsonV)
    (ih : ∀ t j, conformsF c n decls t j = true → RoundTrips c reg decls n t j)
    (h : conformsF c (n + 1) decls (.list t) j = true) : RoundTrips c reg decls (n + 1) (.list t) j := by
  simp only [conformsF, resolvable, Bool.and_eq_true] at h
  obtain ⟨hres, h⟩ := h
  cases j with
  | arr xs =>
    simp only [List.all_eq_true] at h
    obtain ⟨vs, hvs, hus⟩ := structItems_roundtrip (structF c n decls t) (unstrF c n reg decls (some t))
      (normaliseF n decls t) xs (fun x hx => by
        obtain ⟨v, h1, h2, _⟩ := ih t x (h x hx); exact ⟨v, h1, h2⟩)
    refine ⟨.list vs, ?_, ?_, by simp⟩
    · rw [structF_list]; simp [hres, structList, hvs]
    · simp [unstrF, normaliseF, hus, Except.map]
  | _ => simp at h

theorem roundtrip_dict (c : Codecs) (reg : List Str) (decls : Decls) (n : Nat) (t : Ty) (j : JsonV)
    (ih : ∀ t j, conformsF c n decls t j = true → RoundTrips c reg decls n t j)
    (h : conformsF c (n + 1) decls (.dict t) j = true) : RoundTrips c reg decls (n + 1) (.dict t) j := by
  simp only [conformsF, resolvable, Bool.and_eq_true] at h
  obtain ⟨hres, h⟩ := h
  cases j with
  | obj kvs =>
    simp only [Bool.and_eq_true, decide_eq_true_eq, List.all_eq_true] at h
    obtain ⟨hnd, h⟩ := h
    obtain ⟨vs, hvs, hks, hus⟩ := structDictItems_roundtrip (structF c n decls t) (unstrF c n reg decls (some t))
      (normaliseF n decls t) kvs (fun kv hkv => by
        obtain ⟨v, h1, h2, _⟩ := ih t kv.2 (h kv hkv); exact ⟨v, h1, h2⟩)
    refine ⟨.dict vs, ?_, ?_, by simp⟩
    · rw [structF_dict]; simp [hres, structDict, hvs, aofPairs_of_nodup vs (hks ▸ hnd)]
    · simp [unstrF, normaliseF, hus, Except.map]
  | _ => simp at h

end Pog

namespace Pog

theorem conformsF_dc_obj (c : Codecs) (decls : Decls) (n : Nat) (t : Ty) (j : JsonV)
    (hdc : isDcTy t = true) (h : conformsF c n decls t j = true) : isObj j = true := by
  cases t <;> simp [isDcTy] at hdc
  obtain ⟨m, rfl⟩ := conformsF_pos c decls n _ j h
  simp only [conformsF, resolvable, Bool.true_and] at h
  split at h
  · simp at h
  · cases j <;> simp_all [isObj]

/-- `dict[str, Any]` structures a conforming object to the object itself. -/
theorem structF_dictAny (c : Codecs) (decls : Decls) (n : Nat) (j : JsonV) (v : Val)
    (h : conformsF c n decls (.dict .any) j = true) (hv : structF c n decls (.dict .any) j = .ok v) :
    isObj j = true ∧ v = Val.ofJson j := by
  obtain ⟨m, rfl⟩ := conformsF_pos c decls n _ j h
  simp only [conformsF, resolvable, Bool.true_and] at h
  cases j with
  | obj kvs =>
    simp only [Bool.and_eq_true, decide_eq_true_eq, List.all_eq_true] at h
    obtain ⟨hnd, h⟩ := h
    refine ⟨rfl, ?_⟩
    have hitems : structDictItems (structF c m decls .any) kvs = (Val.ofJsonKvs kvs, []) := by
      clear hv hnd
      induction kvs with
      | nil => rfl
      | cons kv rest ih =>
        obtain ⟨k, x⟩ := kv
        have hx := h (k, x) (by simp)
        obtain ⟨m', rfl⟩ := conformsF_pos c decls m _ _ hx
        have hs : structF c (m' + 1) decls .any x = .ok (Val.ofJson x) := by simp [structF, resolvable]
        simp [structDictItems, hs, ih (fun y hy => h y (by simp [hy])), Val.ofJsonKvs]
    rw [structF_dict] at hv
    simp only [resolvable, if_true, structDict, hitems, List.isEmpty_nil] at hv
    have hk : akeys (Val.ofJsonKvs kvs) = akeys kvs := by
      rw [ofJsonKvs_eq_map]; simp [akeys, List.map_map, Function.comp_def]
    rw [aofPairs_of_nodup _ (hk ▸ hnd)] at hv
    cases hv
    simp [Val.ofJson]
  | _ => simp at h

theorem isDictAny_eq (t : Ty) (h : isDictAny t = true) : t = .dict .any := by
  cases t with
  | dict t' => cases t' <;> simp_all [isDictAny]
  | _ => simp [isDictAny] at h

theorem roundtrip_optional (c : Codecs) (reg : List Str) (decls : Decls) (n : Nat) (t : Ty) (j : JsonV)
    (ih : ∀ t j, conformsF c n decls t j = true → RoundTrips c reg decls n t j)
    (h : conformsF c (n + 1) decls (.optional t) j = true) : RoundTrips c reg decls (n + 1) (.optional t) j := by
  simp only [conformsF, resolvable, Bool.true_and, Bool.or_eq_true, beq_iff_eq] at h
  by_cases hj : j = .null
  · subst hj
    refine ⟨.none, ?_, ?_, fun _ => rfl⟩
    · rw [structF_optional, structUnion_optional_null]
    · simp [unstrF, normaliseF]
  · have hc : conformsF c n decls t j = true := by
      rcases h with h | h
      · exact absurd h hj
      · exact h
    obtain ⟨v, hs, hu, hnone⟩ := ih t j hc
    have hvn : v ≠ .none := fun e => hj (hnone e)
    have hnt : isNoneTy t = false := by
      obtain ⟨m, rfl⟩ := conformsF_pos c decls n _ j hc
      cases t <;> simp_all [isNoneTy, conformsF, resolvable]
    refine ⟨v, ?_, ?_, fun e => absurd e hvn⟩
    · rw [structF_optional]
      apply structUnion_optional_ok _ t j v hj hs hnt
      · exact fun hdc => conformsF_dc_obj c decls n t j hdc hc
      · intro hda
        have := isDictAny_eq t hda
        subst this
        exact structF_dictAny c decls n j v hc hs
    · simp only [unstrF, normaliseF]
      cases v with
      | none => exact absurd rfl hvn
      | _ => simp [hj, hu]

end Pog

namespace Pog

theorem roundtrip_dc (c : Codecs) (reg : List Str) (decls : Decls) (hwf : declsOk decls = true)
    (hreg : allRegistered reg decls = true) (n : Nat) (name : Str) (j : JsonV)
    (ih : ∀ t j, conformsF c n decls t j = true → RoundTrips c reg decls n t j)
    (h : conformsF c (n + 1) decls (.dc name) j = true) : RoundTrips c reg decls (n + 1) (.dc name) j := by
  simp only [conformsF, resolvable, Bool.true_and] at h
  cases hcd : aget decls name with
  | none => simp [hcd] at h
  | some cd =>
    simp only [hcd] at h
    cases j with
    | obj kvs =>
      simp only [Bool.and_eq_true, decide_eq_true_eq, List.all_eq_true] at h
      obtain ⟨⟨⟨hnd, _hkeys⟩, hres⟩, hfields⟩ := h
      have hok := declsOk_get decls name cd hwf hcd
      have hrg := allRegistered_get reg decls name cd hreg hcd
      simp only [classOk, Bool.and_eq_true, decide_eq_true_eq, List.all_eq_true, beq_iff_eq] at hok
      obtain ⟨⟨hpn, hlk⟩, hld⟩ := hok
      -- the value and the normalised JSON of every field
      let fv : Field → Val := fun f =>
        match aget kvs (loadKey cd f) with
        | some x => (match structF c n decls f.ty x with | .ok v => v | .error _ => .none)
        | none => fieldDefault f.dflt
      let nm : Field → JsonV := fun f =>
        match aget kvs (loadKey cd f) with
        | some x => normaliseF n decls f.ty x
        | none => dfltJson f.dflt
      have hS : structFields (structF c n decls) cd (.obj kvs) cd.fields
          = some (cd.fields.map (fun f => (f.pyName, fv f)), []) := by
        apply structFields_ok
        intro f hf
        have hc := hfields f hf
        cases hk : aget kvs (loadKey cd f) with
        | some x =>
          simp only [hk] at hc
          obtain ⟨v, hs, _, _⟩ := ih f.ty x hc
          simp only [fv, hk, hs]
        | none =>
          simp only [hk, Bool.and_eq_true, bne_iff_ne, ne_eq] at hc
          exact ⟨hc.1.1, by simp only [fv, hk]⟩
      have hU : unstrFields (fun ft v => unstrF c n reg decls (some ft) v) cd true
          (cd.fields.map (fun f => (f.pyName, fv f))) cd.fields
          = .ok (cd.fields.map (fun f => (dumpKey cd f, nm f))) := by
        apply unstrFields_ok cd _ fv nm
        · intro f hf
          exact aget_map_of_nodup cd.fields Field.pyName fv hpn f hf
        · intro f hf
          have hc := hfields f hf
          cases hk : aget kvs (loadKey cd f) with
          | some x =>
            simp only [hk] at hc
            obtain ⟨v, hs, hu, _⟩ := ih f.ty x hc
            simp only [fv, nm, hk, hs, hu]
          | none =>
            simp only [hk, Bool.and_eq_true, bne_iff_ne, ne_eq, decide_eq_true_eq] at hc
            simp only [fv, nm, hk]
            exact unstr_default c reg decls n f.dflt f.ty hc.1.1 hc.1.2 hc.2
      refine ⟨.inst name (cd.fields.map (fun f => (f.pyName, fv f))), ?_, ?_, by simp⟩
      · rw [structF_dc]
        have hres' : cd.fields.all (fun f => resolvable f.ty) = true := by
          simp only [List.all_eq_true]; exact hres
        simp [structClass, hcd, hres', hS]
      · have hkeys : akeys (cd.fields.map (fun f => (dumpKey cd f, nm f))) = cd.fields.map (loadKey cd) := by
          simp only [akeys, List.map_map, Function.comp_def]
          exact List.map_congr_left (fun f hf => (hld f hf).symm)
        simp only [unstrF, hcd, Val.attrs, hrg, hU, Except.map, normaliseF]
        rw [aofPairs_of_nodup _ (hkeys ▸ hlk)]
        rfl
    | _ => simp at h

/-- C16 `decode_encode`, the induction. -/
theorem roundtrip_core (c : Codecs) (reg : List Str) (decls : Decls) (hwf : declsOk decls = true)
    (hreg : allRegistered reg decls = true) :
    ∀ n t j, conformsF c n decls t j = true → RoundTrips c reg decls n t j := by
  intro n
  induction n with
  | zero => intro t j h; simp [conformsF] at h
  | succ n ih =>
    intro t j h
    cases t with
    | leaf l => exact roundtrip_leaf c reg decls n l j h
    | any => exact roundtrip_any c reg decls n j h
    | none => simp [conformsF, resolvable] at h
    | fwd _ => simp [conformsF, resolvable] at h
    | union _ _ => simp [conformsF] at h
    | list t' => exact roundtrip_list c reg decls n t' j ih h
    | dict t' => exact roundtrip_dict c reg decls n t' j ih h
    | optional t' => exact roundtrip_optional c reg decls n t' j ih h
    | enum name ms => exact roundtrip_enum c reg decls n name ms j h
    | dc name => exact roundtrip_dc c reg decls hwf hreg n name j ih h

end Pog

namespace Pog

/-! ## error reporting -/

theorem structFields_obj (rec : Ty → JsonV → Except SErr Val) (cd : ClassDecl) (kvs : List (Str × JsonV))
    (fs : List Field) :
    structFields rec cd (.obj kvs) fs
      = some (fs.filterMap (fieldValue rec cd kvs), fs.filterMap (fieldError rec cd kvs)) := by
  induction fs with
  | nil => rfl
  | cons f fs ih =>
    cases hk : aget kvs (loadKey cd f) with
    | some x =>
      cases hr : rec f.ty x <;> cases hd : f.dflt <;>
        simp [structFields, pyContains, pyGetItem, hk, hd, hr, ih, fieldValue, fieldError, fieldOutcome]
    | none =>
      cases hd : f.dflt <;>
        simp [structFields, pyContains, pyGetItem, hk, hd, ih, fieldValue, fieldError, fieldOutcome]

/-- A dict payload for a dataclass: success iff no field fails; otherwise a `ClassValidationError` listing exactly
    the failing fields, in declaration order, each under its PYTHON attribute name. -/
theorem structClass_obj (rec : Ty → JsonV → Except SErr Val) (decls : Decls) (name : Str) (cd : ClassDecl)
    (kvs : List (Str × JsonV)) (hcd : aget decls name = some cd)
    (hres : cd.fields.all (fun f => resolvable f.ty) = true) :
    structClass rec decls name (.obj kvs) =
      if (cd.fields.filterMap (fieldError rec cd kvs)).isEmpty
      then .ok (.inst name (cd.fields.filterMap (fieldValue rec cd kvs)))
      else .error (.cls name (cd.fields.filterMap (fieldError rec cd kvs))) := by
  simp [structClass, hcd, hres, structFields_obj]

theorem extractCls_paths (errs : List (Str × SErr)) :
    ∀ pk ∈ extractCls errs [], ∃ fe ∈ errs, pk ∈ extractErrors fe.2 fe.1 := by
  induction errs with
  | nil => simp [extractCls]
  | cons fe rest ih =>
    obtain ⟨f, e⟩ := fe
    intro pk hpk
    simp only [extractCls, List.isEmpty_nil, if_true, List.mem_append] at hpk
    rcases hpk with h | h
    · exact ⟨(f, e), by simp, h⟩
    · obtain ⟨fe', hm, hp⟩ := ih pk h
      exact ⟨fe', by simp [hm], hp⟩

mutual
theorem extractErrors_prefix : ∀ (e : SErr) (p : Str), ∀ pk ∈ extractErrors e p, p <+: pk.1
  | .leaf k, p => by simp [extractErrors]
  | .cls _ subs, p => by
    intro pk h
    exact extractCls_prefix subs p pk (by simpa [extractErrors] using h)
  | .iter subs, p => by
    intro pk h
    have := extractIter_prefix subs (p ++ "[]".toList) pk (by simpa [extractErrors] using h)
    exact List.IsPrefix.trans (List.prefix_append p _) this
theorem extractCls_prefix : ∀ (subs : List (Str × SErr)) (p : Str), ∀ pk ∈ extractCls subs p, p <+: pk.1
  | [], p => by simp [extractCls]
  | (f, e) :: rest, p => by
    intro pk h
    simp only [extractCls, List.mem_append] at h
    rcases h with h | h
    · have := extractErrors_prefix e _ pk h
      by_cases hp : p.isEmpty = true
      · have : p = [] := by simpa using hp
        subst this; exact List.nil_prefix
      · simp only [hp] at this
        exact List.IsPrefix.trans (List.prefix_append p _) this
    · exact extractCls_prefix rest p pk h
theorem extractIter_prefix : ∀ (subs : List SErr) (p : Str), ∀ pk ∈ extractIter subs p, p <+: pk.1
  | [], p => by simp [extractIter]
  | e :: rest, p => by
    intro pk h
    simp only [extractIter, List.mem_append] at h
    rcases h with h | h
    · exact extractErrors_prefix e p pk h
    · exact extractIter_prefix rest p pk h
end

end Pog

/-! ## C03's tolerance -/
namespace Pog

theorem aget_of_mem_nodup {α : Type} (d : List (Str × α)) (k : Str) (v : α) (hnd : (akeys d).Nodup)
    (h : (k, v) ∈ d) : aget d k = some v := by
  induction d with
  | nil => cases h
  | cons kv rest ih =>
    obtain ⟨k', v'⟩ := kv
    simp only [akeys, List.map_cons, List.nodup_cons] at hnd
    simp only [aget]
    rcases List.mem_cons.mp h with e | hm
    · cases e; simp
    · have hne : ¬ k' = k := fun e => hnd.1 (e ▸ List.mem_map_of_mem (f := Prod.fst) hm)
      simp only [hne, if_false]
      exact ih hnd.2 hm

theorem toleratedKvs_of (sub out : List (Str × JsonV))
    (h : ∀ kv ∈ sub, ∃ v', aget out kv.1 = some v' ∧ tolerated kv.2 v' = true) : toleratedKvs sub out = true := by
  induction sub with
  | nil => simp [toleratedKvs]
  | cons kv rest ih =>
    obtain ⟨k, v⟩ := kv
    obtain ⟨v', h1, h2⟩ := h (k, v) (by simp)
    simp only [toleratedKvs, h1, h2, Bool.true_and]
    exact ih (fun kv hkv => h kv (by simp [hkv]))

theorem toleratedList_map (xs : List JsonV) (f : JsonV → JsonV) (h : ∀ x ∈ xs, tolerated x (f x) = true) :
    toleratedList xs (xs.map f) = true := by
  induction xs with
  | nil => simp [toleratedList]
  | cons x xs ih =>
    simp only [List.map_cons, toleratedList, h x (by simp), Bool.true_and]
    exact ih (fun y hy => h y (by simp [hy]))

theorem tolerated_refl_of_fits (n : Nat) (j : JsonV) (h : jsonFits n j = true) : tolerated j j = true := by
  induction n generalizing j with
  | zero => simp [jsonFits] at h
  | succ n ih =>
    cases j with
    | null => simp [tolerated]
    | bool b => simp [tolerated]
    | int i => simp [tolerated]
    | str s => simp [tolerated]
    | arr xs =>
      simp only [jsonFits, List.all_eq_true] at h
      have := toleratedList_map xs id (fun x hx => ih x (h x hx))
      simpa [tolerated] using this
    | obj kvs =>
      simp only [jsonFits, List.all_eq_true, Bool.and_eq_true, decide_eq_true_eq] at h
      simp only [tolerated, Bool.and_eq_true, List.all_eq_true, Bool.or_eq_true]
      refine ⟨toleratedKvs_of kvs kvs (fun kv hkv => ⟨kv.2, aget_of_mem_nodup kvs kv.1 kv.2 h.1 hkv, ih kv.2 (h.2 kv hkv)⟩), ?_⟩
      intro kv hkv
      exact Or.inl (by rw [aget_of_mem_nodup kvs kv.1 kv.2 h.1 hkv]; rfl)

end Pog

namespace Pog

theorem tolerated_scalar_refl (j : JsonV) (h : (match j with | .arr _ => false | .obj _ => false | _ => true) = true) :
    tolerated j j = true := by
  cases j <;> simp_all [tolerated]

theorem dfltJson_emptyish (d : Dflt) : (dfltJson d).isEmptyish = true := by
  cases d <;> rfl

/-- C03's tolerance holds between a conforming document and its normal form. -/
theorem tolerated_normalise (c : Codecs) (decls : Decls) (hwf : declsOk decls = true) :
    ∀ n t j, conformsF c n decls t j = true → tolerated j (normaliseF n decls t j) = true := by
  intro n
  induction n with
  | zero => intro t j h; simp [conformsF] at h
  | succ n ih =>
    intro t j h
    cases t with
    | leaf l =>
      simp only [conformsF, Bool.and_eq_true] at h
      have hconf := h.2.2
      simp only [normaliseF]
      cases l <;> cases j <;> first | (simp [leafConforms] at hconf; done) | simp [tolerated]
    | any =>
      simp only [conformsF, resolvable, Bool.true_and] at h
      simp only [normaliseF]
      exact tolerated_refl_of_fits n j h
    | none => simp [conformsF, resolvable] at h
    | fwd _ => simp [conformsF, resolvable] at h
    | union _ _ => simp [conformsF] at h
    | enum name ms =>
      simp only [conformsF, resolvable, Bool.true_and, Bool.and_eq_true] at h
      simp only [normaliseF]
      have hmem : j ∈ ms := by simpa using h.2
      have hok := h.1
      simp only [enumOk, Bool.or_eq_true, List.all_eq_true] at hok
      rcases hok with hs | hi
      · have := hs j hmem; cases j <;> simp_all [JsonV.isStr, tolerated]
      · have := hi j hmem; cases j <;> simp_all [JsonV.isInt, tolerated]
    | list t' =>
      simp only [conformsF, Bool.and_eq_true] at h
      cases j with
      | arr xs =>
        simp only [List.all_eq_true] at h
        simp only [normaliseF, tolerated]
        exact toleratedList_map xs _ (fun x hx => ih t' x (h.2 x hx))
      | _ => simp at h
    | dict t' =>
      simp only [conformsF, Bool.and_eq_true] at h
      cases j with
      | obj kvs =>
        simp only [Bool.and_eq_true, decide_eq_true_eq, List.all_eq_true] at h
        obtain ⟨_, hnd, hv⟩ := h
        simp only [normaliseF, tolerated, Bool.and_eq_true, List.all_eq_true, Bool.or_eq_true]
        refine ⟨toleratedKvs_of kvs _ (fun kv hkv => ⟨normaliseF n decls t' kv.2, ?_, ih t' kv.2 (hv kv hkv)⟩), ?_⟩
        · exact aget_map_of_nodup kvs Prod.fst (fun kv => normaliseF n decls t' kv.2) hnd kv hkv
        · intro kv hkv
          obtain ⟨kv0, hkv0, rfl⟩ := List.mem_map.mp hkv
          exact Or.inl (by rw [aget_of_mem_nodup kvs kv0.1 kv0.2 hnd hkv0]; rfl)
      | _ => simp at h
    | optional t' =>
      simp only [conformsF, resolvable, Bool.true_and, Bool.or_eq_true, beq_iff_eq] at h
      simp only [normaliseF]
      by_cases hj : j = .null
      · subst hj; simp [tolerated]
      · have hc : conformsF c n decls t' j = true := by
          rcases h with h | h
          · exact absurd h hj
          · exact h
        simp only [beq_iff_eq, hj, if_false]
        exact ih t' j hc
    | dc name =>
      simp only [conformsF, resolvable, Bool.true_and] at h
      cases hcd : aget decls name with
      | none => simp [hcd] at h
      | some cd =>
        simp only [hcd] at h
        cases j with
        | obj kvs =>
          simp only [Bool.and_eq_true, decide_eq_true_eq, List.all_eq_true, List.any_eq_true, beq_iff_eq] at h
          obtain ⟨⟨⟨hnd, hkeys⟩, _⟩, hfields⟩ := h
          have hok := declsOk_get decls name cd hwf hcd
          simp only [classOk, Bool.and_eq_true, decide_eq_true_eq, List.all_eq_true, beq_iff_eq] at hok
          obtain ⟨⟨_, hlk⟩, hld⟩ := hok
          have hdk : (cd.fields.map (dumpKey cd)).Nodup := by
            have : cd.fields.map (dumpKey cd) = cd.fields.map (loadKey cd) :=
              List.map_congr_left (fun f hf => (hld f hf).symm)
            rw [this]; exact hlk
          have hnorm : normaliseF (n + 1) decls (.dc name) (.obj kvs) = .obj (cd.fields.map (fun f =>
              (dumpKey cd f, match aget kvs (loadKey cd f) with
                | some x => normaliseF n decls f.ty x
                | none => dfltJson f.dflt))) := by
            simp only [normaliseF, hcd]
            rfl
          rw [hnorm]
          simp only [tolerated, Bool.and_eq_true, List.all_eq_true, Bool.or_eq_true]
          refine ⟨toleratedKvs_of kvs _ ?_, ?_⟩
          · intro kv hkv
            obtain ⟨f, hf, hfk⟩ := hkeys kv.1 (List.mem_map_of_mem (f := Prod.fst) hkv)
            have hget : aget kvs (loadKey cd f) = some kv.2 := by
              rw [hfk]; exact aget_of_mem_nodup kvs kv.1 kv.2 hnd hkv
            refine ⟨normaliseF n decls f.ty kv.2, ?_, ?_⟩
            · have := aget_map_of_nodup cd.fields (dumpKey cd)
                (fun f => match aget kvs (loadKey cd f) with
                  | some x => normaliseF n decls f.ty x
                  | none => dfltJson f.dflt) hdk f hf
              rw [← hfk, hld f hf]
              exact this.trans (by rw [hget])
            · have := hfields f hf
              rw [hget] at this
              exact ih f.ty kv.2 this
          · intro kv hkv
            obtain ⟨f, hf, rfl⟩ := List.mem_map.mp hkv
            simp only
            cases hk : aget kvs (loadKey cd f) with
            | some x => exact Or.inl (by rw [← hld f hf, hk]; rfl)
            | none => exact Or.inr (dfltJson_emptyish f.dflt)
        | _ => simp at h

end Pog

namespace Pog

/-! ## the hook registry -/

/-- The registry matters only as a SET: two registries with the same members (whatever the order in which the hooks
    were registered, however often) give the same result. -/
theorem unstrF_reg_congr (c : Codecs) (decls : Decls) (reg1 reg2 : List Str)
    (h : ∀ x, reg1.contains x = reg2.contains x) :
    ∀ n t v, unstrF c n reg1 decls t v = unstrF c n reg2 decls t v := by
  intro n
  induction n with
  | zero => intro t v; rfl
  | succ n ih =>
    intro t v
    have ihf : ∀ t, unstrF c n reg1 decls t = unstrF c n reg2 decls t := fun t => funext (ih t)
    cases t with
    | none =>
      cases v <;> simp only [unstrF, ihf]
    | some t =>
      cases t <;> simp only [unstrF, ihf, h]
      all_goals (first | rfl | (split <;> simp only [ihf, h]))


end Pog
