#!/venv/bin/python
"""C18 — "stream decoders are independent of how the bytes are chunked".

Importable correspondence/oracle module (no work and no `pyopenapi_gen` import at import time).

  run(seed, scale, driver)  Lean model (Pog/Model/Stream.lean through the compiled driver) versus the REAL code:
                            pyopenapi_gen.core.streaming_helpers.{iter_sse, iter_sse_events_text, iter_ndjson} and
                            Response.aiter_lines on a real httpx.Response whose body is an AsyncByteStream yielding the
                            chosen byte chunks; httpx's LineDecoder; codecs' incremental UTF-8 decoder; str.splitlines;
                            str.strip/lstrip; _parse_sse_event.
  oracle(seed, scale)       the property itself on the real helpers, no Lean: chunked == unsplit ("chunking-dependent")
                            and unsplit == a tiny independent reference ("sse-spec").
  replay(case)              re-run one oracle case ({"chunks_hex": [...]}); True iff it still violates the property.

`python corr_c18.py [driver]` prints the summary, `N disagreements` and the oracle's failure counts per class.
"""
import asyncio
import codecs
import json
import os
import random
import subprocess
import sys
import time

DEFAULT_DRIVER = os.environ.get("POG_DRIVER", "/verif/lean/.lake/build/bin/driver")

# ---------------------------------------------------------------- fixed material (no randomness here)
TERMS = ["\n", "\r", "\r\n", "\x0b", "\x0c", "\x1c", "\x1d", "\x1e", "\x85", "\u2028", "\u2029"]
SSE_TOK = ["data", "data:", "data: ", "event:", "event: ", "id:", "id: ", "retry:", "retry: 5", ":", ": c", " ", "\t", "x", "yz",
           "é", "漢", "\u2028", "\x85", "\xa0", "\u3000", "\U0001F600", "\n", "\n", "\n\n", "\r", "\r\n", "\r\n\r\n", "\r\r",
           "foo", "data:a", "data:  b ", "datax:1", "Data:1"]
ND_TOK = ['{"a": 1}', '[1, 2]', '"é漢"', "3", "null", '{"k": "v w"}', " ", "\t", "\xa0", "\n", "\r\n", "\r", "\n\n", "\u2028",
          "\x85", '"\U0001F600"', "{bad", "\u3000"]
# hand-picked short streams (every one is kept at every scale)
SHORT = ["data: é\r\n\r\n", "data:a\n\ndata:b", ":c\ndata:x\r\r", "a\r\nb", "\r\n\r\n", "d\u2028\n", "data:\n\n", "data\n\n",
         "id:1\nid:2\n\n", "\r", "\n", "\r\r\n", "漢\r\n\x85é", "data: \u2028x", "x:\xa0 y\r\n", "event:e\rid:", "{\"a\":1}\r\n[2]",
         " 3 \r\n\t4", "\u2028\u2029", "é", "a\x1c\rb\x0b", "data:1\r\n\r", "\n\r\n\r", "", "data: a\ndata", ": \n\n:\n",
         "😀\r\n😀", "a\r", "ab\rc", "\r\nx"]
# hand-picked longer streams (random chunkings)
LONG = ["event: add\r\ndata: {\"k\": \"é\"}\r\nid: 1\r\n\r\n: keep-alive\r\n\r\ndata: line1\r\ndata: line2\r\n\r\ndata: tail",
        "data:漢字\n\ndata: \n\nretry: 10\ndata: r\n\n",
        "{\"a\": 1}\r\n\r\n  [1, 2]  \r\n\"😀\"\n3",
        ":only a comment\n\nnocolon\n\ndata: x\rdata: y\r\r",
        "data: a\u2028b\n\ndata: c\x85d\n\n"]
ERR = "<<json error>>"


def _cap(b: bytes, n: int = 12) -> bytes:
    return b if len(b) <= n else b[:n].decode("utf-8", errors="ignore").encode("utf-8")


def _rand_text(rng, tokens, n):
    return "".join(rng.choice(tokens) for _ in range(n))


def _chunking_of_mask(b: bytes, mask: int):
    n = len(b)
    cuts = [i + 1 for i in range(n - 1) if mask >> i & 1]
    pts = [0] + cuts + [n]
    return [b[pts[i]:pts[i + 1]] for i in range(len(pts) - 1)]


def _all_chunkings(b: bytes):
    for mask in range(1 << max(len(b) - 1, 0)):
        yield _chunking_of_mask(b, mask)


def _sampled_chunkings(rng, b: bytes, k: int):
    """All chunkings when there are at most k, else k distinct seeded ones (always incl. unsplit and byte-by-byte)."""
    total = 1 << max(len(b) - 1, 0)
    if total <= k:
        yield from _all_chunkings(b)
        return
    masks = {0, total - 1}
    while len(masks) < k:
        masks.add(rng.randrange(total))
    for m in sorted(masks):
        yield _chunking_of_mask(b, m)


def _random_chunking(rng, b: bytes):
    n = len(b)
    k = rng.choice([0, 1, 2, 3, 5, 8, n])
    cuts = sorted(rng.randrange(0, n + 1) for _ in range(k)) if n else []
    pts = [0] + cuts + [n]
    ch = [b[pts[i]:pts[i + 1]] for i in range(len(pts) - 1)]  # may contain empty chunks (repeated cuts)
    if rng.random() < 0.5:
        ch = [c for c in ch if c]
    return ch


def _features(b: bytes, chunks) -> set:
    """Which kinds of interesting split points the chunking has (split points strictly inside the stream)."""
    f = set()
    pos = 0
    for c in chunks[:-1]:
        pos += len(c)
        if not 0 < pos < len(b):
            continue
        if b[pos] & 0xC0 == 0x80:
            f.add("split_in_multibyte")
        if b[pos - 1] == 13 and b[pos] == 10:
            f.add("split_in_crlf")
        ls = b[:pos].decode("utf-8", errors="ignore").splitlines()
        if ls and ls[-1] != "":  # the prefix ends inside a block of non-empty lines: the event is still open
            f.add("split_in_event")
    return f


# ---------------------------------------------------------------- real code (imports deferred)
_real = {}


def _impl():
    if not _real:
        import httpx
        from httpx._decoders import LineDecoder
        from pyopenapi_gen.core import streaming_helpers as sh

        class ChunkStream(httpx.AsyncByteStream):
            def __init__(self, chunks):
                self.chunks = chunks

            async def __aiter__(self):
                for c in self.chunks:
                    yield c

        def resp(chunks):
            return httpx.Response(200, stream=ChunkStream(list(chunks)))

        _real.update(httpx=httpx, LineDecoder=LineDecoder, sh=sh, resp=resp)
    return _real


def _ev(e, retry=False):
    d = {"data": e.data, "event": e.event, "id": e.id}
    if retry:
        d["retry"] = e.retry
    return d


async def _real_all(chunks, retry=False, with_bytes=False):
    R = _impl()
    sh, resp = R["sh"], R["resp"]
    out = {}
    out["sse"] = [_ev(e, retry) async for e in sh.iter_sse(resp(chunks))]
    out["text"] = [t async for t in sh.iter_sse_events_text(resp(chunks))]
    nd = []
    try:
        async for item in sh.iter_ndjson(resp(chunks)):
            nd.append(item)
    except ValueError:
        nd.append(ERR)
    out["ndjson"] = nd
    if with_bytes:
        out["bytes_hex"] = b"".join([c async for c in sh.iter_bytes(resp(chunks))]).hex()
    else:
        out["lines"] = [l async for l in resp(chunks).aiter_lines()]
    return out


def _ndjson_view(model_lines):
    """What iter_ndjson yields from the model's stripped non-empty lines (json.loads is not modelled)."""
    if not isinstance(model_lines, list):
        return model_lines
    out = []
    for l in model_lines:
        try:
            out.append(json.loads(l))
        except ValueError:
            out.append(ERR)
            break
    return out


def _text_chunks(chunks):
    dec = codecs.getincrementaldecoder("utf-8")(errors="replace")
    texts = [dec.decode(c) for c in chunks]
    return texts, list(dec.getstate()[0])


# ---------------------------------------------------------------- driver (batched; the driver answers at EOF)
def _drive(driver: str, reqs, batch: int = 50000):
    replies = []
    for i in range(0, len(reqs), batch):
        part = reqs[i:i + batch]
        inp = "".join(json.dumps(r, ensure_ascii=True) + "\n" for r in part)
        out = subprocess.run([driver], input=inp.encode(), stdout=subprocess.PIPE, check=True).stdout.decode("utf-8")
        lines = out.split("\n")  # replies may contain raw U+2028/U+0085 inside strings: split on "\n" only
        if lines and lines[-1] == "":
            lines.pop()
        if len(lines) != len(part):
            raise RuntimeError(f"driver returned {len(lines)} replies for {len(part)} requests")
        replies.extend(json.loads(l) for l in lines)
    return replies


# ---------------------------------------------------------------- run
def run(seed: int, scale: float, driver: str) -> dict:
    return asyncio.run(_run(seed, scale, driver))


async def _run(seed, scale, driver):
    R = _impl()
    LineDecoder, sh = R["LineDecoder"], R["sh"]
    rng = random.Random(seed)
    cases = []  # (label, request, expected, post)  post: None | "ndjson"

    def want(label, f, args, expected, post=None):
        cases.append((label, {"f": f, "a": args}, expected, post))

    def N(base):
        return max(1, int(round(base * scale)))

    dist = {}

    def count(k, n=1):
        dist[k] = dist.get(k, 0) + n

    # 1. str.splitlines vs splitLines
    alpha = TERMS + ["a", "b", "", "é", " ", ":", "\x1f", "\x1b", "\x84", "\u2027", "\u202a", "\t"]
    for _ in range(N(150)):
        s = _rand_text(rng, alpha, rng.randrange(0, 14))
        want("splitlines", "splitLines", [s], s.splitlines())
    for t in TERMS:  # every pair of terminators
        for u in TERMS:
            want("splitlines2", "splitLines", [t + u], (t + u).splitlines())
            want("splitlines2", "splitLines", ["a" + t + u + "b"], ("a" + t + u + "b").splitlines())
    valid_cp = [cp for cp in range(0x110000) if not 0xD800 <= cp < 0xE000]
    special_break = [cp for cp in valid_cp if len(("a" + chr(cp) + "b").splitlines()) != 1]
    special_ws = [cp for cp in valid_cp if chr(cp).isspace()]
    sample = [rng.randrange(0, 0x10000) for _ in range(N(400))] + [rng.randrange(0x10000, 0x110000) for _ in range(N(40))]
    sample = [cp for cp in sample if not 0xD800 <= cp < 0xE000]
    near = {cp + d for cp in special_break + special_ws for d in (-1, 0, 1)}
    cps = sorted((set(range(0x100)) | near | set(sample) | {0xFEFF, 0x200B, 0x180E, 0xE000, 0x10000, 0x1F600, 0x10FFFF})
                 - set(range(0xD800, 0xE000)) - {-1, 0x110000})
    for cp in cps:
        s = "a" + chr(cp) + "b"
        want("splitlines-cp", "splitLines", [s], s.splitlines())
        s = chr(cp) + "a" + chr(cp)
        want("strip-cp", "stripWs", [s], s.strip())
        want("lstrip-cp", "lstripWs", [s], s.lstrip())
    count("code points swept (all special + neighbours + Latin-1 + seeded sample)", len(cps))
    count("code points special for str.splitlines", len(special_break))
    count("code points special for str.isspace", len(special_ws))
    for _ in range(N(30)):
        s = _rand_text(rng, [" ", "\t", "\xa0", "\u2003", "a", ":", "\n", "\x1f", "\u200b", "é"], rng.randrange(0, 8))
        want("strip", "stripWs", [s], s.strip())
        want("lstrip", "lstripWs", [s], s.lstrip())
    # 2. LineDecoder.decode on arbitrary states
    for _ in range(N(300)):
        buf = [_rand_text(rng, ["a", "b", "é", ":"], rng.randrange(1, 3)) for _ in range(rng.choice([0, 0, 1, 2]))]
        cr = rng.random() < 0.4
        text = _rand_text(rng, TERMS + ["\r", "\n", "a", "b", "é"], rng.randrange(1, 7))
        d = LineDecoder()
        d.buffer = list(buf)
        d.trailing_cr = cr
        out = d.decode(text)
        want("LineDecoder.decode", "ldDecode", [buf, cr, text], {"buffer": d.buffer, "cr": d.trailing_cr, "lines": out})
    # 3. LineDecoder over text chunk lists (decode* then flush)
    for _ in range(N(150)):
        s = _rand_text(rng, TERMS + ["\r", "\n", "\r\n", "a", "b", "é", ""], rng.randrange(0, 12))
        k = rng.randrange(0, 5)
        cuts = sorted(rng.randrange(0, len(s) + 1) for _ in range(k)) if s else []
        pts = [0] + cuts + [len(s)]
        chunks = [s[pts[j]:pts[j + 1]] for j in range(len(pts) - 1)]
        d = LineDecoder()
        out = []
        for c in chunks:
            if c:  # TextChunker drops empty strings
                out += d.decode(c)
        out += d.flush()
        want("LineDecoder chunks", "linesOf", [chunks], out)
    # 4. the real helpers on a real httpx.Response
    seen = set()
    nontrivial = set()
    samples = []

    async def stream_case(kind, b, chunks):
        key = (b, tuple(chunks))
        if key in seen:
            return
        seen.add(key)
        feats = _features(b, chunks) if len(chunks) >= 2 else set()
        count("stream cases: " + kind)
        if any(len(c) == 0 for c in chunks):
            count("with an empty chunk")
        for f in feats:
            count(f)
        if feats:
            nontrivial.add(key)
        real = await _real_all(chunks)
        bl = [list(c) for c in chunks]
        label = kind
        want(label + "/aiter_lines", "linesOfBytes", [bl], real["lines"])
        want(label + "/iter_sse", "sseOfBytes", [bl], real["sse"])
        want(label + "/iter_sse_events_text", "sseTextOfBytes", [bl], real["text"])
        want(label + "/iter_ndjson", "ndjsonOfBytes", [bl], real["ndjson"], "ndjson")
        texts, pending = _text_chunks(chunks)
        want(label + "/utf8Chunks", "utf8Chunks", [bl], {"texts": texts, "pending": pending})
        want(label + "/linesOf", "linesOf", [texts], real["lines"])
        want(label + "/iterSSE", "iterSSE", [real["lines"]], real["sse"])
        want(label + "/sseEventsText", "sseEventsText", [texts], real["text"])
        if feats and len(samples) < 6 and len(feats) >= 2 and rng.random() < 0.02:
            samples.append({"chunks_hex": [c.hex() for c in chunks], "features": sorted(feats), "iter_sse": real["sse"],
                            "iter_ndjson": real["ndjson"]})

    short = [s.encode("utf-8") for s in SHORT]
    short += [_rand_text(rng, SSE_TOK, rng.randrange(1, 5)).encode("utf-8") for _ in range(N(6))]
    short += [_rand_text(rng, ND_TOK, rng.randrange(1, 4)).encode("utf-8") for _ in range(N(3))]
    for b in short:
        b = _cap(b)
        for chunks in _all_chunkings(b):
            await stream_case("exhaustive", b, chunks)
    longs = [s.encode("utf-8") for s in LONG]
    for i in range(N(120)):
        longs.append(_rand_text(rng, SSE_TOK if i % 3 else ND_TOK, rng.randrange(3, 40)).encode("utf-8"))
    for b in longs:
        await stream_case("random", b, [b])
        for _ in range(3):
            await stream_case("random", b, _random_chunking(rng, b))
    # 5. _parse_sse_event on line lists directly
    for _ in range(N(150)):
        lines = [_rand_text(rng, SSE_TOK[:24] + ["data:", "event:", "id:", ":"], rng.randrange(0, 5))
                 for _ in range(rng.randrange(0, 6))]
        want("_parse_sse_event", "parseEvent", [lines], _ev(sh._parse_sse_event(lines)))

    replies = _drive(driver, [req for _, req, _, _ in cases])
    disagreements = []
    nbad = 0
    for (label, req, exp, post), got in zip(cases, replies):
        if post == "ndjson":
            got = _ndjson_view(got)
        if got != exp:
            nbad += 1
            if len(disagreements) < 50:
                disagreements.append({"label": label, "request": req, "model": got, "impl": exp})
    for k in ("splitlines", "LineDecoder", "_parse_sse_event"):
        count("comparisons: " + k, sum(1 for c in cases if c[0].startswith(k)))
    count("distinct (stream, chunking) cases", len(seen))
    if len(samples) < 3:
        for key in sorted(nontrivial)[:3]:
            samples.append({"chunks_hex": [c.hex() for c in key[1]], "features": sorted(_features(key[0], list(key[1])))})
    return {
        "comparisons": len(cases),
        "disagreements": disagreements,
        "n_disagreements": nbad,
        "nontrivial": len(nontrivial),
        "rule": ("Streams: 30 hand-picked short streams + seeded random token streams (SSE and NDJSON alphabets with \\n, \\r, "
                 "\\r\\n, ':', ' ', 'data', é, 漢, U+2028, U+0085, emoji, empty data lines, comments), capped at 12 bytes, EVERY "
                 "subset of split points; 5 hand-picked + seeded random long streams with 3 seeded random chunkings each (empty "
                 "chunks allowed). Each (stream, chunking) goes through a real httpx.Response(AsyncByteStream) into iter_sse, "
                 "iter_sse_events_text, iter_ndjson, aiter_lines and into the Lean model at byte and text level. Plus "
                 "str.splitlines / strip / lstrip (all special code points, neighbours, Latin-1, seeded sample), "
                 "LineDecoder.decode on arbitrary states, LineDecoder on text chunk lists, _parse_sse_event. "
                 "Non-trivial = distinct (stream, chunking) with >= 2 chunks and a split point strictly inside the stream that "
                 "falls inside a multi-byte character, between \\r and \\n, or inside an event (the prefix before the split ends "
                 "in a block of non-empty lines not yet closed by a blank line)."),
        "samples": samples[:6],
        "distribution": dist,
    }


# ---------------------------------------------------------------- oracle (no Lean)
def _reference(b: bytes):
    """Tiny independent reference for the unsplit stream: (events, texts)."""
    lines = b.decode("utf-8", errors="replace").splitlines()
    groups, cur = [], []
    for l in lines + [""]:  # the final unterminated block is delivered too
        if l == "":
            if cur:
                groups.append(cur)
            cur = []
        else:
            cur.append(l)
    events = []
    for g in groups:
        g = [l for l in g if not l.startswith(":")]  # comments ignored

        def vals(name):
            return [l[len(name) + 1:].lstrip() for l in g if l.startswith(name + ":")]

        ev, ids = vals("event"), vals("id")
        events.append({"data": "\n".join(vals("data")), "event": ev[-1] if ev else None, "id": ids[-1] if ids else None})
    return events, [e["data"] for e in events if e["data"]]


def _strip_retry(evs):
    return [{k: v for k, v in e.items() if k != "retry"} for e in evs]


async def _oracle_case(chunks, unsplit_cache=None):
    """Failures of one (stream, chunking) case."""
    b = b"".join(chunks)
    fails = []
    case = {"chunks_hex": [c.hex() for c in chunks]}
    base = unsplit_cache.get(b) if unsplit_cache is not None else None
    if base is None:
        base = await _real_all([b], retry=True, with_bytes=True)
        if unsplit_cache is not None:
            unsplit_cache[b] = base
    got = await _real_all(chunks, retry=True, with_bytes=True)
    for k in ("sse", "text", "ndjson", "bytes_hex"):
        exp = base[k] if k != "bytes_hex" else b.hex()
        if got[k] != exp:
            fails.append({"class": "chunking-dependent", "case": case, "observed": {k: got[k]}, "expected": {k: exp}})
    return fails, base


async def _collect(kind: str, chunks, suspend: bool, fail_after: int | None = None):
    """One helper over one response whose byte source suspends between chunks (so that concurrent decodes really interleave) and
    optionally dies with httpx.ReadError after `fail_after` chunks."""
    R = _impl()
    httpx, sh = R["httpx"], R["sh"]

    class S(httpx.AsyncByteStream):
        async def __aiter__(self):
            for i, c in enumerate(chunks):
                if fail_after is not None and i >= fail_after:
                    raise httpx.ReadError("connection dropped")
                if suspend:
                    await asyncio.sleep(0)
                yield c
    r = httpx.Response(200, stream=S())
    out = []
    try:
        if kind == "sse":
            async for e in sh.iter_sse(r):
                out.append(_ev(e, True))
        elif kind == "text":
            async for t in sh.iter_sse_events_text(r):
                out.append(t)
        else:
            async for item in sh.iter_ndjson(r):
                out.append(item)
    except httpx.ReadError:
        out.append("<ReadError>")
    except ValueError:
        out.append(ERR)
    return out


async def _cross_stream_failures(a_chunks, b_chunks, cache):
    """Decoding one response must not depend on other responses of the process: two streams decoded concurrently (their chunks
    interleave), and a stream decoded after another one died mid-event, give what each gives alone and unsplit."""
    fails = []
    a, b = b"".join(a_chunks), b"".join(b_chunks)
    for kind in ("sse", "text", "ndjson"):
        base_a = (cache.get(a) or await _real_all([a], retry=True, with_bytes=True))[kind]
        base_b = (cache.get(b) or await _real_all([b], retry=True, with_bytes=True))[kind]
        ga, gb = await asyncio.gather(_collect(kind, a_chunks, True), _collect(kind, b_chunks, True))
        case = {"scenario": "concurrent", "helper": kind, "a_chunks_hex": [c.hex() for c in a_chunks], "b_chunks_hex": [c.hex() for c in b_chunks]}
        if ga != base_a or gb != base_b:
            fails.append({"class": "cross-stream-state", "case": case, "observed": {"a": ga, "b": gb}, "expected": {"a": base_a, "b": base_b}})
        if len(a_chunks) >= 2:
            await _collect(kind, a_chunks, False, fail_after=max(1, len(a_chunks) // 2))
            gb2 = await _collect(kind, b_chunks, False)
            if gb2 != base_b:
                fails.append({"class": "cross-stream-state", "case": {**case, "scenario": "after-dropped-connection"}, "observed": {"b": gb2}, "expected": {"b": base_b}})
    return fails


def _spec_failures(b: bytes, base):
    fails = []
    case = {"chunks_hex": [b.hex()]}
    events, texts = _reference(b)
    if _strip_retry(base["sse"]) != events:
        fails.append({"class": "sse-spec", "case": case, "observed": {"sse": _strip_retry(base["sse"])}, "expected": {"sse": events}})
    if base["text"] != texts:
        fails.append({"class": "sse-spec", "case": case, "observed": {"text": base["text"]}, "expected": {"text": texts}})
    return fails


def oracle(seed: int, scale: float) -> dict:
    return asyncio.run(_oracle(seed, scale))


async def _oracle(seed, scale):
    rng = random.Random(seed * 7919 + 18)

    def N(base):
        return max(1, int(round(base * scale)))

    streams = []  # (bytes, iterable of chunkings)
    for s in SHORT:
        b = _cap(s.encode("utf-8"))
        streams.append((b, list(_sampled_chunkings(rng, b, max(512, N(4096))))))
    for i in range(N(150)):
        b = _cap(_rand_text(rng, SSE_TOK if i % 3 else ND_TOK, rng.randrange(1, 5)).encode("utf-8"))
        streams.append((b, list(_sampled_chunkings(rng, b, max(32, N(96))))))
    longs = [s.encode("utf-8") for s in LONG]
    for i in range(N(600)):
        longs.append(_rand_text(rng, SSE_TOK if i % 3 else ND_TOK, rng.randrange(3, 40)).encode("utf-8"))
    for b in longs:
        chs = [[bytes([x]) for x in b]] + [_random_chunking(rng, b) for _ in range(5)]
        streams.append((b, chs))
    failures = []
    evaluations = 0
    cache = {}
    spec_done = set()
    per_class = {"chunking-dependent": 0, "sse-spec": 0}
    for b, chunkings in streams:
        for chunks in chunkings:
            fails, base = await _oracle_case(chunks, cache)
            evaluations += 1
            if b not in spec_done:
                spec_done.add(b)
                fails = fails + _spec_failures(b, base)
                evaluations += 1
            for f in fails:
                per_class[f["class"]] += 1
                if len(failures) < 200:
                    failures.append(f)
    # cross-stream scenarios on pairs of long streams (chunk boundaries between the lines of one event)
    per_class["cross-stream-state"] = 0
    pairs = N(40)
    for i in range(pairs):
        a, b2 = rng.choice(longs), rng.choice(longs)
        ca = _random_chunking(rng, a) if i % 2 else [a[j:j + 7] for j in range(0, len(a), 7)] or [a]
        cb = _random_chunking(rng, b2) if i % 3 else [b2[j:j + 5] for j in range(0, len(b2), 5)] or [b2]
        fl = await _cross_stream_failures(ca, cb, cache)
        evaluations += 6
        for f in fl:
            per_class[f["class"]] += 1
            if len(failures) < 200:
                failures.append(f)
    return {"evaluations": evaluations, "failures": failures, "failures_per_class": per_class,
            "streams": len(spec_done)}


def replay(case) -> bool:
    if "a_chunks_hex" in case:
        async def go2():
            return bool(await _cross_stream_failures([bytes.fromhex(h) for h in case["a_chunks_hex"]], [bytes.fromhex(h) for h in case["b_chunks_hex"]], {}))
        return asyncio.run(go2())
    chunks = [bytes.fromhex(h) for h in case["chunks_hex"]]

    async def go():
        fails, base = await _oracle_case(chunks)
        return bool(fails or _spec_failures(b"".join(chunks), base))

    return asyncio.run(go())


# ---------------------------------------------------------------- CLI
def main(argv):
    driver = argv[1] if len(argv) > 1 else DEFAULT_DRIVER
    scale = float(os.environ.get("CORR_SCALE", "1.0"))
    seed = int(os.environ.get("CORR_SEED", "1818"))
    t0 = time.time()
    r = run(seed, scale, driver)
    t1 = time.time()
    for d in r["disagreements"][:20]:
        print(f"DISAGREE [{d['label']}] {json.dumps(d['request'], ensure_ascii=True)}\n   model: {d['model']!r}\n   impl : {d['impl']!r}")
    print(f"run: {r['comparisons']} comparisons, {r['nontrivial']} non-trivial (stream, chunking) cases, {t1 - t0:.1f}s")
    for k, v in sorted(r["distribution"].items()):
        print(f"   {k}: {v}")
    print(f"{r['n_disagreements']} disagreements")
    o = oracle(seed, scale)
    t2 = time.time()
    print(f"oracle: {o['evaluations']} evaluations on {o['streams']} streams, {t2 - t1:.1f}s, failures per class: "
          + ", ".join(f"{k}={v}" for k, v in sorted(o["failures_per_class"].items())))
    for f in o["failures"][:10]:
        print("   ", json.dumps(f, ensure_ascii=True))
    return 1 if (r["n_disagreements"] or o["failures"]) else 0


if __name__ == "__main__":
    sys.exit(main(sys.argv))
