import Pog.Lemmas.Stream
import Pog.Lemmas.Utf8
/-
  C18 — stream decoders are independent of how the bytes are chunked.

  FULL STATEMENT: for any sequence of server-sent events or NDJSON records and any way the network
  splits their byte encoding into chunks (inside a multi-byte character, inside a line terminator,
  between the lines of one event), `iter_sse`, `iter_sse_events_text` and `iter_ndjson` yield exactly
  the same items, in order, as for the unsplit stream: one event per blank-line-terminated block with
  data lines joined by newlines, comments ignored, and a final unterminated event still delivered.

  Everything below is proved in FULL (no `✗`, no `_partial`): the statement holds of the code.

    text level   : httpx's `LineDecoder` fed with ANY list of text chunks (empty chunks dropped by
                   `TextChunker`) returns `"".join(chunks).splitlines()`            `lines_chunk_independent`
                   hence every consumer of `aiter_lines()` is chunk independent     `line_consumer_chunk_independent`
                   in particular the three helpers                                 `sse_…`, `sse_text_…`, `ndjson_…`
    what is yielded : one event per maximal run of non-empty lines                  `sse_spec`
                   data = "\n".join(values of the `data:` lines), last `event:`/`id:` wins,
                   comment lines are irrelevant                                    `parse_event_spec`, `parse_event_ignores_comments`
    byte level   : for every text `s` and every chunking of `s.encode("utf-8")` the helpers see
                   `s.splitlines()`                                                `bytes_chunk_independent`
                   (and two chunkings of the same bytes are indistinguishable      `bytes_same_stream`)

  Models (Pog/Model/Stream.lean): `LD.decode`/`LD.flush`/`linesOf` mirror httpx 0.28.1 branch for branch,
  `sseLoop`/`parseLine`/… mirror streaming_helpers.py.  Trusted executable descriptions, checked by
  `corr_c18.py` only: `splitLines` = `str.splitlines`, `isPyWs` = whitespace of `str.strip`, `utf8Run`
  = codecs' incremental UTF-8 decoder on well-formed input.  `SSEEvent.retry` (`int(value)`) and
  `json.loads` are not modelled; both are functions of the line list, so `line_consumer_chunk_independent`
  covers them.  Ill-formed UTF-8 (`errors="replace"`) is outside the model (`linesOfBytes = none`).
-/
namespace Pog.C18
open Pog

/-! ## Text level: `LineDecoder` ≡ `str.splitlines` for every chunking -/

/-- `aiter_lines()` over any text chunking = `splitlines()` of the concatenation — including chunk
    boundaries between `\r` and `\n`, after a `\r` at the very end, and empty chunks. -/
theorem lines_chunk_independent (chunks : List Str) : linesOf chunks = splitLines chunks.flatten :=
  Pog.linesOf_eq_splitLines chunks

/-- Two chunkings of the same text give the same lines. -/
theorem lines_same_text (cs cs' : List Str) (h : cs.flatten = cs'.flatten) : linesOf cs = linesOf cs' := by
  rw [lines_chunk_independent, lines_chunk_independent, h]

example : ["a\r".toList, "\nb".toList].flatten = ["a".toList, "\r\n".toList, [], "b".toList].flatten := by decide

/-- Hence ANY function of the line stream (the unmodelled `retry` field and `json.loads` included)
    is chunk independent. -/
theorem line_consumer_chunk_independent {α : Type} (f : List Str → α) (cs cs' : List Str)
    (h : cs.flatten = cs'.flatten) : f (linesOf cs) = f (linesOf cs') := by
  rw [lines_same_text cs cs' h]

/-- One `decode` call is a run of the one-character automaton from the abstract state. -/
theorem decode_is_automaton_run (ld : LD) (s : LSt) (h : LDRel ld s) (text : Str) (ht : text ≠ []) :
    (ld.decode text).2 = (lrun s text).1 ∧ LDRel (ld.decode text).1 (lrun s text).2 :=
  Pog.decode_spec ld s h text ht

example : LDRel ⟨["ab".toList, "c".toList], true⟩ ⟨"abc".toList, true⟩ := by
  simp [LDRel]

/-- The `lines[0]` / `lines.pop()` accesses of `LineDecoder.decode` never raise `IndexError`
    (the corresponding `[]`/`none` branches of `LD.decodeBody` are unreachable). -/
theorem decode_no_index_error (t : Str) (ht : t ≠ []) : splitLines t ≠ [] :=
  Pog.splitLines_ne_nil t ht

/-! ### `splitLines` is `str.splitlines` (equations that determine it) -/

theorem splitLines_empty : splitLines [] = [] := Pog.splitLines_nil

theorem splitLines_last_line (l : Str) (hl : l ≠ []) (h : l.all (fun c => !isLineBreak c) = true) :
    splitLines l = [l] := Pog.splitLines_noBreak l hl h

theorem splitLines_at_break (l rest : Str) (c : Char) (h : l.all (fun c => !isLineBreak c) = true)
    (hc : isLineBreak c = true) (hcr : c ≠ '\r') : splitLines (l ++ c :: rest) = l :: splitLines rest :=
  Pog.splitLines_break l rest c h hc hcr

theorem splitLines_at_crlf (l rest : Str) (h : l.all (fun c => !isLineBreak c) = true) :
    splitLines (l ++ '\r' :: '\n' :: rest) = l :: splitLines rest := Pog.splitLines_crlf l rest h

theorem splitLines_at_cr (l rest : Str) (h : l.all (fun c => !isLineBreak c) = true)
    (hr : rest.head? ≠ some '\n') : splitLines (l ++ '\r' :: rest) = l :: splitLines rest :=
  Pog.splitLines_cr l rest h hr

example : ("data: x".toList).all (fun c => !isLineBreak c) = true ∧ ("y".toList).head? ≠ some '\n' := by decide

/-! ## The three helpers are chunk independent (text level) -/

theorem sse_chunk_independent (cs cs' : List Str) (h : cs.flatten = cs'.flatten) :
    iterSSE (linesOf cs) = iterSSE (linesOf cs') :=
  line_consumer_chunk_independent iterSSE cs cs' h

theorem sse_text_chunk_independent (cs cs' : List Str) (h : cs.flatten = cs'.flatten) :
    sseEventsText cs = sseEventsText cs' :=
  line_consumer_chunk_independent sseDataOfLines cs cs' h

theorem ndjson_chunk_independent (cs cs' : List Str) (h : cs.flatten = cs'.flatten) :
    iterNdjsonLines cs = iterNdjsonLines cs' :=
  line_consumer_chunk_independent ndjsonOfLines cs cs' h

/-- … and they equal the helper applied to the unsplit stream. -/
theorem sse_unsplit (cs : List Str) : iterSSE (linesOf cs) = iterSSE (splitLines cs.flatten) := by
  rw [lines_chunk_independent]
theorem sse_text_unsplit (cs : List Str) : sseEventsText cs = sseDataOfLines (splitLines cs.flatten) := by
  rw [sseEventsText, lines_chunk_independent]
theorem ndjson_unsplit (cs : List Str) : iterNdjsonLines cs = ndjsonOfLines (splitLines cs.flatten) := by
  rw [iterNdjsonLines, lines_chunk_independent]

/-! ## What `iter_sse` yields -/

/-- One event per maximal run of non-empty lines: every blank-line-terminated block, and the final
    unterminated block (`blocks` is the specification in Pog/Model/StreamSpec.lean). -/
theorem sse_spec (ls : List Str) : iterSSE ls = (blocks ls).map parseEvent :=
  Pog.iterSSE_eq_blocks ls

/-- `iter_sse_events_text`: the non-empty `data` payloads of those events. -/
theorem sse_text_spec (ls : List Str) :
    sseDataOfLines ls = (((blocks ls).map parseEvent).filter (fun e => !e.data.isEmpty)).map Event.data := by
  rw [sseDataOfLines, sse_spec]

/-- `data` is the `"\n".join` of the left-stripped values of the `data:` lines in order; the last
    `event:` / `id:` line wins (`none` when there is none). -/
theorem parse_event_spec (ls : List Str) :
    parseEvent ls =
      ⟨joinWith ['\n'] (ls.filterMap (fieldValue? "data".toList)),
       (ls.filterMap (fieldValue? "event".toList)).getLast?,
       (ls.filterMap (fieldValue? "id".toList)).getLast?⟩ :=
  Pog.parseEvent_spec ls

/-- Comment lines (starting with `:`) do not affect the event. -/
theorem parse_event_ignores_comments (ls : List Str) : parseEvent (ls.filter notComment) = parseEvent ls :=
  Pog.parseEvent_filter_notComment ls

/-! ## Byte level: the incremental UTF-8 decoder -/

/-- Decoding chunk by chunk and concatenating the texts = decoding the concatenated bytes, from any
    decoder state, with the same bytes left pending (`none` = ill-formed, on both sides). -/
theorem utf8_chunk_independent (pend : List Byte) (chs : List (List Byte)) :
    (utf8Chunks pend chs).map (fun r => (r.1.flatten, r.2)) = utf8Run pend chs.flatten :=
  Pog.utf8Chunks_flatten pend chs

/-- The decoder inverts `str.encode("utf-8")` (so the model covers every Python `str` without lone
    surrogates, and only well-formed sequences). -/
theorem utf8_decode_encode (s : Str) : utf8Decode (utf8Encode s) = some s := Pog.utf8Decode_encode s

/-- For every text `s` and every chunking of its UTF-8 encoding — also inside a multi-byte character
    or between `\r` and `\n` — `aiter_lines()` yields `s.splitlines()`. -/
theorem bytes_chunk_independent (s : Str) (chs : List (List Byte)) (h : chs.flatten = utf8Encode s) :
    linesOfBytes chs = some (splitLines s) := by
  obtain ⟨ts, h1, h2⟩ := Pog.utf8Chunks_encode s chs h
  simp only [linesOfBytes, h1, lines_chunk_independent, h2]

example : [[0x61, 0xC3], [0xA9, 0x0D], [0x0A]].flatten = utf8Encode "aé\r\n".toList := by decide

/-- The three helpers on byte chunks. -/
theorem sse_bytes_chunk_independent (s : Str) (chs : List (List Byte)) (h : chs.flatten = utf8Encode s) :
    (linesOfBytes chs).map iterSSE = some ((blocks (splitLines s)).map parseEvent) := by
  rw [bytes_chunk_independent s chs h, Option.map_some, sse_spec]

theorem sse_text_bytes_chunk_independent (s : Str) (chs : List (List Byte)) (h : chs.flatten = utf8Encode s) :
    (linesOfBytes chs).map sseDataOfLines = some (sseDataOfLines (splitLines s)) := by
  rw [bytes_chunk_independent s chs h, Option.map_some]

theorem ndjson_bytes_chunk_independent (s : Str) (chs : List (List Byte)) (h : chs.flatten = utf8Encode s) :
    (linesOfBytes chs).map ndjsonOfLines = some (ndjsonOfLines (splitLines s)) := by
  rw [bytes_chunk_independent s chs h, Option.map_some]

/-- Two chunkings of the same byte string are indistinguishable (also when the model answers
    `none`, i.e. for ill-formed or truncated input, it does so for both). -/
theorem bytes_same_stream (chs chs' : List (List Byte)) (h : chs.flatten = chs'.flatten) :
    linesOfBytes chs = linesOfBytes chs' := by
  have h1 := utf8_chunk_independent [] chs
  have h2 := utf8_chunk_independent [] chs'
  rw [h, ← h2] at h1
  unfold linesOfBytes
  cases hq : utf8Chunks [] chs with
  | none =>
    rw [hq] at h1
    cases hq' : utf8Chunks [] chs' with
    | none => rfl
    | some r => rw [hq'] at h1; simp at h1
  | some r =>
    obtain ⟨ts, p⟩ := r
    rw [hq] at h1
    cases hq' : utf8Chunks [] chs' with
    | none => rw [hq'] at h1; simp at h1
    | some r' =>
      obtain ⟨ts', p'⟩ := r'
      rw [hq'] at h1
      simp only [Option.map_some, Option.some.injEq, Prod.mk.injEq] at h1
      obtain ⟨hf, hp⟩ := h1
      subst hp
      cases p with
      | nil => simp only [lines_same_text ts ts' hf]
      | cons b bs => rfl

/-! ## Non-vacuity: concrete streams -/

/-- CRLF split across chunks, a multi-line `data` event, a comment, an unterminated final event. -/
example :
    iterSSE (linesOf ["data: a\r".toList, "\ndata:b\r\n: note\r".toList, [], "\n\r".toList,
                      "\nevent: end\nid:7\ndata: z".toList])
      = [⟨"a\nb".toList, none, none⟩, ⟨"z".toList, some "end".toList, some "7".toList⟩] := by decide

/-- The same stream unsplit. -/
example :
    iterSSE (splitLines "data: a\r\ndata:b\r\n: note\r\n\r\nevent: end\nid:7\ndata: z".toList)
      = [⟨"a\nb".toList, none, none⟩, ⟨"z".toList, some "end".toList, some "7".toList⟩] := by decide

/-- A chunk boundary inside `é` (C3|A9) and inside `\r\n`. -/
example :
    (linesOfBytes [[0x64, 0x61, 0x74, 0x61, 0x3A, 0xC3], [0xA9, 0x0D], [0x0A, 0x0D, 0x0A]]).map sseDataOfLines
      = some ["é".toList] := by decide

example : iterNdjsonLines ["{\"a\": 1}\r".toList, "\n \n[2]".toList] = ["{\"a\": 1}".toList, "[2]".toList] := by
  decide

example : blocks ["a".toList, [], [], "b".toList, "c".toList] = [["a".toList], ["b".toList, "c".toList]] := by
  decide

/-! ## Observation (outside the C18 statement, same on every chunking)

  `aiter_lines()` splits on every `str.splitlines` boundary, not only on `\n`, `\r`, `\r\n`: a raw
  U+2028 / U+2029 / U+0085 / `\x0b` / `\x0c` / `\x1c`–`\x1e` inside a JSON string (legal JSON) cuts an
  NDJSON record or an SSE `data:` value in two. -/
theorem line_separator_splits_record :
    splitLines "{\"a\": \"x\u2028y\"}".toList = ["{\"a\": \"x".toList, "y\"}".toList] := by decide

end Pog.C18
