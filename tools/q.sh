#!/bin/sh
# usage: tools/q.sh C03 C17 ...  — quick checks in sequence, one summary line each (exit code, VIOLATION lines, number of KNOWN-FINDING lines)
HERE=$(cd "$(dirname "$0")/.." && pwd); cd "$HERE"
for P in "$@"; do
  L=$(mktemp); S=$(date +%s)
  ./check "$P" --tier "${TIER:-quick}" > "$L" 2>&1; RC=$?
  echo "$P rc=$RC $(( $(date +%s) - S ))s known=$(grep -c '^KNOWN-FINDING' "$L")"
  grep -A1 '^VIOLATION' "$L" | cut -c1-400 | head -8
  [ "$RC" = 2 ] && tail -15 "$L"
  rm -f "$L"
done
