import Pog.Lemmas.Names
import Pog.Props.ClientGen
import Pog.Props.Loader
import Pog.Props.Extract
import Pog.Lemmas.Fresh
/-
  C20 — name derivation is total, valid and collision-safe.

  FULL STATEMENT (what the property says): for every input string, every identifier the generator
  derives (class, module, method/field/parameter, enum member) is a non-empty ASCII Python
  identifier that is not a keyword; names that collide inside one namespace receive distinct
  identifiers and none is dropped.

  What is proved below, per derivation.  `✗` marks full statements that are FALSE of the current
  code; they appear as `_partial` (hypothesis = the exact excluded input class) + `_counterexample`.

    class names    : identifier for EVERY input (full); keyword-freedom ✗ (`none`,`true`,`false`)
    method/field   : valid and keyword-free iff the input has an ASCII alphanumeric ✗ (`$`, `用户`)
    module names   : same input class ✗
    enum members   : total, valid, keyword-free for EVERY input and every CPython case table (full)
    fresh loops    : terminate, output pairwise distinct, same length (nothing dropped) (full)
    operation ids  : de-duplication does NOT make method names distinct ✗ (`foo,foo,foo_2`)
-/
/-
  C20, names invented by the inline-extraction passes (`{Parent}{Prop}Item`, `{Parent}{Prop}Enum`, numeric suffix loops;
  Pog/Model/Extract.lean, proved in Pog/Props/Extract.lean, claimed here):
    extract_new_names_fresh / extract_keys_nodup   every promoted name is new, the new names are pairwise distinct, distinct keys stay distinct
    suffix_loops_terminate                         the `while name in schemas` loops terminate (fuel |taken|+1 suffices)
    extract_keeps_original_names / extract_never_shrinks   original keys stay, in order
-/
-- INDEX Pog.ExtractProps: extract_keeps_original_names, extract_never_shrinks, suffix_loops_terminate, extract_new_names_fresh, extract_keys_nodup, enum_entry_name_counterexample
/-
  C20, names of schemas promoted from responses / request bodies / parameters (`{opId}{code}Response`, `{opId}Param{Name}`, …;
  Pog/Model/Loader.lean; claimed from Pog/Props/Loader.lean):
    promotion_names_injective_same_operation / _partial / respPromoName_eq_iff   when two requested names coincide
    ✗ promotion_name_collision_*           the collisions that exist (two media types of one response; `a-b` vs `a_b`; `get_user` vs `getUser`)
    ✗ post_process_*_name_collision        two responses of one operation are both renamed `{OpId}Response`
-/
-- INDEX Pog.LoaderProps: respPromoName_eq_iff, promotion_names_differ_unless_prefix, promotion_names_injective_same_operation, promotion_names_injective_partial, response_vs_body_promotion_names_disjoint, promotion_name_collision_arbitrary_keys, promotion_name_collision_same_response, promotion_name_collision_request_body, promotion_name_collision_parameters, promotion_name_collision_after_sanitize, post_process_response_name_collision_counterexample, post_process_request_name_collision_counterexample
/-
  C20, tag attribute names on APIClient (Pog/Model/ClientGen.lean; claimed from Pog/Props/ClientGen.lean):
    property_names_valid_partial           valid non-keyword identifiers (and client.py compiles) when every tag has an ASCII alphanumeric
    property_name_never_config             no property is ever named `config` (RESERVED_NAMES, regenerated table)
    property_names_pairwise_distinct_partial   distinct for ASCII tags; ✗ `aé` / `a`
    ✗ private_attr_base_url_counterexample (F64)   a tag with module `base_url` stores its client in `self._base_url`
-/
-- INDEX Pog.ClientGenProps: property_names_valid_partial, property_names_valid_counterexample, property_name_never_config, property_names_avoid_dunder_partial, property_named_base_url_counterexample, property_names_pairwise_distinct_partial, property_names_pairwise_distinct_counterexample, private_attr_names_distinct_from_public_partial, private_attr_base_url_counterexample, private_attr_base_url_iff, private_attr_counterexample
namespace Pog.C20
open Pog

/-! ## class names -/

/-- Every class name is a valid ASCII identifier — all inputs, no hypothesis. -/
theorem class_name_is_identifier (s : Str) : isPyIdent (sanClass s) = true :=
  Pog.sanClass_isPyIdent s

/-- `class_name_valid` at full strength (F28 repaired: the capitalised keywords `None`/`True`/`False` get the `_` suffix too):
    for EVERY input the class name is a valid ASCII identifier and not a keyword. -/
theorem class_name_valid (s : Str) : isPyIdent (sanClass s) = true ∧ isKeyword (sanClass s) = false :=
  ⟨Pog.sanClass_isPyIdent s, Pog.sanClass_not_keyword s⟩

/-- The inputs that used to come out as keywords. -/
theorem class_name_former_keywords :
    sanClass "none".toList = "None_".toList ∧ sanClass "true".toList = "True_".toList ∧ sanClass "FALSE".toList = "False_".toList ∧
    sanClass "class".toList = "Class_".toList ∧ sanClass "UserGroup".toList = "UserGroup".toList := by
  decide

/-! ## method / field / parameter names (`sanitize_method_name`) -/

/-- The derived name is empty exactly when the input has no ASCII alphanumeric. -/
theorem method_name_empty_iff (s : Str) : sanMethod s = [] ↔ s.any isAlnumA = false :=
  Pog.sanMethod_empty_iff s

theorem method_name_valid_partial (s : Str) (h : s.any isAlnumA = true) :
    isPyIdent (sanMethod s) = true ∧ isKeyword (sanMethod s) = false :=
  Pog.sanMethod_valid s h

/-- ✗ witnesses: symbol-only and non-ASCII names derive the empty identifier. -/
theorem method_name_counterexample :
    sanMethod "$".toList = [] ∧ sanMethod "_".toList = [] ∧ sanMethod "用户".toList = [] := by
  decide

example : ("getUserById".toList).any isAlnumA = true := by decide

/-! ## module names (`sanitize_module_name`) -/

theorem module_name_valid_partial (u : UInfo) (s : Str) (h : s.any isAlnumA = true) :
    isPyIdent (sanModule u s) = true ∧ isKeyword (sanModule u s) = false :=
  Pog.sanModule_valid u s h

theorem module_name_counterexample : sanModule UInfo.ascii "-".toList = [] := by decide

/-! ## enum members -/

/-- Total: the final `raise ValueError` of the python function is unreachable. -/
theorem enum_member_total (u : UInfo) (v : Str) : (enumMemberStr u v).isSome = true :=
  Pog.enumMemberStr_isSome u v

theorem enum_member_valid (u : UInfo) (v n : Str) (h : enumMemberStr u v = some n) :
    isPyIdent n = true ∧ isKeyword n = false :=
  Pog.enumMemberStr_valid u v n h

/-! ## collision safety of the suffix loops -/

/-- The python `while` loops terminate and yield pairwise distinct names, one per input. -/
theorem field_names_nodup (props : List Str) :
    ∃ l, fieldNames props = some l ∧ l.Nodup ∧ l.length = props.length :=
  Pog.assignAll_map_spec _ _ Pog.sufUnderscore_inj _ _

theorem enum_members_nodup (bases : List Str) :
    ∃ l, enumMemberNames bases = some l ∧ l.Nodup ∧ l.length = bases.length :=
  Pog.assignAll_spec _ _ Pog.sufUnderscore_inj _

theorem class_names_nodup (names : List Str) :
    ∃ l, classNames names = some l ∧ l.Nodup ∧ l.length = names.length :=
  Pog.assignAll_map_spec _ _ Pog.classCand_inj _ _

theorem module_stems_nodup (u : UInfo) (names : List Str) :
    ∃ l, moduleStems u names = some l ∧ l.Nodup ∧ l.length = names.length :=
  Pog.assignAll_map_spec _ _ Pog.sufUnderscore_inj _ _

theorem inline_name_fresh (taken : List Str) (base : Str) :
    ∃ n, inlineName taken base = some n ∧ n ∉ taken :=
  Pog.freshName_spec _ _ _ _ (Pog.sufPlain_inj base)

/-- A suffixed field name is still a valid identifier and not a keyword. -/
theorem suffixed_name_valid (base : Str) (k : Nat) (h : isPyIdent base = true) :
    isPyIdent (sufUnderscore base k) = true ∧ isKeyword (sufUnderscore base k) = false :=
  Pog.sufUnderscore_valid base k h

/-! ## operation ids -/

/-- ✗ witness: the global de-duplication leaves two operations with the same method name … -/
theorem op_ids_nodup_counterexample :
    methodNames ["foo".toList, "foo".toList, "foo_2".toList]
      = ["foo".toList, "foo_2".toList, "foo_2".toList] := by decide

/-- … and it is not idempotent (the force path runs it twice, C09). -/
theorem op_ids_idempotent_counterexample :
    dedupOpIds [] (dedupOpIds [] ["foo".toList, "foo".toList, "foo_2".toList])
      ≠ dedupOpIds [] ["foo".toList, "foo".toList, "foo_2".toList] := by decide

/-- `op_ids_nodup` for the inputs the code gets right: when the sanitised ids are already
    pairwise distinct the pass changes nothing (and the names stay distinct). -/
theorem op_ids_nodup_partial (ids : List Str) (h : (ids.map sanMethod).Nodup) :
    dedupOpIds [] ids = ids ∧ (methodNames ids).Nodup :=
  Pog.dedupOpIds_of_nodup ids h

end Pog.C20
