import Pog.Lemmas.GenCode
import Pog.Props.Loader
import Pog.Lemmas.SanIdem
/-
  C04 — request fidelity of an emitted endpoint method.

  FULL STATEMENT: for every operation and every well-typed argument assignment, awaiting the generated method
  issues exactly one HTTP request with the operation's method, the path template with each path parameter
  substituted by the caller's value, each supplied query and header parameter under its original spec name, and
  a body whose content type and JSON equal the serialised argument.  Optional arguments left as None are
  omitted; no supplied argument is silently dropped or sent in a different location.

  Model: `Pog.GenCode.buildRequest` (Pog/Model/GenCode.lean) = parameter_processor + signature_generator +
  url_args_generator + request_generator (+ overload_generator / `_generate_implementation_method` for ≥ 2
  request media types), tied to the emitted code by `corr_gencode.py`.   `✗` = FALSE of the current code.

    at most one request, always                                                    (full)    `exactly_one_request`
    exactly one request for a well-typed call (one, no or several media types)      (partial) `exactly_one_request`
    the twice-sanitised signature name = the once-sanitised URL name               (full)    `ident_eq` (`Pog.sanMethod_idempotent`)
    the URL f-string of the single-media method never reads an unbound name         (full)    `url_ok`
    … nor that of the method for several media types, unless a variable is named
      `form_data` / `bytes_content`                                                 (full)    `multi_path_vars_bound`, `multi_content_path_var_named_form_data_witness`
    method / substituted path / query / headers / cookies / body                    (partial) `request_fidelity_partial`
    optional argument left as None is omitted                                      (full)    `optional_none_omitted`
    ≥ 2 request media types: an optional request body can be omitted               full      `optional_body_omitted_former_witness` (F62 repaired),
                                                                                              `optional_body_can_be_omitted`
    cookie parameters are sent                                                     full      `cookie_sent_former_witness` (F11 repaired), the cookie
                                                                                              entries of `request_fidelity_partial`
    every query / header / cookie entry stems from a parameter declared there       (full)    `no_entry_without_parameter`
    ≥ 2 request media types: query, header and cookie arguments are sent, optional
      parameters are optional, undeclared path variables work                      full      `multi_content_sends_query_former_witness`,
                                                                                              `multi_content_optional_former_witness`,
                                                                                              `multi_content_undeclared_path_var_former_witness` (F12 repaired);
                                                                                              `request_fidelity_partial` no longer excludes them
    an operation-level parameter overrides the path-level one of the same name     full      `path_level_override_former_witness` (F4 repaired), `irParams_no_duplicate_key`
    an integer / number / boolean header argument is sent in its string form       full      `nonstr_header_former_witness` (F39 repaired),
                                                                                              `typed_header_is_str`; the entries of `request_fidelity_partial`
    a declared parameter named `body` and the JSON body are distinct                ✗         `body_name_collision_counterexample`
-/
/-
  C04 at the loader (Pog/Model/Loader.lean; claimed from Pog/Props/Loader.lean):
    parameters_order_and_count             the parameters of an operation are the path-level ones no operation-level parameter overrides (in
                                           order) followed by the operation-level ones (in order), each parsed with THIS operation's id
    parameters_operation_level_wins        an operation-level parameter replaces the path-level one with the same (name, in) (F4 repaired;
                                           `parameters_override_former_witness` was `parameters_not_merged`)
-/
-- INDEX Pog.LoaderProps: parameters_order_and_count, parameters_carry_operation_id, parameters_operation_level_wins, parameters_override_former_witness, parameters_override_is_python_eq
namespace Pog.C04
open Pog Pog.GenCode

/-! ## the hypotheses of the partial theorems -/

/-- A well-typed call of an operation whose module can be imported - with one request media type, none, or (F12
    repaired) several.  Every field is one excluded input class. -/
structure StdCall (op : Op) (args : GArgs) : Prop where
  /-- sanitised names distinct, aliases exist, … : the emitted module imports (`moduleOk`) -/
  importable : moduleOk op = true
  /-- only keywords of the signature, every required one present -/
  bound : bindOk (sigOf op) args = true
  /-- well-typed: the argument of a header or cookie parameter that is NOT declared integer / number / boolean is a
      string (httpx rejects anything else), unless optional and left out.  (F39 repaired: a parameter declared integer /
      number / boolean takes any value - it is sent as `str(value)`.) -/
  headerStr : ∀ p ∈ op.params, p.loc = .header ∨ p.loc = .cookie → p.kind = .plain →
    (argVal args p.ident).isStr = true ∨ (p.required = false ∧ argVal args p.ident = .none)
  /-- (one media type) not the `multipart/form-data; boundary=…` media-type key that makes the method read an unbound
      name -/
  bodyKnown : isMulti op = false →
    ∀ b mt, op.body = some b → primaryBody b.media = some (mt, .bytes) → GenCode.isInfix mtMultipart mt = false
  /-- (several media types) well-typed: a REQUIRED request body is given under one of the content-type keywords - they
      all default to `None` in the signature, the method checks at run time (`ValueError`) -/
  bodyGiven : isMulti op = true →
    (∃ b, dispatchBody args ((op.body.map (·.media)).getD []) = some b) ∨ (op.body.map (·.required)).getD true = false
  /-- (several media types) every `{var}` of the template is a parameter of the method - always, unless a variable is
      named like the body parameter of the single-content method that is no content-type keyword (`form_data`,
      `bytes_content`): `multi_path_vars_bound` -/
  pathBound : isMulti op = true → ∀ v ∈ pathVars op.path, sanMethod v ∈ (sigOf op).map (·.1)

/-- No parameter with an unknown `in` (the loader copies `in` verbatim; only path / query / header / cookie have a place
    in a request) and every declared path parameter occurs in the template.  (F11 repaired: cookie parameters are no
    longer excluded.) -/
structure AllSendable (op : Op) : Prop where
  knownLoc : ∀ p ∈ op.params, p.loc = .path ∨ p.loc = .query ∨ p.loc = .header ∨ p.loc = .cookie
  pathUsed : ∀ p ∈ op.params, p.loc = .path → p.name ∈ pathVars op.path

/-- The body keyword of the one transport call: `stdBody` in the single-content method, the branch of the runtime
    dispatch (`ovlBody`) in the implementation method for several media types. -/
def reqBody (op : Op) (args : GArgs) : Except CallErr BodyArg :=
  if isMulti op then ovlBody op args else stdBody op args

/-- The signature sanitises a parameter name twice, the URL f-string once: the same identifier, because
    `sanitize_method_name` is idempotent (`Pog.sanMethod_idempotent`). -/
theorem ident_eq (p : GParam) : p.ident = sanMethod p.name := sanMethod_idempotent p.name

theorem toS_query : GLoc.query.toS ≠ SLoc.path := by decide
theorem toS_header : GLoc.header.toS ≠ SLoc.path := by decide
theorem toS_cookie : GLoc.cookie.toS ≠ SLoc.path := by decide

theorem stdBody_ok {op : Op} {args : GArgs} (h : StdCall op args) (hs : isMulti op = false) :
    ∃ b, stdBody op args = .ok b := by
  unfold stdBody
  cases hb : op.body with
  | none => exact ⟨_, rfl⟩
  | some b =>
    simp only
    cases hp : primaryBody b.media with
    | none => exact ⟨_, rfl⟩
    | some mk =>
      obtain ⟨mt, k⟩ := mk
      cases k with
      | json => exact ⟨_, rfl⟩
      | files => exact ⟨_, rfl⟩
      | form => exact ⟨_, rfl⟩
      | bytes =>
        have := h.bodyKnown hs b mt hb hp
        simp only [this]
        exact ⟨_, rfl⟩

theorem ovlBody_ok {op : Op} {args : GArgs} (h : StdCall op args) (hm : isMulti op = true) :
    ∃ b, ovlBody op args = .ok b := by
  unfold ovlBody
  rcases h.bodyGiven hm with ⟨b, hb⟩ | hopt
  · exact ⟨b, by rw [hb]⟩
  · cases hd : dispatchBody args ((op.body.map (·.media)).getD []) with
    | none => exact ⟨.none, by simp only [hopt, Bool.false_eq_true, if_false]⟩
    | some b => exact ⟨b, rfl⟩

theorem reqBody_ok {op : Op} {args : GArgs} (h : StdCall op args) : ∃ b, reqBody op args = .ok b := by
  unfold reqBody
  cases hm : isMulti op with
  | false => simpa using stdBody_ok h hm
  | true => simpa using ovlBody_ok h hm

/-- The values written through `_string_value_expr` for a well-typed call are all `str`. -/
theorem strEntries_isStr {op : Op} {args : GArgs} (h : StdCall op args) (loc : GLoc) (hl : loc.toS ≠ .path)
    (hloc : loc = .header ∨ loc = .cookie) :
    ∀ e ∈ strEntries loc.toS (orderedParams op) args, e.2.isStr = true := by
  intro e he
  obtain ⟨p, hp, hpl, rfl, hreq⟩ := (mem_strEntries_iff op args loc hl e).mp he
  cases hk : p.kind with
  | plain =>
    simp only [strValue]
    rcases h.headerStr p hp (by rw [hpl]; exact hloc) hk with hs | ⟨hr, hn⟩
    · exact hs
    · rcases hreq with hreq | hreq
      · rw [hr] at hreq; cases hreq
      · exact absurd hn hreq
  | num => rfl
  | bool => rfl

theorem headers_ok {op : Op} {args : GArgs} (h : StdCall op args) : headerValuesOk (stdHeaders op args) = true := by
  unfold stdHeaders headerValuesOk
  split
  · rfl
  · next es hes =>
    split at hes
    · simp only [Option.some.injEq] at hes
      subst hes
      rw [List.all_eq_true]
      exact strEntries_isStr h .header toS_header (Or.inl rfl)
    · cases hes

theorem cookies_ok {op : Op} {args : GArgs} (h : StdCall op args) : cookieValuesOk (stdCookies op args) = true := by
  unfold stdCookies cookieValuesOk
  split
  · rfl
  · next es hes =>
    split at hes
    · simp only [Option.some.injEq] at hes
      subst hes
      rw [List.all_eq_true]
      intro e he
      have := strEntries_isStr h .cookie toS_cookie (Or.inr rfl) e he
      cases hv : e.2 <;> simp_all [GValue.isStr, GValue.isOther]
    · cases hes

/-- The transport call of a well-typed call goes through (no `TypeError` from httpx / http.cookiejar). -/
theorem sendRequest_ok {op : Op} {args : GArgs} (h : StdCall op args) (pieces : List Piece) (b : BodyArg) :
    sendRequest op args pieces b =
      .ok (⟨op.method, pieces, stdQuery op args, stdHeaders op args, b, stdCookies op args⟩ : Request) := by
  unfold sendRequest
  simp only [headers_ok h, cookies_ok h, Bool.not_true, Bool.false_eq_true, if_false]

/-- What a request that went out is made of. -/
theorem sendRequest_inv {op : Op} {args : GArgs} {pieces : List Piece} {b : BodyArg} {r : Request}
    (h : sendRequest op args pieces b = .ok r) :
    r.method = op.method ∧ r.path = pieces ∧ r.query = stdQuery op args ∧ r.headers = stdHeaders op args ∧
      r.cookies = stdCookies op args ∧ r.body = b := by
  unfold sendRequest at h
  split at h
  · cases h
  · split at h
    · cases h
    · simp only [Except.ok.injEq] at h
      subst h
      exact ⟨rfl, rfl, rfl, rfl, rfl, rfl⟩

/-- In the single-media method every `{var}` of the template is a parameter of the method (declared, or added
    by `_ensure_path_variables_as_params`): the URL f-string never reads an unbound name. -/
theorem url_ok (op : Op) (args : GArgs) :
    urlPieces ((orderedParams op).map (·.ident)) args op.path = .ok (substPath args op.path) := by
  apply urlPieces_ok
  intro v hv
  obtain ⟨q, hq, hqn⟩ := pathVar_has_param op v hv
  rw [← sanMethod_idempotent v]
  exact List.mem_map.mpr ⟨q, hq, by simp [PInfo.ident, hqn]⟩

/-! ### the path variables of the implementation method for several media types (F12 repaired) -/

theorem mem_dedupStr : ∀ (l seen : List Str) (x : Str), x ∈ l → x ∈ seen ∨ x ∈ dedupStr l seen
  | [], _, _, h => by cases h
  | y :: ys, seen, x, h => by
    simp only [dedupStr]
    by_cases hy : y ∈ seen
    · simp only [hy, if_true]
      rcases List.mem_cons.mp h with rfl | h'
      · exact Or.inl hy
      · exact mem_dedupStr ys seen x h'
    · simp only [hy, if_false]
      rcases List.mem_cons.mp h with rfl | h'
      · exact Or.inr (List.mem_cons_self ..)
      · rcases mem_dedupStr ys (y :: seen) x h' with h'' | h''
        · rcases List.mem_cons.mp h'' with rfl | h3
          · exact Or.inr (List.mem_cons_self ..)
          · exact Or.inl h3
        · exact Or.inr (List.mem_cons_of_mem _ h'')

/-- Every declared media type has its content-type keyword in the implementation signature. -/
theorem ctParam_mem_keywordOnly {media : List Str} {mt : Str} (h : mt ∈ media) : ctParam mt ∈ ovlKeywordOnly media := by
  unfold ovlKeywordOnly
  rcases mem_dedupStr (media.map ctParam) [] (ctParam mt) (List.mem_map_of_mem h) with h' | h'
  · cases h'
  · exact h'

theorem primaryBody_json {media : List Str} {mt : Str} (h : primaryBody media = some (mt, .json)) : mtJson ∈ media := by
  unfold primaryBody at h
  split at h
  · cases h
  · split at h
    · next hj => exact hj
    · split at h
      · cases h
      · split at h
        · cases h
        · cases h

theorem primaryBody_files {media : List Str} {mt : Str} (h : primaryBody media = some (mt, .files)) :
    mtMultipart ∈ media := by
  unfold primaryBody at h
  split at h
  · next hj => exact hj
  · split at h
    · cases h
    · split at h
      · cases h
      · split at h
        · cases h
        · cases h

theorem bodyInfo_name {body : Option GBody} {taken : List Str} {q : PInfo} (h : q ∈ bodyInfo body taken) :
    ∃ b mt k, body = some b ∧ primaryBody b.media = some (mt, k) ∧ q.name = k.param := by
  unfold bodyInfo at h
  split at h
  · cases h
  · next b =>
    split at h
    · cases h
    · next mt k hpb =>
      split at h
      · cases h
      · simp only [List.mem_singleton] at h
        subst h
        exact ⟨b, mt, k, rfl, hpb, rfl⟩

/-- In the implementation method for several media types every `{var}` of the template is a parameter of the method
    (F12 repaired: the positional parameters are those of the single-content signature, path variables without a
    parameter object included) - unless the variable is named like the single-content body parameter that is NOT one
    of the content-type keywords (`form_data`, `bytes_content`; `files` and `body` are keywords whenever they are the
    body parameter's name). -/
theorem multi_path_vars_bound (op : Op) (hmulti : isMulti op = true) (v : Str) (hv : v ∈ pathVars op.path)
    (hne : sanMethod v ≠ "form_data".toList ∧ sanMethod v ≠ "bytes_content".toList) :
    sanMethod v ∈ (sigOf op).map (·.1) := by
  obtain ⟨q, hq, hqn⟩ := pathVar_has_param op v hv
  rw [sigOf_multi hmulti, List.map_append, List.map_append]
  by_cases hb : q.loc = .body
  · have hq' := hq
    rw [mem_orderedParams] at hq'
    unfold unsortedParams at hq'
    simp only [List.mem_append] at hq'
    rcases hq' with (hq' | hq') | hq'
    · obtain ⟨p, _, rfl⟩ := List.mem_map.mp hq'
      exact absurd hb (info_loc_ne_body p)
    · obtain ⟨b, mt, k, hbody, hpb, hname⟩ := bodyInfo_name hq'
      have hmedia : (op.body.map (·.media)).getD [] = b.media := by simp [hbody]
      have hkw : ∀ m ∈ b.media, ctParam m ∈
          ((ovlKeywordOnly ((op.body.map (·.media)).getD [])).map (fun x => (x, false))).map (·.1) := by
        intro m hm
        rw [hmedia, List.map_map]
        exact List.mem_map.mpr ⟨ctParam m, ctParam_mem_keywordOnly hm, rfl⟩
      rw [← hqn, hname]
      cases k with
      | json =>
        have := hkw mtJson (primaryBody_json hpb)
        exact List.mem_append_left _ (List.mem_append_right _ this)
      | files =>
        have := hkw mtMultipart (primaryBody_files hpb)
        exact List.mem_append_left _ (List.mem_append_right _ this)
      | form => exact absurd (hqn.symm.trans hname) hne.1
      | bytes => exact absurd (hqn.symm.trans hname) hne.2
    · have := undeclaredInfos_loc _ _ q hq'
      rw [this] at hb
      cases hb
  · refine List.mem_append_left _ (List.mem_append_left _ ?_)
    unfold ovlPositional
    rw [List.map_map]
    refine List.mem_map.mpr ⟨q, List.mem_filter.mpr ⟨hq, by simpa using hb⟩, ?_⟩
    simp [PInfo.ident, hqn, sanMethod_idempotent]

theorem url_ok_multi {op : Op} {args : GArgs} (h : StdCall op args) (hm : isMulti op = true) :
    urlPieces ((sigOf op).map (·.1)) args op.path = .ok (substPath args op.path) :=
  urlPieces_ok _ args op.path (h.pathBound hm)

/-- The request of a well-typed call, in closed form - the same for an operation with one request media type and (F12
    repaired) with several: only the body keyword (`reqBody`) is chosen differently. -/
theorem buildRequest_std {op : Op} {args : GArgs} (h : StdCall op args) :
    ∃ b, reqBody op args = .ok b ∧
      buildRequest op args =
        .ok (⟨op.method, substPath args op.path, stdQuery op args, stdHeaders op args, b, stdCookies op args⟩ : Request) := by
  obtain ⟨b, hb⟩ := reqBody_ok h
  refine ⟨b, hb, ?_⟩
  unfold reqBody at hb
  unfold buildRequest
  cases hm : isMulti op with
  | false =>
    simp only [hm, Bool.false_eq_true, if_false] at hb
    simp only [h.importable, Bool.not_true, Bool.false_eq_true, if_false]
    unfold buildStd
    simp only [h.bound, Bool.not_true, Bool.false_eq_true, if_false, url_ok op args, hb, sendRequest_ok h]
  | true =>
    simp only [hm, if_true] at hb
    simp only [h.importable, Bool.not_true, Bool.false_eq_true, if_false, if_true]
    unfold buildOvl
    simp only [h.bound, Bool.not_true, Bool.false_eq_true, if_false, url_ok_multi h hm, hb, sendRequest_ok h]

/-! ## exactly one request -/

/-- Awaiting the method reaches the transport AT MOST once — for every operation and every argument
    assignment; and exactly once for a well-typed call - of an operation with one request media type or (F12, F62
    repaired) with several. -/
theorem exactly_one_request (op : Op) (args : GArgs) :
    (wire op args).length ≤ 1 ∧ (StdCall op args → (wire op args).length = 1) := by
  constructor
  · unfold wire; split <;> simp
  · intro h
    obtain ⟨b, _, hb⟩ := buildRequest_std h
    unfold wire
    rw [hb]
    rfl

/-- `PATCH /docs/{id}` whose OPTIONAL requestBody has two media types. -/
def exOptBody : Op :=
  ⟨"PATCH".toList, [.lit "/docs/".toList, .var "id".toList], [⟨"id".toList, .path, true, .plain⟩],
   some ⟨false, [mtJson, mtMultipart]⟩, [⟨.num 200, []⟩]⟩

/-- (an optional argument left as None is omitted)  The FORMER WITNESS of F62: called with the path argument only, the
    runtime dispatch used to end in `raise ValueError("One of the content-type parameters must be provided")` and no
    request was sent.  Since the repair the `else:` branch of an operation whose requestBody is not required sends the
    request without a body; with `required: true` the ValueError remains. -/
theorem optional_body_omitted_former_witness :
    buildRequest exOptBody [("id_".toList, .str "7".toList)] = .ok
      { method := "PATCH".toList, path := [.lit "/docs/".toList, .val (.str "7".toList)], query := none, headers := none,
        body := .none } ∧
    buildRequest { exOptBody with body := some ⟨true, [mtJson, mtMultipart]⟩ } [("id_".toList, .str "7".toList)]
      = .error .valueError := by
  decide +kernel

theorem exOptBody_stdCall : StdCall exOptBody [("id_".toList, .str "7".toList)] where
  importable := by decide +kernel
  bound := by decide +kernel
  headerStr := by decide +kernel
  bodyKnown := by intro h; exact absurd h (by decide)
  bodyGiven := by intro _; exact Or.inr (by decide)
  pathBound := by decide +kernel

/-- The repair in general: a well-typed call of an operation with several request media types whose requestBody is
    OPTIONAL, made without any body keyword, sends its one request without a body. -/
theorem optional_body_can_be_omitted (op : Op) (args : GArgs) (h : StdCall op args) (hmulti : isMulti op = true)
    (hnone : dispatchBody args ((op.body.map (·.media)).getD []) = none) :
    ∃ r, wire op args = [r] ∧ r.body = .none := by
  obtain ⟨b, hb, hr⟩ := buildRequest_std h
  refine ⟨_, by unfold wire; rw [hr], ?_⟩
  have hopt : (op.body.map (·.required)).getD true = false := by
    rcases h.bodyGiven hmulti with ⟨b', hb'⟩ | hopt
    · rw [hnone] at hb'; cases hb'
    · exact hopt
  unfold reqBody ovlBody at hb
  simp only [hmulti, if_true, hnone, hopt, Bool.false_eq_true, if_false, Except.ok.injEq] at hb
  exact hb.symm

example : StdCall exOptBody [("id_".toList, .str "7".toList)] ∧ isMulti exOptBody = true ∧
    dispatchBody [("id_".toList, .str "7".toList)] ((exOptBody.body.map (·.media)).getD []) = none :=
  ⟨exOptBody_stdCall, by decide, by decide +kernel⟩

/-- A `GET /pets/{petId}` with a path-level header, an optional and a required query parameter and a JSON body. -/
def exOp : Op :=
  ⟨"POST".toList, parsePath "/pets/{petId}/toys".toList,
   irParams [⟨"X-Trace".toList, .header, false, .plain⟩]
     [⟨"petId".toList, .path, true, .num⟩, ⟨"limit".toList, .query, false, .num⟩, ⟨"sort-by".toList, .query, true, .plain⟩,
      ⟨"X-Depth".toList, .header, false, .num⟩],
   some ⟨true, [mtJson]⟩, [⟨.num 200, []⟩]⟩

def exArgs : GArgs :=
  [("pet_id".toList, .other "7".toList), ("sort_by".toList, .str "name".toList), ("x_depth".toList, .other "3".toList),
   ("body".toList, .other "B".toList)]

theorem exOp_stdCall : StdCall exOp exArgs where
  importable := by decide +kernel
  bound := by decide +kernel
  headerStr := by decide +kernel
  bodyKnown := by
    intro _ b mt hb hp
    have hb' : b = ⟨true, [mtJson]⟩ := by
      have : exOp.body = some ⟨true, [mtJson]⟩ := rfl
      rw [this] at hb
      exact (Option.some.inj hb).symm
    subst hb'
    have h2 : primaryBody [mtJson] = some (mtJson, .json) := by decide
    rw [h2] at hp
    cases hp
  bodyGiven := by intro h; exact absurd h (by decide)
  pathBound := by intro h; exact absurd h (by decide)

example : buildRequest exOp exArgs = .ok
    { method := "POST".toList,
      path := [.lit "/pets/".toList, .val (.other "7".toList), .lit "/toys".toList],
      query := some [("sort-by".toList, .str "name".toList)],
      headers := some [("X-Depth".toList, .str "3".toList)],
      body := .json (.other "B".toList) } := by decide +kernel

/-! ## the three dicts in terms of the declared parameters -/

/-- The entries of `params`: one per query parameter that is required or was given a non-None value. -/
theorem mem_stdQuery_iff (op : Op) (args : GArgs) (e : Str × GValue) :
    e ∈ (stdQuery op args).getD [] ↔
      ∃ p ∈ op.params, p.loc = .query ∧ e = (p.name, argVal args p.ident) ∧
        (p.required = true ∨ argVal args p.ident ≠ .none) := by
  rw [← mem_entries_iff op args .query toS_query e]
  unfold stdQuery
  split
  · rfl
  · next hn =>
    simp only [Option.getD_none, List.not_mem_nil, false_iff]
    intro he
    obtain ⟨p, hp, hpl, _⟩ := (mem_entries_iff op args .query toS_query e).mp he
    exact hn ((any_loc_iff op .query toS_query).mpr ⟨p, hp, hpl⟩)

/-- The entries of `headers`: one per header parameter that is required or was given a non-None value, the value
    written through `_string_value_expr`. -/
theorem mem_stdHeaders_iff (op : Op) (args : GArgs) (e : Str × GValue) :
    e ∈ (stdHeaders op args).getD [] ↔
      ∃ p ∈ op.params, p.loc = .header ∧ e = (p.name, strValue p.kind (argVal args p.ident)) ∧
        (p.required = true ∨ argVal args p.ident ≠ .none) := by
  rw [← mem_strEntries_iff op args .header toS_header e]
  unfold stdHeaders
  split
  · rfl
  · next hn =>
    simp only [Option.getD_none, List.not_mem_nil, false_iff]
    intro he
    obtain ⟨p, hp, hpl, _⟩ := (mem_strEntries_iff op args .header toS_header e).mp he
    exact hn ((any_loc_iff op .header toS_header).mpr ⟨p, hp, hpl⟩)

/-- The entries of `cookies` (F11 repaired): one per cookie parameter that is required or was given a non-None value. -/
theorem mem_stdCookies_iff (op : Op) (args : GArgs) (e : Str × GValue) :
    e ∈ (stdCookies op args).getD [] ↔
      ∃ p ∈ op.params, p.loc = .cookie ∧ e = (p.name, strValue p.kind (argVal args p.ident)) ∧
        (p.required = true ∨ argVal args p.ident ≠ .none) := by
  rw [← mem_strEntries_iff op args .cookie toS_cookie e]
  unfold stdCookies
  split
  · rfl
  · next hn =>
    simp only [Option.getD_none, List.not_mem_nil, false_iff]
    intro he
    obtain ⟨p, hp, hpl, _⟩ := (mem_strEntries_iff op args .cookie toS_cookie e).mp he
    exact hn ((any_loc_iff op .cookie toS_cookie).mpr ⟨p, hp, hpl⟩)

/-- What a request that reached the transport is made of - for every operation (one or several request media types)
    and every call: the module imports and the three dicts are `stdQuery` / `stdHeaders` / `stdCookies`. -/
theorem buildRequest_inv {op : Op} {args : GArgs} {r : Request} (h : buildRequest op args = .ok r) :
    moduleOk op = true ∧ r.method = op.method ∧ r.query = stdQuery op args ∧ r.headers = stdHeaders op args ∧
      r.cookies = stdCookies op args := by
  unfold buildRequest at h
  split at h
  · cases h
  · next hm =>
    have hm : moduleOk op = true := by simpa using hm
    split at h
    · unfold buildOvl at h
      split at h
      · cases h
      · split at h
        · cases h
        · split at h
          · cases h
          · obtain ⟨h1, _, h2, h3, h4, _⟩ := sendRequest_inv h
            exact ⟨hm, h1, h2, h3, h4⟩
    · unfold buildStd at h
      split at h
      · cases h
      · split at h
        · cases h
        · split at h
          · cases h
          · obtain ⟨h1, _, h2, h3, h4, _⟩ := sendRequest_inv h
            exact ⟨hm, h1, h2, h3, h4⟩

/-- In an importable method the entries of a dict that stem from declared parameters (each required or given a non-None
    value) have no entry under the name of an optional parameter left as `None`: two declared parameters with the same
    original name are the same entry of `ordered_params`. -/
theorem no_entry_for_none {op : Op} {args : GArgs} (hm : moduleOk op = true)
    {p : GParam} (hp : p ∈ op.params) (hopt : p.required = false) (hnone : argVal args p.ident = .none)
    (val : GParam → GValue) {es : List (Str × GValue)}
    (hes : ∀ e ∈ es, ∃ p' ∈ op.params, e = (p'.name, val p') ∧ (p'.required = true ∨ argVal args p'.ident ≠ .none)) :
    ∀ e ∈ es, e.1 ≠ p.name := by
  intro e he hname
  obtain ⟨p', hp', rfl, hreq⟩ := hes e he
  have hi : p'.info = p.info :=
    nonbody_ident_inj hm (info_mem_ordered op p' hp') (info_mem_ordered op p hp) (info_loc_ne_body p') (info_loc_ne_body p)
      (by simp [info_ident, GParam.ident, show p'.name = p.name from hname])
  have hreq' : p'.required = p.required := by
    have := congrArg PInfo.required hi; simpa [GParam.info] using this
  have hid : p'.ident = p.ident := by simp [GParam.ident, show p'.name = p.name from hname]
  rw [hreq', hid, hopt] at hreq
  rcases hreq with hreq | hreq
  · cases hreq
  · exact hreq hnone

/-! ## fidelity -/

/-- C04 for the inputs the generator gets right: a well-typed call of an operation - with one request media type, none,
    or (F12 repaired) several - yields ONE request with
    * the operation's method,
    * the path template with every `{v}` replaced by the value bound to `sanitize_method_name(v)`,
    * a query (header, cookie) entry `original name ↦ value` for every query (header, cookie) parameter that is required
      or was given a non-None value - a header or cookie value in its string form when the parameter is declared integer /
      number / boolean -, no entry for an optional one left as None, and nothing else,
    * the body keyword of the primary media type carrying the value of the body parameter - for several media types:
      the keyword of the first media type (in spec order) whose content-type parameter was given, carrying that value,
      and no body when none was given and the requestBody is optional;
    and, when every parameter has one of the four locations and every path parameter occurs in the template, no supplied
    argument is dropped: every non-None value of a declared parameter is in the location the spec names. -/
theorem request_fidelity_partial (op : Op) (args : GArgs) (h : StdCall op args) :
    ∃ r, buildRequest op args = .ok r ∧ wire op args = [r] ∧
      r.method = op.method ∧
      r.path = substPath args op.path ∧
      -- query
      (∀ p ∈ op.params, p.loc = .query → (p.required = true ∨ argVal args p.ident ≠ .none) →
          (p.name, argVal args p.ident) ∈ r.query.getD []) ∧
      (∀ p ∈ op.params, p.loc = .query → p.required = false → argVal args p.ident = .none →
          ∀ e ∈ r.query.getD [], e.1 ≠ p.name) ∧
      (∀ e ∈ r.query.getD [], ∃ p ∈ op.params, p.loc = .query ∧ e = (p.name, argVal args p.ident)) ∧
      -- headers
      (∀ p ∈ op.params, p.loc = .header → (p.required = true ∨ argVal args p.ident ≠ .none) →
          (p.name, strValue p.kind (argVal args p.ident)) ∈ r.headers.getD []) ∧
      (∀ p ∈ op.params, p.loc = .header → p.required = false → argVal args p.ident = .none →
          ∀ e ∈ r.headers.getD [], e.1 ≠ p.name) ∧
      (∀ e ∈ r.headers.getD [], ∃ p ∈ op.params, p.loc = .header ∧ e = (p.name, strValue p.kind (argVal args p.ident))) ∧
      -- cookies
      (∀ p ∈ op.params, p.loc = .cookie → (p.required = true ∨ argVal args p.ident ≠ .none) →
          (p.name, strValue p.kind (argVal args p.ident)) ∈ r.cookies.getD []) ∧
      (∀ p ∈ op.params, p.loc = .cookie → p.required = false → argVal args p.ident = .none →
          ∀ e ∈ r.cookies.getD [], e.1 ≠ p.name) ∧
      (∀ e ∈ r.cookies.getD [], ∃ p ∈ op.params, p.loc = .cookie ∧ e = (p.name, strValue p.kind (argVal args p.ident))) ∧
      -- body
      reqBody op args = .ok r.body ∧
      (isMulti op = false → ∀ b k mt, op.body = some b → primaryBody b.media = some (mt, k) →
          r.body = mkBody (match k with | .json => BodyArg.json | .files => .files | .form => .data | .bytes => .data)
            (argVal args k.param)) ∧
      (op.body = none → r.body = .none) ∧
      (isMulti op = true → ∀ b, op.body = some b →
          dispatchBody args b.media = some r.body ∨
          (dispatchBody args b.media = none ∧ b.required = false ∧ r.body = .none)) ∧
      -- nothing dropped
      (AllSendable op → ∀ p ∈ op.params, argVal args p.ident ≠ .none →
          (p.loc = .path ∧ Piece.val (argVal args p.ident) ∈ r.path) ∨
          (p.loc = .query ∧ (p.name, argVal args p.ident) ∈ r.query.getD []) ∨
          (p.loc = .header ∧ (p.name, strValue p.kind (argVal args p.ident)) ∈ r.headers.getD []) ∨
          (p.loc = .cookie ∧ (p.name, strValue p.kind (argVal args p.ident)) ∈ r.cookies.getD [])) := by
  obtain ⟨b, hb, hr⟩ := buildRequest_std h
  have hq := mem_stdQuery_iff op args
  have hh := mem_stdHeaders_iff op args
  have hc := mem_stdCookies_iff op args
  have habsent : ∀ (val : GParam → GValue) (es : List (Str × GValue)),
      (∀ e ∈ es, ∃ p' ∈ op.params, e = (p'.name, val p') ∧ (p'.required = true ∨ argVal args p'.ident ≠ .none)) →
      ∀ p ∈ op.params, p.required = false → argVal args p.ident = .none → ∀ e ∈ es, e.1 ≠ p.name :=
    fun val es hes p hp hopt hnone => no_entry_for_none h.importable hp hopt hnone val hes
  refine ⟨_, hr, by unfold wire; rw [hr], rfl, rfl, ?_, ?_, ?_, ?_, ?_, ?_, ?_, ?_, ?_, hb, ?_, ?_, ?_, ?_⟩
  · intro p hp hpl hreq
    exact (hq _).mpr ⟨p, hp, hpl, rfl, hreq⟩
  · intro p hp _ hopt hnone
    refine habsent (fun p => argVal args p.ident) _ (fun e he => ?_) p hp hopt hnone
    obtain ⟨p', hp', _, he', hreq⟩ := (hq e).mp he
    exact ⟨p', hp', he', hreq⟩
  · intro e he
    obtain ⟨p, hp, hpl, rfl, _⟩ := (hq e).mp he
    exact ⟨p, hp, hpl, rfl⟩
  · intro p hp hpl hreq
    exact (hh _).mpr ⟨p, hp, hpl, rfl, hreq⟩
  · intro p hp _ hopt hnone
    refine habsent (fun p => strValue p.kind (argVal args p.ident)) _ (fun e he => ?_) p hp hopt hnone
    obtain ⟨p', hp', _, he', hreq⟩ := (hh e).mp he
    exact ⟨p', hp', he', hreq⟩
  · intro e he
    obtain ⟨p, hp, hpl, rfl, _⟩ := (hh e).mp he
    exact ⟨p, hp, hpl, rfl⟩
  · intro p hp hpl hreq
    exact (hc _).mpr ⟨p, hp, hpl, rfl, hreq⟩
  · intro p hp _ hopt hnone
    refine habsent (fun p => strValue p.kind (argVal args p.ident)) _ (fun e he => ?_) p hp hopt hnone
    obtain ⟨p', hp', _, he', hreq⟩ := (hc e).mp he
    exact ⟨p', hp', he', hreq⟩
  · intro e he
    obtain ⟨p, hp, hpl, rfl, _⟩ := (hc e).mp he
    exact ⟨p, hp, hpl, rfl⟩
  · intro hs bd k mt hbd hpb
    unfold reqBody stdBody at hb
    simp only [hs, Bool.false_eq_true, if_false, hbd, hpb] at hb
    cases k with
    | json => simp only [Except.ok.injEq] at hb; exact hb.symm
    | files => simp only [Except.ok.injEq] at hb; exact hb.symm
    | form => simp only [Except.ok.injEq] at hb; exact hb.symm
    | bytes =>
      simp only [h.bodyKnown hs bd mt hbd hpb, Bool.false_eq_true, if_false, Except.ok.injEq] at hb
      exact hb.symm
  · intro hnb
    have hs : isMulti op = false := by simp [isMulti, hnb]
    unfold reqBody stdBody at hb
    simp only [hs, Bool.false_eq_true, if_false, hnb, Except.ok.injEq] at hb
    exact hb.symm
  · intro hm bd hbd
    unfold reqBody ovlBody at hb
    simp only [hm, if_true, hbd, Option.map_some, Option.getD_some] at hb
    cases hd : dispatchBody args bd.media with
    | none =>
      right
      rw [hd] at hb
      cases hreq : bd.required with
      | true => simp only [hreq, if_true] at hb; cases hb
      | false =>
        simp only [hreq, Bool.false_eq_true, if_false, Except.ok.injEq] at hb
        exact ⟨rfl, rfl, hb.symm⟩
    | some b' =>
      left
      rw [hd] at hb
      simp only [Except.ok.injEq] at hb
      rw [hb]
  · intro hs p hp hv
    rcases hs.knownLoc p hp with hl | hl | hl | hl
    · left
      refine ⟨hl, ?_⟩
      have hmem := hs.pathUsed p hp hl
      have : argVal args p.ident = argVal args (sanMethod p.name) := by
        simp [GParam.ident, sanMethod_idempotent]
      rw [this]
      exact mem_substPath args op.path p.name hmem
    · right; left
      exact ⟨hl, (hq _).mpr ⟨p, hp, hl, rfl, Or.inr hv⟩⟩
    · right; right; left
      exact ⟨hl, (hh _).mpr ⟨p, hp, hl, rfl, Or.inr hv⟩⟩
    · right; right; right
      exact ⟨hl, (hc _).mpr ⟨p, hp, hl, rfl, Or.inr hv⟩⟩

example : StdCall exOp exArgs ∧ AllSendable exOp :=
  ⟨exOp_stdCall, ⟨by decide +kernel, by decide +kernel⟩⟩

/-- An optional query / header / cookie argument left as `None` never appears in the request — for EVERY operation
    (single- or multi-media) and every call that reaches the transport. -/
theorem optional_none_omitted (op : Op) (args : GArgs) (r : Request) (h : buildRequest op args = .ok r)
    (p : GParam) (hp : p ∈ op.params) (hopt : p.required = false) (hnone : argVal args p.ident = .none) :
    (p.loc = .query → ∀ e ∈ r.query.getD [], e.1 ≠ p.name) ∧
    (p.loc = .header → ∀ e ∈ r.headers.getD [], e.1 ≠ p.name) ∧
    (p.loc = .cookie → ∀ e ∈ r.cookies.getD [], e.1 ≠ p.name) := by
  obtain ⟨hm, _, h1, h2, h3⟩ := buildRequest_inv h
  rw [h1, h2, h3]
  refine ⟨fun _ => ?_, fun _ => ?_, fun _ => ?_⟩
  · refine no_entry_for_none hm hp hopt hnone (fun p => argVal args p.ident) (fun e he => ?_)
    obtain ⟨p', hp', _, he', hreq⟩ := (mem_stdQuery_iff op args e).mp he
    exact ⟨p', hp', he', hreq⟩
  · refine no_entry_for_none hm hp hopt hnone (fun p => strValue p.kind (argVal args p.ident)) (fun e he => ?_)
    obtain ⟨p', hp', _, he', hreq⟩ := (mem_stdHeaders_iff op args e).mp he
    exact ⟨p', hp', he', hreq⟩
  · refine no_entry_for_none hm hp hopt hnone (fun p => strValue p.kind (argVal args p.ident)) (fun e he => ?_)
    obtain ⟨p', hp', _, he', hreq⟩ := (mem_stdCookies_iff op args e).mp he
    exact ⟨p', hp', he', hreq⟩

/-! ## cookie parameters (F11 repaired) -/

/-- `GET /me` with a required cookie parameter `session` and an optional integer one. -/
def exCookie : Op :=
  ⟨"GET".toList, [.lit "/me".toList],
   [⟨"session".toList, .cookie, true, .plain⟩, ⟨"page-size".toList, .cookie, false, .num⟩], none, [⟨.num 200, []⟩]⟩

/-- (cookie parameters are sent)  The FORMER WITNESS of F11: the cookie argument used to be accepted by the method and
    then dropped (no query, no headers, no body, no `cookies=` keyword).  Since the repair the method builds a `cookies`
    dict - the optional one left out when `None`, an integer in its string form - and passes `cookies=cookies`. -/
theorem cookie_sent_former_witness :
    buildRequest exCookie [("session".toList, .str "SECRET".toList)] = .ok
      { method := "GET".toList, path := [.lit "/me".toList], query := none, headers := none, body := .none,
        cookies := some [("session".toList, .str "SECRET".toList)] } ∧
    buildRequest exCookie [("session".toList, .str "SECRET".toList), ("page_size".toList, .other "20".toList)] = .ok
      { method := "GET".toList, path := [.lit "/me".toList], query := none, headers := none, body := .none,
        cookies := some [("session".toList, .str "SECRET".toList), ("page-size".toList, .str "20".toList)] } := by
  decide +kernel

/-- Nothing reaches the transport that the spec does not name — for EVERY operation and EVERY call: every query entry
    stems from a parameter declared `in: query`, every header entry from one declared `in: header`, every cookie entry
    from one declared `in: cookie` (no argument is sent in a different location). -/
theorem no_entry_without_parameter (op : Op) (args : GArgs) (r : Request) (h : buildRequest op args = .ok r) :
    (∀ e ∈ r.query.getD [], ∃ p ∈ op.params, p.loc = .query ∧ e = (p.name, argVal args p.ident)) ∧
    (∀ e ∈ r.headers.getD [], ∃ p ∈ op.params, p.loc = .header ∧ e = (p.name, strValue p.kind (argVal args p.ident))) ∧
    (∀ e ∈ r.cookies.getD [], ∃ p ∈ op.params, p.loc = .cookie ∧ e = (p.name, strValue p.kind (argVal args p.ident))) := by
  obtain ⟨_, _, h1, h2, h3⟩ := buildRequest_inv h
  rw [h1, h2, h3]
  refine ⟨fun e he => ?_, fun e he => ?_, fun e he => ?_⟩
  · obtain ⟨p, hp, hpl, rfl, _⟩ := (mem_stdQuery_iff op args e).mp he
    exact ⟨p, hp, hpl, rfl⟩
  · obtain ⟨p, hp, hpl, rfl, _⟩ := (mem_stdHeaders_iff op args e).mp he
    exact ⟨p, hp, hpl, rfl⟩
  · obtain ⟨p, hp, hpl, rfl, _⟩ := (mem_stdCookies_iff op args e).mp he
    exact ⟨p, hp, hpl, rfl⟩

/-! ## several request media types (F12 repaired) -/

/-- `POST /upload/{id}` with a required query, an optional query, a required header and an optional cookie parameter,
    a path variable WITHOUT a parameter object, and two request media types. -/
def exMulti : Op :=
  ⟨"POST".toList, [.lit "/upload/".toList, .var "id".toList],
   [⟨"folder".toList, .query, true, .plain⟩, ⟨"limit".toList, .query, false, .num⟩,
    ⟨"X-Token".toList, .header, true, .plain⟩, ⟨"sid".toList, .cookie, false, .plain⟩],
   some ⟨true, [mtJson, mtMultipart]⟩, [⟨.num 200, []⟩]⟩

def exMultiArgs : GArgs :=
  [("id_".toList, .str "7".toList), ("folder".toList, .str "inbox".toList), ("x_token".toList, .str "t0k".toList),
   ("sid".toList, .str "s1".toList), ("body".toList, .other "B".toList)]

/-- (≥ 2 request media types: query and header arguments are sent)  The FORMER WITNESS of F12: the implementation
    method used to send `params=None, headers=None` (the supplied query and header arguments were dropped), did not
    accept the cookie parameter, had no default for the optional `limit` (leaving it out was a `TypeError`) and read
    the undeclared path variable `id` as an unbound name (`NameError`).  Since the repair the method is built like the
    single-content one: url / params / headers / cookies from `generate_url_and_args`, the positional parameters from
    `process_parameters`. -/
theorem multi_content_sends_query_former_witness :
    sigOf exMulti =
      [("folder".toList, true), ("x_token".toList, true), ("id_".toList, true), ("limit".toList, false),
       ("sid".toList, false), ("body".toList, false), ("files".toList, false), ("content_type".toList, false)] ∧
    buildRequest exMulti exMultiArgs
      = .ok { method := "POST".toList, path := [.lit "/upload/".toList, .val (.str "7".toList)],
              query := some [("folder".toList, .str "inbox".toList)],
              headers := some [("X-Token".toList, .str "t0k".toList)],
              body := .json (.other "B".toList),
              cookies := some [("sid".toList, .str "s1".toList)] } := by
  decide +kernel

theorem exMulti_stdCall : StdCall exMulti exMultiArgs where
  importable := by decide +kernel
  bound := by decide +kernel
  headerStr := by decide +kernel
  bodyKnown := by intro h; exact absurd h (by decide)
  bodyGiven := by intro _; exact Or.inl ⟨.json (.other "B".toList), by decide +kernel⟩
  pathBound := by decide +kernel

/-- `request_fidelity_partial` covers it: the hypotheses hold of a call of an operation with several media types. -/
example : StdCall exMulti exMultiArgs ∧ AllSendable exMulti ∧ isMulti exMulti = true :=
  ⟨exMulti_stdCall, ⟨by decide +kernel, by decide +kernel⟩, by decide⟩

/-- (≥ 2 media types: optional parameters are optional)  FORMER WITNESS (F12): an OPTIONAL parameter of such an
    operation used to have no default - leaving it out was a `TypeError`.  Now it defaults to `None` and is omitted. -/
theorem multi_content_optional_former_witness :
    buildRequest ⟨"POST".toList, [.lit "/upload".toList], [⟨"folder".toList, .query, false, .plain⟩],
        some ⟨true, [mtJson, mtMultipart]⟩, [⟨.num 200, []⟩]⟩ [("body".toList, .other "B".toList)]
      = .ok { method := "POST".toList, path := [.lit "/upload".toList], query := some [], headers := none,
              body := .json (.other "B".toList) } := by
  decide +kernel

/-- (≥ 2 media types: undeclared path variables work)  FORMER WITNESS (F12): a path variable without a parameter object
    used to be an unbound name (`NameError`) in the implementation method, while the single-media method adds it as a
    required `str` parameter.  Now both do. -/
theorem multi_content_undeclared_path_var_former_witness :
    buildRequest ⟨"POST".toList, [.lit "/a/".toList, .var "id".toList], [],
        some ⟨true, [mtJson, mtMultipart]⟩, [⟨.num 200, []⟩]⟩ [("id_".toList, .str "7".toList), ("body".toList, .other "B".toList)]
      = .ok { method := "POST".toList, path := [.lit "/a/".toList, .val (.str "7".toList)], query := none,
              headers := none, body := .json (.other "B".toList) } ∧
    buildRequest ⟨"POST".toList, [.lit "/a/".toList, .var "id".toList], [],
        some ⟨true, [mtJson]⟩, [⟨.num 200, []⟩]⟩ [("id_".toList, .str "7".toList), ("body".toList, .other "B".toList)]
      = .ok { method := "POST".toList, path := [.lit "/a/".toList, .val (.str "7".toList)], query := none,
              headers := none, body := .json (.other "B".toList) } := by
  decide +kernel

/-- What remains of `pathBound` (outside `multi_path_vars_bound`): a path variable named like the single-content body
    parameter that is no content-type keyword is added neither as a path parameter nor as a keyword - an unbound name. -/
theorem multi_content_path_var_named_form_data_witness :
    buildRequest ⟨"POST".toList, [.lit "/a/".toList, .var "form_data".toList], [],
        some ⟨true, [mtForm, "application/xml".toList]⟩, [⟨.num 200, []⟩]⟩ [("data".toList, .other "D".toList)]
      = .error .nameError := by
  decide +kernel

/-! ## ✗ further excluded classes, each with a witness -/

/-- (OpenAPI: an operation-level parameter overrides the path-level one with the same name and location)  The FORMER
    WITNESS of F4: the loader used to concatenate both lists, the emitted `def` had a duplicate argument and the module
    did not compile.  Since the repair `irParams` drops the overridden path-level entry: the module compiles and the
    call is sent. -/
theorem path_level_override_former_witness :
    let op : Op := ⟨"GET".toList, [.lit "/a/".toList, .var "id".toList],
      irParams [⟨"id".toList, .path, true, .plain⟩] [⟨"id".toList, .path, true, .plain⟩], none, [⟨.num 200, []⟩]⟩
    op.params = [⟨"id".toList, .path, true, .plain⟩] ∧ moduleOk op = true ∧
    buildRequest op [("id_".toList, .str "7".toList)]
      = .ok { method := "GET".toList, path := [.lit "/a/".toList, .val (.str "7".toList)], query := none,
              headers := none, body := .none } := by
  decide +kernel

/-- `irParams` yields no duplicate (name, location) when neither list has one: the source of duplicate arguments that
    remains is two DIFFERENT parameters whose names sanitise to one identifier (`moduleOk`). -/
theorem irParams_no_duplicate_key (pl ol : List GParam)
    (hp : pl.Pairwise (fun a b => ¬ (a.name = b.name ∧ a.loc = b.loc)))
    (ho : ol.Pairwise (fun a b => ¬ (a.name = b.name ∧ a.loc = b.loc))) :
    (irParams pl ol).Pairwise (fun a b => ¬ (a.name = b.name ∧ a.loc = b.loc)) := by
  refine List.pairwise_append.mpr ⟨hp.sublist List.filter_sublist, ho, ?_⟩
  intro a ha b hb
  simp only [List.mem_filter, Bool.not_eq_true', List.any_eq_false, Bool.and_eq_true, beq_iff_eq] at ha
  exact ha.2 b hb

example : ([⟨"id".toList, .path, true, .plain⟩, ⟨"id".toList, .query, false, .plain⟩] : List GParam).Pairwise
    (fun a b => ¬ (a.name = b.name ∧ a.loc = b.loc)) := by decide

/-- (every supplied header parameter is sent)  The FORMER WITNESS of F39: an integer-typed header argument used to be
    handed to httpx as an `int` (`TypeError`, nothing sent).  Since the repair the headers dict is written with
    `str(…)` for a parameter declared integer / number (`str(…).lower()` for boolean): the request goes out with the
    value's string form - and a boolean as `true`. -/
theorem nonstr_header_former_witness :
    buildRequest ⟨"GET".toList, [.lit "/a".toList],
        [⟨"X-Count".toList, .header, true, .num⟩, ⟨"X-Dry".toList, .header, false, .bool⟩], none, [⟨.num 200, []⟩]⟩
      [("x_count".toList, .other "5".toList), ("x_dry".toList, .other "True".toList)]
      = .ok { method := "GET".toList, path := [.lit "/a".toList], query := none,
              headers := some [("X-Count".toList, .str "5".toList), ("X-Dry".toList, .str "true".toList)],
              body := .none } := by
  decide +kernel

/-- The repair in general: whatever the caller passes for a header parameter declared integer / number / boolean, the
    value written into the headers dict is a `str` - httpx's `Header value must be str or bytes` cannot be raised for
    it. -/
theorem typed_header_is_str (k : PKind) (v : GValue) (hk : k ≠ .plain) : (strValue k v).isStr = true := by
  cases k with
  | plain => exact absurd rfl hk
  | num => rfl
  | bool => rfl

/-- What remains of the class: a NON-string value for a header parameter that is not declared integer / number /
    boolean (an ill-typed call - `StdCall.headerStr` excludes it) is still rejected by httpx. -/
theorem nonstr_value_for_string_header_witness :
    buildRequest ⟨"GET".toList, [.lit "/a".toList], [⟨"X-Name".toList, .header, true, .plain⟩], none, [⟨.num 200, []⟩]⟩
      [("x_name".toList, .other "5".toList)] = .error .headerTypeError := by
  decide +kernel

/-- ✗ (a body whose content type …) a declared parameter named `body` takes the place of the JSON body
    parameter: its value is sent in the query AND as the JSON body. -/
theorem body_name_collision_counterexample :
    buildRequest ⟨"POST".toList, [.lit "/a".toList], [⟨"body".toList, .query, true, .plain⟩], some ⟨true, [mtJson]⟩,
        [⟨.num 200, []⟩]⟩ [("body".toList, .str "Q".toList)]
      = .ok { method := "POST".toList, path := [.lit "/a".toList], query := some [("body".toList, .str "Q".toList)],
              headers := none, body := .json (.str "Q".toList) } := by
  decide +kernel

end Pog.C04
