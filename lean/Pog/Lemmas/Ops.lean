import Pog.Model.Ops
import Pog.Lemmas.Names
import Pog.Lemmas.Fresh
/-
  Lemmas about `Pog.Model.Ops` used by `Pog.Props.C07`.
-/
set_option linter.unusedSimpArgs false
namespace Pog.Ops
open Pog

/-! ### One entry of a path item -/

theorem parseOne_of_not_recognised (u : UInfo) (s : Naming) (path key : Str) (op : RawOp)
    (h : recognised u key = false) : parseOne u s path key op = .skipped := by
  unfold recognised at h
  unfold parseOne
  cases h1 : skipKeys.contains key
  · cases h2 : httpMethods.contains (u.upperS key)
    · simp only [h2, Bool.false_eq_true, if_false, Bool.not_false, if_true]
    · rw [h1, h2] at h; cases h
  · simp only [if_true]

theorem parseOne_of_recognised (u : UInfo) (s : Naming) (path key : Str) (op : RawOp)
    (h : recognised u key = true) :
    parseOne u s path key op =
      if op.parseRaises then .dropped ⟨u.upperS key, path, .other⟩ else
      match respError (chooseOpId s (u.upperS key) path op.operationId) op.responses with
      | some r => .dropped ⟨u.upperS key, path, r⟩
      | none => .parsed ⟨path, u.upperS key, chooseOpId s (u.upperS key) path op.operationId, tagsList op.tags⟩ := by
  unfold recognised at h
  simp only [Bool.and_eq_true, Bool.not_eq_true'] at h
  unfold parseOne
  simp only [h.1, h.2, Bool.false_eq_true, if_false, Bool.not_true]
  rfl

theorem recognised_mem (u : UInfo) (key : Str) (h : recognised u key = true) :
    u.upperS key ∈ httpMethods := by
  unfold recognised at h
  simp only [Bool.and_eq_true] at h
  simpa using h.2

/-- Every recognised entry is either parsed into an operation with the expected fields or dropped
    with a warning — never skipped. -/
theorem parseOne_recognised_cases (u : UInfo) (s : Naming) (path key : Str) (op : RawOp)
    (h : recognised u key = true) :
    (∃ r, parseOne u s path key op = .dropped ⟨u.upperS key, path, r⟩) ∨
    parseOne u s path key op =
      .parsed ⟨path, u.upperS key, chooseOpId s (u.upperS key) path op.operationId, tagsList op.tags⟩ := by
  rw [parseOne_of_recognised u s path key op h]
  by_cases hr : op.parseRaises = true
  · left; exact ⟨.other, by simp [hr]⟩
  · simp only [hr]
    cases hre : respError (chooseOpId s (u.upperS key) path op.operationId) op.responses with
    | none => right; simp
    | some r => left; exact ⟨r, by simp⟩

theorem parseOne_parsed_fields (u : UInfo) (s : Naming) (path key : Str) (op : RawOp) (o : IROp)
    (h : parseOne u s path key op = .parsed o) :
    recognised u key = true ∧
    o = ⟨path, u.upperS key, chooseOpId s (u.upperS key) path op.operationId, tagsList op.tags⟩ := by
  cases hr : recognised u key with
  | false => rw [parseOne_of_not_recognised u s path key op hr] at h; cases h
  | true =>
    refine ⟨rfl, ?_⟩
    rcases parseOne_recognised_cases u s path key op hr with ⟨r, h1⟩ | h1
    · rw [h1] at h; cases h
    · rw [h1] at h; injection h with h; exact h.symm

/-! ### The response loop -/

def StatusKey.isBad : StatusKey → Bool
  | .badKey _ => true
  | .intKey _ => false
  | .strKey _ => false

theorem respError_of_bad (opId : Str) (ks : List StatusKey) (h : ks.any StatusKey.isBad = true) :
    respError opId ks ≠ none := by
  induction ks with
  | nil => simp at h
  | cons k rest ih =>
    cases k with
    | badKey r => simp [respError]
    | strKey t =>
      simp only [List.any_cons, StatusKey.isBad, Bool.false_or] at h
      simp only [respError]
      split
      · simp
      · exact ih h
    | intKey i =>
      simp only [List.any_cons, StatusKey.isBad, Bool.false_or] at h
      simp only [respError]
      split
      · simp
      · exact ih h

theorem respError_none_of_str (opId : Str) (ks : List StatusKey) (hne : opId ≠ [])
    (h : ks.any StatusKey.isBad = false) : respError opId ks = none := by
  induction ks with
  | nil => rfl
  | cons k rest ih =>
    cases k with
    | badKey r => simp [StatusKey.isBad] at h
    | strKey t =>
      simp only [List.any_cons, StatusKey.isBad, Bool.false_or] at h
      have : opId.isEmpty = false := by cases opId <;> simp_all
      simp only [respError, this]
      exact ih h
    | intKey i =>
      simp only [List.any_cons, StatusKey.isBad, Bool.false_or] at h
      have : opId.isEmpty = false := by cases opId <;> simp_all
      simp only [respError, this]
      exact ih h

theorem respError_nil (opId : Str) : respError opId [] = none := rfl

/-- An operation with a non-string status key is never parsed. -/
theorem parseOne_bad_key (u : UInfo) (s : Naming) (path key : Str) (op : RawOp)
    (h : op.responses.any StatusKey.isBad = true) (o : IROp) :
    parseOne u s path key op ≠ .parsed o := by
  intro hp
  have ⟨hr, _⟩ := parseOne_parsed_fields u s path key op o hp
  rw [parseOne_of_recognised u s path key op hr] at hp
  by_cases hx : op.parseRaises = true
  · simp [hx] at hp
  · simp only [hx] at hp
    have := respError_of_bad (chooseOpId s (u.upperS key) path op.operationId) op.responses h
    cases hre : respError (chooseOpId s (u.upperS key) path op.operationId) op.responses with
    | none => exact this hre
    | some r => simp [hre] at hp

/-! ### The loops as `filterMap`s -/

def OpResult.op? : OpResult → Option IROp
  | .parsed o => some o
  | _ => none

def OpResult.warn? : OpResult → Option OpWarning
  | .dropped w => some w
  | _ => none

theorem parseItem_eq (u : UInfo) (s : Naming) (path : Str) (item : PathItem) :
    parseItem u s path item =
      (item.filterMap (fun e => (parseOne u s path e.1 e.2).op?),
       item.filterMap (fun e => (parseOne u s path e.1 e.2).warn?)) := by
  induction item with
  | nil => rfl
  | cons e rest ih =>
    obtain ⟨k, op⟩ := e
    simp only [parseItem, ih, List.filterMap_cons]
    cases h : parseOne u s path k op <;> simp [OpResult.op?, OpResult.warn?]

/-- The recognised pairs of one path item. -/
def itemPairs (u : UInfo) (path : Str) (item : PathItem) : List (Str × Str) :=
  item.filterMap (fun e => if recognised u e.1 then some (path, u.upperS e.1) else none)

theorem allPairs_cons (u : UInfo) (path : Str) (item : PathItem) (rest : Paths) :
    allPairs u ((path, item) :: rest) = itemPairs u path item ++ allPairs u rest := rfl

/-- Every recognised pair is accounted for: it is an IR operation or a warning. -/
theorem parseItem_partition (u : UInfo) (s : Naming) (path : Str) (item : PathItem) :
    (parseItem u s path item).1.length + (parseItem u s path item).2.length
      = (itemPairs u path item).length := by
  induction item with
  | nil => rfl
  | cons e rest ih =>
    obtain ⟨k, op⟩ := e
    simp only [parseItem, itemPairs, List.filterMap_cons] at ih ⊢
    cases hr : recognised u k with
    | false =>
      rw [parseOne_of_not_recognised u s path k op hr]
      simpa using ih
    | true =>
      rcases parseOne_recognised_cases u s path k op hr with ⟨r, h1⟩ | h1 <;>
        rw [h1] <;> simp only [if_true, List.length_cons] <;> omega

theorem parseOps_partition (u : UInfo) (s : Naming) (paths : Paths) :
    (parseOps u s paths).1.length + (parseOps u s paths).2.length = (allPairs u paths).length := by
  induction paths with
  | nil => rfl
  | cons p rest ih =>
    obtain ⟨path, item⟩ := p
    have := parseItem_partition u s path item
    simp only [parseOps, allPairs_cons, List.length_append]
    omega

/-- When nothing raises, a path item yields exactly its recognised pairs, in order. -/
theorem parseItem_keeps_all (u : UInfo) (s : Naming) (path : Str) (item : PathItem)
    (h : item.all (fun e => !opRaises u s path e.1 e.2) = true) :
    (parseItem u s path item).1.map IROp.key = itemPairs u path item ∧ (parseItem u s path item).2 = [] := by
  induction item with
  | nil => exact ⟨rfl, rfl⟩
  | cons e rest ih =>
    obtain ⟨k, op⟩ := e
    simp only [List.all_cons, Bool.and_eq_true, Bool.not_eq_true'] at h
    have ih := ih h.2
    have h1 := h.1
    simp only [parseItem, itemPairs, List.filterMap_cons] at ih ⊢
    cases hr : recognised u k with
    | false =>
      rw [parseOne_of_not_recognised u s path k op hr]
      simpa using ih
    | true =>
      rcases parseOne_recognised_cases u s path k op hr with ⟨r, h2⟩ | h2
      · simp [opRaises, h2] at h1
      · rw [h2]
        simp only [if_true, List.map_cons, IROp.key, ih.1, ih.2, and_self]

theorem parseOps_keeps_all (u : UInfo) (s : Naming) (paths : Paths)
    (h : parseSucceeds u s paths = true) :
    (parseOps u s paths).1.map IROp.key = allPairs u paths ∧ (parseOps u s paths).2 = [] := by
  induction paths with
  | nil => exact ⟨rfl, rfl⟩
  | cons p rest ih =>
    obtain ⟨path, item⟩ := p
    simp only [parseSucceeds, List.all_cons, Bool.and_eq_true] at h
    have h1 := parseItem_keeps_all u s path item h.1
    have h2 := ih (by simpa [parseSucceeds] using h.2)
    simp only [parseOps, allPairs_cons, List.map_append, h1.1, h1.2, h2.1, h2.2, List.append_nil, and_self]

/-! ### Operations with a non-string status key are invisible -/

def hasBadKey (op : RawOp) : Bool := op.responses.any StatusKey.isBad

/-- The document with every operation that has a non-string status key removed. -/
def eraseBadKeyOps (paths : Paths) : Paths :=
  paths.map (fun p => (p.1, p.2.filter (fun e => !hasBadKey e.2)))

theorem parseItem_erase (u : UInfo) (s : Naming) (path : Str) (item : PathItem) :
    (parseItem u s path (item.filter (fun e => !hasBadKey e.2))).1 = (parseItem u s path item).1 := by
  induction item with
  | nil => rfl
  | cons e rest ih =>
    obtain ⟨k, op⟩ := e
    cases hk : hasBadKey op with
    | true =>
      simp only [List.filter_cons, hk, Bool.not_true, Bool.false_eq_true, if_false, ih, parseItem]
      cases hp : parseOne u s path k op with
      | skipped => rfl
      | dropped w => rfl
      | parsed o => exact absurd hp (parseOne_bad_key u s path k op hk o)
    | false =>
      simp only [List.filter_cons, hk, Bool.not_false, if_true, parseItem, ih]
      cases hp : parseOne u s path k op <;> simp [ih]

theorem parseOps_erase (u : UInfo) (s : Naming) (paths : Paths) :
    (parseOps u s (eraseBadKeyOps paths)).1 = (parseOps u s paths).1 := by
  induction paths with
  | nil => rfl
  | cons p rest ih =>
    obtain ⟨path, item⟩ := p
    simp only [eraseBadKeyOps, List.map_cons, parseOps] at ih ⊢
    rw [parseItem_erase, ih]

/-! ### Which operations raise: the exact input class -/

theorem mem_lstripC (ch c : Char) (s : Str) (hc : c ∈ s) (hne : c ≠ ch) : c ∈ lstripC ch s := by
  induction s with
  | nil => cases hc
  | cons d ds ih =>
    simp only [lstripC]
    split
    · rename_i hd
      have hd : d = ch := by simpa using hd
      rcases List.mem_cons.1 hc with h | h
      · exact absurd (h.trans hd) hne
      · exact ih h
    · exact hc

theorem mem_stripC (ch c : Char) (s : Str) (hc : c ∈ s) (hne : c ≠ ch) : c ∈ stripC ch s := by
  unfold stripC rstripC
  rw [List.mem_reverse]
  apply mem_lstripC _ _ _ _ hne
  rw [List.mem_reverse]
  exact mem_lstripC _ _ _ hc hne

theorem httpMethods_have_alnum :
    httpMethods.all (fun m => m.any (fun c => isAlnumA c && c != '/')) = true := by decide

theorem deriveOpIdU_any_alnum (mu path : Str) (h : mu ∈ httpMethods) :
    (stripC '/' (mu ++ '_' :: path)).any isAlnumA = true := by
  have := List.all_eq_true.1 httpMethods_have_alnum mu h
  obtain ⟨c, hc, hp⟩ := List.any_eq_true.1 this
  simp only [Bool.and_eq_true, bne_iff_ne, ne_eq] at hp
  exact List.any_eq_true.2 ⟨c, mem_stripC _ _ _ (List.mem_append_left _ hc) hp.2, hp.1⟩

theorem deriveOpIdU_ne_nil (mu path : Str) (h : mu ∈ httpMethods) : deriveOpIdU mu path ≠ [] := by
  intro h0
  have := (sanMethod_empty_iff _).1 h0
  rw [deriveOpIdU_any_alnum mu path h] at this
  cases this

/-- A derived operation id is always a valid identifier. -/
theorem deriveOpIdU_valid (mu path : Str) (h : mu ∈ httpMethods) :
    isPyIdent (deriveOpIdU mu path) = true ∧ isKeyword (deriveOpIdU mu path) = false :=
  sanMethod_valid _ (deriveOpIdU_any_alnum mu path h)

/-- Sanitising keeps an ASCII alphanumeric when there is one. -/
theorem sanMethod_any_alnum (s : Str) (h : s.any isAlnumA = true) : (sanMethod s).any isAlnumA = true := by
  rw [← methodPre_any] at h
  obtain ⟨c, hc, hp⟩ := List.any_eq_true.1 h
  have hne : c ≠ '_' := by
    intro e; subst e; rw [isAlnumA_us] at hp; cases hp
  have h1 : lowerA c ∈ methodCore s := by
    rw [methodCore_eq]; exact List.mem_map_of_mem (mem_stripC _ _ _ hc hne)
  have h3 : lowerA c ∈ digitGuard (methodCore s) := by
    rcases digitGuard_cases (methodCore s) with e | e <;> rw [e] <;> simp [h1]
  have h2 : lowerA c ∈ sanMethod s := by
    rw [sanMethod_eq]; unfold methodPost
    split
    · exact List.mem_append_left _ h3
    · exact h3
  exact List.any_eq_true.2 ⟨_, h2, isAlnumA_lowerA hp⟩

theorem deriveOpIdU_has_alnum (mu path : Str) (h : mu ∈ httpMethods) :
    (deriveOpIdU mu path).any isAlnumA = true :=
  sanMethod_any_alnum _ (deriveOpIdU_any_alnum mu path h)

theorem cleanOpId_nil (m p : Str) : cleanOpId [] m p = [] := by
  simp [cleanOpId, endsWith, lowerAscii]

theorem cleanOpId_ne_nil (id m p : Str) (h : id ≠ []) : cleanOpId id m p ≠ [] := by
  unfold cleanOpId
  simp only []
  repeat' split
  all_goals first
    | exact h
    | (rename_i hpre; intro h0; exact hpre (by rw [h0]; rfl))

theorem declaredId_some {d : Option Str} {id : Str} (h : declaredId d = some id) : d = some id ∧ id ≠ [] := by
  cases d with
  | none => cases h
  | some x =>
    simp only [declaredId] at h
    split at h
    · cases h
    · rename_i hx
      cases h
      exact ⟨rfl, by simpa using hx⟩

theorem declaredId_of_ne_nil {id : Str} (h : id ≠ []) : declaredId (some id) = some id := by
  cases id with
  | nil => exact absurd rfl h
  | cons c cs => rfl

/-- F44 repaired: the id handed to the response parser is never empty (an empty declared id is replaced by the derived one, the
    cleaner keeps a non-empty id non-empty, a derived id has an ASCII alphanumeric). -/
theorem chooseOpId_ne_nil (s : Naming) (mu path : Str) (d : Option Str) (h : mu ∈ httpMethods) :
    chooseOpId s mu path d ≠ [] := by
  have hd := deriveOpIdU_ne_nil mu path h
  unfold chooseOpId
  cases hdi : declaredId d with
  | none => cases s <;> exact hd
  | some id =>
    obtain ⟨_, hne⟩ := declaredId_some hdi
    cases s
    · exact hne
    · exact cleanOpId_ne_nil _ _ _ hne
    · exact hd

theorem respError_ne_none_iff (opId : Str) (ks : List StatusKey) :
    respError opId ks ≠ none ↔ ks.any StatusKey.isBad = true ∨ (opId = [] ∧ ks ≠ []) := by
  constructor
  · intro h
    by_cases hi : ks.any StatusKey.isBad = true
    · exact Or.inl hi
    · right
      have hi : ks.any StatusKey.isBad = false := by simpa using hi
      by_cases ho : opId = []
      · refine ⟨ho, ?_⟩
        rintro rfl
        exact h rfl
      · exact absurd (respError_none_of_str opId ks ho hi) h
  · rintro (h | ⟨ho, hk⟩)
    · exact respError_of_bad opId ks h
    · subst ho
      cases ks with
      | nil => exact absurd rfl hk
      | cons k rest => cases k <;> simp [respError]

/-- EXACTLY the operations that are dropped: a recognised method key whose node makes the parser raise, or has a status key
    that is neither a string nor an integer.  (F44 repaired: the empty operationId no longer is a reason.) -/
theorem opRaises_iff (u : UInfo) (s : Naming) (path key : Str) (op : RawOp) :
    opRaises u s path key op = true ↔
      recognised u key = true ∧ (op.parseRaises = true ∨ hasBadKey op = true) := by
  unfold opRaises
  cases hr : recognised u key with
  | false => simp [parseOne_of_not_recognised u s path key op hr]
  | true =>
    rw [parseOne_of_recognised u s path key op hr]
    have hmem := recognised_mem u key hr
    by_cases hx : op.parseRaises = true
    · simp [hx]
    · have hre := respError_ne_none_iff (chooseOpId s (u.upperS key) path op.operationId) op.responses
      have hne := chooseOpId_ne_nil s _ path op.operationId hmem
      simp only [hx, Bool.false_eq_true, if_false, true_and, false_or, hasBadKey]
      cases hc : respError (chooseOpId s (u.upperS key) path op.operationId) op.responses with
      | none =>
        simp only [hc, ne_eq, not_true_eq_false, false_iff, not_or] at hre
        simp only [Bool.false_eq_true, false_iff]
        exact hre.1
      | some r =>
        simp only [hc, ne_eq, reduceCtorEq, not_false_eq_true, true_iff] at hre
        simp only [true_iff]
        rcases hre with h | h
        · exact h
        · exact absurd h.1 hne

theorem respError_emptyOpId (opId : Str) (ks : List StatusKey) (h : respError opId ks = some .emptyOpId) : opId = [] := by
  induction ks with
  | nil => cases h
  | cons k rest ih =>
    cases k with
    | badKey r => simp [respError] at h
    | strKey t =>
      simp only [respError] at h
      split at h
      · rename_i he; simpa using he
      · exact ih h
    | intKey i =>
      simp only [respError] at h
      split at h
      · rename_i he; simpa using he
      · exact ih h

/-- The `ValueError("operation_id_for_promo must be provided")` of the response parser is unreachable from the operations
    parser: no warning carries that reason. -/
theorem parseOne_never_emptyOpId (u : UInfo) (s : Naming) (path key : Str) (op : RawOp) (w : OpWarning)
    (h : parseOne u s path key op = .dropped w) : w.reason ≠ .emptyOpId := by
  cases hr : recognised u key with
  | false => rw [parseOne_of_not_recognised u s path key op hr] at h; cases h
  | true =>
    rw [parseOne_of_recognised u s path key op hr] at h
    have hne := chooseOpId_ne_nil s _ path op.operationId (recognised_mem u key hr)
    by_cases hx : op.parseRaises = true
    · simp only [hx, if_true] at h
      cases h; simp
    · simp only [hx, Bool.false_eq_true, if_false] at h
      cases hc : respError (chooseOpId s (u.upperS key) path op.operationId) op.responses with
      | none => rw [hc] at h; cases h
      | some r =>
        rw [hc] at h
        cases h
        intro he
        simp only at he
        subst he
        exact hne (respError_emptyOpId _ _ hc)

/-! ### The de-duplication passes -/

theorem exists_zip_of_mem_right {α β : Type} : ∀ (as : List α) (bs : List β), as.length = bs.length →
    ∀ b ∈ bs, ∃ a, (a, b) ∈ as.zip bs := by
  intro as
  induction as with
  | nil => intro bs h b hb; cases bs with
    | nil => cases hb
    | cons _ _ => simp at h
  | cons a as ih =>
    intro bs h b hb
    cases bs with
    | nil => cases hb
    | cons b' bs =>
      rcases List.mem_cons.1 hb with rfl | hb
      · exact ⟨a, by simp⟩
      · obtain ⟨a', ha'⟩ := ih bs (by simpa using h) b hb
        exact ⟨a', by simp [ha']⟩

theorem dedupOpIds_shape (ids : List Str) :
    ∀ seen, ∀ x ∈ dedupOpIds seen ids, ∃ id ∈ ids, x = id ∨ ∃ n, x = id ++ '_' :: natStr n := by
  intro seen x hx
  obtain ⟨hlen, _, _, hsh⟩ := dedupOpIds_spec seen ids
  obtain ⟨id, hid⟩ := exists_zip_of_mem_right ids _ hlen.symm x hx
  exact ⟨id, (List.of_mem_zip hid).1, hsh _ hid⟩

theorem dedupOpIds_length (ids : List Str) : ∀ seen, (dedupOpIds seen ids).length = ids.length :=
  fun seen => (dedupOpIds_spec seen ids).1

theorem dedupOpIds_all_alnum (ids : List Str) (seen : List (Str × Nat))
    (h : ∀ id ∈ ids, id.any isAlnumA = true) : ∀ x ∈ dedupOpIds seen ids, x.any isAlnumA = true := by
  intro x hx
  obtain ⟨id, hid, hh⟩ := dedupOpIds_shape ids seen x hx
  rcases hh with rfl | ⟨n, rfl⟩
  · exact h _ hid
  · rw [List.any_append, h _ hid, Bool.true_or]

theorem dedupPasses_all_alnum (n : Nat) : ∀ ids : List Str, (∀ id ∈ ids, id.any isAlnumA = true) →
    ∀ x ∈ dedupPasses n ids, x.any isAlnumA = true := by
  induction n with
  | zero => intro ids h; exact h
  | succ n ih => intro ids h; exact ih _ (dedupOpIds_all_alnum ids [] h)

theorem dedupPasses_length (n : Nat) : ∀ ids : List Str, (dedupPasses n ids).length = ids.length := by
  induction n with
  | zero => intro _; rfl
  | succ n ih => intro ids; simp only [dedupPasses, ih, dedupOpIds_length]

theorem dedupPasses_of_nodup (n : Nat) (ids : List Str) (h : (ids.map sanMethod).Nodup) :
    dedupPasses n ids = ids := by
  induction n with
  | zero => rfl
  | succ n ih => simp only [dedupPasses, (dedupOpIds_of_nodup ids h).1, ih]

theorem finalMethodNames_length (direct : Bool) (ops : List IROp) :
    (finalMethodNames direct ops).length = ops.length := by
  simp [finalMethodNames, dedupPasses_length]

theorem finalMethodNames_of_nodup (direct : Bool) (ops : List IROp)
    (h : (ops.map (fun o => sanMethod o.opId)).Nodup) :
    finalMethodNames direct ops = ops.map (fun o => sanMethod o.opId) := by
  have h' : ((ops.map (·.opId)).map sanMethod).Nodup := by simpa [List.map_map, Function.comp_def] using h
  simp [finalMethodNames, dedupPasses_of_nodup _ _ h', List.map_map, Function.comp_def]

/-- One pass or several: the pass is idempotent, so every further `emit` over the same operation objects changes nothing. -/
theorem dedupPasses_succ (n : Nat) (ids : List Str) : dedupPasses (n + 1) ids = dedupOpIds [] ids := by
  rw [dedupPasses, dedupPasses_of_nodup n _ (dedupOpIds_spec [] ids).2.1]

theorem finalMethodNames_eq (direct : Bool) (ops : List IROp) :
    finalMethodNames direct ops = (dedupOpIds [] (ops.map (·.opId))).map sanMethod := by
  unfold finalMethodNames emitPasses
  cases direct <;> simp only [Bool.false_eq_true, if_false, if_true] <;> rw [dedupPasses_succ]

/-- The final method names are pairwise different - every list of operations, one emit pass or two. -/
theorem finalMethodNames_nodup (direct : Bool) (ops : List IROp) : (finalMethodNames direct ops).Nodup := by
  rw [finalMethodNames_eq]
  exact (dedupOpIds_spec [] _).2.1

theorem mem_zip_map_left {α β γ : Type} (f : α → β) : ∀ (l : List α) (r : List γ) (p : α × γ),
    p ∈ l.zip r → (f p.1, p.2) ∈ (l.map f).zip r := by
  intro l
  induction l with
  | nil => intro r p h; simp at h
  | cons a l ih =>
    intro r p h
    cases r with
    | nil => simp at h
    | cons c r =>
      rcases List.mem_cons.1 (by simpa using h) with rfl | h
      · simp
      · have := ih r p h
        simp [this]

theorem mem_zip_map_right {α β γ : Type} (f : β → γ) : ∀ (l : List α) (r : List β) (p : α × γ),
    p ∈ l.zip (r.map f) → ∃ b, (p.1, b) ∈ l.zip r ∧ p.2 = f b := by
  intro l
  induction l with
  | nil => intro r p h; simp at h
  | cons a l ih =>
    intro r p h
    cases r with
    | nil => simp at h
    | cons c r =>
      rcases List.mem_cons.1 (by simpa using h) with rfl | h
      · exact ⟨c, by simp, rfl⟩
      · obtain ⟨b, hb, he⟩ := ih r p h
        exact ⟨b, by simp [hb], he⟩

/-- Operation `i` gets the method name of its own id, or of its id with a numeric suffix. -/
theorem finalMethodNames_shape (direct : Bool) (ops : List IROp) :
    ∀ p ∈ ops.zip (finalMethodNames direct ops),
      p.2 = sanMethod p.1.opId ∨ ∃ n, p.2 = sanMethod (sufId p.1.opId n) := by
  intro p hp
  rw [finalMethodNames_eq] at hp
  obtain ⟨x, hx, he⟩ := mem_zip_map_right sanMethod _ _ p hp
  have := (dedupOpIds_spec [] (ops.map (·.opId))).2.2.2 _ (mem_zip_map_left (·.opId) _ _ _ hx)
  rcases this with h | ⟨n, h⟩
  · exact Or.inl (by rw [he]; exact congrArg sanMethod h)
  · exact Or.inr ⟨n, by rw [he]; exact congrArg sanMethod h⟩

theorem finalMethodNames_valid (direct : Bool) (ops : List IROp)
    (h : ∀ o ∈ ops, o.opId.any isAlnumA = true) :
    ∀ n ∈ finalMethodNames direct ops, isPyIdent n = true ∧ isKeyword n = false := by
  intro n hn
  simp only [finalMethodNames, List.mem_map] at hn
  obtain ⟨x, hx, rfl⟩ := hn
  apply sanMethod_valid
  apply dedupPasses_all_alnum _ _ _ x hx
  intro id hid
  obtain ⟨o, ho, rfl⟩ := List.mem_map.1 hid
  exact h o ho

/-! ### Tag grouping -/

/-- `dict.get(key, [])` on the association list. -/
def findKey {α : Type} (g : List (Str × List α)) (key : Str) : List α :=
  match g with
  | [] => []
  | (k, l) :: rest => if k == key then l else findKey rest key

theorem findKey_appendAt {α : Type} (g : List (Str × List α)) (k key : Str) (x : α) :
    findKey (appendAt g k x) key = findKey g key ++ (if k == key then [x] else []) := by
  induction g with
  | nil => simp [appendAt, findKey]
  | cons e rest ih =>
    obtain ⟨k', l⟩ := e
    simp only [appendAt]
    by_cases h1 : k' = k
    · subst h1
      simp only [beq_self_eq_true, if_true, findKey]
      by_cases h2 : k' = key
      · simp [h2]
      · simp [h2]
    · have h1' : (k' == k) = false := by simpa using h1
      simp only [h1', Bool.false_eq_true, if_false, findKey, ih]
      by_cases h2 : k' = key
      · subst h2
        have : (k == k') = false := by simpa using fun h => h1 h.symm
        simp [this]
      · simp [h2]

theorem keys_appendAt {α : Type} (g : List (Str × List α)) (k : Str) (x : α) :
    (appendAt g k x).map (·.1) = if k ∈ g.map (·.1) then g.map (·.1) else g.map (·.1) ++ [k] := by
  induction g with
  | nil => simp [appendAt]
  | cons e rest ih =>
    obtain ⟨k', l⟩ := e
    simp only [appendAt]
    by_cases h1 : k' = k
    · subst h1; simp
    · have h1' : (k' == k) = false := by simpa using h1
      have h1'' : ¬ k = k' := fun h => h1 h.symm
      simp only [h1', Bool.false_eq_true, if_false, List.map_cons, ih, List.mem_cons, h1'', false_or]
      split <;> simp

theorem keys_nodup_appendAt {α : Type} (g : List (Str × List α)) (k : Str) (x : α)
    (h : (g.map (·.1)).Nodup) : ((appendAt g k x).map (·.1)).Nodup := by
  rw [keys_appendAt]
  split
  · exact h
  · rename_i hk
    rw [List.nodup_append]
    refine ⟨h, by simp, ?_⟩
    intro a ha b hb
    simp only [List.mem_singleton] at hb
    subst hb
    intro hab
    exact hk (hab ▸ ha)

theorem findKey_tagFold {α : Type} (f : Str → Str) (it : α) (key : Str) (ts : List Str) :
    ∀ g : List (Str × List α),
      findKey (ts.foldl (fun g t => appendAt g (f t) it) g) key
        = findKey g key ++ (ts.filter (fun t => f t == key)).map (fun _ => it) := by
  induction ts with
  | nil => intro g; simp
  | cons t ts ih =>
    intro g
    simp only [List.foldl_cons, ih, findKey_appendAt, List.filter_cons]
    by_cases h : f t = key
    · simp [h]
    · simp [h]

theorem keys_nodup_tagFold {α : Type} (f : Str → Str) (it : α) (ts : List Str) :
    ∀ g : List (Str × List α), (g.map (·.1)).Nodup →
      ((ts.foldl (fun g t => appendAt g (f t) it) g).map (·.1)).Nodup := by
  induction ts with
  | nil => intro g h; exact h
  | cons t ts ih => intro g h; exact ih _ (keys_nodup_appendAt g _ it h)

/-- The keys of one operation's tags with repetitions dropped, first occurrence kept (`keys_of_op`). -/
def firstKeys : List Str → List Str → List Str
  | _, [] => []
  | seen, k :: ks => if seen.contains k then firstKeys seen ks else k :: firstKeys (k :: seen) ks

theorem mem_firstKeys (k : Str) : ∀ (ks seen : List Str), k ∈ firstKeys seen ks ↔ k ∈ ks ∧ k ∉ seen := by
  intro ks
  induction ks with
  | nil => intro seen; simp [firstKeys]
  | cons x xs ih =>
    intro seen
    simp only [firstKeys]
    split
    · rename_i h
      have hx : x ∈ seen := List.contains_iff_mem.1 h
      rw [ih]
      constructor
      · exact fun h => ⟨List.mem_cons_of_mem _ h.1, h.2⟩
      · rintro ⟨h1, h2⟩
        rcases List.mem_cons.1 h1 with rfl | h1
        · exact absurd hx h2
        · exact ⟨h1, h2⟩
    · rename_i h
      have hx : x ∉ seen := fun hm => h (List.contains_iff_mem.2 hm)
      rw [List.mem_cons, ih]
      constructor
      · rintro (rfl | ⟨h1, h2⟩)
        · exact ⟨by simp, hx⟩
        · exact ⟨List.mem_cons_of_mem _ h1, fun hm => h2 (List.mem_cons_of_mem _ hm)⟩
      · rintro ⟨h1, h2⟩
        by_cases hk : k = x
        · exact Or.inl hk
        · right
          rcases List.mem_cons.1 h1 with h1 | h1
          · exact absurd h1 hk
          · exact ⟨h1, by simp [hk, h2]⟩

theorem firstKeys_nodup : ∀ (ks seen : List Str), (firstKeys seen ks).Nodup := by
  intro ks
  induction ks with
  | nil => intro _; exact List.nodup_nil
  | cons x xs ih =>
    intro seen
    simp only [firstKeys]
    split
    · exact ih seen
    · rw [List.nodup_cons]
      refine ⟨fun hm => ?_, ih _⟩
      have := ((mem_firstKeys x xs (x :: seen)).1 hm).2
      simp at this

/-- The inner loop is the fold over the operation's distinct keys. -/
theorem addOpTags_eq {α : Type} (u : UInfo) (it : α) : ∀ (ts seen : List Str) (g : List (Str × List α)),
    addOpTags u it seen ts g = (firstKeys seen (ts.map (normTagKey u))).foldl (fun g k => appendAt g k it) g := by
  intro ts
  induction ts with
  | nil => intro _ _; rfl
  | cons t ts ih =>
    intro seen g
    simp only [addOpTags, List.map_cons, firstKeys]
    split
    · exact ih seen g
    · rw [ih]; rfl

/-- The normalised keys of an operation's tags (or of `default`), each once, in order of first occurrence. -/
def opKeys (u : UInfo) (o : IROp) : List Str := firstKeys [] ((opTags o).map (normTagKey u))

theorem mem_opKeys (u : UInfo) (o : IROp) (k : Str) : k ∈ opKeys u o ↔ k ∈ (opTags o).map (normTagKey u) := by
  unfold opKeys; rw [mem_firstKeys]; simp

theorem opKeys_nodup (u : UInfo) (o : IROp) : (opKeys u o).Nodup := firstKeys_nodup _ _

theorem findKey_groupFold (u : UInfo) (key : Str) (items : List (IROp × Str)) :
    ∀ g : List (Str × List (IROp × Str)),
      findKey (items.foldl (fun g it => addOpTags u it [] (opTags it.1) g) g) key
        = findKey g key ++
          items.flatMap (fun it => ((opKeys u it.1).filter (fun k => k == key)).map (fun _ => it)) := by
  induction items with
  | nil => intro g; simp
  | cons it rest ih =>
    intro g
    simp only [List.foldl_cons, List.flatMap_cons]
    rw [ih, addOpTags_eq, findKey_tagFold (fun k => k) it key, List.append_assoc]
    rfl

theorem keys_nodup_groupFold (u : UInfo) (items : List (IROp × Str)) :
    ∀ g : List (Str × List (IROp × Str)), (g.map (·.1)).Nodup →
      ((items.foldl (fun g it => addOpTags u it [] (opTags it.1) g) g).map (·.1)).Nodup := by
  induction items with
  | nil => intro g h; exact h
  | cons it rest ih =>
    intro g h
    simp only [List.foldl_cons]
    apply ih
    rw [addOpTags_eq]
    exact keys_nodup_tagFold (fun k => k) it _ g h

theorem findKey_map {α β : Type} (f : α → β) (g : List (Str × List α)) (key : Str) :
    findKey (g.map (fun e => (e.1, e.2.map f))) key = (findKey g key).map f := by
  induction g with
  | nil => rfl
  | cons e rest ih =>
    obtain ⟨k, l⟩ := e
    simp only [List.map_cons, findKey, ih]
    split <;> rfl

/-- The method names defined by the client of a normalised tag key (`[]` if there is no such client). -/
def clientMethods (u : UInfo) (direct : Bool) (ops : List IROp) (key : Str) : List Str :=
  findKey (clients u direct ops) key

theorem clientMethods_eq (u : UInfo) (direct : Bool) (ops : List IROp) (key : Str) :
    clientMethods u direct ops key =
      (ops.zip (finalMethodNames direct ops)).flatMap
        (fun it => ((opKeys u it.1).filter (fun k => k == key)).map (fun _ => it.2)) := by
  unfold clientMethods clients
  rw [findKey_map]
  unfold groupByTag
  rw [findKey_groupFold]
  simp [findKey, List.map_flatMap, List.map_map, Function.comp_def]

theorem filter_beq_length_of_nodup (key : Str) : ∀ ks : List Str, ks.Nodup →
    (ks.filter (fun k => k == key)).length = if key ∈ ks then 1 else 0 := by
  intro ks
  induction ks with
  | nil => intro _; simp
  | cons k ks ih =>
    intro hnd
    rw [List.nodup_cons] at hnd
    simp only [List.filter_cons, List.mem_cons]
    by_cases h : k = key
    · subst h
      have : ¬ k ∈ ks := hnd.1
      simp [ih hnd.2, this]
    · have h' : ¬ key = k := fun e => h e.symm
      simp [h, h', ih hnd.2]

/-- An operation's distinct keys contain `key` once or not at all. -/
theorem opKeys_filter_length (u : UInfo) (o : IROp) (key : Str) :
    ((opKeys u o).filter (fun k => k == key)).length = if key ∈ (opTags o).map (normTagKey u) then 1 else 0 := by
  rw [filter_beq_length_of_nodup key _ (opKeys_nodup u o)]
  simp only [mem_opKeys]

/-- Each normalised tag key names one client. -/
theorem clients_keys_nodup (u : UInfo) (direct : Bool) (ops : List IROp) :
    ((clients u direct ops).map (·.1)).Nodup := by
  unfold clients groupByTag
  rw [List.map_map]
  exact keys_nodup_groupFold u _ [] List.nodup_nil

theorem zip_map_self {α β : Type} (l : List α) (f : α → β) : l.zip (l.map f) = l.map (fun a => (a, f a)) := by
  induction l with
  | nil => rfl
  | cons a l ih => simp [ih]

theorem count_flatMap_replicate {α : Type} (f : α → Str) (m : α → Nat) (l : List α) (n : Str)
    (h : n ∉ l.map f) : (l.flatMap (fun o => List.replicate (m o) (f o))).count n = 0 := by
  induction l with
  | nil => rfl
  | cons a l ih =>
    simp only [List.map_cons, List.mem_cons, not_or] at h
    simp only [List.flatMap_cons, List.count_append, ih h.2, Nat.add_zero]
    rw [List.count_replicate]
    have : ¬ (f a == n) = true := by simpa using fun e => h.1 e.symm
    simp [this]

theorem count_flatMap_unique {α : Type} (f : α → Str) (m : α → Nat) (l : List α)
    (hnd : (l.map f).Nodup) (a₀ : α) (h₀ : a₀ ∈ l) :
    (l.flatMap (fun o => List.replicate (m o) (f o))).count (f a₀) = m a₀ := by
  induction l with
  | nil => cases h₀
  | cons a l ih =>
    rw [List.map_cons, List.nodup_cons] at hnd
    simp only [List.flatMap_cons, List.count_append, List.count_replicate]
    rcases List.mem_cons.1 h₀ with rfl | h
    · rw [count_flatMap_replicate f m l _ hnd.1]
      simp
    · have hne : ¬ (f a == f a₀) = true := by
        intro e
        exact hnd.1 ((by simpa using e : f a = f a₀) ▸ List.mem_map_of_mem h)
      rw [ih hnd.2 h]
      simp [hne]

theorem map_snd_zip_of_length {α β : Type} : ∀ (l : List α) (r : List β), l.length = r.length →
    (l.zip r).map (·.2) = r := by
  intro l
  induction l with
  | nil => intro r h; cases r with
    | nil => rfl
    | cons _ _ => simp at h
  | cons a l ih =>
    intro r h
    cases r with
    | nil => simp at h
    | cons b r => simp [ih r (by simpa using h)]

/-- The client of `key` defines the final method name of an operation exactly ONCE when the operation has a tag that normalises
    to `key` (however many spellings of it), and not at all otherwise - every list of operations (the names are pairwise
    different, `finalMethodNames_nodup`). -/
theorem clientMethods_count_zip (u : UInfo) (direct : Bool) (ops : List IROp) (key : Str)
    (p : IROp × Str) (hp : p ∈ ops.zip (finalMethodNames direct ops)) :
    (clientMethods u direct ops key).count p.2 = if key ∈ (opTags p.1).map (normTagKey u) then 1 else 0 := by
  rw [clientMethods_eq]
  simp only [List.map_const']
  have hnd : ((ops.zip (finalMethodNames direct ops)).map (·.2)).Nodup := by
    rw [map_snd_zip_of_length _ _ (finalMethodNames_length direct ops).symm]
    exact finalMethodNames_nodup direct ops
  have := count_flatMap_unique (fun it : IROp × Str => it.2)
    (fun it => ((opKeys u it.1).filter (fun k => k == key)).length) _ hnd p hp
  rw [this]
  exact opKeys_filter_length u p.1 key

/-- With pairwise distinct sanitised ids, the client of `key` defines the method of `o` once when `o` has a tag that
    normalises to `key`. -/
theorem clientMethods_count (u : UInfo) (direct : Bool) (ops : List IROp) (key : Str)
    (hnd : (ops.map (fun o => sanMethod o.opId)).Nodup) (o : IROp) (ho : o ∈ ops) :
    (clientMethods u direct ops key).count (sanMethod o.opId)
      = if key ∈ (opTags o).map (normTagKey u) then 1 else 0 := by
  have hz : (o, sanMethod o.opId) ∈ ops.zip (finalMethodNames direct ops) := by
    rw [finalMethodNames_of_nodup direct ops hnd, zip_map_self]
    exact List.mem_map.2 ⟨o, ho, rfl⟩
  exact clientMethods_count_zip u direct ops key (o, sanMethod o.opId) hz

/-! ### Quoted vs. unquoted status keys (C19) -/

/-- The JSON reading of a status key: JSON object keys are strings. -/
def quoteKey : StatusKey → StatusKey
  | .strKey t => .strKey t
  | .intKey i => .strKey (toString i).toList
  | .badKey r => .strKey r

def quoteOp (op : RawOp) : RawOp := { op with responses := op.responses.map quoteKey }

/-- The document as JSON (or as YAML with every status code quoted). -/
def quoteKeys (paths : Paths) : Paths :=
  paths.map (fun p => (p.1, p.2.map (fun e => (e.1, quoteOp e.2))))

/-- Quoting does not change what the response loop does when no key is a non-string, non-integer one: an integer key takes
    the same path as the string key it is read as (F16 repaired). -/
theorem respError_quote (opId : Str) (ks : List StatusKey) (h : ks.any StatusKey.isBad = false) :
    respError opId (ks.map quoteKey) = respError opId ks := by
  induction ks with
  | nil => rfl
  | cons k rest ih =>
    cases k with
    | badKey r => simp [StatusKey.isBad] at h
    | strKey t =>
      simp only [List.any_cons, StatusKey.isBad, Bool.false_or] at h
      simp only [List.map_cons, quoteKey, respError, ih h]
    | intKey i =>
      simp only [List.any_cons, StatusKey.isBad, Bool.false_or] at h
      simp only [List.map_cons, quoteKey, respError, ih h]

theorem parseOne_quote (u : UInfo) (s : Naming) (path key : Str) (op : RawOp) (h : hasBadKey op = false) :
    parseOne u s path key (quoteOp op) = parseOne u s path key op := by
  unfold parseOne quoteOp
  simp only [respError_quote _ _ h]

theorem parseItem_quote (u : UInfo) (s : Naming) (path : Str) (item : PathItem)
    (h : item.all (fun e => !hasBadKey e.2) = true) :
    parseItem u s path (item.map (fun e => (e.1, quoteOp e.2))) = parseItem u s path item := by
  induction item with
  | nil => rfl
  | cons e rest ih =>
    obtain ⟨k, op⟩ := e
    simp only [List.all_cons, Bool.and_eq_true, Bool.not_eq_true'] at h
    simp only [List.map_cons, parseItem, parseOne_quote u s path k op h.1, ih h.2]

/-- The JSON reading and the unquoted-YAML reading of a document give the same operations and the same warnings,
    as long as no status key is a float / bool / null. -/
theorem parseOps_quote (u : UInfo) (s : Naming) (paths : Paths)
    (h : paths.all (fun p => p.2.all (fun e => !hasBadKey e.2)) = true) :
    parseOps u s (quoteKeys paths) = parseOps u s paths := by
  induction paths with
  | nil => rfl
  | cons p rest ih =>
    obtain ⟨path, item⟩ := p
    simp only [List.all_cons, Bool.and_eq_true] at h
    simp only [quoteKeys, List.map_cons, parseOps] at ih ⊢
    rw [parseItem_quote u s path item h.1, ih h.2]

theorem parseItem_quote_sublist (u : UInfo) (s : Naming) (path : Str) (item : PathItem) :
    (parseItem u s path item).1.Sublist (parseItem u s path (item.map (fun e => (e.1, quoteOp e.2)))).1 := by
  induction item with
  | nil => exact List.Sublist.refl _
  | cons e rest ih =>
    obtain ⟨k, op⟩ := e
    simp only [List.map_cons, parseItem]
    cases hk : hasBadKey op with
    | true =>
      have hnp : ∀ o, parseOne u s path k op ≠ .parsed o := parseOne_bad_key u s path k op hk
      cases hp : parseOne u s path k op with
      | parsed o => exact absurd hp (hnp o)
      | skipped =>
        cases parseOne u s path k (quoteOp op) with
        | parsed o' => exact List.Sublist.cons _ ih
        | skipped => exact ih
        | dropped w => exact ih
      | dropped w =>
        cases parseOne u s path k (quoteOp op) with
        | parsed o' => exact List.Sublist.cons _ ih
        | skipped => exact ih
        | dropped w => exact ih
    | false =>
      rw [parseOne_quote u s path k op hk]
      cases parseOne u s path k op with
      | parsed o => exact List.Sublist.cons_cons _ ih
      | skipped => exact ih
      | dropped w => exact ih

theorem parseOps_quote_sublist (u : UInfo) (s : Naming) (paths : Paths) :
    (parseOps u s paths).1.Sublist (parseOps u s (quoteKeys paths)).1 := by
  induction paths with
  | nil => exact List.Sublist.refl _
  | cons p rest ih =>
    obtain ⟨path, item⟩ := p
    simp only [quoteKeys, List.map_cons, parseOps] at ih ⊢
    exact List.Sublist.append (parseItem_quote_sublist u s path item) ih

/-! ### PATH strategy: every id is derived -/

theorem parseItem_path_alnum (u : UInfo) (path : Str) (item : PathItem) :
    ∀ o ∈ (parseItem u .path path item).1, o.opId.any isAlnumA = true := by
  induction item with
  | nil => intro o ho; cases ho
  | cons e rest ih =>
    obtain ⟨k, op⟩ := e
    intro o ho
    simp only [parseItem] at ho
    cases hp : parseOne u .path path k op with
    | skipped => rw [hp] at ho; exact ih o ho
    | dropped w => rw [hp] at ho; exact ih o ho
    | parsed o' =>
      rw [hp] at ho
      rcases List.mem_cons.1 ho with rfl | h
      · obtain ⟨hr, rfl⟩ := parseOne_parsed_fields u .path path k op o hp
        have : chooseOpId .path (u.upperS k) path op.operationId = deriveOpIdU (u.upperS k) path := by
          cases op.operationId <;> rfl
        simp only [this]
        exact deriveOpIdU_has_alnum _ _ (recognised_mem u k hr)
      · exact ih o h

theorem parseOps_path_alnum (u : UInfo) (paths : Paths) :
    ∀ o ∈ (parseOps u .path paths).1, o.opId.any isAlnumA = true := by
  induction paths with
  | nil => intro o ho; cases ho
  | cons p rest ih =>
    obtain ⟨path, item⟩ := p
    intro o ho
    simp only [parseOps, List.mem_append] at ho
    rcases ho with h | h
    · exact parseItem_path_alnum u path item o h
    · exact ih o h

end Pog.Ops
