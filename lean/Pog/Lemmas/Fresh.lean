import Std.Data.String.ToNat
import Pog.Model.Fresh
import Pog.Lemmas.Names
/-
  Lemmas about the "suffix until unused" loops of `Pog.Model.Fresh` used by `Pog.Props.C20`.
-/
namespace Pog

/-! ### Decimal rendering -/

theorem natStr_inj {i j : Nat} (h : natStr i = natStr j) : i = j :=
  Nat.repr_injective (String.toList_injective h)

theorem natStr_eq (k : Nat) : natStr k = Nat.toDigits 10 k := by
  simp [natStr, Nat.repr]

theorem natStr_ne_nil (k : Nat) : natStr k ≠ [] := by
  rw [natStr_eq]; exact Nat.toDigits_ne_nil

theorem natStr_digits (k : Nat) : ∀ c ∈ natStr k, isDigitA c = true := by
  intro c hc
  rw [natStr_eq] at hc
  have := Nat.isDigit_of_mem_toDigits (by decide) (by decide) hc
  rw [isDigit_iff] at this
  rw [isDigitA_iff]; exact this

/-! ### Injectivity of the candidate generators -/

theorem sufUnderscore_inj (base : Str) (i j : Nat)
    (h : sufUnderscore base i = sufUnderscore base j) : i = j := by
  unfold sufUnderscore at h
  have := List.append_cancel_left h
  exact natStr_inj (List.cons.inj this).2

theorem sufPlain_inj (base : Str) (i j : Nat) (h : sufPlain base i = sufPlain base j) : i = j := by
  unfold sufPlain at h
  exact natStr_inj (List.append_cancel_left h)

theorem classCand_inj (base : Str) (i j : Nat) (h : classCand base i = classCand base j) : i = j := by
  unfold classCand at h
  split at h <;> exact natStr_inj (List.append_cancel_left h)

/-! ### The fuelled search always succeeds (pigeonhole) -/

theorem findFresh_spec (mk : Nat → Str) (hinj : ∀ i j, mk i = mk j → i = j) (seen : List Str) :
    ∀ (fuel k : Nat) (ghost : List Str), (∀ j, k ≤ j → (mk j ∈ seen ↔ mk j ∈ ghost)) →
      ghost.length < fuel → ∃ k', findFresh mk seen k fuel = some k' ∧ mk k' ∉ seen := by
  intro fuel
  induction fuel with
  | zero => intro k ghost _ h; exact absurd h (Nat.not_lt_zero _)
  | succ fuel ih =>
    intro k ghost hg hlen
    unfold findFresh
    split
    · rename_i hmem
      have hmem : mk k ∈ seen := List.contains_iff_mem.1 hmem
      have hmemg : mk k ∈ ghost := (hg k (Nat.le_refl _)).1 hmem
      apply ih (k + 1) (ghost.filter (fun x => x != mk k))
      · intro j hj
        rw [hg j (by omega), List.mem_filter]
        constructor
        · intro h
          refine ⟨h, ?_⟩
          simp only [bne_iff_ne, ne_eq]
          intro heq
          have := hinj _ _ heq
          omega
        · exact fun h => h.1
      · have : (ghost.filter (fun x => x != mk k)).length < ghost.length := by
          rw [List.length_filter_lt_length_iff_exists]
          exact ⟨mk k, hmemg, by simp⟩
        omega
    · rename_i hmem
      exact ⟨k, rfl, fun h => hmem (List.contains_iff_mem.2 h)⟩

theorem freshName_spec (mk : Nat → Str) (start : Nat) (seen : List Str) (base : Str)
    (hinj : ∀ i j, mk i = mk j → i = j) :
    ∃ n, freshName mk start seen base = some n ∧ n ∉ seen := by
  unfold freshName
  split
  · obtain ⟨k', hk, hk'⟩ := findFresh_spec mk hinj seen (seen.length + 1) start seen
      (fun _ _ => Iff.rfl) (Nat.lt_succ_self _)
    exact ⟨mk k', by rw [hk]; rfl, hk'⟩
  · rename_i h
    exact ⟨base, rfl, fun hm => h (List.contains_iff_mem.2 hm)⟩

theorem assignAll_spec_aux (mk : Str → Nat → Str) (start : Nat)
    (hinj : ∀ b i j, mk b i = mk b j → i = j) (bases : List Str) :
    ∀ seen, ∃ l, assignAll mk start seen bases = some l ∧ l.Nodup ∧ (∀ x ∈ l, x ∉ seen) ∧
      l.length = bases.length := by
  induction bases with
  | nil => intro seen; exact ⟨[], rfl, List.nodup_nil, by simp, rfl⟩
  | cons b bs ih =>
    intro seen
    obtain ⟨n, hn, hns⟩ := freshName_spec (mk b) start seen b (hinj b)
    obtain ⟨rest, hr, hnd, hfresh, hlen⟩ := ih (n :: seen)
    refine ⟨n :: rest, ?_, ?_, ?_, ?_⟩
    · simp only [assignAll, hn, hr]
    · rw [List.nodup_cons]
      exact ⟨fun hmem => hfresh n hmem (by simp), hnd⟩
    · intro x hx
      rcases List.mem_cons.1 hx with rfl | hx
      · exact hns
      · exact fun hm => hfresh x hx (List.mem_cons_of_mem _ hm)
    · simp [hlen]

theorem assignAll_spec (mk : Str → Nat → Str) (start : Nat)
    (hinj : ∀ b i j, mk b i = mk b j → i = j) (bases : List Str) :
    ∃ l, assignAll mk start [] bases = some l ∧ l.Nodup ∧ l.length = bases.length := by
  obtain ⟨l, h1, h2, _, h3⟩ := assignAll_spec_aux mk start hinj bases []
  exact ⟨l, h1, h2, h3⟩

/-- `assignAll_spec` for bases obtained by mapping a sanitiser over the raw names. -/
theorem assignAll_map_spec {α : Type} (mk : Str → Nat → Str) (start : Nat)
    (hinj : ∀ b i j, mk b i = mk b j → i = j) (f : α → Str) (xs : List α) :
    ∃ l, assignAll mk start [] (xs.map f) = some l ∧ l.Nodup ∧ l.length = xs.length := by
  obtain ⟨l, h1, h2, h3⟩ := assignAll_spec mk start hinj (xs.map f)
  exact ⟨l, h1, h2, by rw [h3, List.length_map]⟩

/-! ### A suffixed identifier stays a non-keyword identifier -/

theorem sufUnderscore_valid (base : Str) (k : Nat) (h : isPyIdent base = true) :
    isPyIdent (sufUnderscore base k) = true ∧ isKeyword (sufUnderscore base k) = false := by
  unfold sufUnderscore
  constructor
  · cases base with
    | nil => cases h
    | cons c cs =>
      simp only [isPyIdent, Bool.and_eq_true, List.cons_append, List.all_append, List.all_cons] at *
      refine ⟨h.1, h.2, by decide, ?_⟩
      rw [List.all_eq_true]
      exact fun x hx => isIdChar_of_isAlnumA (isAlnumA_of_digit (natStr_digits k x hx))
  · have hne := natStr_ne_nil k
    have hlast := natStr_digits k _ (List.getLast_mem hne)
    have : base ++ '_' :: natStr k = (base ++ '_' :: (natStr k).dropLast) ++ [(natStr k).getLast hne] := by
      rw [List.append_assoc, List.cons_append, List.dropLast_concat_getLast hne]
    rw [this]
    exact not_isKeyword_of_trail_digit _ _ hlast

/-! ### Operation ids -/

theorem countOf_append_none (seen : List (Str × Nat)) (m k : Str) (n : Nat)
    (h : countOf seen k = none) (hne : m ≠ k) : countOf (seen ++ [(m, n)]) k = none := by
  induction seen with
  | nil => simp [countOf, hne]
  | cons p ps ih =>
    obtain ⟨k', n'⟩ := p
    simp only [countOf, List.cons_append] at h ⊢
    split
    · rename_i heq; simp [heq] at h
    · rename_i heq; simp only [heq] at h; exact ih h

theorem dedupOpIds_id (ids : List Str) :
    ∀ seen, (∀ id ∈ ids, countOf seen (sanMethod id) = none) → (ids.map sanMethod).Nodup →
      dedupOpIds seen ids = ids := by
  induction ids with
  | nil => intro _ _ _; rfl
  | cons id rest ih =>
    intro seen hc hnd
    rw [List.map_cons, List.nodup_cons] at hnd
    have h0 := hc id (by simp)
    simp only [dedupOpIds, h0]
    congr 1
    apply ih _ _ hnd.2
    intro id' hid'
    apply countOf_append_none _ _ _ _ (hc id' (List.mem_cons_of_mem _ hid'))
    intro heq
    exact hnd.1 (heq ▸ List.mem_map_of_mem hid')

theorem dedupOpIds_of_nodup (ids : List Str) (h : (ids.map sanMethod).Nodup) :
    dedupOpIds [] ids = ids ∧ (methodNames ids).Nodup := by
  have := dedupOpIds_id ids [] (fun _ _ => rfl) h
  exact ⟨this, by rw [methodNames, this]; exact h⟩

end Pog
