import Pog.Model.GenCode
import Pog.Lemmas.Registry
/-
  Helper lemmas for the gencode model (used by Props/C04, C05, C06).
-/
namespace Pog.GenCode
open Pog

/-! ## leading digit -/

theorem leadDigitAux_3digits (f n : Nat) (h1 : 100 ≤ n) (h2 : n < 1000) :
    leadDigitAux (f + 3) n = n / 100 := by
  have a : ¬ n < 10 := by omega
  have b : ¬ n / 10 < 10 := by omega
  have c : n / 10 / 10 < 10 := by omega
  simp only [leadDigitAux, a, b, c, if_true, if_false]
  omega

theorem leadDigit_3digits (n : Nat) (h1 : 100 ≤ n) (h2 : n < 1000) : leadDigit n = n / 100 := by
  obtain ⟨f, rfl⟩ : ∃ f, n = f + 3 := ⟨n - 3, by omega⟩
  exact leadDigitAux_3digits f (f + 3) h1 h2

theorem starts2_of_2xx (s : Nat) (h : 200 ≤ s ∧ s < 300) : (StatusKey.num s).starts2 = true := by
  simp only [StatusKey.starts2, leadDigit_3digits s (by omega) (by omega)]
  have : s / 100 = 2 := by omega
  simp [this]

theorem not_starts2_of_error (s : Nat) (h : 400 ≤ s ∧ s < 600) : (StatusKey.num s).starts2 = false := by
  simp only [StatusKey.starts2, leadDigit_3digits s (by omega) (by omega)]
  have : s / 100 ≠ 2 := by omega
  simp [this]

/-- A three-digit status outside 200-299 does not start with `2`. -/
theorem not_starts2_of_3digits (s : Nat) (h3 : 100 ≤ s ∧ s < 1000) (h : ¬ (200 ≤ s ∧ s < 300)) :
    (StatusKey.num s).starts2 = false := by
  simp only [StatusKey.starts2, leadDigit_3digits s h3.1 h3.2]
  have : s / 100 ≠ 2 := by omega
  simp [this]

/-! ## small list facts -/

theorem eq_of_nodup_map {α β : Type} (f : α → β) :
    ∀ (l : List α), (l.map f).Nodup → ∀ a ∈ l, ∀ b ∈ l, f a = f b → a = b := by
  intro l
  induction l with
  | nil => intro _ a ha; cases ha
  | cons x xs ih =>
    intro hn a ha b hb hab
    rw [List.map_cons, List.nodup_cons] at hn
    rcases List.mem_cons.mp ha with rfl | ha'
    · rcases List.mem_cons.mp hb with rfl | hb'
      · rfl
      · exact absurd (hab ▸ List.mem_map_of_mem (f := f) hb') hn.1
    · rcases List.mem_cons.mp hb with rfl | hb'
      · exact absurd (hab ▸ List.mem_map_of_mem (f := f) ha') hn.1
      · exact ih hn.2 a ha' b hb' hab

/-- `match`: if some arm has the code and every arm with that code carries `act`, `act` is selected. -/
theorem find_arm {l : List (Nat × Action)} {s : Nat} {act : Action}
    (hex : ∃ a ∈ l, a.1 = s) (hall : ∀ a ∈ l, a.1 = s → a.2 = act) :
    ∃ a, l.find? (fun a => a.1 == s) = some a ∧ a.2 = act := by
  induction l with
  | nil => obtain ⟨a, ha, _⟩ := hex; cases ha
  | cons x xs ih =>
    by_cases hx : x.1 = s
    · refine ⟨x, ?_, hall x (List.mem_cons_self ..) hx⟩
      simp [hx]
    · obtain ⟨a, ha, has⟩ := hex
      have ha' : a ∈ xs := by
        rcases List.mem_cons.mp ha with rfl | h
        · exact absurd has hx
        · exact h
      obtain ⟨b, hb, hb2⟩ := ih ⟨a, ha', has⟩ (fun a h => hall a (List.mem_cons_of_mem _ h))
      refine ⟨b, ?_, hb2⟩
      have : (x.1 == s) = false := by simpa using hx
      simp [this, hb]

theorem find_arm_none {l : List (Nat × Action)} {s : Nat} (h : ∀ a ∈ l, a.1 ≠ s) :
    l.find? (fun a => a.1 == s) = none := by
  rw [List.find?_eq_none]
  intro a ha
  simpa using h a ha

/-! ## primary selection -/

theorem nextWhere_eq_find (p : Resp → Bool) (rs : List Resp) : nextWhere p rs = rs.find? p := by
  induction rs with
  | nil => rfl
  | cons r rs ih =>
    simp only [nextWhere, List.find?_cons]
    cases h : p r <;> simp [ih]

theorem loopCodes_eq_byCode (rs : List Resp) (cs : List Nat) :
    primaryB.loopCodes rs cs = primaryA.byCode rs cs := by
  induction cs with
  | nil => rfl
  | cons c cs ih => simp only [primaryB.loopCodes, primaryA.byCode, nextWhere_eq_find, ih]

theorem primaryA_eq_primaryB (rs : List Resp) : primaryA rs = primaryB rs := by
  cases rs with
  | nil => simp [primaryA, primaryB, primaryB.loopCodes, preferredCodes, nextWhere, firstSortedWhere, minByKey]
  | cons r rs =>
    simp only [primaryA, primaryB, List.isEmpty_cons, Bool.false_eq_true, if_false, loopCodes_eq_byCode,
      nextWhere_eq_find]

/-! ## `min` by status key: order lemmas and permutation invariance (C19) -/

theorem strLt_irrefl (a : Str) : strLt a a = false := by
  induction a with
  | nil => rfl
  | cons c cs ih => simp [strLt, ih]

theorem strLt_trans {a b c : Str} (h1 : strLt a b = true) (h2 : strLt b c = true) : strLt a c = true := by
  induction a generalizing b c with
  | nil =>
    cases b with
    | nil => simp [strLt] at h1
    | cons y ys => cases c with
      | nil => simp [strLt] at h2
      | cons z zs => simp [strLt]
  | cons x xs ih =>
    cases b with
    | nil => simp [strLt] at h1
    | cons y ys =>
      cases c with
      | nil => simp [strLt] at h2
      | cons z zs =>
        simp only [strLt] at h1 h2 ⊢
        split at h1
        · split at h2
          · have : x.toNat < z.toNat := by omega
            simp [this]
          · split at h2
            · cases h2
            · have : x.toNat < z.toNat := by omega
              simp [this]
        · split at h1
          · cases h1
          · split at h2
            · have : x.toNat < z.toNat := by omega
              simp [this]
            · split at h2
              · cases h2
              · have e1 : ¬ x.toNat < z.toNat := by omega
                have e2 : ¬ z.toNat < x.toNat := by omega
                simp only [e1, e2, if_false]
                exact ih h1 h2

theorem strLt_tri (a b : Str) : strLt a b = true ∨ a = b ∨ strLt b a = true := by
  induction a generalizing b with
  | nil => cases b <;> simp [strLt]
  | cons x xs ih =>
    cases b with
    | nil => simp [strLt]
    | cons y ys =>
      simp only [strLt]
      by_cases h1 : x.toNat < y.toNat
      · simp [h1]
      · by_cases h2 : y.toNat < x.toNat
        · simp [h2]
        · have hxy : x = y := by
            have h3 : x.toNat = y.toNat := by omega
            exact Char.ext (UInt32.toNat_inj.mp h3)
          subst hxy
          have hirr : ¬ x.toNat < x.toNat := Nat.lt_irrefl _
          simp only [hirr, if_false, List.cons.injEq, true_and]
          exact ih ys

theorem strLt_asymm {a b : Str} (h : strLt a b = true) : strLt b a = false := by
  cases h2 : strLt b a with
  | false => rfl
  | true => have := strLt_trans h h2; rw [strLt_irrefl] at this; cases this

theorem inj_of_nodup_map {α β} {f : α → β} {l : List α} (h : (l.map f).Nodup) {a b : α}
    (ha : a ∈ l) (hb : b ∈ l) (e : f a = f b) : a = b := by
  induction l with
  | nil => cases ha
  | cons x xs ih =>
    rw [List.map_cons, List.nodup_cons] at h
    rcases List.mem_cons.mp ha with hax | ha'
    · rcases List.mem_cons.mp hb with hbx | hb'
      · rw [hax, hbx]
      · exact absurd (List.mem_map.mpr ⟨b, hb', by rw [← e, hax]⟩) h.1
    · rcases List.mem_cons.mp hb with hbx | hb'
      · exact absurd (List.mem_map.mpr ⟨a, ha', by rw [e, hbx]⟩) h.1
      · exact ih h.2 ha' hb'

/-- `m` is a minimum of `l` for the key order. -/
def IsMinKey (l : List Resp) (m : Resp) : Prop := m ∈ l ∧ ∀ x ∈ l, strLt x.key.str m.key.str = false

theorem minByKey_none {l : List Resp} : minByKey l = none ↔ l = [] := by
  cases l with
  | nil => simp [minByKey]
  | cons r rs =>
    simp only [minByKey, reduceCtorEq, iff_false]
    split
    · simp
    · split <;> simp

theorem minByKey_isMin {l : List Resp} {m : Resp} (h : minByKey l = some m) : IsMinKey l m := by
  induction l generalizing m with
  | nil => simp [minByKey] at h
  | cons r rs ih =>
    simp only [minByKey] at h
    split at h
    · next hn =>
      cases h
      have : rs = [] := minByKey_none.mp hn
      subst this
      exact ⟨List.mem_cons_self .., fun x hx => by
        have : x = r := by simpa using hx
        subst this; exact strLt_irrefl _⟩
    · next m' hm' =>
      have hmin := ih hm'
      split at h
      · next hlt =>
        cases h
        refine ⟨List.mem_cons_of_mem _ hmin.1, fun x hx => ?_⟩
        rcases List.mem_cons.mp hx with rfl | hx
        · exact strLt_asymm hlt
        · exact hmin.2 x hx
      · next hnlt =>
        cases h
        refine ⟨List.mem_cons_self .., fun x hx => ?_⟩
        rcases List.mem_cons.mp hx with rfl | hx
        · exact strLt_irrefl _
        · have hxm := hmin.2 x hx
          cases hxr : strLt x.key.str r.key.str with
          | false => rfl
          | true =>
            exfalso
            rcases strLt_tri m'.key.str r.key.str with h1 | h1 | h1
            · exact hnlt h1
            · rw [← h1] at hxr; rw [hxr] at hxm; cases hxm
            · have := strLt_trans hxr h1; rw [this] at hxm; cases hxm

theorem isMinKey_unique {l : List Resp} (hnd : (l.map (·.key.str)).Nodup) {m m' : Resp}
    (h : IsMinKey l m) (h' : IsMinKey l m') : m = m' := by
  have e : m.key.str = m'.key.str := by
    rcases strLt_tri m.key.str m'.key.str with h1 | h1 | h1
    · have := h'.2 m h.1; rw [h1] at this; cases this
    · exact h1
    · have := h.2 m' h'.1; rw [h1] at this; cases this
  exact inj_of_nodup_map hnd h.1 h'.1 e

theorem minByKey_perm {l l' : List Resp} (hp : l.Perm l') (hnd : (l.map (·.key.str)).Nodup) :
    minByKey l = minByKey l' := by
  cases h : minByKey l with
  | none =>
    have : l = [] := minByKey_none.mp h
    subst this
    have : l' = [] := List.Perm.eq_nil (hp.symm) |> fun e => by simpa using hp.symm.eq_nil
    subst this; rfl
  | some m =>
    cases h' : minByKey l' with
    | none =>
      have : l' = [] := minByKey_none.mp h'
      subst this
      have : l = [] := hp.eq_nil
      subst this
      simp [minByKey] at h
    | some m' =>
      have hm := minByKey_isMin h
      have hm' := minByKey_isMin h'
      have hm'' : IsMinKey l m' := ⟨hp.mem_iff.mpr hm'.1, fun x hx => hm'.2 x (hp.mem_iff.mp hx)⟩
      rw [isMinKey_unique hnd hm hm'']

theorem nodup_map_filter {α β} (f : α → β) (p : α → Bool) {l : List α} (h : (l.map f).Nodup) :
    ((l.filter p).map f).Nodup := by
  induction l with
  | nil => simp
  | cons a l ih =>
    rw [List.map_cons, List.nodup_cons] at h
    simp only [List.filter_cons]
    split
    · rw [List.map_cons, List.nodup_cons]
      refine ⟨fun hm => h.1 ?_, ih h.2⟩
      obtain ⟨b, hb, hbe⟩ := List.mem_map.mp hm
      exact List.mem_map.mpr ⟨b, (List.mem_filter.mp hb).1, hbe⟩
    · exact ih h.2

theorem firstSortedWhere_perm (p : Resp → Bool) {l l' : List Resp} (hp : l.Perm l')
    (hnd : (l.map (·.key.str)).Nodup) : firstSortedWhere p l = firstSortedWhere p l' :=
  minByKey_perm (hp.filter p) (nodup_map_filter _ p hnd)

/-- `find?` is permutation invariant when at most one element can satisfy the predicate. -/
theorem find?_perm_of_unique {p : Resp → Bool} {l l' : List Resp} (hp : l.Perm l')
    (hu : ∀ a ∈ l, ∀ b ∈ l, p a = true → p b = true → a = b) : l.find? p = l'.find? p := by
  cases h : l.find? p with
  | none =>
    symm; rw [List.find?_eq_none] at h ⊢
    exact fun x hx => h x (hp.mem_iff.mpr hx)
  | some a =>
    have ha := List.mem_of_find?_eq_some h
    have hpa := List.find?_some h
    cases h' : l'.find? p with
    | none =>
      rw [List.find?_eq_none] at h'
      exact absurd hpa (h' a (hp.mem_iff.mp ha))
    | some b =>
      have hb := List.mem_of_find?_eq_some h'
      have hpb := List.find?_some h'
      rw [hu a ha b (hp.mem_iff.mpr hb) hpa hpb]

theorem isCode_str {r : Resp} {c : Nat} (h : r.key.isCode c = true) : r.key.str = natStr c := by
  cases hk : r.key <;> simp [hk, StatusKey.isCode] at h
  subst h; rfl

theorem isDefault_str {r : Resp} (h : r.key.isDefault = true) : r.key.str = "default".toList := by
  cases hk : r.key <;> simp [hk, StatusKey.isDefault] at h
  rfl

theorem byCode_perm {l l' : List Resp} (hp : l.Perm l') (hnd : (l.map (·.key.str)).Nodup) (cs : List Nat) :
    primaryA.byCode l cs = primaryA.byCode l' cs := by
  induction cs with
  | nil => rfl
  | cons c cs ih =>
    simp only [primaryA.byCode]
    rw [find?_perm_of_unique hp (fun a ha b hb h1 h2 =>
      inj_of_nodup_map hnd ha hb ((isCode_str h1).trans (isCode_str h2).symm)), ih]

/-- The repaired selection does not depend on the order in which the responses are listed. -/
theorem primaryA_perm {l l' : List Resp} (hp : l.Perm l') (hnd : (l.map (·.key.str)).Nodup) :
    primaryA l = primaryA l' := by
  unfold primaryA
  have he : l.isEmpty = l'.isEmpty := by
    cases l with
    | nil => have := hp.symm.eq_nil; subst this; rfl
    | cons a as =>
      cases l' with
      | nil => exact absurd hp.eq_nil (by simp)
      | cons b bs => rfl
  have hd : l.find? (fun r => r.key.isDefault) = l'.find? (fun r => r.key.isDefault) :=
    find?_perm_of_unique hp (fun a ha b hb h1 h2 =>
      inj_of_nodup_map hnd ha hb ((isDefault_str h1).trans (isDefault_str h2).symm))
  rw [he, byCode_perm hp hnd, firstSortedWhere_perm _ hp hnd, minByKey_perm hp hnd, hd]

theorem minByKey_mem {l : List Resp} {m : Resp} (h : minByKey l = some m) : m ∈ l := (minByKey_isMin h).1

theorem byCode_mem {rs : List Resp} {cs : List Nat} {p : Resp} (h : primaryA.byCode rs cs = some p) :
    p ∈ rs := by
  induction cs with
  | nil => cases h
  | cons c cs ih =>
    simp only [primaryA.byCode] at h
    split at h
    · next r hr => cases h; exact List.mem_of_find?_eq_some hr
    · exact ih h

theorem primaryA_mem {rs : List Resp} {p : Resp} (h : primaryA rs = some p) : p ∈ rs := by
  unfold primaryA at h
  split at h
  · cases h
  · split at h
    · next r hr => cases h; exact byCode_mem hr
    · split at h
      · next r hr => cases h; exact (List.mem_filter.mp (minByKey_mem hr)).1
      · split at h
        · next r hr => cases h; exact List.mem_of_find?_eq_some hr
        · exact minByKey_mem h

/-- What `processedPrimary` yields: a member of the list whose key is the numeric `n`, starting with `2`,
    and it is the primary response of BOTH copies. -/
theorem processedPrimary_spec {rs : List Resp} {p : Resp} {n : Nat} (h : processedPrimary rs = some (p, n)) :
    p ∈ rs ∧ p.key = .num n ∧ p.key.starts2 = true ∧ primaryB rs = some p ∧ primaryA rs = some p := by
  unfold processedPrimary at h
  split at h
  · next q hq =>
    split at h
    · next m hm =>
      split at h
      · next hs =>
        simp only [Option.some.injEq, Prod.mk.injEq] at h
        obtain ⟨rfl, rfl⟩ := h
        have hk : q.key = .num m := by
          cases hk : q.key <;> simp [hk, StatusKey.code?] at hm
          subst hm; rfl
        exact ⟨primaryA_mem (by rw [primaryA_eq_primaryB]; exact hq), hk, hs, hq,
          by rw [primaryA_eq_primaryB]; exact hq⟩
      · cases h
    · cases h
  · cases h

/-! ## arms -/

theorem secondaryAction_isReturn (st : Bool) (r : Resp) : (secondaryAction st r).isReturn = true := by
  unfold secondaryAction
  split <;> split <;> rfl

theorem secondaryAction_ne_retStrategy (st : Bool) (r : Resp) : secondaryAction st r ≠ .retStrategy := by
  unfold secondaryAction
  split <;> split <;> intro h <;> cases h

theorem otherArm_code {st : Bool} {r : Resp} {n : Nat} {a : Action} (h : otherArm st r = some (n, a)) :
    r.key = .num n := by
  unfold otherArm at h
  cases hk : r.key with
  | num m =>
    simp only [hk, StatusKey.code?] at h
    split at h <;> simp only [Option.some.injEq, Prod.mk.injEq] at h <;> rw [h.1]
  | default => simp [hk, StatusKey.code?] at h
  | other s => simp [hk, StatusKey.code?] at h

theorem otherArm_num {st : Bool} {r : Resp} {n : Nat} (hk : r.key = .num n) :
    otherArm st r = some (n,
      if (StatusKey.num n).starts2 then secondaryAction st r
      else (if (aliasBase n).isSome then Action.raiseAlias n else Action.raiseUnhandled)) := by
  unfold otherArm
  simp only [hk, StatusKey.code?]
  split <;> rfl

/-- An arm of `arms rs` is the primary arm or the arm of one of the other responses. -/
theorem mem_arms {rs : List Resp} {a : Nat × Action} (h : a ∈ arms rs) :
    (∃ p, processedPrimary rs = some (p, a.1) ∧
        a.2 = (if (resolveStrategy rs).isNone then Action.retNone else Action.retStrategy)) ∨
    (∃ r ∈ otherResponses rs, otherArm (resolveStrategy rs).isStreaming r = some a) := by
  unfold arms at h
  simp only [List.mem_append] at h
  rcases h with h | h
  · left
    split at h
    · next p n hp =>
      simp only [List.mem_singleton] at h
      subst h
      exact ⟨p, hp, rfl⟩
    · cases h
  · right
    obtain ⟨r, hr, hr2⟩ := List.mem_filterMap.mp h
    exact ⟨r, hr, hr2⟩

theorem otherArm_mem_arms {rs : List Resp} {r : Resp} {a : Nat × Action}
    (hr : r ∈ otherResponses rs) (ha : otherArm (resolveStrategy rs).isStreaming r = some a) : a ∈ arms rs := by
  unfold arms
  exact List.mem_append_right _ (List.mem_filterMap.mpr ⟨r, hr, ha⟩)

theorem mem_otherResponses {rs : List Resp} {r : Resp} (hr : r ∈ rs)
    (hne : ∀ p n, processedPrimary rs = some (p, n) → r ≠ p) : r ∈ otherResponses rs := by
  unfold otherResponses
  split
  · next p n hp =>
    rw [List.mem_filter]
    refine ⟨hr, ?_⟩
    have := hne p n hp
    simpa using this
  · exact hr

theorem otherResponses_sub {rs : List Resp} {r : Resp} (h : r ∈ otherResponses rs) : r ∈ rs := by
  unfold otherResponses at h
  split at h
  · exact (List.mem_filter.mp h).1
  · exact h

theorem otherResponses_ne {rs : List Resp} {r p : Resp} {n : Nat} (h : r ∈ otherResponses rs)
    (hp : processedPrimary rs = some (p, n)) : r ≠ p := by
  unfold otherResponses at h
  rw [hp] at h
  have := (List.mem_filter.mp h).2
  simpa using this

/-! ## parameters of the single-content method -/

theorem mem_requiredFirst {l : List PInfo} {p : PInfo} : p ∈ requiredFirst l ↔ p ∈ l := by
  unfold requiredFirst
  rw [List.mem_append, List.mem_filter, List.mem_filter]
  constructor
  · rintro (h | h) <;> exact h.1
  · intro h
    cases hr : p.required
    · right; exact ⟨h, by simp⟩
    · left; exact ⟨h, rfl⟩

theorem mem_orderedParams {op : Op} {p : PInfo} : p ∈ orderedParams op ↔ p ∈ unsortedParams op :=
  mem_requiredFirst

theorem bodyInfo_loc {body : Option GBody} {taken : List Str} {q : PInfo} (h : q ∈ bodyInfo body taken) :
    q.loc = .body := by
  unfold bodyInfo at h
  split at h
  · cases h
  · split at h
    · cases h
    · split at h
      · cases h
      · simp only [List.mem_singleton] at h; subst h; rfl

theorem undeclaredInfos_loc : ∀ (vs taken : List Str) (q : PInfo), q ∈ undeclaredInfos vs taken → q.loc = .path := by
  intro vs
  induction vs with
  | nil => intro _ q h; cases h
  | cons v vs ih =>
    intro taken q h
    simp only [undeclaredInfos] at h
    split at h
    · exact ih _ q h
    · rcases List.mem_cons.mp h with rfl | h'
      · rfl
      · exact ih _ q h'

theorem undeclared_covers : ∀ (vs taken : List Str) (v : Str), v ∈ vs →
    sanMethod v ∈ taken ∨ ∃ q ∈ undeclaredInfos vs taken, q.name = sanMethod v := by
  intro vs
  induction vs with
  | nil => intro _ v h; cases h
  | cons w ws ih =>
    intro taken v hv
    simp only [undeclaredInfos]
    by_cases hw : sanMethod w ∈ taken
    · simp only [hw, if_true]
      rcases List.mem_cons.mp hv with rfl | hv'
      · exact Or.inl hw
      · exact ih taken v hv'
    · simp only [hw, if_false]
      rcases List.mem_cons.mp hv with rfl | hv'
      · exact Or.inr ⟨_, List.mem_cons_self .., rfl⟩
      · rcases ih (sanMethod w :: taken) v hv' with h | ⟨q, hq, hqn⟩
        · rcases List.mem_cons.mp h with h | h
          · exact Or.inr ⟨_, List.mem_cons_self .., h.symm⟩
          · exact Or.inl h
        · exact Or.inr ⟨q, List.mem_cons_of_mem _ hq, hqn⟩

/-- Every `{var}` of the path has a parameter whose once-sanitised name is the sanitised variable. -/
theorem pathVar_has_param (op : Op) (v : Str) (hv : v ∈ pathVars op.path) :
    ∃ q ∈ orderedParams op, q.name = sanMethod v := by
  have h := undeclared_covers (pathVars op.path)
    ((declaredInfos op.params ++ bodyInfo op.body ((declaredInfos op.params).map (·.name))).map (·.name)) v hv
  rcases h with h | ⟨q, hq, hqn⟩
  · obtain ⟨q, hq, hqn⟩ := List.mem_map.mp h
    refine ⟨q, mem_orderedParams.mpr ?_, hqn⟩
    unfold unsortedParams
    exact List.mem_append_left _ hq
  · refine ⟨q, mem_orderedParams.mpr ?_, hqn⟩
    unfold unsortedParams
    exact List.mem_append_right _ hq

/-- The entries of `ordered_params` located in the query / a header / a cookie are exactly the declared
    parameters with that location. -/
theorem ordered_loc_iff (op : Op) (q : PInfo) (loc : GLoc) (hl : loc.toS ≠ .path) :
    (q ∈ orderedParams op ∧ q.loc = loc.toS) ↔ ∃ p ∈ op.params, p.loc = loc ∧ q = p.info := by
  have hb : loc.toS ≠ .body := by cases loc <;> simp [GLoc.toS]
  constructor
  · rintro ⟨hq, hloc⟩
    rw [mem_orderedParams] at hq
    unfold unsortedParams at hq
    simp only [List.mem_append] at hq
    rcases hq with (hq | hq) | hq
    · obtain ⟨p, hp, rfl⟩ := List.mem_map.mp hq
      refine ⟨p, hp, ?_, rfl⟩
      simp only [GParam.info] at hloc
      cases hpl : p.loc <;> cases loc <;> simp_all [GLoc.toS]
    · exact absurd ((bodyInfo_loc hq).symm.trans hloc).symm hb
    · exact absurd ((undeclaredInfos_loc _ _ q hq).symm.trans hloc).symm hl
  · rintro ⟨p, hp, hpl, rfl⟩
    refine ⟨mem_orderedParams.mpr ?_, by simp [GParam.info, hpl]⟩
    unfold unsortedParams
    exact List.mem_append_left _ (List.mem_append_left _ (List.mem_map_of_mem hp))

theorem info_mem_ordered (op : Op) (p : GParam) (hp : p ∈ op.params) : p.info ∈ orderedParams op := by
  rw [mem_orderedParams]
  unfold unsortedParams
  exact List.mem_append_left _ (List.mem_append_left _ (List.mem_map_of_mem hp))

theorem info_ident (p : GParam) : p.info.ident = p.ident := rfl

/-! ## what `moduleOk` gives -/

theorem moduleOk_nodup {op : Op} (h : moduleOk op = true) : ((sigOf op).map (·.1)).Nodup := by
  unfold moduleOk at h
  simp only [Bool.and_eq_true, decide_eq_true_eq] at h
  have := h.1.1
  unfold defNames at this
  exact (List.nodup_cons.mp this).2

theorem sigOf_std {op : Op} (h : isMulti op = false) :
    sigOf op = (orderedParams op).map (fun p => (p.ident, p.required)) := by
  unfold sigOf; simp [h]

theorem ordered_idents_nodup {op : Op} (hm : moduleOk op = true) (hs : isMulti op = false) :
    ((orderedParams op).map (·.ident)).Nodup := by
  have := moduleOk_nodup hm
  rw [sigOf_std hs, List.map_map] at this
  exact this

/-- Two entries of `ordered_params` with the same identifier are the same entry. -/
theorem ordered_ident_inj {op : Op} (hm : moduleOk op = true) (hs : isMulti op = false)
    {a b : PInfo} (ha : a ∈ orderedParams op) (hb : b ∈ orderedParams op) (h : a.ident = b.ident) : a = b :=
  eq_of_nodup_map (·.ident) _ (ordered_idents_nodup hm hs) a ha b hb h

theorem sigOf_multi {op : Op} (h : isMulti op = true) :
    sigOf op = ovlPositional op ++ (ovlKeywordOnly ((op.body.map (·.media)).getD [])).map (·, false)
      ++ [(contentTypeParam, false)] := by
  unfold sigOf; simp [h]

/-- The implementation method for several media types (F12 repaired): its positional parameters are the entries of
    `ordered_params` that are not the body parameter, under distinct identifiers. -/
theorem ovl_idents_nodup {op : Op} (hm : moduleOk op = true) (hmulti : isMulti op = true) :
    ((ovlParams op).map (·.ident)).Nodup := by
  have := moduleOk_nodup hm
  rw [sigOf_multi hmulti, List.map_append, List.map_append] at this
  have h1 := (List.nodup_append.mp (List.nodup_append.mp this).1).1
  unfold ovlPositional at h1
  rw [List.map_map] at h1
  exact h1

theorem info_loc_ne_body (p : GParam) : p.info.loc ≠ .body := by
  cases hl : p.loc <;> simp [GParam.info, GLoc.toS, hl]

/-- Two entries of `ordered_params` other than the body parameter with the same identifier are the same entry - in the
    single-content method and in the implementation method for several media types alike. -/
theorem nonbody_ident_inj {op : Op} (hm : moduleOk op = true) {a b : PInfo}
    (ha : a ∈ orderedParams op) (hb : b ∈ orderedParams op) (hla : a.loc ≠ .body) (hlb : b.loc ≠ .body)
    (h : a.ident = b.ident) : a = b := by
  cases hmulti : isMulti op with
  | false => exact ordered_ident_inj hm hmulti ha hb h
  | true =>
    have ha' : a ∈ ovlParams op := List.mem_filter.mpr ⟨ha, by simpa using hla⟩
    have hb' : b ∈ ovlParams op := List.mem_filter.mpr ⟨hb, by simpa using hlb⟩
    exact eq_of_nodup_map (·.ident) _ (ovl_idents_nodup hm hmulti) a ha' b hb' h

/-! ## url, dicts -/

theorem urlPieces_ok (locals : List Str) (args : GArgs) :
    ∀ segs, (∀ v ∈ pathVars segs, sanMethod v ∈ locals) → urlPieces locals args segs = .ok (substPath args segs) := by
  intro segs
  induction segs with
  | nil => intro _; rfl
  | cons s r ih =>
    intro h
    cases s with
    | lit t =>
      have := ih (fun v hv => h v (by simpa [pathVars] using hv))
      simp [urlPieces, substPath, this]
    | var v =>
      have hv : sanMethod v ∈ locals := h v (by simp [pathVars])
      have := ih (fun w hw => h w (by simp [pathVars, hw]))
      simp [urlPieces, substPath, this, hv]

theorem mem_substPath (args : GArgs) : ∀ (segs : List Seg) (v : Str), v ∈ pathVars segs →
    Piece.val (argVal args (sanMethod v)) ∈ substPath args segs := by
  intro segs
  induction segs with
  | nil => intro v h; cases h
  | cons s r ih =>
    intro v h
    cases s with
    | lit t => simp only [substPath]; exact List.mem_cons_of_mem _ (ih v (by simpa [pathVars] using h))
    | var w =>
      simp only [substPath]
      simp only [pathVars, List.mem_cons] at h
      rcases h with rfl | h
      · exact List.mem_cons_self ..
      · exact List.mem_cons_of_mem _ (ih v h)

theorem mem_dictEntries {loc : SLoc} {ps : List PInfo} {args : GArgs} {e : Str × GValue} :
    e ∈ dictEntries loc ps args ↔ ∃ p ∈ ps, p.loc = loc ∧ dictEntry args p = some e := by
  unfold dictEntries
  rw [List.mem_filterMap]
  constructor
  · rintro ⟨p, hp, he⟩
    rw [List.mem_filter] at hp
    exact ⟨p, hp.1, by simpa using hp.2, he⟩
  · rintro ⟨p, hp, hl, he⟩
    exact ⟨p, List.mem_filter.mpr ⟨hp, by simpa using hl⟩, he⟩

theorem dictEntry_some {args : GArgs} {p : PInfo} {e : Str × GValue} (h : dictEntry args p = some e) :
    e = (p.orig, argVal args p.ident) ∧ (p.required = true ∨ argVal args p.ident ≠ .none) := by
  unfold dictEntry at h
  split at h
  · next hr => simp only [Option.some.injEq] at h; exact ⟨h.symm, Or.inl hr⟩
  · split at h
    · cases h
    · next hn => simp only [Option.some.injEq] at h; exact ⟨h.symm, Or.inr hn⟩

theorem dictEntry_of {args : GArgs} {p : PInfo} (h : p.required = true ∨ argVal args p.ident ≠ .none) :
    dictEntry args p = some (p.orig, argVal args p.ident) := by
  unfold dictEntry
  rcases h with h | h
  · simp [h]
  · split
    · rfl
    · simp

/-- The entries of the `params` / `headers` dict, in terms of the DECLARED parameters. -/
theorem mem_entries_iff (op : Op) (args : GArgs) (loc : GLoc) (hl : loc.toS ≠ .path) (e : Str × GValue) :
    e ∈ dictEntries loc.toS (orderedParams op) args ↔
      ∃ p ∈ op.params, p.loc = loc ∧ e = (p.name, argVal args p.ident) ∧
        (p.required = true ∨ argVal args p.ident ≠ .none) := by
  rw [mem_dictEntries]
  constructor
  · rintro ⟨q, hq, hql, he⟩
    obtain ⟨p, hp, hpl, rfl⟩ := (ordered_loc_iff op q loc hl).mp ⟨hq, hql⟩
    have := dictEntry_some he
    exact ⟨p, hp, hpl, this.1, this.2⟩
  · rintro ⟨p, hp, hpl, rfl, hreq⟩
    refine ⟨p.info, info_mem_ordered op p hp, by simp [GParam.info, hpl], ?_⟩
    exact dictEntry_of hreq

/-- The entries of the `headers` / `cookies` dict (F39, F11 repaired: the value goes through `_string_value_expr`), in
    terms of the DECLARED parameters. -/
theorem mem_strEntries_iff (op : Op) (args : GArgs) (loc : GLoc) (hl : loc.toS ≠ .path) (e : Str × GValue) :
    e ∈ strEntries loc.toS (orderedParams op) args ↔
      ∃ p ∈ op.params, p.loc = loc ∧ e = (p.name, strValue p.kind (argVal args p.ident)) ∧
        (p.required = true ∨ argVal args p.ident ≠ .none) := by
  unfold strEntries
  rw [List.mem_filterMap]
  constructor
  · rintro ⟨q, hq, he⟩
    rw [List.mem_filter] at hq
    obtain ⟨p, hp, hpl, rfl⟩ := (ordered_loc_iff op q loc hl).mp ⟨hq.1, by simpa using hq.2⟩
    unfold strEntry at he
    cases hd : dictEntry args p.info with
    | none => rw [hd] at he; cases he
    | some e0 =>
      rw [hd] at he
      simp only [Option.map_some, Option.some.injEq] at he
      have := dictEntry_some hd
      refine ⟨p, hp, hpl, ?_, this.2⟩
      rw [← he, this.1]
      rfl
  · rintro ⟨p, hp, hpl, rfl, hreq⟩
    refine ⟨p.info, List.mem_filter.mpr ⟨info_mem_ordered op p hp, by simp [GParam.info, hpl]⟩, ?_⟩
    unfold strEntry
    rw [dictEntry_of hreq]
    rfl

theorem any_loc_iff (op : Op) (loc : GLoc) (hl : loc.toS ≠ .path) :
    (orderedParams op).any (fun p => p.loc = loc.toS) = true ↔ ∃ p ∈ op.params, p.loc = loc := by
  rw [List.any_eq_true]
  constructor
  · rintro ⟨q, hq, hql⟩
    obtain ⟨p, hp, hpl, _⟩ := (ordered_loc_iff op q loc hl).mp ⟨hq, by simpa using hql⟩
    exact ⟨p, hp, hpl⟩
  · rintro ⟨p, hp, hpl⟩
    exact ⟨p.info, info_mem_ordered op p hp, by simp [GParam.info, hpl]⟩

/-! ## 2xx arms -/

theorem resolveStrategy_no_content {rs : List Resp} {p : Resp} (hp : primaryA rs = some p)
    (hc : p.content = []) : resolveStrategy rs = .none := by
  unfold resolveStrategy
  simp [hp, hc]

/-- Whether `x` (a member with key `num s`) is the processed primary or not, there is an arm for `s`. -/
theorem exists_arm_of_declared_2xx {rs : List Resp} {s : Nat} {x : Resp} (hx : x ∈ rs) (hk : x.key = .num s)
    (h2 : (StatusKey.num s).starts2 = true) : ∃ a ∈ arms rs, a.1 = s := by
  by_cases hpp : ∃ n, processedPrimary rs = some (x, n)
  · obtain ⟨n, hn⟩ := hpp
    have hsp := processedPrimary_spec hn
    have : n = s := by
      have := hsp.2.1; rw [hk] at this; cases this; rfl
    subst this
    refine ⟨(n, if (resolveStrategy rs).isNone then Action.retNone else Action.retStrategy), ?_, rfl⟩
    unfold arms
    rw [hn]
    exact List.mem_append_left _ (List.mem_singleton.mpr rfl)
  · have hxo : x ∈ otherResponses rs := by
      apply mem_otherResponses hx
      intro p n hp heq
      exact hpp ⟨n, heq ▸ hp⟩
    have := otherArm_num (st := (resolveStrategy rs).isStreaming) hk
    rw [h2] at this
    exact ⟨_, otherArm_mem_arms hxo this, rfl⟩

theorem arm_2xx_isReturn {rs : List Resp} {a : Nat × Action} (ha : a ∈ arms rs)
    (h2 : (StatusKey.num a.1).starts2 = true) : a.2.isReturn = true := by
  rcases mem_arms ha with ⟨p, _, h⟩ | ⟨y, _, hy⟩
  · rw [h]; split <;> rfl
  · have hyk := otherArm_code (n := a.1) (a := a.2) hy
    rw [otherArm_num hyk, h2] at hy
    simp only [if_true, Option.some.injEq] at hy
    rw [← hy]
    exact secondaryAction_isReturn _ _

/-- A declared 2xx status selects a `return` arm. -/
theorem select_declared_2xx_isReturn (rs : List Resp) (s : Nat) (h2 : 200 ≤ s ∧ s < 300)
    (hd : ∃ x ∈ rs, x.key = .num s) : (selectAction rs s).isReturn = true := by
  obtain ⟨x, hx, hk⟩ := hd
  have hs2 := starts2_of_2xx s h2
  obtain ⟨a, ha, has⟩ := exists_arm_of_declared_2xx hx hk hs2
  unfold selectAction
  cases hf : (arms rs).find? (fun a => a.1 == s) with
  | none =>
    have := (List.find?_eq_none.mp hf) a ha
    simp [has] at this
  | some b =>
    have hb := List.mem_of_find?_eq_some hf
    have hbs : b.1 = s := by simpa using List.find?_some hf
    exact arm_2xx_isReturn hb (hbs ▸ hs2)

theorem isPrimaryArm_iff {rs : List Resp} {x : Resp} :
    isPrimaryArm rs x = true ↔ ∃ n, processedPrimary rs = some (x, n) := by
  unfold isPrimaryArm
  cases h : processedPrimary rs with
  | none => simp
  | some pn =>
    obtain ⟨p, n⟩ := pn
    simp only [decide_eq_true_eq, Option.some.injEq, Prod.mk.injEq]
    constructor
    · intro hp; exact ⟨n, hp, rfl⟩
    · rintro ⟨m, hp, _⟩; exact hp

/-- With distinct keys, the arm selected for the status of a declared 2xx response `x` is `x`'s own. -/
theorem select_declared_2xx (rs : List Resp) (s : Nat) (h2 : 200 ≤ s ∧ s < 300)
    (hnd : (rs.map (·.key)).Nodup) (x : Resp) (hx : x ∈ rs) (hk : x.key = .num s) :
    selectAction rs s =
      if isPrimaryArm rs x then
        (if (resolveStrategy rs).isNone then Action.retNone else Action.retStrategy)
      else secondaryAction (resolveStrategy rs).isStreaming x := by
  have hs2 := starts2_of_2xx s h2
  have hex := exists_arm_of_declared_2xx hx hk hs2
  have hsame : ∀ y ∈ rs, y.key = .num s → y = x := fun y hy hyk =>
    eq_of_nodup_map (·.key) rs hnd y hy x hx (hyk.trans hk.symm)
  suffices hall : ∀ a ∈ arms rs, a.1 = s → a.2 =
      (if isPrimaryArm rs x then
        (if (resolveStrategy rs).isNone then Action.retNone else Action.retStrategy)
      else secondaryAction (resolveStrategy rs).isStreaming x) by
    obtain ⟨a, hfa, ha2⟩ := find_arm hex hall
    unfold selectAction
    rw [hfa]
    exact ha2
  intro a ha has
  rcases mem_arms ha with ⟨p, hp, h⟩ | ⟨y, hy, hya⟩
  · have hsp := processedPrimary_spec hp
    have hpx : p = x := hsame p hsp.1 (by rw [hsp.2.1, has])
    subst hpx
    rw [if_pos (isPrimaryArm_iff.mpr ⟨a.1, hp⟩)]
    exact h
  · have hyk := otherArm_code (n := a.1) (a := a.2) hya
    have hyx : y = x := hsame y (otherResponses_sub hy) (by rw [hyk, has])
    subst hyx
    have hnp : ¬ isPrimaryArm rs y = true := by
      rw [isPrimaryArm_iff]
      rintro ⟨n, hn⟩
      exact otherResponses_ne hy hn rfl
    rw [if_neg hnp]
    rw [otherArm_num hyk, has, hs2] at hya
    simp only [if_true, Option.some.injEq] at hya
    rw [← hya]

theorem tyDispatchRet_needsStructure {k : Str} {t : PyTy} (h : (tyDispatchRet k t).needsStructure = true) :
    useCattrs t = true := by
  unfold tyDispatchRet at h
  split at h
  · simp [RetKind.needsStructure] at h
  · split at h
    · simp [RetKind.needsStructure] at h
    · cases ht : useCattrs t
      · simp [tyRet, ht, RetKind.needsStructure] at h
      · rfl

theorem unionDispatch_needsStructure {ct : Str} {m : List (Str × PyTy)}
    (h : (unionDispatch ct m).needsStructure = true) : m.any (fun e => useCattrs e.2) = true := by
  induction m with
  | nil => simp [unionDispatch, RetKind.needsStructure] at h
  | cons e rest ih =>
    obtain ⟨k, t⟩ := e
    cases rest with
    | nil =>
      simp only [unionDispatch] at h
      simp [tyDispatchRet_needsStructure h]
    | cons e2 rest2 =>
      simp only [unionDispatch] at h
      split at h
      · simp [tyDispatchRet_needsStructure h]
      · have := ih h
        rw [List.any_cons]; simp [this]

theorem strategyRet_needsStructure {s : Strategy} {r : Reply}
    (h : (strategyRet s r).needsStructure = true) : s.usesStructure = true := by
  cases s with
  | none => simp [strategyRet, RetKind.needsStructure] at h
  | single t =>
    cases ht : useCattrs t
    · simp [strategyRet, tyRet, ht, RetKind.needsStructure] at h
    · simpa [Strategy.usesStructure] using ht
  | text => simp [strategyRet, RetKind.needsStructure] at h
  | union m => exact unionDispatch_needsStructure h
  | streamBytes => simp [strategyRet, RetKind.needsStructure] at h
  | streamNdjson => simp [strategyRet, RetKind.needsStructure] at h
  | streamSse => simp [strategyRet, RetKind.needsStructure] at h

/-! ## the return of the primary arm: NDJSON streams (repaired F43) -/

theorem strategyMedia_mem {c : List Media} {m : Media} (h : strategyMedia c = some m) : m ∈ c := by
  unfold strategyMedia at h
  split at h
  · next x hx => cases h; exact List.mem_of_find?_eq_some hx
  · split at h
    · next x hx => cases h; exact List.mem_of_find?_eq_some hx
    · exact List.mem_of_mem_head? h

theorem strategyMedia_of_ne_nil {c : List Media} (h : c ≠ []) : ∃ m, strategyMedia c = some m := by
  unfold strategyMedia
  split
  · exact ⟨_, rfl⟩
  · split
    · exact ⟨_, rfl⟩
    · cases c with
      | nil => exact absurd rfl h
      | cons a _ => exact ⟨a, rfl⟩

theorem shapeTy_eq_bytes {s : Shape} : shapeTy s = .bytes ↔ s = .binary := by
  cases s <;> simp [shapeTy]

theorem respStream_of_ndjson {x : Resp} (h : x.content.any (fun m => lowerAscii m.mt = mtNdjson) = true) :
    respStream x = true := by
  unfold respStream
  rw [Bool.or_eq_true]
  left
  rw [List.any_eq_true] at h ⊢
  obtain ⟨m, hm, hmt⟩ := h
  refine ⟨m, hm, ?_⟩
  have hmt' : lowerAscii m.mt = mtNdjson := by simpa using hmt
  rw [hmt']
  decide

/-- A primary response that declares `application/x-ndjson`, no event stream, no binary media type and whose schema
    is not binary is iterated with `iter_ndjson`. -/
theorem resolveStrategy_ndjson {rs : List Resp} {p : Resp} (hp : primaryA rs = some p)
    (hnd : p.content.any (fun m => lowerAscii m.mt = mtNdjson) = true)
    (hev : p.content.any (fun m => isInfix "event-stream".toList m.mt) = false)
    (hbin : p.content.any (fun m => isBinaryCt m.mt) = false)
    (hsh : ∀ m, strategyMedia p.content = some m → m.shape ≠ .binary) :
    resolveStrategy rs = .streamNdjson := by
  have hne : p.content ≠ [] := by
    intro h; rw [h] at hnd; simp at hnd
  have hemp : p.content.isEmpty = false := by
    cases hc : p.content with
    | nil => exact absurd hc hne
    | cons _ _ => rfl
  obtain ⟨m, hm⟩ := strategyMedia_of_ne_nil hne
  have hnb : ¬ shapeTy m.shape = .bytes := fun h => hsh m hm (shapeTy_eq_bytes.mp h)
  have hj : streamJson p.content = .streamNdjson := by
    unfold streamJson isNdjsonStream
    rw [hev, hnd]
    rfl
  unfold resolveStrategy
  simp only [hp, hemp, respStream_of_ndjson hnd, hbin, hev, hm, hnb, hj, if_true, if_false, Bool.false_eq_true]

/-! ## text bodies (repaired F32b) -/

theorem handlerMedia_mem {c : List Media} {m : Media} (h : handlerMedia c = some m) : m ∈ c := by
  unfold handlerMedia at h
  split at h
  · next x hx => cases h; exact List.mem_of_find?_eq_some hx
  · exact List.mem_of_mem_head? h

theorem handlerMedia_of_ne_nil {c : List Media} (h : c ≠ []) : ∃ m, handlerMedia c = some m := by
  unfold handlerMedia
  split
  · exact ⟨_, rfl⟩
  · cases c with
    | nil => exact absurd rfl h
    | cons a _ => exact ⟨a, rfl⟩

theorem dedupTy_all_seen {l seen : List PyTy} (h : ∀ y ∈ l, y ∈ seen) : dedupTy l seen = [] := by
  induction l with
  | nil => rfl
  | cons a l ih =>
    have ha : a ∈ seen := h a List.mem_cons_self
    simp only [dedupTy, ha, if_true]
    exact ih (fun y hy => h y (List.mem_cons_of_mem _ hy))

theorem dedupTy_const {l : List PyTy} {t : PyTy} (hne : l ≠ []) (h : ∀ y ∈ l, y = t) : dedupTy l [] = [t] := by
  cases l with
  | nil => exact absurd rfl hne
  | cons a l =>
    have ha : a = t := h a List.mem_cons_self
    subst ha
    have : dedupTy l [a] = [] :=
      dedupTy_all_seen (fun y hy => by rw [h y (List.mem_cons_of_mem _ hy)]; exact List.mem_singleton.mpr rfl)
    simp [dedupTy, this]

theorem isBinaryCt_text {mt : Str} (h : isTextCt mt = true) : isBinaryCt mt = false := by
  unfold isTextCt startsWith at h
  obtain ⟨rest, rfl⟩ := List.isPrefixOf_iff_prefix.mp h
  simp [isBinaryCt, startsWith, List.isPrefixOf]

theorem ctTy_text {m : Media} (h : isTextCt m.mt = true) (hs : m.shape = .string) : ctTy m = .str := by
  unfold ctTy
  rw [isBinaryCt_text h, h, hs]
  rfl

theorem isTextBody_str {c : List Media} (hne : c ≠ [])
    (htx : c.all (fun m => isTextCt m.mt) = true) : isTextBody c .str = true := by
  have hemp : c.isEmpty = false := by
    cases c with
    | nil => exact absurd rfl hne
    | cons _ _ => rfl
  unfold isTextBody
  rw [hemp, htx]
  rfl

/-- A non-streaming primary response declared with `text/*` media types only, each a plain string, is returned as
    `response.text` - whether it has one media type or several. -/
theorem resolveStrategy_text {rs : List Resp} {p : Resp} (hp : primaryA rs = some p) (hne : p.content ≠ [])
    (hns : respStream p = false)
    (htx : p.content.all (fun m => isTextCt m.mt) = true)
    (hsh : ∀ m ∈ p.content, m.shape = .string) : resolveStrategy rs = .text := by
  have hemp : p.content.isEmpty = false := by
    cases hc : p.content with
    | nil => exact absurd hc hne
    | cons _ _ => rfl
  have hsingle : singleOf p.content .str = .text := by
    unfold singleOf
    rw [isTextBody_str hne htx]
    rfl
  unfold resolveStrategy
  simp only [hp, hemp, hns, if_false, Bool.false_eq_true]
  split
  · -- several media types: all of them resolve to `str`
    have hall : ∀ y ∈ (p.content.map (fun m => (m.mt, ctTy m))).map (·.2), y = PyTy.str := by
      intro y hy
      rw [List.map_map, List.mem_map] at hy
      obtain ⟨m, hm, rfl⟩ := hy
      exact ctTy_text (List.all_eq_true.mp htx m hm) (hsh m hm)
    have hnn : (p.content.map (fun m => (m.mt, ctTy m))).map (·.2) ≠ [] := by
      cases hc : p.content with
      | nil => exact absurd hc hne
      | cons _ _ => simp
    rw [dedupTy_const hnn hall]
    exact hsingle
  · obtain ⟨m, hm⟩ := strategyMedia_of_ne_nil hne
    rw [hm]
    have : shapeTy m.shape = .str := by rw [hsh m (strategyMedia_mem hm)]; rfl
    simp only [this]
    exact hsingle

/-- The arm of another 2xx response declared with `text/*` media types only, each a plain string: `response.text`. -/
theorem secondaryRet_text {x : Resp} (hne : x.content ≠ [])
    (htx : x.content.all (fun m => isTextCt m.mt) = true)
    (hsh : ∀ m ∈ x.content, m.shape = .string) : secondaryRet x = .text := by
  obtain ⟨m, hm⟩ := handlerMedia_of_ne_nil hne
  unfold secondaryRet
  rw [hm]
  have : shapeTy m.shape = .str := by rw [hsh m (handlerMedia_mem hm)]; rfl
  simp only [this, isTextBody_str hne htx, if_true]

/-- The `case _:` arm: the guarded return of a `default` response with content, "Default error" for another `default`
    response, the catch-all without one. -/
theorem defaultAction_cases (rs : List Resp) :
    (rs.any (fun x => x.key.isDefault) = true ∧ (defaultAction rs = .retDefault ∨ defaultAction rs = .raiseDefault)) ∨
    (rs.any (fun x => x.key.isDefault) = false ∧ defaultAction rs = .raiseCatchAll) := by
  unfold defaultAction
  cases hf : rs.find? (fun r => r.key.isDefault) with
  | none =>
    right
    refine ⟨?_, rfl⟩
    rw [List.any_eq_false]
    intro x hx
    have := List.find?_eq_none.mp hf x hx
    simpa using this
  | some d =>
    left
    refine ⟨?_, ?_⟩
    · rw [List.any_eq_true]
      exact ⟨d, List.mem_of_find?_eq_some hf, List.find?_some (p := fun r : Resp => r.key.isDefault) hf⟩
    · simp only
      split
      · exact Or.inl rfl
      · exact Or.inr rfl

/-- A status for which no numeric response is declared falls through to the `case _:` arm. -/
theorem select_undeclared {rs : List Resp} {s : Nat} (hu : ∀ x ∈ rs, x.key.code? ≠ some s) :
    selectAction rs s = defaultAction rs := by
  have hnone : (arms rs).find? (fun a => a.1 == s) = none := by
    apply find_arm_none
    intro a ha has
    rcases mem_arms ha with ⟨p, hp, _⟩ | ⟨y, hy, hya⟩
    · have hsp := processedPrimary_spec hp
      have := hu p hsp.1
      rw [hsp.2.1, has] at this
      exact this rfl
    · have hyk := otherArm_code (n := a.1) (a := a.2) hya
      have := hu y (otherResponses_sub hy)
      rw [hyk, has] at this
      exact this rfl
  unfold selectAction
  rw [hnone]

/-- A DECLARED status whose decimal string does not start with `2` selects its own raising arm: the alias class when
    one exists (4xx/5xx), the base class otherwise (1xx/3xx, F3 repaired). -/
theorem select_declared_non2 (rs : List Resp) (s : Nat) (hns : (StatusKey.num s).starts2 = false)
    (hd : ∃ x ∈ rs, x.key = .num s) :
    selectAction rs s = (if (aliasBase s).isSome then Action.raiseAlias s else Action.raiseUnhandled) := by
  obtain ⟨x, hx, hk⟩ := hd
  have hxo : x ∈ otherResponses rs := by
    apply mem_otherResponses hx
    intro p n hp heq
    have := (processedPrimary_spec hp).2.2.1
    rw [← heq, hk, hns] at this
    cases this
  have hxa : otherArm (resolveStrategy rs).isStreaming x =
      some (s, if (aliasBase s).isSome then Action.raiseAlias s else Action.raiseUnhandled) := by
    rw [otherArm_num hk, hns]; simp
  have hex : ∃ a ∈ arms rs, a.1 = s := ⟨_, otherArm_mem_arms hxo hxa, rfl⟩
  have hall : ∀ a ∈ arms rs, a.1 = s →
      a.2 = (if (aliasBase s).isSome then Action.raiseAlias s else Action.raiseUnhandled) := by
    intro a ha has
    rcases mem_arms ha with ⟨p, hp, _⟩ | ⟨y, _, hy⟩
    · have hsp := processedPrimary_spec hp
      have h2 := hsp.2.2.1
      rw [hsp.2.1, has, hns] at h2
      cases h2
    · have hyk := otherArm_code (n := a.1) (a := a.2) hy
      rw [otherArm_num hyk, has, hns] at hy
      simp only [Bool.false_eq_true, if_false, Option.some.injEq] at hy
      rw [← hy]
  obtain ⟨a, hfa, ha2⟩ := find_arm hex hall
  unfold selectAction
  rw [hfa]
  exact ha2

theorem select_retStrategy {rs : List Resp} {s : Nat} (h : selectAction rs s = .retStrategy) :
    (processedPrimary rs).isSome = true := by
  unfold selectAction at h
  cases hf : (arms rs).find? (fun a => a.1 == s) with
  | none =>
    rw [hf] at h
    simp only at h
    rcases defaultAction_cases rs with ⟨_, h' | h'⟩ | ⟨_, h'⟩ <;> rw [h'] at h <;> cases h
  | some a =>
    rw [hf] at h
    simp only at h
    rcases mem_arms (List.mem_of_find?_eq_some hf) with ⟨p, hp, _⟩ | ⟨y, _, hy⟩
    · rw [hp]; rfl
    · exfalso
      have hyk := otherArm_code (n := a.1) (a := a.2) hy
      rw [otherArm_num hyk] at hy
      simp only [Option.some.injEq] at hy
      have : a.2 = _ := (congrArg Prod.snd hy).symm
      rw [h] at this
      simp only at this
      split at this
      · exact secondaryAction_ne_retStrategy _ _ this.symm
      · split at this <;> cases this

theorem select_retSecondary {rs : List Resp} {s : Nat} {k : RetKind} (h : selectAction rs s = .retSecondary k) :
    ∃ y ∈ otherResponses rs, ∃ n, otherArm (resolveStrategy rs).isStreaming y = some (n, .retSecondary k) := by
  unfold selectAction at h
  cases hf : (arms rs).find? (fun a => a.1 == s) with
  | none =>
    rw [hf] at h
    simp only at h
    unfold defaultAction at h
    split at h
    · split at h <;> cases h
    · cases h
  | some a =>
    rw [hf] at h
    simp only at h
    rcases mem_arms (List.mem_of_find?_eq_some hf) with ⟨p, _, h'⟩ | ⟨y, hy, hya⟩
    · rw [h] at h'
      split at h' <;> cases h'
    · exact ⟨y, hy, a.1, by rw [hya, ← h]⟩

theorem select_yieldSecondary {rs : List Resp} {s : Nat} {k : RetKind} (h : selectAction rs s = .yieldSecondary k) :
    ∃ y ∈ otherResponses rs, ∃ n, otherArm (resolveStrategy rs).isStreaming y = some (n, .yieldSecondary k) := by
  unfold selectAction at h
  cases hf : (arms rs).find? (fun a => a.1 == s) with
  | none =>
    rw [hf] at h
    simp only at h
    unfold defaultAction at h
    split at h
    · split at h <;> cases h
    · cases h
  | some a =>
    rw [hf] at h
    simp only at h
    rcases mem_arms (List.mem_of_find?_eq_some hf) with ⟨p, _, h'⟩ | ⟨y, hy, hya⟩
    · rw [h] at h'
      split at h' <;> cases h'
    · exact ⟨y, hy, a.1, by rw [hya, ← h]⟩

/-- A selected return arm never hits the missing-import `NameError` (since the repair of F58 this includes the
    `Union` content-type dispatch). -/
theorem runAction_returns {rs : List Resp} {r : Reply} {s : Nat}
    (hret : (selectAction rs s).isReturn = true) :
    ∃ k, runAction rs r (selectAction rs s) = .returned k := by
  cases ha : selectAction rs s with
  | retNone => exact ⟨_, rfl⟩
  | retStrategy =>
    simp only [runAction, returnOf]
    split
    · next hc =>
      exfalso
      simp only [Bool.and_eq_true, Bool.not_eq_true'] at hc
      have hct := strategyRet_needsStructure hc.1
      have := hc.2
      unfold importsStructure at this
      simp only [hct, Bool.true_and, Bool.or_eq_false_iff] at this
      have h := select_retStrategy ha
      rw [h] at this; simp at this
    · exact ⟨_, rfl⟩
  | retSecondary k =>
    simp only [runAction, returnOf]
    split
    · next hc =>
      exfalso
      simp only [Bool.and_eq_true, Bool.not_eq_true'] at hc
      obtain ⟨y, hy, n, hyn⟩ := select_retSecondary ha
      have := hc.2
      unfold importsStructure at this
      simp only [Bool.or_eq_false_iff] at this
      have hany := this.2
      rw [List.any_eq_false] at hany
      have := hany y hy
      rw [hyn] at this
      simp [hc.1] at this
    · exact ⟨_, rfl⟩
  | retStreamEnd => exact ⟨_, rfl⟩
  | yieldSecondary k =>
    simp only [runAction, returnOf]
    split
    · next hc =>
      exfalso
      simp only [Bool.and_eq_true, Bool.not_eq_true', RetKind.needsStructure] at hc
      obtain ⟨y, hy, n, hyn⟩ := select_yieldSecondary ha
      have := hc.2
      unfold importsStructure at this
      simp only [Bool.or_eq_false_iff] at this
      have hany := this.2
      rw [List.any_eq_false] at hany
      have := hany y hy
      rw [hyn] at this
      simp [hc.1] at this
    · exact ⟨_, rfl⟩
  | raiseAlias c => rw [ha] at hret; cases hret
  | raiseDefault => rw [ha] at hret; cases hret
  | raiseUnhandled => rw [ha] at hret; cases hret
  | raiseCatchAll => rw [ha] at hret; cases hret
  | retDefault => rw [ha] at hret; cases hret

/-- The guarded return of a `default` response with content never hits the missing-import `NameError` either: the
    strategy return written inside the `if` registers its imports as the primary arm does. -/
theorem returnOf_strategy_of_retDefault {rs : List Resp} (r : Reply) (hd : defaultAction rs = .retDefault) :
    returnOf rs (strategyRet (resolveStrategy rs) r) = .returned (strategyRet (resolveStrategy rs) r) := by
  unfold returnOf
  split
  · next hc =>
    exfalso
    simp only [Bool.and_eq_true, Bool.not_eq_true'] at hc
    have hct := strategyRet_needsStructure hc.1
    have := hc.2
    unfold importsStructure at this
    simp only [hct, Bool.true_and, Bool.or_eq_false_iff] at this
    rw [hd] at this
    simp at this
  · rfl

theorem runAction_isReturn_not_raised {rs : List Resp} {r : Reply} {a : Action} (h : a.isReturn = true) :
    ∀ cls st w why, runAction rs r a ≠ .raised cls st w why := by
  intro cls st w why
  cases a <;> simp only [runAction, returnOf, Action.isReturn] at h ⊢
  · intro h'; cases h'
  · split <;> intro h' <;> cases h'
  · split <;> intro h' <;> cases h'
  · intro h'; cases h'
  · split <;> intro h' <;> cases h'
  all_goals cases h

end Pog.GenCode
