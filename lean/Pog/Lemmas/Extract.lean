import Pog.Model.Extract
import Pog.Lemmas.Fresh
/-
  Lemmas about `Pog.Model.Extract` used by `Pog.Props.Extract`.

  Plan: (1) python-dict facts (`dictUpdate` with fresh keys is `++`, `lookup` through `++`);
  (2) the suffix loop (`freshT`) always finds a name outside `taken`;
  (3) a TRACE of each pass: every output property is the result of the one-property step at some
      intermediate side dictionary that is a prefix of the final one — everything else is local case
      analysis on the one-property steps.
-/
namespace Pog.Extract
open Pog

/-- Two lists of the same length related position by position. -/
inductive All₂ {α β : Type} (R : α → β → Prop) : List α → List β → Prop
  | nil : All₂ R [] []
  | cons {a : α} {b : β} {as : List α} {bs : List β} : R a b → All₂ R as bs → All₂ R (a :: as) (b :: bs)

theorem All₂.length_eq {α β : Type} {R : α → β → Prop} {a : List α} {b : List β} (h : All₂ R a b) :
    a.length = b.length := by
  induction h with
  | nil => rfl
  | cons _ _ ih => simp [ih]

theorem All₂.imp {α β : Type} {R S : α → β → Prop} {a : List α} {b : List β} (h : All₂ R a b)
    (hi : ∀ x y, R x y → S x y) : All₂ S a b := by
  induction h with
  | nil => exact All₂.nil
  | cons h1 _ ih => exact All₂.cons (hi _ _ h1) ih

/-- Relational composition along a middle list. -/
theorem All₂.trans {α β γ : Type} {R : α → β → Prop} {S : β → γ → Prop} {T : α → γ → Prop}
    {a : List α} {b : List β} {c : List γ} (h1 : All₂ R a b) (h2 : All₂ S b c)
    (hi : ∀ x y z, R x y → S y z → T x z) : All₂ T a c := by
  induction h1 generalizing c with
  | nil => cases h2; exact All₂.nil
  | cons r _ ih =>
    cases h2 with
    | cons s t => exact All₂.cons (hi _ _ _ r s) (ih t)

theorem All₂.map_eq {α β γ : Type} {R : α → β → Prop} {a : List α} {b : List β} (f : α → γ) (g : β → γ)
    (h : All₂ R a b) (hi : ∀ x y, R x y → g y = f x) : b.map g = a.map f := by
  induction h with
  | nil => rfl
  | cons h1 _ ih => simp [hi _ _ h1, ih]

theorem All₂.of_mem_right {α β : Type} {R : α → β → Prop} {a : List α} {b : List β} (h : All₂ R a b)
    {y : β} (hy : y ∈ b) : ∃ x ∈ a, R x y := by
  induction h with
  | nil => cases hy
  | cons h1 _ ih =>
    rcases List.mem_cons.1 hy with rfl | hy
    · exact ⟨_, List.mem_cons_self, h1⟩
    · obtain ⟨x, hx, hr⟩ := ih hy
      exact ⟨x, List.mem_cons_of_mem _ hx, hr⟩

theorem All₂.append_left_inv {α β : Type} {R : α → β → Prop} {a b : List α} {c : List β}
    (h : All₂ R (a ++ b) c) : ∃ c1 c2, c = c1 ++ c2 ∧ All₂ R a c1 ∧ All₂ R b c2 := by
  induction a generalizing c with
  | nil => exact ⟨[], c, rfl, All₂.nil, h⟩
  | cons x a ih =>
    cases h with
    | cons h1 ht =>
      obtain ⟨c1, c2, rfl, ha, hb⟩ := ih ht
      exact ⟨_ :: c1, c2, rfl, All₂.cons h1 ha, hb⟩

theorem All₂.and_mem {α β : Type} {R : α → β → Prop} {a : List α} {b : List β} (h : All₂ R a b) :
    All₂ (fun x y => x ∈ a ∧ R x y) a b := by
  induction h with
  | nil => exact All₂.nil
  | cons h1 _ ih =>
    exact All₂.cons ⟨List.mem_cons_self, h1⟩ (ih.imp (fun x y hxy => ⟨List.mem_cons_of_mem _ hxy.1, hxy.2⟩))

/-! ### python dict facts -/

theorem regKeys_append (a b : Reg) : regKeys (a ++ b) = regKeys a ++ regKeys b := by
  simp [regKeys]

theorem regKeys_cons (k : Str) (s : Schema) (r : Reg) : regKeys ((k, s) :: r) = k :: regKeys r := rfl

theorem dictSet_fresh (r : Reg) (k : Str) (v : Schema) (h : k ∉ regKeys r) :
    dictSet r k v = r ++ [(k, v)] := by
  induction r with
  | nil => rfl
  | cons e r ih =>
    obtain ⟨k', v'⟩ := e
    simp only [regKeys_cons, List.mem_cons, not_or] at h
    have hne : (k' == k) = false := by
      simp only [beq_eq_false_iff_ne, ne_eq]; exact fun e => h.1 e.symm
    simp only [dictSet, hne, Bool.false_eq_true, if_false, List.cons_append, ih h.2]

/-- Keys that are pairwise distinct and not in `keys`. -/
def FreshList (keys : List Str) (new : Reg) : Prop :=
  (regKeys new).Nodup ∧ ∀ k ∈ regKeys new, k ∉ keys

theorem FreshList.nil (keys : List Str) : FreshList keys [] := ⟨List.nodup_nil, by simp [regKeys]⟩

theorem FreshList.snoc {keys : List Str} {new : Reg} (h : FreshList keys new) (k : Str) (v : Schema)
    (hk : k ∉ keys ++ regKeys new) : FreshList keys (new ++ [(k, v)]) := by
  simp only [List.mem_append, not_or] at hk
  refine ⟨?_, ?_⟩
  · rw [regKeys_append, List.nodup_append]
    refine ⟨h.1, by simp [regKeys], ?_⟩
    intro a ha b hb
    simp only [regKeys, List.map_cons, List.map_nil, List.mem_singleton] at hb
    subst hb
    exact fun e => hk.2 (e ▸ ha)
  · intro x hx
    rw [regKeys_append, List.mem_append] at hx
    rcases hx with hx | hx
    · exact h.2 x hx
    · simp only [regKeys, List.map_cons, List.map_nil, List.mem_singleton] at hx
      subst hx; exact hk.1

theorem FreshList.prefix {keys : List Str} {a b : Reg} (h : FreshList keys b) (hp : a <+: b) :
    FreshList keys a := by
  obtain ⟨t, rfl⟩ := hp
  rw [FreshList, regKeys_append] at h
  exact ⟨(List.nodup_append.1 h.1).1, fun k hk => h.2 k (List.mem_append_left _ hk)⟩

theorem dictUpdate_fresh (r new : Reg) (h : FreshList (regKeys r) new) : dictUpdate r new = r ++ new := by
  unfold dictUpdate
  induction new generalizing r with
  | nil => simp
  | cons e new ih =>
    obtain ⟨k, v⟩ := e
    have hk : k ∉ regKeys r := h.2 k (by simp [regKeys])
    have hnd : (k :: regKeys new).Nodup := h.1
    rw [List.nodup_cons] at hnd
    simp only [List.foldl_cons, dictSet_fresh r k v hk]
    rw [ih (r ++ [(k, v)])]
    · simp
    · refine ⟨hnd.2, ?_⟩
      intro x hx
      rw [regKeys_append, List.mem_append]
      rintro (hx' | hx')
      · exact h.2 x (by simp [regKeys] at hx ⊢; exact Or.inr hx) hx'
      · simp only [regKeys, List.map_cons, List.map_nil, List.mem_singleton] at hx'
        subst hx'; exact hnd.1 hx

theorem lookup_append_left (a b : Reg) (k : Str) (h : k ∈ regKeys a) : (a ++ b).lookup k = a.lookup k := by
  induction a with
  | nil => simp [regKeys] at h
  | cons e a ih =>
    obtain ⟨k', v⟩ := e
    simp only [List.cons_append, List.lookup_cons]
    by_cases hk : k = k'
    · subst hk; simp
    · have : (k == k') = false := by simpa using hk
      simp only [this]
      apply ih
      simp only [regKeys_cons, List.mem_cons] at h
      rcases h with h | h
      · exact absurd h hk
      · exact h

theorem lookup_append_right (a b : Reg) (k : Str) (h : k ∉ regKeys a) : (a ++ b).lookup k = b.lookup k := by
  induction a with
  | nil => rfl
  | cons e a ih =>
    obtain ⟨k', v⟩ := e
    simp only [regKeys_cons, List.mem_cons, not_or] at h
    have : (k == k') = false := by simpa using h.1
    simp only [List.cons_append, List.lookup_cons, this]
    exact ih h.2

theorem lookup_of_mem_nodup (b : Reg) (k : Str) (v : Schema) (hnd : (regKeys b).Nodup) (hm : (k, v) ∈ b) :
    b.lookup k = some v := by
  induction b with
  | nil => cases hm
  | cons e b ih =>
    obtain ⟨k', v'⟩ := e
    rw [regKeys_cons, List.nodup_cons] at hnd
    rcases List.mem_cons.1 hm with h | h
    · cases h; simp
    · have hne : k ≠ k' := by
        rintro rfl
        exact hnd.1 (List.mem_map_of_mem (f := (·.1)) h)
      have : (k == k') = false := by simpa using hne
      simp only [List.lookup_cons, this]
      exact ih hnd.2 h

/-- An entry of a fresh side dictionary is what `schemas[k]` gives after `schemas.update(new)`. -/
theorem lookup_update_new (r new : Reg) (k : Str) (v : Schema) (h : FreshList (regKeys r) new)
    (hm : (k, v) ∈ new) : (r ++ new).lookup k = some v := by
  have hk : k ∈ regKeys new := List.mem_map_of_mem (f := (·.1)) hm
  rw [lookup_append_right _ _ _ (h.2 k hk)]
  exact lookup_of_mem_nodup new k v h.1 hm

theorem mem_of_snoc_prefix {α : Type} {a final : List α} {x : α} (h : a ++ [x] <+: final) : x ∈ final := by
  obtain ⟨t, rfl⟩ := h
  simp

/-! ### the suffix loop -/

/-- The fuel `|taken| + 1` of `inlineName` always suffices: the python `while` loop terminates. -/
theorem inlineName_total (taken : List Str) (base : Str) :
    inlineName taken base = some (freshT taken base) ∧ freshT taken base ∉ taken := by
  obtain ⟨n, hn, hfresh⟩ := freshName_spec (sufPlain base) 1 taken base (sufPlain_inj base)
  have : inlineName taken base = some n := hn
  simp only [freshT, this, Option.getD_some]
  exact ⟨trivial, hfresh⟩

theorem freshT_not_mem (taken : List Str) (base : Str) : freshT taken base ∉ taken :=
  (inlineName_total taken base).2

/-- The name found is the base itself or the base followed by a decimal number. -/
theorem freshT_shape (taken : List Str) (base : Str) :
    freshT taken base = base ∨ ∃ k, freshT taken base = base ++ natStr k := by
  unfold freshT inlineName freshName
  split
  · cases h : findFresh (sufPlain base) taken 1 (taken.length + 1) with
    | none => left; rfl
    | some k => right; exact ⟨k, rfl⟩
  · left; rfl

theorem freshT_ne_nil (taken : List Str) (base : Str) (h : base ≠ []) : freshT taken base ≠ [] := by
  rcases freshT_shape taken base with e | ⟨k, e⟩ <;> rw [e]
  · exact h
  · simp [h]

/-- A name that does not end in a digit is only produced from itself. -/
theorem freshT_eq_nodigit (taken : List Str) (base target : Str) (hne : target ≠ [])
    (hlast : ∀ h : target ≠ [], isDigitA (target.getLast h) = false)
    (h : freshT taken base = target) : base = target := by
  rcases freshT_shape taken base with e | ⟨k, e⟩
  · rw [← e, h]
  · exfalso
    rw [h] at e
    have hk := natStr_ne_nil k
    have hd := natStr_digits k _ (List.getLast_mem hk)
    have : target.getLast hne = (natStr k).getLast hk := by
      simp only [e]
      rw [List.getLast_append_of_ne_nil]
    rw [← this, hlast hne] at hd
    cases hd

/-! ### array pass: one property -/

theorem arrayProp_none (u : UInfo) (keys : List Str) (sname : Str) (new : Reg) (pn : Str) (ps : Schema)
    (h : wantsItem ps = none) : arrayProp u keys sname new pn ps = (new, ps) := by
  simp only [arrayProp, h]

theorem arrayProp_some (u : UInfo) (keys : List Str) (sname : Str) (new : Reg) (pn : Str) (ps it : Schema)
    (h : wantsItem ps = some it) :
    arrayProp u keys sname new pn ps =
      (new ++ [(freshT (keys ++ regKeys new) (itemBaseName u sname pn it),
                { it with name := some (freshT (keys ++ regKeys new) (itemBaseName u sname pn it)) })],
       { ps with items := some { it with name := some (freshT (keys ++ regKeys new) (itemBaseName u sname pn it)) } }) := by
  simp only [arrayProp, h]

theorem arrayProp_prefix (u : UInfo) (keys : List Str) (sname : Str) (new : Reg) (pn : Str) (ps : Schema) :
    new <+: (arrayProp u keys sname new pn ps).1 := by
  cases h : wantsItem ps with
  | none => rw [arrayProp_none _ _ _ _ _ _ h]; exact List.prefix_refl _
  | some it => rw [arrayProp_some _ _ _ _ _ _ _ h]; exact List.prefix_append _ _

theorem arrayProp_fresh (u : UInfo) (keys : List Str) (sname : Str) (new : Reg) (pn : Str) (ps : Schema)
    (hf : FreshList keys new) : FreshList keys (arrayProp u keys sname new pn ps).1 := by
  cases h : wantsItem ps with
  | none => rw [arrayProp_none _ _ _ _ _ _ h]; exact hf
  | some it =>
    rw [arrayProp_some _ _ _ _ _ _ _ h]
    exact hf.snoc _ _ (freshT_not_mem _ _)

/-! ### array pass: trace -/

/-- Output property `p'` is the one-property step applied to `p` at some intermediate side dictionary,
    and what the step added is in the final side dictionary. -/
def ArrStep (u : UInfo) (keys : List Str) (final : Reg) (sname : Str) (p p' : Str × Schema) : Prop :=
  p'.1 = p.1 ∧ ∃ new0, FreshList keys new0 ∧ p'.2 = (arrayProp u keys sname new0 p.1 p.2).2 ∧
    (arrayProp u keys sname new0 p.1 p.2).1 <+: final

theorem arrayProps_prefix (u : UInfo) (keys : List Str) (sname : Str) (props : List (Str × Schema)) :
    ∀ new, new <+: (arrayProps u keys sname new props).1 := by
  induction props with
  | nil => intro new; exact List.prefix_refl _
  | cons p rest ih =>
    intro new
    obtain ⟨pn, ps⟩ := p
    simp only [arrayProps]
    exact (arrayProp_prefix u keys sname new pn ps).trans (ih _)

theorem arrayProps_fresh (u : UInfo) (keys : List Str) (sname : Str) (props : List (Str × Schema)) :
    ∀ new, FreshList keys new → FreshList keys (arrayProps u keys sname new props).1 := by
  induction props with
  | nil => intro new h; exact h
  | cons p rest ih =>
    intro new h
    obtain ⟨pn, ps⟩ := p
    simp only [arrayProps]
    exact ih _ (arrayProp_fresh u keys sname new pn ps h)

theorem arrayProps_trace (u : UInfo) (keys : List Str) (sname : Str) (final : Reg)
    (props : List (Str × Schema)) :
    ∀ new, FreshList keys new → (arrayProps u keys sname new props).1 <+: final →
      All₂ (ArrStep u keys final sname) props (arrayProps u keys sname new props).2 := by
  induction props with
  | nil => intro new _ _; exact All₂.nil
  | cons p rest ih =>
    intro new hf hp
    obtain ⟨pn, ps⟩ := p
    simp only [arrayProps] at hp ⊢
    refine All₂.cons ⟨rfl, new, hf, rfl, ?_⟩ (ih _ (arrayProp_fresh u keys sname new pn ps hf) hp)
    exact (arrayProps_prefix u keys sname rest _).trans hp

/-- What the array pass does to one registry entry. -/
def ArrEntry (u : UInfo) (keys : List Str) (final : Reg) (e e' : Str × Schema) : Prop :=
  e'.1 = e.1 ∧ ∃ props', e'.2 = { e.2 with props := props' } ∧
    All₂ (ArrStep u keys final e.1) e.2.props props'

theorem arraySchemas_prefix (u : UInfo) (keys : List Str) (reg : Reg) :
    ∀ new, new <+: (arraySchemas u keys new reg).1 := by
  induction reg with
  | nil => intro new; exact List.prefix_refl _
  | cons e rest ih =>
    intro new
    obtain ⟨k, s⟩ := e
    simp only [arraySchemas]
    exact (arrayProps_prefix u keys k s.props new).trans (ih _)

theorem arraySchemas_fresh (u : UInfo) (keys : List Str) (reg : Reg) :
    ∀ new, FreshList keys new → FreshList keys (arraySchemas u keys new reg).1 := by
  induction reg with
  | nil => intro new h; exact h
  | cons e rest ih =>
    intro new h
    obtain ⟨k, s⟩ := e
    simp only [arraySchemas]
    exact ih _ (arrayProps_fresh u keys k s.props new h)

theorem arraySchemas_trace (u : UInfo) (keys : List Str) (final : Reg) (reg : Reg) :
    ∀ new, FreshList keys new → (arraySchemas u keys new reg).1 <+: final →
      All₂ (ArrEntry u keys final) reg (arraySchemas u keys new reg).2 := by
  induction reg with
  | nil => intro new _ _; exact All₂.nil
  | cons e rest ih =>
    intro new hf hp
    obtain ⟨k, s⟩ := e
    simp only [arraySchemas] at hp ⊢
    have hp1 : (arrayProps u keys k new s.props).1 <+: final :=
      (arraySchemas_prefix u keys rest _).trans hp
    exact All₂.cons ⟨rfl, _, rfl, arrayProps_trace u keys k final s.props new hf hp1⟩
      (ih _ (arrayProps_fresh u keys k s.props new hf) hp)

theorem arrayPass_fresh (u : UInfo) (reg : Reg) : FreshList (regKeys reg) (arrayPass u reg).1 :=
  arraySchemas_fresh u _ reg [] (FreshList.nil _)

theorem arrayPass_trace (u : UInfo) (reg : Reg) :
    All₂ (ArrEntry u (regKeys reg) (arrayPass u reg).1) reg (arrayPass u reg).2 :=
  arraySchemas_trace u _ _ reg [] (FreshList.nil _) (List.prefix_refl _)

theorem forall₂_keys {R : Str × Schema → Str × Schema → Prop} {a b : Reg}
    (h : All₂ R a b) (hk : ∀ e e', R e e' → e'.1 = e.1) : regKeys b = regKeys a := by
  unfold regKeys
  exact h.map_eq (fun e => e.1) (fun e => e.1) hk

theorem arrayPass_keys (u : UInfo) (reg : Reg) : regKeys (arrayPass u reg).2 = regKeys reg :=
  forall₂_keys (arrayPass_trace u reg) (fun _ _ h => h.1)

/-- `schemas.update(new_item_schemas)` appends. -/
theorem extractArrayItems_eq (u : UInfo) (reg : Reg) :
    extractArrayItems u reg = (arrayPass u reg).2 ++ (arrayPass u reg).1 := by
  unfold extractArrayItems
  exact dictUpdate_fresh _ _ (by rw [arrayPass_keys]; exact arrayPass_fresh u reg)

/-! ### enum pass: the dictionary the loop body sees -/

/-- `view` has the keys of `reg1` and, entry by entry, the same `enum` — all the enum pass reads from
    `schemas` (apart from the dead reuse branch). -/
def ViewOf (reg1 view : Reg) : Prop :=
  view.map (fun e => (e.1, e.2.enumVals)) = reg1.map (fun e => (e.1, e.2.enumVals))

theorem ViewOf.refl (r : Reg) : ViewOf r r := rfl

theorem ViewOf.keys {reg1 view : Reg} (h : ViewOf reg1 view) : regKeys view = regKeys reg1 := by
  have := congrArg (List.map (fun (p : Str × Option (List Str)) => p.1)) h
  simpa [regKeys, List.map_map, Function.comp_def] using this

theorem ViewOf.lookup {reg1 view : Reg} (h : ViewOf reg1 view) (k : Str) :
    (view.lookup k).map (·.enumVals) = (reg1.lookup k).map (·.enumVals) := by
  induction reg1 generalizing view with
  | nil =>
    cases view with
    | nil => rfl
    | cons e v => simp [ViewOf] at h
  | cons e1 r1 ih =>
    cases view with
    | nil => simp [ViewOf] at h
    | cons e v =>
      obtain ⟨k1, s1⟩ := e1
      obtain ⟨k2, s2⟩ := e
      simp only [ViewOf, List.map_cons, List.cons.injEq, Prod.mk.injEq] at h
      obtain ⟨⟨hk, he⟩, ht⟩ := h
      subst hk
      simp only [List.lookup_cons]
      cases hkk : k == k2 with
      | true => simp [he]
      | false => exact ih ht

theorem refsEnum_congr {reg1 view : Reg} (h : ViewOf reg1 view) (x : Option Str) :
    refsEnum view x = refsEnum reg1 x := by
  unfold refsEnum lookupRef
  match x with
  | none => rfl
  | some [] => rfl
  | some (c :: cs) =>
    have := h.lookup (c :: cs)
    cases h1 : view.lookup (c :: cs) <;> cases h2 : reg1.lookup (c :: cs) <;>
      simp only [h1, h2, Option.map_none, Option.map_some, reduceCtorEq, Option.some.injEq] at this ⊢
    rw [this]

theorem alreadyExtracted_congr {reg1 view : Reg} (h : ViewOf reg1 view) (u : UInfo) (pn : Str) (ps : Schema) :
    alreadyExtracted u view pn ps = alreadyExtracted u reg1 pn ps := by
  simp only [alreadyExtracted, refsEnum_congr h]

/-- The one-property step without the reuse branch. -/
def enumPropS (u : UInfo) (view : Reg) (disc : List (Str × Str)) (sname : Str) (newE : Reg) (pn : Str)
    (ps : Schema) : Reg × Schema :=
  if disc.contains (sname, pn) || !hasInlineEnum ps || alreadyExtracted u view pn ps then (newE, ps)
  else
    (newE ++ [(freshT (regKeys view ++ regKeys newE) (enumBaseName sname pn ps),
               enumEntry u (freshT (regKeys view ++ regKeys newE) (enumBaseName sname pn ps)) ps.ty ps.enumVals)],
     pointAt u ps (freshT (regKeys view ++ regKeys newE) (enumBaseName sname pn ps)))

/-- The reuse branch (extractor.py:268-277) is dead: its guard is the fourth disjunct of
    `enum_already_extracted`, which is false where the branch is. -/
theorem enumProp_eq (u : UInfo) (view : Reg) (disc : List (Str × Str)) (sname : Str) (newE : Reg) (pn : Str)
    (ps : Schema) : enumProp u view disc sname newE pn ps = enumPropS u view disc sname newE pn ps := by
  unfold enumProp enumPropS
  cases hd : disc.contains (sname, pn)
  · cases hi : hasInlineEnum ps
    · simp
    · cases ha : alreadyExtracted u view pn ps
      · have hr : refsEnum view ps.ty = false := by
          simp only [alreadyExtracted, Bool.or_eq_false_iff] at ha
          exact ha.2
        simp only [Bool.false_eq_true, if_false, Bool.not_false, Bool.and_self, if_true, Bool.not_true,
          Bool.or_self]
        unfold refsEnum at hr
        cases hl : lookupRef view ps.ty with
        | none => rfl
        | some te =>
          obtain ⟨t, e⟩ := te
          simp only [hl] at hr
          simp only [hr, Bool.false_eq_true, if_false]
      · simp
  · simp

theorem enumProp_congr {reg1 view : Reg} (h : ViewOf reg1 view) (u : UInfo) (disc : List (Str × Str))
    (sname : Str) (newE : Reg) (pn : Str) (ps : Schema) :
    enumProp u view disc sname newE pn ps = enumProp u reg1 disc sname newE pn ps := by
  rw [enumProp_eq, enumProp_eq]
  simp only [enumPropS, alreadyExtracted_congr h, h.keys]

theorem enumProps_congr {reg1 view : Reg} (h : ViewOf reg1 view) (u : UInfo) (disc : List (Str × Str))
    (sname : Str) (props : List (Str × Schema)) :
    ∀ newE, enumProps u view disc sname newE props = enumProps u reg1 disc sname newE props := by
  induction props with
  | nil => intro _; rfl
  | cons p rest ih =>
    intro newE
    obtain ⟨pn, ps⟩ := p
    simp only [enumProps, enumProp_congr h, ih]

/-! ### enum pass: one property -/

theorem enumPropS_prefix (u : UInfo) (view : Reg) (disc : List (Str × Str)) (sname : Str) (newE : Reg)
    (pn : Str) (ps : Schema) : newE <+: (enumPropS u view disc sname newE pn ps).1 := by
  unfold enumPropS
  split
  · exact List.prefix_refl _
  · exact List.prefix_append _ _

theorem enumPropS_fresh (u : UInfo) (view : Reg) (disc : List (Str × Str)) (sname : Str) (newE : Reg)
    (pn : Str) (ps : Schema) (hf : FreshList (regKeys view) newE) :
    FreshList (regKeys view) (enumPropS u view disc sname newE pn ps).1 := by
  unfold enumPropS
  split
  · exact hf
  · exact hf.snoc _ _ (freshT_not_mem _ _)

/-! ### enum pass: trace -/

def EnumStep (u : UInfo) (reg1 : Reg) (disc : List (Str × Str)) (final : Reg) (sname : Str)
    (p p' : Str × Schema) : Prop :=
  p'.1 = p.1 ∧ ∃ newE0, FreshList (regKeys reg1) newE0 ∧
    p'.2 = (enumPropS u reg1 disc sname newE0 p.1 p.2).2 ∧
    (enumPropS u reg1 disc sname newE0 p.1 p.2).1 <+: final

theorem enumProps_prefix (u : UInfo) (reg1 : Reg) (disc : List (Str × Str)) (sname : Str)
    (props : List (Str × Schema)) : ∀ newE, newE <+: (enumProps u reg1 disc sname newE props).1 := by
  induction props with
  | nil => intro newE; exact List.prefix_refl _
  | cons p rest ih =>
    intro newE
    obtain ⟨pn, ps⟩ := p
    simp only [enumProps, enumProp_eq]
    exact (enumPropS_prefix u reg1 disc sname newE pn ps).trans (by simpa only [enumProp_eq] using ih _)

theorem enumProps_fresh (u : UInfo) (reg1 : Reg) (disc : List (Str × Str)) (sname : Str)
    (props : List (Str × Schema)) :
    ∀ newE, FreshList (regKeys reg1) newE → FreshList (regKeys reg1) (enumProps u reg1 disc sname newE props).1 := by
  induction props with
  | nil => intro newE h; exact h
  | cons p rest ih =>
    intro newE h
    obtain ⟨pn, ps⟩ := p
    simp only [enumProps, enumProp_eq]
    exact ih _ (enumPropS_fresh u reg1 disc sname newE pn ps h)

theorem enumProps_trace (u : UInfo) (reg1 : Reg) (disc : List (Str × Str)) (sname : Str) (final : Reg)
    (props : List (Str × Schema)) :
    ∀ newE, FreshList (regKeys reg1) newE → (enumProps u reg1 disc sname newE props).1 <+: final →
      All₂ (EnumStep u reg1 disc final sname) props (enumProps u reg1 disc sname newE props).2 := by
  induction props with
  | nil => intro newE _ _; exact All₂.nil
  | cons p rest ih =>
    intro newE hf hp
    obtain ⟨pn, ps⟩ := p
    simp only [enumProps, enumProp_eq] at hp ⊢
    refine All₂.cons ⟨rfl, newE, hf, rfl, ?_⟩ (ih _ (enumPropS_fresh u reg1 disc sname newE pn ps hf) hp)
    exact (enumProps_prefix u reg1 disc sname rest _).trans hp

theorem fixTop_props (s : Schema) : (fixTop s).props = s.props := by
  unfold fixTop; split <;> rfl

theorem fixTop_enumVals (s : Schema) : (fixTop s).enumVals = s.enumVals := by
  unfold fixTop; split <;> rfl

/-- What the enum pass does to one registry entry. -/
def EnumEntry (u : UInfo) (reg1 : Reg) (disc : List (Str × Str)) (final : Reg) (e e' : Str × Schema) : Prop :=
  e'.1 = e.1 ∧ ∃ props', e'.2 = { fixTop e.2 with props := props' } ∧
    All₂ (EnumStep u reg1 disc final e.1) e.2.props props'

theorem viewOf_step {reg1 pre rest : Reg} {k : Str} {s s' : Schema} (h : ViewOf reg1 (pre ++ (k, s) :: rest))
    (he : s'.enumVals = s.enumVals) : ViewOf reg1 (pre ++ (k, s') :: rest) := by
  unfold ViewOf at h ⊢
  rw [← h]
  simp [he]

theorem enumSchemas_prefix (u : UInfo) (disc : List (Str × Str)) (reg1 : Reg) (todo : Reg) :
    ∀ pre newE, ViewOf reg1 (pre ++ todo) → newE <+: (enumSchemas u disc pre newE todo).1 := by
  induction todo with
  | nil => intro pre newE _; exact List.prefix_refl _
  | cons e rest ih =>
    intro pre newE hv
    obtain ⟨k, s⟩ := e
    have hv1 : ViewOf reg1 (pre ++ (k, fixTop s) :: rest) := viewOf_step hv (fixTop_enumVals s)
    simp only [enumSchemas, enumProps_congr hv1]
    refine (enumProps_prefix u reg1 disc k (fixTop s).props newE).trans (ih _ _ ?_)
    rw [List.append_assoc]
    exact viewOf_step hv (by simp [fixTop_enumVals])

theorem enumSchemas_fresh (u : UInfo) (disc : List (Str × Str)) (reg1 : Reg) (todo : Reg) :
    ∀ pre newE, ViewOf reg1 (pre ++ todo) → FreshList (regKeys reg1) newE →
      FreshList (regKeys reg1) (enumSchemas u disc pre newE todo).1 := by
  induction todo with
  | nil => intro pre newE _ h; exact h
  | cons e rest ih =>
    intro pre newE hv hf
    obtain ⟨k, s⟩ := e
    have hv1 : ViewOf reg1 (pre ++ (k, fixTop s) :: rest) := viewOf_step hv (fixTop_enumVals s)
    simp only [enumSchemas, enumProps_congr hv1]
    refine ih _ _ ?_ (enumProps_fresh u reg1 disc k _ newE hf)
    rw [List.append_assoc]
    exact viewOf_step hv (by simp [fixTop_enumVals])

theorem enumSchemas_trace (u : UInfo) (disc : List (Str × Str)) (reg1 final : Reg) (todo : Reg) :
    ∀ pre newE, ViewOf reg1 (pre ++ todo) → FreshList (regKeys reg1) newE →
      (enumSchemas u disc pre newE todo).1 <+: final →
      All₂ (EnumEntry u reg1 disc final) todo (enumSchemas u disc pre newE todo).2 := by
  induction todo with
  | nil => intro pre newE _ _ _; exact All₂.nil
  | cons e rest ih =>
    intro pre newE hv hf hp
    obtain ⟨k, s⟩ := e
    have hv1 : ViewOf reg1 (pre ++ (k, fixTop s) :: rest) := viewOf_step hv (fixTop_enumVals s)
    have hv2 : ∀ props', ViewOf reg1 ((pre ++ [(k, { fixTop s with props := props' })]) ++ rest) := by
      intro props'
      rw [List.append_assoc]
      exact viewOf_step hv (by simp [fixTop_enumVals])
    simp only [enumSchemas, enumProps_congr hv1] at hp ⊢
    have hp1 : (enumProps u reg1 disc k newE (fixTop s).props).1 <+: final :=
      (enumSchemas_prefix u disc reg1 rest _ _ (hv2 _)).trans hp
    refine All₂.cons ⟨rfl, _, rfl, ?_⟩ (ih _ _ (hv2 _) (enumProps_fresh u reg1 disc k _ newE hf) hp)
    have := enumProps_trace u reg1 disc k final (fixTop s).props newE hf hp1
    rwa [fixTop_props] at this ⊢

theorem enumPass_fresh (u : UInfo) (disc : List (Str × Str)) (reg1 : Reg) :
    FreshList (regKeys reg1) (enumPass u disc reg1).1 :=
  enumSchemas_fresh u disc reg1 reg1 [] [] (ViewOf.refl _) (FreshList.nil _)

theorem enumPass_trace (u : UInfo) (disc : List (Str × Str)) (reg1 : Reg) :
    All₂ (EnumEntry u reg1 disc (enumPass u disc reg1).1) reg1 (enumPass u disc reg1).2 :=
  enumSchemas_trace u disc reg1 _ reg1 [] [] (ViewOf.refl _) (FreshList.nil _) (List.prefix_refl _)

theorem enumPass_keys (u : UInfo) (disc : List (Str × Str)) (reg1 : Reg) :
    regKeys (enumPass u disc reg1).2 = regKeys reg1 :=
  forall₂_keys (enumPass_trace u disc reg1) (fun _ _ h => h.1)

/-- `schemas.update(new_enums)` appends. -/
theorem extractEnums_eq (u : UInfo) (reg : Reg) (disc : List (Str × Str)) :
    extractEnums u reg disc =
      (enumPass u disc (extractArrayItems u reg)).2 ++ (enumPass u disc (extractArrayItems u reg)).1 := by
  unfold extractEnums
  exact dictUpdate_fresh _ _ (by rw [enumPass_keys]; exact enumPass_fresh u disc _)

/-! ### the shape of the result -/

/-- The registry after both passes: the original entries (after both in-place mutations), the promoted
    item schemas (after the enum pass), the extracted enums. -/
theorem extractEnums_decomp (u : UInfo) (reg : Reg) (disc : List (Str × Str)) :
    ∃ regE1 regE2 : Reg,
      extractEnums u reg disc = regE1 ++ regE2 ++ (enumPass u disc (extractArrayItems u reg)).1 ∧
      All₂ (EnumEntry u (extractArrayItems u reg) disc (enumPass u disc (extractArrayItems u reg)).1)
        (arrayPass u reg).2 regE1 ∧
      All₂ (EnumEntry u (extractArrayItems u reg) disc (enumPass u disc (extractArrayItems u reg)).1)
        (arrayPass u reg).1 regE2 := by
  have ht := enumPass_trace u disc (extractArrayItems u reg)
  rw [extractEnums_eq]
  generalize (enumPass u disc (extractArrayItems u reg)).2 = regE at ht ⊢
  generalize (enumPass u disc (extractArrayItems u reg)).1 = final at ht ⊢
  have heq := extractArrayItems_eq u reg
  generalize extractArrayItems u reg = reg1 at ht heq ⊢
  subst heq
  obtain ⟨c1, c2, rfl, h1, h2⟩ := ht.append_left_inv
  exact ⟨c1, c2, rfl, h1, h2⟩

theorem extractArrayItems_keys (u : UInfo) (reg : Reg) :
    regKeys (extractArrayItems u reg) = regKeys reg ++ regKeys (arrayPass u reg).1 := by
  rw [extractArrayItems_eq, regKeys_append, arrayPass_keys]

theorem extractEnums_keys (u : UInfo) (reg : Reg) (disc : List (Str × Str)) :
    regKeys (extractEnums u reg disc) =
      regKeys reg ++ regKeys (arrayPass u reg).1 ++ regKeys (enumPass u disc (extractArrayItems u reg)).1 := by
  rw [extractEnums_eq, regKeys_append, enumPass_keys, extractArrayItems_keys]

theorem regKeys_length (r : Reg) : (regKeys r).length = r.length := by simp [regKeys]

theorem postOk_of_keys (orig out : Reg) (extra : List Str) (h : regKeys out = regKeys orig ++ extra) :
    postOk orig out = true := by
  have hl : orig.length ≤ out.length := by
    have := congrArg List.length h
    simp only [regKeys_length, List.length_append] at this
    omega
  simp only [postOk, hl, decide_true, Bool.true_and, List.all_eq_true, List.contains_iff_mem, h]
  intro k hk
  exact List.mem_append_left _ hk

/-- The new keys of both passes: pairwise distinct and none of them an original key. -/
theorem new_keys_fresh (u : UInfo) (reg : Reg) (disc : List (Str × Str)) :
    FreshList (regKeys reg)
      ((arrayPass u reg).1 ++ (enumPass u disc (extractArrayItems u reg)).1) := by
  have h1 := arrayPass_fresh u reg
  have h2 := enumPass_fresh u disc (extractArrayItems u reg)
  rw [extractArrayItems_keys] at h2
  refine ⟨?_, ?_⟩
  · rw [regKeys_append, List.nodup_append]
    refine ⟨h1.1, h2.1, ?_⟩
    intro a ha b hb hab
    subst hab
    exact h2.2 a hb (List.mem_append_right _ ha)
  · intro k hk
    rw [regKeys_append, List.mem_append] at hk
    rcases hk with hk | hk
    · exact h1.2 k hk
    · exact fun hm => h2.2 k hk (List.mem_append_left _ hm)

theorem extractEnums_keys_nodup (u : UInfo) (reg : Reg) (disc : List (Str × Str)) (h : (regKeys reg).Nodup) :
    (regKeys (extractEnums u reg disc)).Nodup := by
  have hf := new_keys_fresh u reg disc
  rw [extractEnums_keys, List.append_assoc, ← regKeys_append, List.nodup_append]
  refine ⟨h, hf.1, ?_⟩
  intro a ha b hb hab
  subst hab
  exact hf.2 a hb ha

/-! ### what happened to one property -/

/-- The array pass on one property schema `ps` (result `ps'`), `out1` being the registry after the pass. -/
inductive ItemOutcome (keys : List Str) (out1 : Reg) (ps ps' : Schema) : Prop
  | kept (h : ps' = ps) (why : wantsItem ps = none)
  | promoted (it : Schema) (nm : Str) (hw : wantsItem ps = some it) (hne : nm ≠ []) (hfresh : nm ∉ keys)
      (hentry : out1.lookup nm = some { it with name := some nm })
      (hp : ps' = { ps with items := some { it with name := some nm } })

theorem itemBaseName_ne_nil (u : UInfo) (sname pn : Str) (it : Schema) : itemBaseName u sname pn it ≠ [] := by
  unfold itemBaseName
  split
  · split <;> simp
  · simp

theorem arrStep_outcome {u : UInfo} {keys : List Str} {final regA : Reg} {sname : Str} {p p' : Str × Schema}
    (hf : FreshList keys final) (hk : regKeys regA = keys) (h : ArrStep u keys final sname p p') :
    p'.1 = p.1 ∧ ItemOutcome keys (regA ++ final) p.2 p'.2 := by
  obtain ⟨h1, new0, hf0, h2, h3⟩ := h
  refine ⟨h1, ?_⟩
  cases hw : wantsItem p.2 with
  | none =>
    rw [arrayProp_none _ _ _ _ _ _ hw] at h2
    exact ItemOutcome.kept h2 hw
  | some it =>
    rw [arrayProp_some _ _ _ _ _ _ _ hw] at h2 h3
    have hmem := mem_of_snoc_prefix h3
    have hkey := List.mem_map_of_mem (f := (·.1)) hmem
    exact ItemOutcome.promoted it _ hw (freshT_ne_nil _ _ (itemBaseName_ne_nil u sname p.1 it))
      (hf.2 _ hkey) (lookup_update_new regA final _ _ (hk ▸ hf) hmem) h2

/-- The enum pass on one property schema. -/
inductive EnumOutcome (u : UInfo) (reg1 : Reg) (disc : List (Str × Str)) (out : Reg) (sname pn : Str)
    (ps ps' : Schema) : Prop
  | kept (h : ps' = ps)
      (why : disc.contains (sname, pn) = true ∨ hasInlineEnum ps = false ∨ alreadyExtracted u reg1 pn ps = true)
  | extracted (en : Str) (hd : disc.contains (sname, pn) = false) (hi : hasInlineEnum ps = true)
      (ha : alreadyExtracted u reg1 pn ps = false) (hfresh : en ∉ regKeys reg1)
      (hshape : en = enumBaseName sname pn ps ∨ ∃ k, en = enumBaseName sname pn ps ++ natStr k)
      (hentry : out.lookup en = some (enumEntry u en ps.ty ps.enumVals))
      (hp : ps' = pointAt u ps en)

theorem enumStep_outcome {u : UInfo} {reg1 : Reg} {disc : List (Str × Str)} {final regE : Reg} {sname : Str}
    {p p' : Str × Schema} (hf : FreshList (regKeys reg1) final) (hk : regKeys regE = regKeys reg1)
    (h : EnumStep u reg1 disc final sname p p') :
    p'.1 = p.1 ∧ EnumOutcome u reg1 disc (regE ++ final) sname p.1 p.2 p'.2 := by
  obtain ⟨h1, newE0, hf0, h2, h3⟩ := h
  refine ⟨h1, ?_⟩
  unfold enumPropS at h2 h3
  split at h2
  · rename_i hc
    simp only [Bool.or_eq_true, Bool.not_eq_eq_eq_not, Bool.not_true] at hc
    refine EnumOutcome.kept h2 ?_
    rcases hc with (hc | hc) | hc
    · exact Or.inl hc
    · exact Or.inr (Or.inl hc)
    · exact Or.inr (Or.inr hc)
  · rename_i hc
    rw [if_neg hc] at h3
    simp only [Bool.or_eq_true, Bool.not_eq_eq_eq_not, Bool.not_true, not_or, Bool.not_eq_true,
      Bool.not_eq_false] at hc
    have hmem := mem_of_snoc_prefix h3
    have hkey := List.mem_map_of_mem (f := (·.1)) hmem
    exact EnumOutcome.extracted _ hc.1.1 hc.1.2 hc.2 (hf.2 _ hkey) (freshT_shape _ _)
      (lookup_update_new regE final _ _ (hk ▸ hf) hmem) h2

/-! ### fields the passes never touch -/

theorem ItemOutcome.fields {keys : List Str} {out1 : Reg} {ps ps' : Schema} (h : ItemOutcome keys out1 ps ps') :
    ps'.name = ps.name ∧ ps'.ty = ps.ty ∧ ps'.genName = ps.genName ∧ ps'.stem = ps.stem ∧
      ps'.enumVals = ps.enumVals ∧ ps'.props = ps.props := by
  cases h with
  | kept h _ => subst h; simp
  | promoted it nm _ _ _ _ hp => subst hp; simp

theorem EnumOutcome.fields {u : UInfo} {reg1 : Reg} {disc : List (Str × Str)} {out : Reg} {sname pn : Str}
    {ps ps' : Schema} (h : EnumOutcome u reg1 disc out sname pn ps ps') :
    ps'.items = ps.items ∧ ps'.props = ps.props ∧ ps'.anyOf = ps.anyOf ∧ ps'.oneOf = ps.oneOf ∧
      ps'.allOf = ps.allOf := by
  cases h with
  | kept h _ => subst h; simp
  | extracted en _ _ _ _ _ _ hp => subst hp; simp [pointAt]

/-! ### both passes, entry by entry -/

def ItemsEntry (keys : List Str) (out1 : Reg) (e e' : Str × Schema) : Prop :=
  e'.1 = e.1 ∧ (∃ props', e'.2 = { e.2 with props := props' }) ∧
    All₂ (fun p p' => p'.1 = p.1 ∧ ItemOutcome keys out1 p.2 p'.2) e.2.props e'.2.props

theorem arrayPass_outcomes (u : UInfo) (reg : Reg) :
    All₂ (ItemsEntry (regKeys reg) (extractArrayItems u reg)) reg (arrayPass u reg).2 := by
  rw [extractArrayItems_eq]
  refine (arrayPass_trace u reg).imp ?_
  rintro e e' ⟨h1, props', h2, h3⟩
  refine ⟨h1, ⟨props', h2⟩, ?_⟩
  rw [h2]
  exact h3.imp (fun p p' hs => arrStep_outcome (arrayPass_fresh u reg) (arrayPass_keys u reg) hs)

def EnumsEntry (u : UInfo) (reg1 : Reg) (disc : List (Str × Str)) (out : Reg) (e e' : Str × Schema) : Prop :=
  e'.1 = e.1 ∧ (∃ props', e'.2 = { fixTop e.2 with props := props' }) ∧
    All₂ (fun p p' => p'.1 = p.1 ∧ EnumOutcome u reg1 disc out e.1 p.1 p.2 p'.2) e.2.props e'.2.props

theorem enumPass_outcomes (u : UInfo) (disc : List (Str × Str)) (reg1 : Reg) :
    All₂ (EnumsEntry u reg1 disc ((enumPass u disc reg1).2 ++ (enumPass u disc reg1).1)) reg1
      (enumPass u disc reg1).2 := by
  refine (enumPass_trace u disc reg1).imp ?_
  rintro e e' ⟨h1, props', h2, h3⟩
  refine ⟨h1, ⟨props', h2⟩, ?_⟩
  rw [h2]
  exact h3.imp (fun p p' hs => enumStep_outcome (enumPass_fresh u disc reg1) (enumPass_keys u disc reg1) hs)

theorem take_left' {α : Type} (a b : List α) (n : Nat) (h : a.length = n) : (a ++ b).take n = a := by
  subst h; simp

/-- The first `|reg1|` entries of the result are the in-place mutated entries of `reg1`. -/
theorem extractEnums_take (u : UInfo) (reg : Reg) (disc : List (Str × Str)) :
    (extractEnums u reg disc).take (extractArrayItems u reg).length =
      (enumPass u disc (extractArrayItems u reg)).2 := by
  rw [extractEnums_eq]
  exact take_left' _ _ _ (enumPass_trace u disc _).length_eq.symm

theorem extractArrayItems_take (u : UInfo) (reg : Reg) :
    (extractArrayItems u reg).take reg.length = (arrayPass u reg).2 := by
  rw [extractArrayItems_eq]
  exact take_left' _ _ _ (arrayPass_trace u reg).length_eq.symm

theorem All₂.take {α β : Type} {R : α → β → Prop} {a : List α} {b : List β} (h : All₂ R a b) (n : Nat) :
    All₂ R (a.take n) (b.take n) := by
  induction h generalizing n with
  | nil => simpa using All₂.nil
  | cons h1 _ ih =>
    cases n with
    | zero => simpa using All₂.nil
    | succ n => simpa using All₂.cons h1 (ih n)

/-- Original entries through BOTH passes. -/
def BothEntry (u : UInfo) (reg : Reg) (disc : List (Str × Str)) (e e'' : Str × Schema) : Prop :=
  ∃ e', ItemsEntry (regKeys reg) (extractArrayItems u reg) e e' ∧
    EnumsEntry u (extractArrayItems u reg) disc (extractEnums u reg disc) e' e''

theorem extractEnums_originals (u : UInfo) (reg : Reg) (disc : List (Str × Str)) :
    All₂ (BothEntry u reg disc) reg ((extractEnums u reg disc).take reg.length) := by
  have h1 := arrayPass_outcomes u reg
  have h2 := (enumPass_outcomes u disc (extractArrayItems u reg)).take reg.length
  rw [← extractEnums_eq, extractArrayItems_take] at h2
  have h3 : (enumPass u disc (extractArrayItems u reg)).2.take reg.length =
      (extractEnums u reg disc).take reg.length := by
    rw [← extractEnums_take, List.take_take]
    congr 1
    have : reg.length ≤ (extractArrayItems u reg).length := by
      rw [extractArrayItems_eq, List.length_append, ← (arrayPass_trace u reg).length_eq]; omega
    omega
  rw [h3] at h2
  exact h1.trans h2 (fun x y z hxy hyz => ⟨y, hxy, hyz⟩)

/-! ### wire keys and array nature -/

theorem BothEntry.key {u : UInfo} {reg : Reg} {disc : List (Str × Str)} {e e'' : Str × Schema}
    (h : BothEntry u reg disc e e'') : e''.1 = e.1 := by
  obtain ⟨e', h1, h2⟩ := h
  rw [h2.1, h1.1]

theorem BothEntry.propKeys {u : UInfo} {reg : Reg} {disc : List (Str × Str)} {e e'' : Str × Schema}
    (h : BothEntry u reg disc e e'') : e''.2.props.map (fun p => p.1) = e.2.props.map (fun p => p.1) := by
  obtain ⟨e', h1, h2⟩ := h
  rw [h2.2.2.map_eq (fun p => p.1) (fun p => p.1) (fun _ _ hp => hp.1),
    h1.2.2.map_eq (fun p => p.1) (fun p => p.1) (fun _ _ hp => hp.1)]

theorem append_natStr_ne_array (base : Str) (k : Nat) : base ++ natStr k ≠ sArray := by
  intro h
  have hk := natStr_ne_nil k
  have hd := natStr_digits k _ (List.getLast_mem hk)
  have hne : base ++ natStr k ≠ [] := by simp [hk]
  have h1 : (base ++ natStr k).getLast hne = (natStr k).getLast hk := List.getLast_append_of_ne_nil _ hk
  have h2 : (base ++ natStr k).getLast hne = 'y' := by simp only [h]; rfl
  rw [← h1, h2] at hd
  exact absurd hd (by decide)

theorem append_enum_ne_array (x : Str) : x ++ sEnum ≠ sArray := by
  intro h
  have := congrArg List.reverse h
  simp at this

theorem enumBaseName_ne_array (sname pn : Str) (ps : Schema) (h : ps.genName ≠ some sArray) :
    enumBaseName sname pn ps ≠ sArray := by
  unfold enumBaseName
  split
  · rename_i c cs hg
    intro he
    exact h (by rw [hg, he])
  · exact append_enum_ne_array _

theorem hasInlineEnum_not_array (ps : Schema) (h : hasInlineEnum ps = true) : (ps.ty == some sArray) = false := by
  unfold hasInlineEnum at h
  cases ht : ps.ty with
  | none => rfl
  | some t =>
    simp only [ht, Bool.and_eq_true] at h
    have := h.2
    simp only [primEnumTypes, List.contains_iff_mem, List.mem_cons, List.not_mem_nil, or_false] at this
    rcases this with rfl | rfl | rfl <;> decide

theorem EnumOutcome.arrayNature {u : UInfo} {reg1 : Reg} {disc : List (Str × Str)} {out : Reg} {sname pn : Str}
    {ps ps' : Schema} (h : EnumOutcome u reg1 disc out sname pn ps ps') (hg : ps.genName ≠ some sArray) :
    (ps'.ty == some sArray) = (ps.ty == some sArray) := by
  cases h with
  | kept h _ => subst h; rfl
  | extracted en _ hi _ _ hshape _ hp =>
    subst hp
    rw [hasInlineEnum_not_array ps hi]
    have hne : en ≠ sArray := by
      rcases hshape with e | ⟨k, e⟩ <;> rw [e]
      · exact enumBaseName_ne_array sname pn ps hg
      · exact append_natStr_ne_array _ k
    simp only [pointAt, beq_eq_false_iff_ne, ne_eq, Option.some.injEq]
    exact hne

/-- No property carries the generation name `array`. -/
def noArrayGen (s : Schema) : Bool := s.props.all (fun p => !(p.2.genName == some sArray))

theorem BothEntry.arrayNature {u : UInfo} {reg : Reg} {disc : List (Str × Str)} {e e'' : Str × Schema}
    (h : BothEntry u reg disc e e'') (hg : noArrayGen e.2 = true) :
    e''.2.props.map (fun p => p.2.ty == some sArray) = e.2.props.map (fun p => p.2.ty == some sArray) := by
  obtain ⟨e', h1, h2⟩ := h
  refine (h1.2.2.and_mem.trans h2.2.2 (T := fun (p p'' : Str × Schema) => (p''.2.ty == some sArray) = (p.2.ty == some sArray))
    ?_).map_eq _ _ (fun _ _ hp => hp)
  rintro p p' p'' ⟨hm, _, ho1⟩ ⟨_, ho2⟩
  have hf := ho1.fields
  have hgp : p.2.genName ≠ some sArray := by
    simp only [noArrayGen, List.all_eq_true, Bool.not_eq_eq_eq_not, Bool.not_true, beq_eq_false_iff_ne] at hg
    exact hg p hm
  rw [ho2.arrayNature (by rw [hf.2.2.1]; exact hgp), hf.2.1]

/-! ### where the entries of the side dictionaries come from -/

theorem arrayProps_all (u : UInfo) (keys : List Str) (sname : Str) (P : Str × Schema → Prop)
    (props : List (Str × Schema))
    (hP : ∀ p ∈ props, ∀ it nm, wantsItem p.2 = some it → P (nm, { it with name := some nm })) :
    ∀ new, (∀ x ∈ new, P x) → ∀ x ∈ (arrayProps u keys sname new props).1, P x := by
  induction props with
  | nil => intro new h; exact h
  | cons p rest ih =>
    intro new h
    obtain ⟨pn, ps⟩ := p
    simp only [arrayProps]
    refine ih (fun q hq => hP q (List.mem_cons_of_mem _ hq)) _ ?_
    cases hw : wantsItem ps with
    | none => rw [arrayProp_none _ _ _ _ _ _ hw]; exact h
    | some it =>
      rw [arrayProp_some _ _ _ _ _ _ _ hw]
      intro x hx
      rcases List.mem_append.1 hx with hx | hx
      · exact h x hx
      · rw [List.mem_singleton] at hx
        subst hx
        exact hP (pn, ps) List.mem_cons_self it _ hw

theorem arraySchemas_all (u : UInfo) (keys : List Str) (P : Str × Schema → Prop) (reg : Reg)
    (hP : ∀ e ∈ reg, ∀ p ∈ e.2.props, ∀ it nm, wantsItem p.2 = some it → P (nm, { it with name := some nm })) :
    ∀ new, (∀ x ∈ new, P x) → ∀ x ∈ (arraySchemas u keys new reg).1, P x := by
  induction reg with
  | nil => intro new h; exact h
  | cons e rest ih =>
    intro new h
    obtain ⟨k, s⟩ := e
    simp only [arraySchemas]
    exact ih (fun e he => hP e (List.mem_cons_of_mem _ he)) _
      (arrayProps_all u keys k P s.props (hP (k, s) List.mem_cons_self) new h)

/-- Every promoted item schema is a renamed copy of the inline items of some original property. -/
theorem arrayPass_items_origin (u : UInfo) (reg : Reg) :
    ∀ x ∈ (arrayPass u reg).1, ∃ e ∈ reg, ∃ p ∈ e.2.props, ∃ it, wantsItem p.2 = some it ∧
      x.2 = { it with name := some x.1 } :=
  arraySchemas_all u _ _ reg (fun e he p hp it nm hw => ⟨e, he, p, hp, it, hw, rfl⟩) [] (by simp)

theorem enumProps_all (u : UInfo) (reg1 : Reg) (disc : List (Str × Str)) (sname : Str)
    (props : List (Str × Schema)) :
    ∀ newE, (∀ x ∈ newE, ∃ ty vals, x.2 = enumEntry u x.1 ty vals) →
      ∀ x ∈ (enumProps u reg1 disc sname newE props).1, ∃ ty vals, x.2 = enumEntry u x.1 ty vals := by
  induction props with
  | nil => intro newE h; exact h
  | cons p rest ih =>
    intro newE h
    obtain ⟨pn, ps⟩ := p
    simp only [enumProps, enumProp_eq]
    refine ih _ ?_
    unfold enumPropS
    split
    · exact h
    · intro x hx
      rcases List.mem_append.1 hx with hx | hx
      · exact h x hx
      · rw [List.mem_singleton] at hx
        subst hx
        exact ⟨_, _, rfl⟩

theorem enumSchemas_all (u : UInfo) (disc : List (Str × Str)) (reg1 : Reg) (todo : Reg) :
    ∀ pre newE, ViewOf reg1 (pre ++ todo) → (∀ x ∈ newE, ∃ ty vals, x.2 = enumEntry u x.1 ty vals) →
      ∀ x ∈ (enumSchemas u disc pre newE todo).1, ∃ ty vals, x.2 = enumEntry u x.1 ty vals := by
  induction todo with
  | nil => intro pre newE _ h; exact h
  | cons e rest ih =>
    intro pre newE hv h
    obtain ⟨k, s⟩ := e
    have hv1 : ViewOf reg1 (pre ++ (k, fixTop s) :: rest) := viewOf_step hv (fixTop_enumVals s)
    simp only [enumSchemas, enumProps_congr hv1]
    refine ih _ _ ?_ (enumProps_all u reg1 disc k _ newE h)
    rw [List.append_assoc]
    exact viewOf_step hv (by simp [fixTop_enumVals])

/-- Every extracted enum schema is an `enumEntry`. -/
theorem enumPass_enums_origin (u : UInfo) (disc : List (Str × Str)) (reg1 : Reg) :
    ∀ x ∈ (enumPass u disc reg1).1, ∃ ty vals, x.2 = enumEntry u x.1 ty vals :=
  enumSchemas_all u disc reg1 reg1 [] [] (ViewOf.refl _) (by simp)

/-! ### registries on which the passes have nothing to do -/

/-- (`Schema` is a recursive structure: no definitional eta.) -/
theorem Schema.eta_props (s : Schema) :
    Schema.mk s.name s.ty s.genName s.stem s.enumVals s.props s.items s.anyOf s.oneOf s.allOf = s := by
  cases s; rfl

/-- No property wants its items promoted. -/
def arrayQuiet (r : Reg) : Bool := r.all (fun e => e.2.props.all (fun p => (wantsItem p.2).isNone))

theorem arrayProps_quiet (u : UInfo) (keys : List Str) (sname : Str) (props : List (Str × Schema))
    (h : props.all (fun p => (wantsItem p.2).isNone) = true) :
    ∀ new, arrayProps u keys sname new props = (new, props) := by
  induction props with
  | nil => intro _; rfl
  | cons p rest ih =>
    intro new
    obtain ⟨pn, ps⟩ := p
    simp only [List.all_cons, Bool.and_eq_true, Option.isNone_iff_eq_none] at h
    simp only [arrayProps, arrayProp_none _ _ _ _ _ _ h.1, ih h.2]

theorem arraySchemas_quiet (u : UInfo) (keys : List Str) (r : Reg) (h : arrayQuiet r = true) :
    ∀ new, arraySchemas u keys new r = (new, r) := by
  induction r with
  | nil => intro _; rfl
  | cons e rest ih =>
    intro new
    obtain ⟨k, s⟩ := e
    simp only [arrayQuiet, List.all_cons, Bool.and_eq_true] at h
    simp only [arraySchemas, arrayProps_quiet u keys k s.props h.1, ih h.2]
    rw [Schema.eta_props]

theorem extractArrayItems_quiet (u : UInfo) (r : Reg) (h : arrayQuiet r = true) : extractArrayItems u r = r := by
  simp only [extractArrayItems, arrayPass, arraySchemas_quiet u _ r h, dictUpdate, List.foldl_nil]

/-- Nothing for the enum pass to do: generation names of top-level enums are set, and every property is
    a discriminator, has no inline enum, or counts as already extracted. -/
def enumQuiet (u : UInfo) (disc : List (Str × Str)) (r : Reg) : Prop :=
  ∀ e ∈ r, fixTop e.2 = e.2 ∧
    ∀ p ∈ e.2.props, (disc.contains (e.1, p.1) || !hasInlineEnum p.2 || alreadyExtracted u r p.1 p.2) = true

theorem enumProps_quiet (u : UInfo) (r : Reg) (disc : List (Str × Str)) (sname : Str)
    (props : List (Str × Schema))
    (h : ∀ p ∈ props, (disc.contains (sname, p.1) || !hasInlineEnum p.2 || alreadyExtracted u r p.1 p.2) = true) :
    ∀ newE, enumProps u r disc sname newE props = (newE, props) := by
  induction props with
  | nil => intro _; rfl
  | cons p rest ih =>
    intro newE
    obtain ⟨pn, ps⟩ := p
    have h1 := h (pn, ps) List.mem_cons_self
    simp only [enumProps, enumProp_eq, enumPropS, h1, if_true, ih (fun q hq => h q (List.mem_cons_of_mem _ hq))]

theorem enumSchemas_quiet (u : UInfo) (disc : List (Str × Str)) (r : Reg) (todo : Reg) :
    ∀ pre newE, ViewOf r (pre ++ todo) →
      (∀ e ∈ todo, fixTop e.2 = e.2 ∧ ∀ p ∈ e.2.props,
        (disc.contains (e.1, p.1) || !hasInlineEnum p.2 || alreadyExtracted u r p.1 p.2) = true) →
      enumSchemas u disc pre newE todo = (newE, todo) := by
  induction todo with
  | nil => intro _ _ _ _; rfl
  | cons e rest ih =>
    intro pre newE hv h
    obtain ⟨k, s⟩ := e
    obtain ⟨hfix, hprops⟩ := h (k, s) List.mem_cons_self
    simp only at hfix hprops
    simp only [enumSchemas, hfix, enumProps_congr hv, enumProps_quiet u r disc k s.props hprops]
    rw [Schema.eta_props]
    rw [ih _ _ (by rw [List.append_assoc]; exact hv) (fun e he => h e (List.mem_cons_of_mem _ he))]

theorem extractEnums_quiet (u : UInfo) (disc : List (Str × Str)) (r : Reg) (ha : arrayQuiet r = true)
    (he : enumQuiet u disc r) : extractEnums u r disc = r := by
  simp only [extractEnums, extractArrayItems_quiet u r ha, enumPass,
    enumSchemas_quiet u disc r r [] [] (ViewOf.refl _) he, dictUpdate, List.foldl_nil]

/-! ### the result of `extractEnums` is quiet for the enum pass — always — and for the array pass
    when no promoted item schema has array properties to promote and no type can become `array` -/

theorem wantsItem_none_of_ty (ps : Schema) (h : (ps.ty == some sArray) = false) : wantsItem ps = none := by
  unfold wantsItem
  cases ps.items with
  | none => rfl
  | some it => simp [h]

theorem wantsItem_none_of_named (ps it : Schema) (hi : ps.items = some it) (hn : truthy it.name = true) :
    wantsItem ps = none := by
  unfold wantsItem
  simp [hi, hn]

theorem EnumOutcome.wantsItem_none {u : UInfo} {reg1 : Reg} {disc : List (Str × Str)} {out : Reg} {sname pn : Str}
    {ps ps' : Schema} (h : EnumOutcome u reg1 disc out sname pn ps ps') (hg : ps.genName ≠ some sArray)
    (hw : wantsItem ps = none) : wantsItem ps' = none := by
  have hn := h.arrayNature hg
  cases h with
  | kept h _ => subst h; exact hw
  | extracted en _ hi _ _ _ _ hp =>
    rw [hasInlineEnum_not_array ps hi] at hn
    exact wantsItem_none_of_ty _ hn

theorem hasInlineEnum_pointAt (u : UInfo) (ps : Schema) (en : Str) : hasInlineEnum (pointAt u ps en) = false := by
  simp [hasInlineEnum, pointAt, truthy]

theorem fixTop_fixTop_props (s : Schema) (q : List (Str × Schema)) :
    fixTop { fixTop s with props := q } = { fixTop s with props := q } := by
  by_cases h : (hasInlineEnum s && !truthy s.genName) = true
  · have e : fixTop s = { s with genName := s.name } := by unfold fixTop; rw [if_pos h]
    rw [e]
    unfold fixTop
    split <;> rfl
  · have e : fixTop s = s := by unfold fixTop; rw [if_neg h]
    rw [e]
    unfold fixTop
    split
    · rename_i h'
      exact absurd h' h
    · rfl

theorem fixTop_enumEntry (u : UInfo) (en : Str) (ty : Option Str) (vals : Option (List Str)) :
    fixTop (enumEntry u en ty vals) = enumEntry u en ty vals := by
  unfold fixTop
  cases en with
  | nil => split <;> rfl
  | cons c cs => simp [enumEntry, truthy]

theorem viewOf_of_all₂ {a b : Reg}
    (h : All₂ (fun (e e' : Str × Schema) => e'.1 = e.1 ∧ e'.2.enumVals = e.2.enumVals) a b) : ViewOf a b := by
  unfold ViewOf
  exact h.map_eq _ _ (fun x y hxy => by rw [hxy.1, hxy.2])

theorem EnumsEntry.view {u : UInfo} {reg1 : Reg} {disc : List (Str × Str)} {out : Reg} {e e' : Str × Schema}
    (h : EnumsEntry u reg1 disc out e e') : e'.1 = e.1 ∧ e'.2.enumVals = e.2.enumVals := by
  obtain ⟨h1, ⟨props', h2⟩, _⟩ := h
  refine ⟨h1, ?_⟩
  rw [h2]
  exact fixTop_enumVals e.2

theorem refsEnum_append (a b : Reg) (x : Option Str) (h : refsEnum a x = true) : refsEnum (a ++ b) x = true := by
  unfold refsEnum lookupRef at h ⊢
  match x with
  | none => simp at h
  | some [] => simp at h
  | some (c :: cs) =>
    simp only at h ⊢
    cases hl : a.lookup (c :: cs) with
    | none => simp [hl] at h
    | some s =>
      simp only [hl, Option.map_some] at h
      simp only [List.lookup_append, hl, Option.some_or, Option.map_some]
      exact h

theorem alreadyExtracted_mono {reg1 regE : Reg} (hv : ViewOf reg1 regE) (extra : Reg) (u : UInfo) (pn : Str)
    (ps : Schema) (h : alreadyExtracted u reg1 pn ps = true) : alreadyExtracted u (regE ++ extra) pn ps = true := by
  rw [← alreadyExtracted_congr hv] at h
  simp only [alreadyExtracted, Bool.or_eq_true] at h ⊢
  rcases h with ((h | h) | h) | h
  · exact Or.inl (Or.inl (Or.inl (refsEnum_append _ _ _ h)))
  · exact Or.inl (Or.inl (Or.inr (refsEnum_append _ _ _ h)))
  · exact Or.inl (Or.inr h)
  · exact Or.inr (refsEnum_append _ _ _ h)

/-- After `extract_inline_enums` the enum pass has nothing left to do — for every registry. -/
theorem extractEnums_enumQuiet (u : UInfo) (reg : Reg) (disc : List (Str × Str)) :
    enumQuiet u disc (extractEnums u reg disc) := by
  have hout := extractEnums_eq u reg disc
  have ho := enumPass_outcomes u disc (extractArrayItems u reg)
  have horig := enumPass_enums_origin u disc (extractArrayItems u reg)
  rw [← hout] at ho
  have hv : ViewOf (extractArrayItems u reg) (enumPass u disc (extractArrayItems u reg)).2 :=
    viewOf_of_all₂ (ho.imp (fun _ _ h => h.view))
  intro e'' he''
  rw [hout] at he''
  rcases List.mem_append.1 he'' with he'' | he''
  · obtain ⟨e', _, hent⟩ := ho.of_mem_right he''
    obtain ⟨hk, ⟨props', hp'⟩, hall⟩ := hent
    refine ⟨by rw [hp']; exact fixTop_fixTop_props _ _, ?_⟩
    intro p'' hp''
    obtain ⟨p', _, hpk, hout'⟩ := hall.of_mem_right hp''
    cases hout' with
    | kept h why =>
      rw [hk, hpk, h]
      rcases why with w | w | w
      · rw [w]; rfl
      · rw [w]; simp
      · rw [hout, alreadyExtracted_mono hv _ u _ _ w]; simp
    | extracted en _ _ _ _ _ _ hp =>
      rw [hp, hasInlineEnum_pointAt]; simp
  · obtain ⟨ty, vals, hx⟩ := horig e'' he''
    rw [hx]
    exact ⟨fixTop_enumEntry u _ ty vals, by simp [enumEntry]⟩

/-- Promoted item schemas have no array property that wants promotion, and no `generation_name` is `array`. -/
def itemPropsQuiet (it : Schema) : Bool :=
  it.props.all (fun q => (wantsItem q.2).isNone && !(q.2.genName == some sArray))

def idemOk (reg : Reg) : Bool :=
  reg.all (fun e => e.2.props.all (fun p =>
    !(p.2.genName == some sArray) &&
      (match wantsItem p.2 with
       | some it => itemPropsQuiet it
       | none => true)))

theorem idemOk_spec {reg : Reg} (h : idemOk reg = true) {e : Str × Schema} (he : e ∈ reg) {p : Str × Schema}
    (hp : p ∈ e.2.props) :
    p.2.genName ≠ some sArray ∧ ∀ it, wantsItem p.2 = some it → ∀ q ∈ it.props,
      wantsItem q.2 = none ∧ q.2.genName ≠ some sArray := by
  simp only [idemOk, List.all_eq_true, Bool.and_eq_true, Bool.not_eq_eq_eq_not, Bool.not_true,
    beq_eq_false_iff_ne] at h
  obtain ⟨h1, h2⟩ := h e he p hp
  refine ⟨h1, ?_⟩
  intro it hw q hq
  rw [hw] at h2
  simp only [itemPropsQuiet, List.all_eq_true, Bool.and_eq_true, Option.isNone_iff_eq_none,
    Bool.not_eq_eq_eq_not, Bool.not_true, beq_eq_false_iff_ne] at h2
  exact h2 q hq

theorem extractEnums_arrayQuiet (u : UInfo) (reg : Reg) (disc : List (Str × Str)) (hok : idemOk reg = true) :
    arrayQuiet (extractEnums u reg disc) = true := by
  have hout := extractEnums_eq u reg disc
  have ho := enumPass_outcomes u disc (extractArrayItems u reg)
  have horig := enumPass_enums_origin u disc (extractArrayItems u reg)
  have hitems := arrayPass_items_origin u reg
  have ha := arrayPass_outcomes u reg
  rw [← hout] at ho
  simp only [arrayQuiet, List.all_eq_true, Option.isNone_iff_eq_none]
  intro e'' he'' p'' hp''
  rw [hout] at he''
  rcases List.mem_append.1 he'' with he'' | he''
  · obtain ⟨e', he', hent⟩ := ho.of_mem_right he''
    obtain ⟨hk, ⟨props', hp'⟩, hall⟩ := hent
    obtain ⟨p', hp'mem, hpk, hout'⟩ := hall.of_mem_right hp''
    rw [extractArrayItems_eq] at he'
    rcases List.mem_append.1 he' with he' | he'
    · -- an original entry
      obtain ⟨e, he, hent0⟩ := ha.of_mem_right he'
      obtain ⟨_, _, hall0⟩ := hent0
      obtain ⟨p, hpmem, _, hout0⟩ := hall0.of_mem_right hp'mem
      obtain ⟨hg, _⟩ := idemOk_spec hok he hpmem
      have hf := hout0.fields
      cases hout0 with
      | kept h why => exact hout'.wantsItem_none (by rw [h]; exact hg) (by rw [h]; exact why)
      | promoted it nm hw hne _ _ hp =>
        refine wantsItem_none_of_named _ { it with name := some nm } ?_ ?_
        · rw [hout'.fields.1, hp]
        · cases nm with
          | nil => exact absurd rfl hne
          | cons c cs => rfl
    · -- a promoted item schema
      obtain ⟨e, he, p, hpmem, it, hw, hx⟩ := hitems e' he'
      obtain ⟨_, hq⟩ := idemOk_spec hok he hpmem
      have hp'mem' : p' ∈ it.props := by rw [hx] at hp'mem; exact hp'mem
      obtain ⟨hw', hg'⟩ := hq it hw p' hp'mem'
      exact hout'.wantsItem_none hg' hw'
  · obtain ⟨ty, vals, hx⟩ := horig e'' he''
    rw [hx] at hp''
    simp [enumEntry] at hp''

theorem extractEnums_idempotent_of_ok (u : UInfo) (reg : Reg) (disc : List (Str × Str)) (hok : idemOk reg = true) :
    extractEnums u (extractEnums u reg disc) disc = extractEnums u reg disc :=
  extractEnums_quiet u disc _ (extractEnums_arrayQuiet u reg disc hok) (extractEnums_enumQuiet u reg disc)

/-! ### the visitor's decision -/

theorem sanClass_ne_nil (s : Str) : sanClass s ≠ [] := by
  intro h
  have := sanClass_isPyIdent s
  rw [h] at this
  simp [isPyIdent] at this


theorem kindFlags_exclusive (s : Schema) :
    ((kindFlags s).isEnum = true ∧ (kindFlags s).isAlias = false ∧ (kindFlags s).isDataclass = false) ∨
    ((kindFlags s).isEnum = false ∧ (kindFlags s).isAlias = true ∧ (kindFlags s).isDataclass = false) ∨
    ((kindFlags s).isEnum = false ∧ (kindFlags s).isAlias = false ∧ (kindFlags s).isDataclass = true) := by
  simp only [kindFlags]
  generalize truthy s.name = a
  generalize truthy s.enumVals = b
  generalize (s.ty == some sString || s.ty == some sInteger) = c
  generalize s.props.isEmpty = d
  generalize (s.ty != some sObject) = e
  generalize (s.oneOf || s.anyOf) = f
  generalize anonObjectItems s = g
  cases a <;> cases b <;> cases c <;> cases d <;> cases e <;> cases f <;> cases g <;> simp

theorem kindFlags_wrapper (s : Schema) (h : (kindFlags s).wrapper = true) :
    truthy s.name = true ∧ (kindFlags s).isDataclass = true := by
  simp only [kindFlags] at h ⊢
  generalize truthy s.name = a at h ⊢
  generalize truthy s.enumVals = b at h ⊢
  generalize (s.ty == some sString || s.ty == some sInteger) = c at h ⊢
  generalize s.props.isEmpty = d at h ⊢
  generalize (s.ty != some sObject) = e at h ⊢
  generalize (s.oneOf || s.anyOf) = f at h ⊢
  generalize anonObjectItems s = g at h ⊢
  revert h
  cases a <;> cases b <;> cases c <;> cases d <;> cases e <;> cases f <;> cases g <;> simp

/-- The `RuntimeError` of line 134 is unreachable. -/
theorem modelKindE_isSome (s : Schema) (skip : List Str) : modelKindE s skip = some (modelKind s skip) := by
  unfold modelKind
  have hx := kindFlags_exclusive s
  cases h : modelKindE s skip with
  | some k => rfl
  | none =>
    exfalso
    unfold modelKindE at h
    simp only at h
    generalize nameInSkip s skip = m at h
    generalize truthy s.name = a at h
    generalize truthy s.genName = b at h
    revert h
    rcases hx with hh | hh | hh <;> rw [hh.1, hh.2.1, hh.2.2] <;> cases m <;> cases a <;> cases b <;> simp

/-- The decision, spelled out: skipped exactly for anonymous schemas and skip-listed enums; otherwise
    the generator of the one flag that is set. -/
theorem modelKind_eq (s : Schema) (skip : List Str) :
    modelKind s skip =
      if truthy s.name = false then Kind.skipped
      else if (kindFlags s).isEnum = true then
        (if nameInSkip s skip = true then Kind.skipped else Kind.enum)
      else if (kindFlags s).isAlias = true then Kind.alias
      else if (kindFlags s).wrapper = true then Kind.dataWrapperDataclass else Kind.dataclass := by
  have hx := kindFlags_exclusive s
  unfold modelKind modelKindE
  simp only
  cases hn : truthy s.name
  · -- anonymous
    rcases hx with h | h | h <;> simp [h]
  · rcases hx with h | h | h
    · simp only [h, Bool.true_and, Bool.not_true, Bool.false_and, Bool.false_eq_true, if_false, if_true,
        Bool.and_false]
      split <;> simp
    · simp [h]
    · simp [h]

end Pog.Extract
