#!/usr/bin/env python3
"""usage: tools/intake_seeded.py <dir with patch.diff demo.py README.md> <property>  — validates a sub-agent's change in a scratch
worktree (demo exits 0 clean / non-zero patched, pinned suite keeps every baseline pass) and stores it as seeded/<prop>-<n>/."""
import json, os, re, shutil, subprocess, sys
src, prop = sys.argv[1].rstrip("/"), sys.argv[2]
V = os.path.dirname(os.path.dirname(os.path.abspath(__file__)))
out = " ".join(subprocess.run([os.path.join(V, "tools", "validate_mutant.sh"), src], capture_output=True, text=True).stdout.strip().splitlines())[-600:]
m = re.search(r"demo_clean=(\d+) demo_patched=(\d+) suite_missing=(\d+)", out)
if not m:
    print("VALIDATION FAILED", src, out); sys.exit(1)
c, p, miss = map(int, m.groups())
if c != 0 or p == 0 or miss != 0:
    print("REJECTED", src, out); sys.exit(1)
n = 1
while os.path.exists(os.path.join(V, "seeded", f"{prop}-{n}")):
    n += 1
dst = os.path.join(V, "seeded", f"{prop}-{n}")
os.makedirs(dst)
for f in ("patch.diff", "demo.py", "README.md"):
    shutil.copy(os.path.join(src, f), os.path.join(dst, f))
head = subprocess.run(["git", "-C", "/repo", "rev-parse", "--short", "HEAD"], capture_output=True, text=True).stdout.strip()
meta = {"id": f"{prop}-{n}", "breaks_property": prop, "base_commit": head, "round": int(os.environ.get("SEED_ROUND", "3")),
        "origin": "fresh sub-agent given only the property text (+ the list of features already violated on the unchanged tree and one-line titles of earlier changes) and its own scratch worktree of /repo (no access to /verif)",
        "needs_to_manifest": open(os.path.join(src, "README.md")).read()[:1500],
        "confirmed": {"how": "tools/validate_mutant.sh: demo.py on a clean worktree (exit 0), with the patch (non-zero), full pinned suite with the patch compared with BASELINE.json stable_pass",
                      "demo_clean_rc": c, "demo_patched_rc": p, "suite_baseline_tests_missing": miss}}
json.dump(meta, open(os.path.join(dst, "meta.json"), "w"), indent=1)
print("STORED", f"{prop}-{n}", out)
