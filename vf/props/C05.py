"""C05 — response fidelity: declared success bodies come back as typed values.

oracle : generated client called with a fake server answering each declared 2xx response with a conforming body in
         its declared media type; the returned value is re-serialised with the package's own runtime and compared.
"""
from __future__ import annotations

import json

from .. import e2e, findings, opsrig
from ..common import Run, rng
from ..gen import spec as gs

PROP = "C05"


def shadow_doc(doc: dict) -> dict:
    """The same operations over schemas of the SAME NAMES but different nature: every named object schema becomes a primitive alias
    and the other way round.  Generated first, in the same process, into another directory: whatever the generator remembers per type
    name (caches, memo tables, registries) must not leak into the generation of the real document."""
    d = json.loads(json.dumps(doc))
    for n, sc in d.get("components", {}).get("schemas", {}).items():
        if sc.get("type") == "object" or "allOf" in sc or "properties" in sc:
            d["components"]["schemas"][n] = {"type": "string"}
        elif sc.get("type") in ("string", "integer", "number", "boolean") and "enum" not in sc:
            d["components"]["schemas"][n] = {"type": "object", "properties": {"value": {"type": "string"}}}
    return d


def case_fn(case: dict, d):
    root = d / "proj"
    if case.get("shadow_first"):
        e2e.generate(shadow_doc(case["doc"]), d / "shadow", package="pkg.client")
    gen = e2e.generate(case["doc"], root, package="pkg.client")
    if not gen["ok"]:
        return {"gen_ok": False, "gen_error": gen["error"]}
    calls = [{"id": i, "module": c["module"], "cls": c["cls"], "method": c["method"], "args": c["args"], "reply": c["reply"],
              "transport": "bundled"} for i, c in enumerate(case["calls"])]
    pr = e2e.probe(root, "pkg.client", None, [{"task": "calls", "calls": calls}], timeout=300)
    return {"gen_ok": True, "probe": pr}


def is_objectish(doc, sch) -> bool:
    rs = gs.resolve(doc, sch)
    return rs.get("type") == "object" and "properties" in rs or "allOf" in rs


def is_named_enum(doc, sch) -> bool:
    rs = gs.resolve(doc, sch)
    return isinstance(rs.get("enum"), list) and rs.get("type") in ("string", "integer") and not rs.get("nullable")


WITNESS_DOC = {"openapi": "3.0.3", "info": {"title": "W", "version": "1"}, "paths": {
    "/text": {"get": {"operationId": "getText", "responses": {"200": {"description": "t", "content": {"text/plain": {"schema": {"type": "string"}}}}}}},
    "/date": {"get": {"operationId": "getDate", "responses": {"200": {"description": "d", "content": {"application/json": {"schema": {"type": "string", "format": "date"}}}}}}},
    "/nd": {"get": {"operationId": "getNd", "responses": {"200": {"description": "n", "content": {"application/x-ndjson": {"schema": {"type": "object", "properties": {"a": {"type": "integer"}}}}}}}}},
    "/ws": {"get": {"operationId": "getWs", "responses": {"200": {"description": "w", "content": {
        "application/vnd.acme.v2+json": {"schema": {"$ref": "#/components/schemas/V1"}}, "application/json": {"schema": {"type": "string"}}}}}}},
    "/states": {"get": {"operationId": "listStates", "responses": {"200": {"description": "s", "content": {"application/json": {"schema": {
        "type": "array", "items": {"$ref": "#/components/schemas/OrderState"}}}}}}}},
    "/state": {"get": {"operationId": "getState", "responses": {"200": {"description": "s", "content": {"application/json": {"schema": {"$ref": "#/components/schemas/OrderState"}}}}}}},
    "/node": {"get": {"operationId": "getNode", "responses": {"200": {"description": "n", "content": {"application/json": {"schema": {"$ref": "#/components/schemas/Node"}}}}}}},
    "/u": {"get": {"operationId": "getU", "responses": {"200": {"description": "u", "content": {"application/json": {"schema": {"$ref": "#/components/schemas/Holder"}}}}}}}},
    "components": {"schemas": {
        "Node": {"type": "object", "required": ["v", "children"], "properties": {"v": {"type": "integer"}, "children": {"type": "array", "items": {"$ref": "#/components/schemas/Node"}}}},
        "OrderState": {"type": "string", "enum": ["open", "paid", "shipped"]},
        "V1": {"type": "object", "required": ["a"], "properties": {"a": {"type": "string"}}},
        "V2": {"type": "object", "required": ["a", "b"], "properties": {"a": {"type": "string"}, "b": {"type": "integer"}}},
        "Holder": {"type": "object", "required": ["item"], "properties": {"item": {"oneOf": [{"$ref": "#/components/schemas/V1"}, {"$ref": "#/components/schemas/V2"}]}}}}}}


def nullable_doc(r, first: bool = False) -> tuple[dict, dict]:
    """Operations whose success body is a NULLABLE named type (object, array alias, integer / boolean / string alias, nullable + allOf,
    anyOf with null) -> (document, operationId -> conforming bodies that are falsy in Python but not null, plus null and an ordinary one)."""
    sfx = r.choice(["", "V2", "X"])
    schemas = {
        "Prefs" + sfx: {"type": "object", "nullable": True, "properties": {"theme": {"type": "string"}, "compact": {"type": "boolean"}}},
        "TagList" + sfx: {"type": "array", "nullable": True, "items": {"type": "string"}},
        "RetryCount" + sfx: {"type": "integer", "nullable": True},
        "Flag" + sfx: {"type": "boolean", "nullable": True},
        "Note" + sfx: {"type": "string", "nullable": True},
        "Base" + sfx: {"type": "object", "properties": {"id": {"type": "integer"}}},
        "MaybeBase" + sfx: {"nullable": True, "allOf": [{"$ref": "#/components/schemas/Base" + sfx}]},
    }
    bodies = {"Prefs": [{}, {"theme": "dark"}, None], "TagList": [[], ["a"], None], "RetryCount": [0, 3, None], "Flag": [False, True, None],
              "Note": ["", "n", None], "MaybeBase": [{}, {"id": 0}, None]}
    paths, plan = {}, {}
    names = [n for n in bodies if r.random() < 0.8 or first] or ["Prefs"]
    for n in names:
        opid = "get" + n + sfx
        ref = {"$ref": "#/components/schemas/" + n + sfx}
        wrap = r.random() >= 0.7 or (first and n in ("TagList", "Prefs"))      # the first document always carries the witness of F65
        sch = ref if (not wrap or n == "MaybeBase") else {"nullable": True, "allOf": [ref]}
        paths["/" + n.lower()] = {"get": {"operationId": opid, "tags": [r.choice(["prefs", "misc"])],
                                          "responses": {"200": {"description": "ok", "content": {"application/json": {"schema": sch}}}}}}
        plan[opid] = bodies[n]
    return {"openapi": "3.0.3", "info": {"title": "N", "version": "1"}, "paths": paths, "components": {"schemas": schemas}}, plan


def stream_plus_doc(r) -> dict:
    """Operations whose PRIMARY response is streamed (event stream, NDJSON, binary) and that declare further 2xx responses - without
    content, JSON (object, array of objects, integer) or text - and sometimes a `default`: the shape of F35 (repaired; the module used to
    fail with `'return' with value in async generator`).  The other arms of such a method yield their value once / end the stream."""
    schemas = {"Event": {"type": "object", "required": ["id"], "properties": {"id": {"type": "integer"}, "msg": {"type": "string"}}},
               "Receipt": {"type": "object", "required": ["ref"], "properties": {"ref": {"type": "string"}, "n": {"type": "integer"}}}}
    ev, rc = {"$ref": "#/components/schemas/Event"}, {"$ref": "#/components/schemas/Receipt"}
    primaries = [{"text/event-stream": {"schema": ev}}, {"application/x-ndjson": {"schema": ev}},
                 {"application/octet-stream": {"schema": {"type": "string", "format": "binary"}}}, {"text/event-stream": {"schema": {"type": "object"}}}]
    secondaries = [None, {"application/json": {"schema": rc}}, {"application/json": {"schema": {"type": "array", "items": rc}}},
                   {"application/json": {"schema": {"type": "integer"}}}, {"text/plain": {"schema": {"type": "string"}}}]
    paths = {}
    for i, prim in enumerate(primaries):
        resp = {"200": {"description": "stream", "content": prim}}
        codes = r.sample(["201", "202", "204", "206"], r.choice([1, 2, 2, 3]))
        if i == 0:
            codes = ["204"] + [c for c in codes if c != "204"][:1]        # the recorded witness: an event stream next to a 204
        for c in codes:
            content = None if c == "204" else r.choice(secondaries)
            resp[c] = {"description": f"status {c}"} if content is None else {"description": f"status {c}", "content": content}
        if r.random() < 0.4:
            resp["default"] = r.choice([{"description": "unexpected"}, {"description": "unexpected", "content": {"application/json": {"schema": rc}}}])
        if r.random() < 0.3:
            resp["404"] = {"description": "missing"}
        if r.random() < 0.5:
            resp = dict(sorted(resp.items(), key=lambda kv: r.random()))
        paths[f"/s{i}"] = {"get": {"operationId": f"watchS{i}", "tags": [r.choice(["feeds", "misc"])], "responses": resp}}
    return {"openapi": "3.0.3", "info": {"title": "S", "version": "1"}, "paths": paths, "components": {"schemas": schemas}}


def build_cases(ctx, stream: str, n: int) -> list[dict]:
    cases = []
    for i in range(n):
        r = rng(f"C05:{stream}:{i}")
        nplan = None
        if stream == "witness":
            o = None
        elif stream in ("nullable", "stream-plus"):
            o = None
        elif stream == "mainstream":
            o = gs.Opts(mainstream=True, always_opid=True, max_ops=4, enum_params=False, formats=("byte",), text_binary=False, streaming=False,
                        default_response=False, self_ref=False)
        else:
            o = gs.Opts(mainstream=True, always_opid=True, max_ops=4, enum_params=False, formats=("date-time", "date", "byte"), text_binary=True,
                        streaming=True, unions=True, ndjson=True, multi_media_resp=True, multi_tags=True)
        doc = gs.gen_spec(r, o) if o is not None else WITNESS_DOC
        if stream == "nullable":
            doc, nplan = nullable_doc(r, first=(i == 0))
        if stream == "stream-plus":
            doc = stream_plus_doc(r)
        calls = []
        for path, m, op, pl in opsrig.ops_of(doc):
            base = opsrig.call_plan(r, doc, path, m, op, pl, supply_optional=0.0)
            from ..gen.spec import is_stream_content
            codes2 = [c for c in op["responses"] if str(c).isdigit() and 200 <= int(c) < 300]
            for c in codes2:
                for rep in range(2 if nplan is None else len(nplan[op["operationId"]])):
                    rp = opsrig.reply_for(r, doc, c, op["responses"][c])
                    rp["code_key"] = c
                    if nplan is not None:      # a conforming body that is falsy in Python ({} [] 0 false "") is a value, not an absent body
                        import base64 as _b64
                        inst = nplan[op["operationId"]][rep]
                        rp["reply"]["body_b64"] = _b64.b64encode(json.dumps(inst).encode()).decode()
                        rp["expect"]["json"] = inst
                    if o is None and op["operationId"] == "getU":   # F24 witness: a V2 payload, declared after V1
                        import base64 as _b64
                        inst = {"item": {"a": "x", "b": 7}}
                        rp["reply"]["body_b64"] = _b64.b64encode(json.dumps(inst).encode()).decode()
                        rp["expect"]["json"] = inst
                    if o is None and nplan is None and op["operationId"] == "getWs":
                        # former witness of F69: the JSON string arm of a Content-Type dispatch
                        import base64 as _b64
                        inst = 'q"uote' if rep else ""
                        rp = {"reply": {"status": 200, "headers": {"content-type": "application/json"}, "body_b64": _b64.b64encode(json.dumps(inst).encode()).decode()},
                              "expect": {"kind": "json", "json": inst, "schema": {"type": "string"}}, "media_type": "application/json", "code_key": c}
                    if o is None and op["operationId"] == "getNode":
                        import base64 as _b64
                        inst = {"v": 1, "children": [{"v": 2, "children": []}]}
                        rp["reply"]["body_b64"] = _b64.b64encode(json.dumps(inst).encode()).decode()
                        rp["expect"]["json"] = inst
                    sch = rp["expect"].get("schema") or {}
                    if rp["expect"]["kind"] == "json":
                        rp["expect"]["is_object"] = "$ref" in sch and is_objectish(doc, sch)
                        rp["expect"]["items_object"] = sch.get("type") == "array" and "$ref" in (sch.get("items") or {}) and is_objectish(doc, sch["items"])
                        # a NAMED enum (a component with `enum`, generated as an Enum class) comes back as members of that class
                        rp["expect"]["is_enum"] = "$ref" in sch and is_named_enum(doc, sch)
                        rp["expect"]["items_enum"] = sch.get("type") == "array" and "$ref" in (sch.get("items") or {}) and is_named_enum(doc, sch["items"])
                    primary = c == primary_code(op["responses"])
                    pc = primary_code(op["responses"])
                    if not primary and pc is not None and is_stream_content((op["responses"][pc] or {}).get("content")):
                        # the method is an async generator (its primary response is streamed): another 2xx response cannot be RETURNED;
                        # its value is the only item of the stream, a response without content ends the stream (F35 repaired)
                        rp["expect"] = {"kind": "stream_json", "items": []} if rp["expect"]["kind"] == "none" else {"kind": "stream_once", "item": rp["expect"]}
                    for loc in (opsrig.locate_all(op) if rep == 0 else [{}]):      # first reply: through every tag client's rendering
                      calls.append({**base, **loc, "reply": rp["reply"], "expect_outcome": rp["expect"], "code": c, "primary": primary, "media_type": rp.get("media_type"),
                                  "n_2xx": len(codes2), "op": {"path": path, "method": m, "operationId": op["operationId"]},
                                  "features": resp_features(doc, sch, rp, op)})
        cases.append({"id": f"{stream}-{i}", "stream": stream, "doc": doc, "calls": calls, "shadow_first": i % 2 == 1})
    return cases


def primary_code(responses: dict) -> str | None:
    for c in ("200", "201", "202", "204"):
        if c in responses:
            return c
    for c in sorted(map(str, responses)):          # lowest other 2xx key (F57 repaired: independent of the key order)
        if c.startswith("2"):
            return c
    if "default" in responses:
        return "default"
    return min(map(str, responses), default=None)


def contains_format(doc, sch, fmts, depth=0) -> bool:
    if depth > 6 or not isinstance(sch, dict):
        return False
    s = gs.resolve(doc, sch)
    if s.get("format") in fmts:
        return True
    for k in ("items", "additionalProperties"):
        if isinstance(s.get(k), dict) and contains_format(doc, s[k], fmts, depth + 1):
            return True
    for k in ("allOf", "oneOf", "anyOf"):
        if any(contains_format(doc, m, fmts, depth + 1) for m in s.get(k, []) or []):
            return True
    return any(contains_format(doc, p, fmts, depth + 1) for p in (s.get("properties") or {}).values())


def _handler_media(content: dict):
    """response_handler_generator._get_response_schema: application/json, else the first media type."""
    return "application/json" if "application/json" in content else next(iter(content), None)


def resp_features(doc, sch, rp, op) -> dict:
    rs = gs.resolve(doc, sch) if sch else {}
    return {
        "scalar_date": rs.get("type") == "string" and rs.get("format") in ("date", "date-time"),
        "array_of_date": rs.get("type") == "array" and gs.resolve(doc, rs.get("items") or {}).get("format") in ("date", "date-time"),
        "text_plain": rp["expect"]["kind"] == "text",
        "union": any(k in rs for k in ("oneOf", "anyOf")) or (rs.get("type") == "array" and any(k in gs.resolve(doc, rs.get("items") or {}) for k in ("oneOf", "anyOf"))),
        "has_union_inside": has_union(doc, sch),
        "stream": rp["expect"]["kind"] in ("stream_json", "bytes"),
        "top_enum": "enum" in rs,
        "map_body": rs.get("type") == "object" and "properties" not in rs and "allOf" not in rs,
        "secondary_other_media": len((op["responses"].get(rp.get("code_key", ""), {}) or {}).get("content") or {}) > 1 and rp.get("media_type") != _handler_media((op["responses"].get(rp.get("code_key", ""), {}) or {}).get("content") or {}),
        "allof_of_non_object": isinstance(sch, dict) and "allOf" in sch and any(
            gs.resolve(doc, m).get("type") in ("array", "string", "integer", "number", "boolean") for m in sch["allOf"] if isinstance(m, dict)),
        "doc_self_ref": any(('"$ref": "#/components/schemas/%s"' % n) in json.dumps(sc) for n, sc in doc["components"]["schemas"].items()),
    }


def has_union(doc, sch, depth=0) -> bool:
    if depth > 6 or not isinstance(sch, dict):
        return False
    s = gs.resolve(doc, sch)
    if "oneOf" in s or "anyOf" in s:
        return True
    for k in ("items", "additionalProperties"):
        if isinstance(s.get(k), dict) and has_union(doc, s[k], depth + 1):
            return True
    if any(has_union(doc, m, depth + 1) for m in s.get("allOf", []) or []):
        return True
    return any(has_union(doc, p, depth + 1) for p in (s.get("properties") or {}).values())


def attribute(call: dict, mism: list[str]) -> str | None:
    f = call["features"]
    text = " | ".join(mism)
    if (f["scalar_date"] or f["array_of_date"]) and ("raw str" in text or "returned as" in text or "list[str]" in text):
        return "F32a"
    if "name 'structure_from_dict' is not defined" in text and not call["primary"]:
        return "F41"
    if "ForwardRef(" in text or (f.get("doc_self_ref") and ("Cannot structure" in text or "Could not structure" in text)):
        return "F42"   # a model that references itself through an array cannot be decoded, nor can any model containing it
    if not call["primary"] and f.get("secondary_other_media"):
        return "F59"   # a secondary 2xx arm is generated from ONE media type (application/json, else the first) and never dispatches
    if f["has_union_inside"] or f["union"]:
        return "F24"
    if f.get("allof_of_non_object") and ("re-serialises to {}" in text or "structure" in text.lower()):
        return "F65"   # an inline allOf whose member is an array / primitive alias is promoted to a dataclass without fields
    return None


def evaluate(run: Run, known, case: dict, res: dict) -> None:
    if "infra_error" in res:
        run.infra_errors.append(res["infra_error"])
        return
    if not res.get("gen_ok"):
        run.dist("generation", "rejected")
        return
    pr = res["probe"]
    if not isinstance(pr.get("calls"), list):
        run.notes.append(f"probe problem on {case['id']}: {json.dumps(pr)[:300]}")
        return
    for call, out in zip(case["calls"], pr["calls"]):
        oc = out.get("outcome", {})
        if oc.get("kind") == "arg_error":
            continue
        run.count({"doc": case["id"], "op": call["op"], "code": call["code"], "reply": call["reply"]}, nontrivial=call["expect_outcome"]["kind"] != "none")
        run.cov["traces_validated_against_impl"] += 1
        run.dist("kind", call["expect_outcome"]["kind"] + ("-primary" if call["primary"] else "-secondary"))
        mism = opsrig.check_outcome(call["expect_outcome"], oc)
        if not mism:
            run.sample({"op": call["op"], "code": call["code"], "expect": call["expect_outcome"]["kind"], "returned": oc.get("type")}, limit=4)
            continue
        fid = attribute(call, mism)
        if fid and known.listed(fid):
            known.hit(fid, {"op": call["op"], "code": call["code"], "mismatch": mism})
        elif len(run.violations) < 5:
            run.violation("input", {"doc": case["doc"], "calls": [call], "shadow_first": case.get("shadow_first", False)}, observed=oc, expected=call["expect_outcome"],
                          what=f"{call['op']['operationId']} status {call['code']}: " + "; ".join(mism)[:400])


def check(run: Run, ctx) -> None:
    known = findings.Known(run, PROP)
    run.cov["rule"] = ("oracle: random documents -> generated client imported in a fresh interpreter -> for every operation and every declared 2xx response the fake "
                       "server answers with a conforming body (two instances each) in the declared media type (json, text, binary, event-stream, ndjson); the returned "
                       "value is re-serialised with the package's runtime and compared (C03 tolerance for absent optionals); next to a STREAMED primary response (documents "
                       "`stream-plus`, the shape of the repaired F35) another 2xx response must come back as the only item of the async iterator, one without content as an "
                       "iterator without items. Distinct by (document, operation, status, body); "
                       "non-trivial when the response has content")
    from . import _generic as g
    g.run_corr(run, ctx, "vf.corr.gencode", "GenCode (buildRequest/handle on generated clients, both transports)", quick=0.4, thorough=3.0)
    g.run_corr(run, ctx, "vf.corr.loader", "Loader (content keys, stream flag vs Pog.Loader)", quick=0.25, thorough=2.5)
    g.run_oracle(run, ctx, g.Informational(known), "vf.corr.loader", "loader oracle on the real parse_operations (status = declared key, stream flag, parameter order)",
                 {"LOADER-STREAM-FORMAT-ORDER": "-hazard", "LOADER-PROMO-NAME-COLLISION": "-hazard", "LOADER-POST-NAME-OVERWRITE": "-hazard"}, quick=0.3, thorough=3.0)
    cases = build_cases(ctx, "witness", 1) + build_cases(ctx, "mainstream", ctx.budget(20, 200)) + build_cases(ctx, "wide", ctx.budget(12, 120)) + build_cases(ctx, "nullable", ctx.budget(4, 24)) \
        + build_cases(ctx, "stream-plus", ctx.budget(4, 24))
    results = e2e.run_cases("vf.props.C05:case_fn", cases)
    for case, res in zip(cases, results):
        evaluate(run, known, case, res)
    known.report_unreplayed()


def search(run: Run, ctx) -> None:
    check(run, ctx)


def replay(run: Run, ctx, rec) -> bool:
    case = rec["case"]
    res = e2e.run_cases("vf.props.C05:case_fn", [case], workers=1)[0]
    if not res.get("gen_ok"):
        return False
    return any(opsrig.check_outcome(c["expect_outcome"], o.get("outcome", {})) for c, o in zip(case["calls"], res["probe"]["calls"]))
