import Pog.Lemmas.Extract
/-
  Extract / ModelKind — the two promotion passes that run after `build_schemas`
  (`core/loader/schemas/extractor.py`) and the construct decision of `ModelVisitor.visit_IRSchema`.

  Models: `Pog.Extract.extractArrayItems`, `Pog.Extract.extractEnums`, `Pog.Extract.modelKind`
  (`Pog/Model/Extract.lean`).  All theorems quantify over EVERY registry, every discriminator set and every
  CPython case table `u`; the only well-formedness ever assumed is "the keys of the registry are pairwise
  distinct" (a python `dict`), and only where it is needed (`extract_keys_nodup`).

  `✗` marks full statements that are FALSE of the code; they appear as `_counterexample` (by `decide`
  on a concrete registry) + `_partial` (hypothesis = the excluded input class).

    1  extract_keeps_original_names, extract_never_shrinks, extract_postconditions_never_fire   full
    2  extract_keys_nodup, extract_new_names_fresh, suffix_loops_terminate                      full
    3  extract_preserves_wire_keys                                                              full
       extract_preserves_array_nature   ✗  (`generation_name = "array"` turns a string property into `type = "array"`)
    4  extracted_enum_has_the_values (+ `enum_pointer`, `enum_entry_fields`), reuse_branch_dead full
       enum entry `name` = key           ✗  (`IRSchema.__post_init__` class-cases `name`, the key is not)
    5  extracted_item_is_a_copy, enum_pass_keeps_items                                          full
    6  extract_idempotent               ✗  (a promoted item schema is itself scanned by the NEXT run)
       extract_enum_pass_idempotent                                                             full
    7  kind_total_and_exclusive, kind_decision, properties_imply_dataclass,
       properties_never_alias, anonymous_is_skipped, data_wrapper_is_named_dataclass            full
       extracted_number_enum_is_alias    (finding: `number` enums are extracted but never rendered as enums)
-/
namespace Pog.ExtractProps
open Pog Pog.Extract

/-! ## witnesses used by the examples and counterexamples -/

private def leafV : Str × Schema := ("v".toList, { name := some "v".toList, ty := some sString })
private def objOf (props : List (Str × Schema)) : Schema := { ty := some sObject, props := props }
private def arrProp (n : String) (it : Schema) : Str × Schema :=
  (n.toList, { name := some n.toList, ty := some sArray, items := some it })
private def enumProp' (n : String) (ty : Str) (gen : Option Str) (vals : List String) (it : Option Schema) :
    Str × Schema :=
  (n.toList, { name := some n.toList, ty := some ty, genName := gen, enumVals := some (vals.map String.toList),
               items := it })
private def top (n : String) (props : List (Str × Schema)) : Str × Schema :=
  (n.toList, { name := some n.toList, ty := some sObject, props := props })

/-- `A.tags : array of {subs : array of {v : string}}` -/
def nestedReg : Reg :=
  [top "A" [arrProp "tags" (objOf [arrProp "subs" (objOf [leafV])])]]

/-- `A.kind : string enum ["a"]` whose `generation_name` is `array`, with (ignored, until now) `items`. -/
def arrayGenReg : Reg :=
  [top "A" [enumProp' "kind" sString (some "array".toList) ["\"a\""] (some (objOf [leafV]))]]

/-- `UserResponse.data : array of {status : enum}`, `UserResponse.role : enum` (named by the parser
    `my_role`), next to a schema that already occupies the synthetic name `UserItem`. -/
def goodReg : Reg :=
  [top "UserResponse"
     [arrProp "data" (objOf [enumProp' "status" sString none ["\"on\"", "\"off\""] none]),
      enumProp' "role" sInteger (some "my_role".toList) ["1", "2"] none],
   top "UserItem" []]

/-! ## 1. the original names survive, in order; the `RuntimeError` post-conditions never fire -/

/-- Every original key is still a key, at the same position: the keys of the input are a prefix of the keys
    of the output (the promoted schemas are appended).  All registries, no hypothesis. -/
theorem extract_keeps_original_names (u : UInfo) (reg : Reg) (disc : List (Str × Str)) :
    regKeys reg <+: regKeys (extractEnums u reg disc) ∧ regKeys reg <+: regKeys (extractArrayItems u reg) := by
  constructor
  · rw [extractEnums_keys, List.append_assoc]; exact List.prefix_append _ _
  · rw [extractArrayItems_keys]; exact List.prefix_append _ _

theorem extract_never_shrinks (u : UInfo) (reg : Reg) (disc : List (Str × Str)) :
    reg.length ≤ (extractEnums u reg disc).length ∧ reg.length ≤ (extractArrayItems u reg).length := by
  have h1 := congrArg List.length (extractEnums_keys u reg disc)
  have h2 := congrArg List.length (extractArrayItems_keys u reg)
  simp only [regKeys_length, List.length_append] at h1 h2
  omega

/-- Neither `"Schemas count should not decrease"` nor `"Original schemas should still be present"` can be
    raised, by either function. -/
theorem extract_postconditions_never_fire (u : UInfo) (reg : Reg) (disc : List (Str × Str)) :
    extractArrayItemsChecked u reg = some (extractArrayItems u reg) ∧
      extractEnumsChecked u reg disc = some (extractEnums u reg disc) := by
  have h1 : postOk reg (extractArrayItems u reg) = true := postOk_of_keys _ _ _ (extractArrayItems_keys u reg)
  have h2 : postOk reg (extractEnums u reg disc) = true :=
    postOk_of_keys _ _ _ (by rw [extractEnums_keys, List.append_assoc])
  simp [extractArrayItemsChecked, extractEnumsChecked, h1, h2]

/-! ## 2. the suffix loops work -/

/-- Both `while name in schemas or name in new: name = f"{base}{i}"` loops terminate within
    `|taken| + 1` iterations (the fuel of `Pog.inlineName`) with a name that is not taken. -/
theorem suffix_loops_terminate (taken : List Str) (base : Str) :
    inlineName taken base = some (freshT taken base) ∧ freshT taken base ∉ taken :=
  inlineName_total taken base

/-- The new names are pairwise distinct and none of them is an original key — no hypothesis. -/
theorem extract_new_names_fresh (u : UInfo) (reg : Reg) (disc : List (Str × Str)) :
    ((regKeys (extractEnums u reg disc)).drop reg.length).Nodup ∧
      ∀ k ∈ (regKeys (extractEnums u reg disc)).drop reg.length, k ∉ regKeys reg := by
  have hf := new_keys_fresh u reg disc
  have : (regKeys (extractEnums u reg disc)).drop reg.length =
      regKeys ((arrayPass u reg).1 ++ (enumPass u disc (extractArrayItems u reg)).1) := by
    rw [extractEnums_keys, List.append_assoc, ← regKeys_append, ← regKeys_length reg, List.drop_left]
  rw [this]
  exact hf

/-- A registry with pairwise distinct keys (a python dict) stays one: nothing is overwritten by
    `schemas.update(...)`. -/
theorem extract_keys_nodup (u : UInfo) (reg : Reg) (disc : List (Str × Str)) (h : (regKeys reg).Nodup) :
    (regKeys (extractEnums u reg disc)).Nodup :=
  extractEnums_keys_nodup u reg disc h

example : (regKeys goodReg).Nodup := by decide
/-- …and on `goodReg` both loops actually iterate: `UserItem` is taken, the item becomes `UserItem1`. -/
example : regKeys (extractEnums UInfo.ascii goodReg []) =
    ["UserResponse".toList, "UserItem".toList, "UserItem1".toList, "my_role".toList,
     "UserItem1StatusEnum".toList] := by decide

/-! ## 3. the JSON wire keys are untouched -/

/-- For every original schema, at its original position, the list of property keys is unchanged by both
    passes.  All registries, no hypothesis. -/
theorem extract_preserves_wire_keys (u : UInfo) (reg : Reg) (disc : List (Str × Str)) :
    ((extractEnums u reg disc).take reg.length).map (fun e => (e.1, e.2.props.map (fun p => p.1))) =
      reg.map (fun e => (e.1, e.2.props.map (fun p => p.1))) :=
  (extractEnums_originals u reg disc).map_eq _ _ (fun _ _ h => by rw [h.key, h.propKeys])

/- ✗ extract_preserves_array_nature (FULL, false): for every original schema the list of flags
     "this property has `type == "array"`" is unchanged. -/

/-- ✗ witness: the enum is extracted under its pre-set generation name `array`, the property's `type`
    becomes `"array"`. -/
theorem extract_preserves_array_nature_counterexample :
    ((extractEnums UInfo.ascii arrayGenReg []).take arrayGenReg.length).map
        (fun e => e.2.props.map (fun p => p.2.ty == some sArray)) = [[true]] ∧
      arrayGenReg.map (fun e => e.2.props.map (fun p => p.2.ty == some sArray)) = [[false]] := by
  decide

/-- Excluded class: some property of an original schema has `generation_name == "array"`. -/
theorem extract_preserves_array_nature_partial (u : UInfo) (reg : Reg) (disc : List (Str × Str))
    (h : reg.all (fun e => noArrayGen e.2) = true) :
    ((extractEnums u reg disc).take reg.length).map (fun e => e.2.props.map (fun p => p.2.ty == some sArray)) =
      reg.map (fun e => e.2.props.map (fun p => p.2.ty == some sArray)) := by
  refine (extractEnums_originals u reg disc).and_mem.map_eq _ _ (fun e _ he => ?_)
  exact he.2.arrayNature (by rw [List.all_eq_true] at h; exact h e he.1)

example : goodReg.all (fun e => noArrayGen e.2) = true := by decide

/-! ## 4. an extracted enum carries the property's values and type, and the property points at it -/

/-- The reuse branch (`extractor.py:268-277`) can never run: the one-property step equals the step
    without it, in every state. -/
theorem reuse_branch_dead (u : UInfo) (view : Reg) (disc : List (Str × Str)) (sname : Str) (newE : Reg)
    (pn : Str) (ps : Schema) :
    enumProp u view disc sname newE pn ps = enumPropS u view disc sname newE pn ps :=
  enumProp_eq u view disc sname newE pn ps

/-- With `reg1` the registry after the array pass and `out` the final registry: every entry of `reg1`
    (original schemas AND promoted item schemas) keeps its position and key, and each of its properties
    keeps its key and is either
      * `kept` unchanged — and then it is a discriminator, or has no inline enum, or falls under one of the
        four `enum_already_extracted` disjuncts; or
      * `extracted` — it had an inline enum, `out[en]` is a schema with exactly the property's enum values
        and type (`enumEntry`), `en` is a new key (the property's generation name or
        `{Parent}{Prop}Enum`, possibly digit-suffixed), and the property is `pointAt … en`. -/
theorem extracted_enum_has_the_values (u : UInfo) (reg : Reg) (disc : List (Str × Str)) :
    All₂ (EnumsEntry u (extractArrayItems u reg) disc (extractEnums u reg disc)) (extractArrayItems u reg)
      ((extractEnums u reg disc).take (extractArrayItems u reg).length) := by
  rw [extractEnums_take, extractEnums_eq]
  exact enumPass_outcomes u disc _

/-- What "points at" means: `name = type = generation_name = en`, the inline enum is cleared. -/
theorem enum_pointer (u : UInfo) (ps : Schema) (en : Str) :
    (pointAt u ps en).name = some en ∧ (pointAt u ps en).ty = some en ∧ (pointAt u ps en).genName = some en ∧
      (pointAt u ps en).stem = some (sanModule u en) ∧ (pointAt u ps en).enumVals = none :=
  ⟨rfl, rfl, rfl, rfl, rfl⟩

/-- The registered enum: the property's values and type, `generation_name` = key, stem from the key, no
    properties; its `name` is the class-cased key. -/
theorem enum_entry_fields (u : UInfo) (en : Str) (ty : Option Str) (vals : Option (List Str)) (h : en ≠ []) :
    (enumEntry u en ty vals).enumVals = vals ∧ (enumEntry u en ty vals).ty = ty ∧
      (enumEntry u en ty vals).genName = some en ∧ (enumEntry u en ty vals).stem = some (sanModule u en) ∧
      (enumEntry u en ty vals).props = [] ∧ (enumEntry u en ty vals).name = some (sanClass en) := by
  refine ⟨rfl, rfl, rfl, rfl, rfl, ?_⟩
  cases en with
  | nil => exact absurd rfl h
  | cons c cs => rfl

/-- ✗ witness ("the `name` of a registered schema is its key"): `goodReg`'s `role` enum is registered
    under the parser's generation name `my_role`, but `IRSchema(name=…)` class-cases it to `MyRole`. -/
theorem enum_entry_name_counterexample :
    ((extractEnums UInfo.ascii goodReg []).lookup "my_role".toList).map (fun s => s.name) =
      some (some "MyRole".toList) := by
  decide

/-! ## 5. a promoted item schema is a renamed copy -/

/-- With `out1` the registry after the array pass: every original entry keeps its position and key and all
    fields but `props`; each property keeps its key and is either `kept` unchanged (it is not an array with
    nameless complex items) or `promoted`: `out1[nm]` is the inline item schema with `name := nm` and
    nothing else changed, `nm` is a new non-empty key, and the property's `items.name` is `nm`. -/
theorem extracted_item_is_a_copy (u : UInfo) (reg : Reg) :
    All₂ (ItemsEntry (regKeys reg) (extractArrayItems u reg)) reg ((extractArrayItems u reg).take reg.length) := by
  rw [extractArrayItems_take]
  exact arrayPass_outcomes u reg

/-- The enum pass never touches `items` (nor the compositions): the link `items.name = nm` made by the
    array pass is still there in the final registry. -/
theorem enum_pass_keeps_items {u : UInfo} {reg1 : Reg} {disc : List (Str × Str)} {out : Reg} {sname pn : Str}
    {ps ps' : Schema} (h : EnumOutcome u reg1 disc out sname pn ps ps') :
    ps'.items = ps.items ∧ ps'.props = ps.props ∧ ps'.anyOf = ps.anyOf ∧ ps'.oneOf = ps.oneOf ∧
      ps'.allOf = ps.allOf :=
  h.fields

/-- The array pass changes nothing but `items.name`. -/
theorem array_pass_keeps_fields {keys : List Str} {out1 : Reg} {ps ps' : Schema}
    (h : ItemOutcome keys out1 ps ps') :
    ps'.name = ps.name ∧ ps'.ty = ps.ty ∧ ps'.genName = ps.genName ∧ ps'.stem = ps.stem ∧
      ps'.enumVals = ps.enumVals ∧ ps'.props = ps.props :=
  h.fields

/-! ## 6. idempotence -/

/- ✗ extract_idempotent (FULL, false):
     extractEnums u (extractEnums u reg disc) disc = extractEnums u reg disc -/

/-- ✗ witness 1: the promoted `ATagsItem` has an array property of inline objects; the array pass does not
    visit the schemas it promotes, the next run does and adds `ATagsItemSubsItem`. -/
theorem extract_idempotent_counterexample :
    regKeys (extractEnums UInfo.ascii nestedReg []) = ["A".toList, "ATagsItem".toList] ∧
      regKeys (extractEnums UInfo.ascii (extractEnums UInfo.ascii nestedReg []) []) =
        ["A".toList, "ATagsItem".toList, "ATagsItemSubsItem".toList] := by
  decide

theorem extract_idempotent_counterexample' :
    extractEnums UInfo.ascii (extractEnums UInfo.ascii nestedReg []) [] ≠ extractEnums UInfo.ascii nestedReg [] := by
  intro h
  have := congrArg (fun r => (regKeys r).length) h
  revert this
  decide

/-- ✗ witness 2: the first run turns `A.kind` into `type = "array"`, the second promotes its items. -/
theorem extract_idempotent_counterexample_array :
    regKeys (extractEnums UInfo.ascii arrayGenReg []) = ["A".toList, "array".toList] ∧
      regKeys (extractEnums UInfo.ascii (extractEnums UInfo.ascii arrayGenReg []) []) =
        ["A".toList, "array".toList, "AKindItem".toList] := by
  decide

/-- Excluded class (`idemOk reg = false`): some property has `generation_name == "array"`, or the inline item
    schema of some array property that gets promoted has itself a property that is an array with nameless
    complex items (or with `generation_name == "array"`). -/
theorem extract_idempotent_partial (u : UInfo) (reg : Reg) (disc : List (Str × Str)) (h : idemOk reg = true) :
    extractEnums u (extractEnums u reg disc) disc = extractEnums u reg disc :=
  extractEnums_idempotent_of_ok u reg disc h

example : idemOk goodReg = true := by decide
example : idemOk nestedReg = false ∧ idemOk arrayGenReg = false := by decide

/-- The enum half IS idempotent for every registry: after `extract_inline_enums` every top-level enum has
    its generation name and every property is a discriminator, has no inline enum, or counts as already
    extracted — so a second run differs from the first only by what its array pass promotes. -/
theorem extract_enum_pass_idempotent (u : UInfo) (reg : Reg) (disc : List (Str × Str)) :
    enumPass u disc (extractEnums u reg disc) = ([], extractEnums u reg disc) := by
  unfold enumPass
  exact enumSchemas_quiet u disc _ _ [] [] (ViewOf.refl _) (extractEnums_enumQuiet u reg disc)

/-! ## 7. which construct a schema becomes -/

/-- Exactly one of `is_enum`, `is_type_alias`, `is_dataclass` holds when line 112 is reached — for every
    schema; so the final `else` of the dispatch (line 157) is dead and the order of the `if`s is immaterial. -/
theorem kind_total_and_exclusive (s : Schema) :
    ((kindFlags s).isEnum = true ∧ (kindFlags s).isAlias = false ∧ (kindFlags s).isDataclass = false) ∨
    ((kindFlags s).isEnum = false ∧ (kindFlags s).isAlias = true ∧ (kindFlags s).isDataclass = false) ∨
    ((kindFlags s).isEnum = false ∧ (kindFlags s).isAlias = false ∧ (kindFlags s).isDataclass = true) :=
  kindFlags_exclusive s

/-- The decision is total (the `RuntimeError` of line 134 is unreachable) and is: skipped exactly for
    anonymous schemas and skip-listed enums, otherwise the generator of the one flag that is set. -/
theorem kind_decision (s : Schema) (skip : List Str) :
    modelKindE s skip = some (modelKind s skip) ∧
    modelKind s skip =
      if truthy s.name = false then Kind.skipped
      else if (kindFlags s).isEnum = true then
        (if nameInSkip s skip = true then Kind.skipped else Kind.enum)
      else if (kindFlags s).isAlias = true then Kind.alias
      else if (kindFlags s).wrapper = true then Kind.dataWrapperDataclass else Kind.dataclass :=
  ⟨modelKindE_isSome s skip, modelKind_eq s skip⟩

/-- A NAMED schema with at least one property and no enum is a dataclass — never an alias, never a data
    wrapper, never skipped — whatever its type, items, compositions, generation name and the skip list. -/
theorem properties_imply_dataclass (s : Schema) (skip : List Str) (hn : truthy s.name = true)
    (hp : s.props ≠ []) (he : truthy s.enumVals = false) : modelKind s skip = Kind.dataclass := by
  rw [modelKind_eq]
  have hpe : s.props.isEmpty = false := by cases h : s.props with
    | nil => exact absurd h hp
    | cons _ _ => rfl
  simp [hn, kindFlags, he, hpe]

example : truthy (some "User".toList) = true ∧ [("id".toList, ({} : Schema))] ≠ [] := by decide

/-- With a property the schema is never rendered as a type alias — even with an enum. -/
theorem properties_never_alias (s : Schema) (skip : List Str) (hp : s.props ≠ []) :
    modelKind s skip ≠ Kind.alias := by
  rw [modelKind_eq]
  have hpe : s.props.isEmpty = false := by cases h : s.props with
    | nil => exact absurd h hp
    | cons _ _ => rfl
  simp only [kindFlags, hpe]
  cases truthy s.name <;> cases truthy s.enumVals <;> cases (s.ty == some sString || s.ty == some sInteger) <;>
    cases nameInSkip s skip <;> simp

/-- An anonymous schema (`name` is `None` or `""`) is always skipped. -/
theorem anonymous_is_skipped (s : Schema) (skip : List Str) (hn : truthy s.name = false) :
    modelKind s skip = Kind.skipped := by
  rw [modelKind_eq]; simp [hn]

/-- The data-wrapper rule only ever fires for a named schema that then IS a dataclass. -/
theorem data_wrapper_is_named_dataclass (s : Schema) (h : (kindFlags s).wrapper = true) :
    truthy s.name = true ∧ (kindFlags s).isDataclass = true :=
  kindFlags_wrapper s h

/-- Finding: the extractor promotes inline enums of type `number`, but the visitor only renders `string`
    and `integer` enums — a promoted `number` enum is a type alias, a promoted `string`/`integer` enum is an
    enum (unless skip-listed). -/
theorem extracted_number_enum_is_alias (u : UInfo) (en : Str) (vals : Option (List Str)) (skip : List Str)
    (h : en ≠ []) : modelKind (enumEntry u en (some sNumber) vals) skip = Kind.alias := by
  rw [modelKind_eq]
  have hn : truthy (enumEntry u en (some sNumber) vals).name = true := by
    rw [(enum_entry_fields u en _ vals h).2.2.2.2.2]
    cases hs : sanClass en with
    | nil => exact absurd hs (sanClass_ne_nil en)
    | cons _ _ => rfl
  have hty : (enumEntry u en (some sNumber) vals).ty = some sNumber := rfl
  have hprops : (enumEntry u en (some sNumber) vals).props = [] := rfl
  have hitems : (enumEntry u en (some sNumber) vals).items = none := rfl
  simp [hn, kindFlags, anonObjectItems, hty, hprops, hitems]

theorem extracted_string_enum_is_enum (u : UInfo) (en : Str) (vals : Option (List Str)) (skip : List Str)
    (h : en ≠ []) (hv : truthy vals = true) (hs : nameInSkip (enumEntry u en (some sString) vals) skip = false) :
    modelKind (enumEntry u en (some sString) vals) skip = Kind.enum := by
  rw [modelKind_eq]
  have hn : truthy (enumEntry u en (some sString) vals).name = true := by
    rw [(enum_entry_fields u en _ vals h).2.2.2.2.2]
    cases hs : sanClass en with
    | nil => exact absurd hs (sanClass_ne_nil en)
    | cons _ _ => rfl
  have hty : (enumEntry u en (some sString) vals).ty = some sString := rfl
  have hvals : (enumEntry u en (some sString) vals).enumVals = vals := rfl
  simp [hn, kindFlags, hty, hvals, hv, hs]

end Pog.ExtractProps
