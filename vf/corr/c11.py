#!/venv/bin/python
"""Correspondence check C11 / C06-tables: Lean model (compiled driver) vs the real python code.

Drives the REAL `ExceptionsEmitter` (emit / _is_shared_core / _update_registry / _generate_for_codes),
`ExceptionVisitor.visit` and `core.http_status_codes` on seeded random + hand-picked inputs and compares
with the model functions `registryTrace`, `isSharedCore`, `specCodes`, `aliasName`, `aliasBase`,
`isErrorCode`/`isClientError`/`isServerError` after EVERY step.  Prints every disagreement and
finally `<n> disagreements`.
"""
import ast
import json
import os
import random
import shutil
import subprocess
import sys

HERE = os.path.dirname(os.path.abspath(__file__))
SCRATCH = os.path.realpath(f"/tmp/corr_c11_{os.getpid()}")
shutil.rmtree(SCRATCH, ignore_errors=True)
os.makedirs(os.path.join(SCRATCH, "tmp"))
os.environ["TMPDIR"] = os.path.join(SCRATCH, "tmp")  # generator debug log goes here

from pyopenapi_gen import HTTPMethod, IROperation, IRResponse, IRSpec  # noqa: E402
from pyopenapi_gen.context.render_context import RenderContext  # noqa: E402
from pyopenapi_gen.core import http_status_codes as hsc  # noqa: E402
from pyopenapi_gen.emitters.exceptions_emitter import ExceptionsEmitter  # noqa: E402
from pyopenapi_gen.visit.exception_visitor import ExceptionVisitor  # noqa: E402


class Driver:
    """The driver flushes its output at EOF only, so requests are sent in batches (one process per batch)."""

    exe = os.path.join(HERE, ".lake/build/bin/driver")

    def batch(self, reqs):
        if not reqs:
            return []
        inp = "".join(json.dumps({"f": f, "a": list(a)}) + "\n" for f, *a in reqs)
        out = subprocess.run([self.exe], input=inp, capture_output=True, text=True, timeout=120, check=True).stdout
        res = [json.loads(line) for line in out.splitlines()]
        assert len(res) == len(reqs), (len(res), len(reqs))
        for q, r in zip(reqs, res):
            if isinstance(r, dict) and "error" in r:
                raise RuntimeError(f"driver error {q}: {r['error']}")
        return res

    def call(self, f, *a):
        return self.batch([(f, *a)])[0]

    def close(self):
        pass


drv = Driver()
bad = 0
checks = 0


def disagree(what, **kw):
    global bad
    bad += 1
    print("DISAGREE", what, json.dumps(kw, default=str))


def comps(path: str):
    """components of a resolved absolute path ('/' -> [])"""
    rp = os.path.realpath(path)
    return [c for c in rp.split("/") if c]


def mk_spec(statuses_per_op):
    ops = []
    for i, statuses in enumerate(statuses_per_op):
        ops.append(
            IROperation(
                operation_id=f"op{i}",
                method=HTTPMethod.GET,
                path=f"/x{i}",
                summary=None,
                description=None,
                responses=[IRResponse(status_code=s, description="", content={}) for s in statuses],
            )
        )
    return IRSpec(title="t", version="1", schemas={}, operations=ops, servers=[])


def declared_of(statuses_per_op):
    # abstraction boundary of the model: the numeric status strings as ints
    return [int(s) for sts in statuses_per_op for s in sts if s.isdigit()]


def parse_alias_file(path):
    src = open(path).read()
    tree = ast.parse(src)
    classes = [(n.name, [ast.unparse(b) for b in n.bases]) for n in tree.body if isinstance(n, ast.ClassDef)]
    all_list = None
    for n in tree.body:
        if isinstance(n, ast.Assign) and any(isinstance(t, ast.Name) and t.id == "__all__" for t in n.targets):
            all_list = ast.literal_eval(n.value)
    return classes, all_list


# ---------------------------------------------------------------- tables: every code 0..799
TABLE_CODES = list(range(0, 800)) + [1000, 4040, 10**9, 2**64 + 404]
FNS = ["aliasName", "aliasBase", "isErrorCode", "isClientError", "isServerError"]
_res = drv.batch([(fn, code) for code in TABLE_CODES for fn in FNS])
MODEL = {fn: {} for fn in FNS}
for i, code in enumerate(TABLE_CODES):
    for j, fn in enumerate(FNS):
        MODEL[fn][code] = _res[i * len(FNS) + j]


def m_alias_name(code):
    if code not in MODEL["aliasName"]:
        MODEL["aliasName"][code] = drv.call("aliasName", code)
    return MODEL["aliasName"][code]


def m_alias_base(code):
    if code not in MODEL["aliasBase"]:
        MODEL["aliasBase"][code] = drv.call("aliasBase", code)
    return MODEL["aliasBase"][code]


for code in TABLE_CODES:
    checks += 5
    py = hsc.get_exception_class_name(code)
    if py != MODEL["aliasName"][code]:
        disagree("aliasName", code=code, py=py, model=MODEL["aliasName"][code])
    for fn, pyf in (("isErrorCode", hsc.is_error_code), ("isClientError", hsc.is_client_error),
                    ("isServerError", hsc.is_server_error)):
        if pyf(code) != MODEL[fn][code]:
            disagree(fn, code=code)
    pb = "ClientError" if hsc.is_client_error(code) else "ServerError" if hsc.is_server_error(code) else None
    if pb != MODEL["aliasBase"][code]:
        disagree("aliasBase", code=code, py=pb)

# ---------------------------------------------------------------- visitor: which codes a spec contributes
rng = random.Random(1106)
POOL = ["200", "204", "301", "400", "401", "404", "409", "418", "422", "429", "499", "500", "501", "503", "599",
        "600", "default", "0404", "4XX", "", "100", "399", "1000", "05"]
_cases = []
for t in range(300):
    per_op = [[rng.choice(POOL) for _ in range(rng.randint(0, 6))] for _ in range(rng.randint(0, 3))]
    spec = mk_spec(per_op)
    ctx = RenderContext(package_root_for_generated_code=SCRATCH, core_package_name="core",
                        overall_project_root=SCRATCH)
    ctx.set_current_file(os.path.join(SCRATCH, "exception_aliases.py"))
    _code, names, codes = ExceptionVisitor().visit(spec, ctx)
    _cases.append((per_op, names, codes))
_res = drv.batch([("specCodes", declared_of(per_op)) for per_op, _, _ in _cases])
for (per_op, names, codes), m in zip(_cases, _res):
    checks += 2
    if codes != m:
        disagree("specCodes", per_op=per_op, py=codes, model=m)
    if names != [m_alias_name(c) for c in m]:
        disagree("visit names", per_op=per_op, py=names)

# ---------------------------------------------------------------- _is_shared_core on random layouts
NAMES = ["zzc11_a", "zzc11_b", "core", "x", "y", "z", "pkg"]


def rand_path(n):
    return "/" + "/".join(rng.choice(NAMES) for _ in range(n))


_shared_cases = []


def check_shared(root_arg, core_arg):
    """python answer now; the model is asked in one batch by flush_shared()"""
    py = ExceptionsEmitter(core_package_name="core", overall_project_root=root_arg)._is_shared_core(core_arg)
    _shared_cases.append((root_arg, core_arg, py))
    return py


def flush_shared():
    global checks
    res = drv.batch([("isSharedCore", comps(r) if r else None, comps(c)) for r, c, _ in _shared_cases])
    for (r, c, py), m in zip(_shared_cases, res):
        checks += 1
        if py != m:
            disagree("isSharedCore", root=r, core=c, py=py, model=m)
    _shared_cases.clear()


for root_arg, core_arg in [("/", "/"), ("/", "/core"), ("/", "/a/core"), ("/", "/a/b/core"), ("/zzc11_a", "/zzc11_a"),
                           ("/zzc11_a", "/"), ("/zzc11_a/x", "/zzc11_a"), (None, "/zzc11_a/core"),
                           ("", "/zzc11_a/core"), ("/zzc11_a", "/zzc11_a/x/../core"),
                           ("/zzc11_a/.", "/zzc11_a/x/y/../../core/"), ("/zzc11_a", "/zzc11_b/core"),
                           ("/zzc11_a", "/zzc11_a/x/y/core"), ("/zzc11_a", "/zzc11_a/x/y/z/core")]:
    check_shared(root_arg, core_arg)
for t in range(600):
    root = rand_path(rng.randint(0, 3)) if rng.random() < 0.9 else rng.choice([None, ""])
    k = rng.random()
    if root and k < 0.7:
        core = root.rstrip("/") + "".join("/" + rng.choice(NAMES) for _ in range(rng.randint(0, 4)))
    else:
        core = rand_path(rng.randint(0, 5))
    if rng.random() < 0.15:
        core = core + "/q/.."
    check_shared(root, core or "/")
flush_shared()

# ---------------------------------------------------------------- histories through the real emitter
CODES = ["200", "204", "301", "400", "401", "404", "409", "418", "422", "429", "499", "500", "501", "503", "599",
         "600", "default"]
CLIENTS = ["client_a", "client_b", "zeta", "Alpha"]
depth_seen = {1: 0, 2: 0, 3: 0, 4: 0}
shared_steps = unshared_steps = 0


def run_history(trial, depth, steps):
    global checks, shared_steps, unshared_steps
    root = os.path.join(SCRATCH, f"h{trial}", "proj")
    parts = [rng.choice(["pkg", "x", "y", "shared"]) for _ in range(depth - 1)] + ["core"]
    core_dir = os.path.join(root, *parts)
    os.makedirs(core_dir)
    core_pkg = ".".join(parts)
    depth_seen[depth] += 1
    # the model decides `shared` for every step with ITS isSharedCore
    shared_m = drv.batch([("isSharedCore", comps(r) if r else None, comps(core_dir)) for _, _, r in steps])
    gens = [{"client": client, "declared": declared_of(per_op), "shared": sh}
            for (client, per_op, _), sh in zip(steps, shared_m)]
    model_trace, model_final = drv.batch([("registryTrace", gens), ("registryRun", gens)])
    checks += 1
    if model_trace[-1] != model_final or len(model_trace) != len(steps):
        disagree("run vs trace", gens=gens)
    for si, (client, per_op, root_arg) in enumerate(steps):
        em = ExceptionsEmitter(core_package_name=core_pkg, overall_project_root=root_arg)
        shared_py = check_shared(root_arg, core_dir)
        if shared_py and client:
            shared_steps += 1
        else:
            unshared_steps += 1
        files, ret_names = em.emit(mk_spec(per_op), core_dir, client_package_name=client)
        model = model_trace[si]
        checks += 6
        # registry file
        reg_path = os.path.join(core_dir, ".exception_registry.json")
        if os.path.exists(reg_path):
            reg = json.loads(open(reg_path).read())
            py_reg = [[k, v] for k, v in reg.items()]  # file order (sort_keys=True)
        else:
            py_reg = []
        if py_reg != model["registry"]:
            disagree("registry", trial=trial, step=si, gens=gens, py=py_reg, model=model["registry"])
        # alias file
        classes, all_list = parse_alias_file(os.path.join(core_dir, "exception_aliases.py"))
        exp_names = [m_alias_name(c) for c in model["aliases"]]
        exp_bases = [[m_alias_base(c)] for c in model["aliases"]]
        if [n for n, _ in classes] != exp_names:
            disagree("alias classes", trial=trial, step=si, gens=gens, py=[n for n, _ in classes], model=exp_names)
        if [b for _, b in classes] != exp_bases:
            disagree("alias bases", trial=trial, step=si, gens=gens, py=classes, model=exp_bases)
        exp_all = sorted(exp_names) if exp_names else None
        if all_list != exp_all:
            disagree("__all__", trial=trial, step=si, gens=gens, py=all_list, model=exp_all)
        if ret_names != sorted(exp_names):
            disagree("emit return", trial=trial, step=si, py=ret_names, model=sorted(exp_names))
        if files != [os.path.join(core_dir, "exception_aliases.py")]:
            disagree("emit files", py=files)
    shutil.rmtree(os.path.join(SCRATCH, f"h{trial}"), ignore_errors=True)
    return gens


def rand_per_op():
    return [[rng.choice(CODES) for _ in range(rng.randint(0, 5))] for _ in range(rng.randint(1, 3))]


trial = 0
# hand-picked: the C11 counterexamples and their recognised-layout contrast
for depth in (1, 2, 3, 4):
    root = os.path.join(SCRATCH, f"h{trial}", "proj")
    run_history(trial, depth, [("client_a", [["200", "404"]], root), ("client_b", [["200", "500"]], root),
                               ("client_a", [["422", "404", "404"]], root), ("client_b", [[]], root)])
    trial += 1
root = os.path.join(SCRATCH, f"h{trial}", "proj")
run_history(trial, 1, [("client_a", [["404"]], root), (None, [["500"]], root), ("", [["418"]], root),
                       ("client_b", [["503"]], None), ("client_b", [["503"]], ""), ("client_b", [["503"]], root)])
trial += 1
# seeded random histories
for _ in range(250):
    depth = rng.randint(1, 4)
    root = os.path.join(SCRATCH, f"h{trial}", "proj")
    clients = rng.sample(CLIENTS, rng.randint(2, 4))
    steps = []
    for _s in range(rng.randint(1, 6)):
        r = rng.random()
        client = rng.choice(clients) if r < 0.92 else (None if r < 0.96 else "")
        root_arg = root if rng.random() < 0.93 else rng.choice([None, "", os.path.dirname(root)])
        steps.append((client, rand_per_op(), root_arg))
    run_history(trial, depth, steps)
    trial += 1

flush_shared()
drv.close()
shutil.rmtree(SCRATCH, ignore_errors=True)
print(f"checks: {checks}; histories: {trial} (by core depth {depth_seen}); "
      f"registry steps {shared_steps}, plain steps {unshared_steps}")
print(f"{bad} disagreements")
sys.exit(1 if bad else 0)
