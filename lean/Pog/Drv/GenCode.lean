import Pog.Drv.Util
import Pog.Model.GenCode
/-
  JSON glue for M-gencode (C04 / C05 / C06 behavioural part).

    buildRequest [op, args]            → {"ok": request} | {"err": "moduleError|typeError|nameError|valueError|headerTypeError|cookieTypeError"}
    handle       [transport, op, reply] → outcome            transport = "bundled" | "passthrough"
    parsePath    [str]                 → [seg]
    sigOf        [op]                  → [[ident, required]]
    moduleOk     [op]                  → bool
    primary      [responses]           → {"A": key|null, "B": key|null}
    arms         [responses]           → {"arms": [[code, action]], "default": action, "strategy": strategy}

  op     = {"method": str, "path": str (template), "pathParams": [param], "params": [param],
            "body": null | {"required": bool, "media": [str]}, "responses": [resp]}
  param  = {"name": str, "in": str, "required": bool, "kind"?: "string"|"integer"|"number"|"boolean"|…}
  resp   = {"key": str, "content": [{"mt": str, "shape": shape}]}
  shape  = {"k": "model"|"listModel", "n": str} | {"k": "int"|"string"|"binary"|"noSchema"}
  args   = [[identifier, value]]       value = {"t": "none"} | {"t": "str"|"other", "v": token}
  reply  = {"status": nat, "ctype": str|null}
  request = {"method", "path": [{"lit": s} | {"val": value}], "query": null|[[k, value]], "headers": null|[[k, value]], "cookies": null|[[k, value]],
             "body": {"kw": "none"|"json"|"files"|"data", "v": value}}
  outcome = {"k": "moduleError"} | {"k": "nameError"} | {"k": "returned", "ret": ret}
          | {"k": "raised", "cls": "HTTPError"|"ClientError"|"ServerError"|"alias", "code": nat|null, "name": str,
             "isClient": bool, "isServer": bool, "status": nat, "response": bool, "why": str}
  ret     = {"k": "none"|"text"|"content"|"streamBytes"|"streamNdjson"|"streamSse"} | {"k": "structure"|"cast", "ty": ty}
  ty      = {"k": "bytes"|"str"|"int"|"any"} | {"k": "model"|"listModel", "n": str}

  A status key that is all digits but not the canonical decimal (`0200`) is outside the model's domain
  and rejected here.
-/
open Lean Pog Pog.GenCode
namespace Pog.Drv

private def gLoc (s : String) : GLoc :=
  match s with
  | "path" => .path
  | "query" => .query
  | "header" => .header
  | "cookie" => .cookie
  | _ => .other

/-- `kind` = the spec type of the parameter's schema; absent = `string`. -/
private def gKind (j : Json) : Except String PKind :=
  match j.getObjVal? "kind" with
  | .error _ => pure .plain
  | .ok v => do
    match (← v.getStr?) with
    | "integer" => pure .num
    | "number" => pure .num
    | "boolean" => pure .bool
    | _ => pure .plain

private def gParam (j : Json) : Except String GParam := do
  let name ← getStr (← j.getObjVal? "name")
  let loc ← (← j.getObjVal? "in").getStr?
  let req ← getBool (← j.getObjVal? "required")
  pure ⟨name, gLoc loc, req, ← gKind j⟩

private def gShape (j : Json) : Except String Shape := do
  let k ← (← j.getObjVal? "k").getStr?
  match k with
  | "model" => pure (.model (← getStr (← j.getObjVal? "n")))
  | "listModel" => pure (.listModel (← getStr (← j.getObjVal? "n")))
  | "int" => pure .int
  | "string" => pure .string
  | "binary" => pure .binary
  | "noSchema" => pure .noSchema
  | _ => throw s!"unknown shape {k}"

private def gMedia (j : Json) : Except String Media := do
  pure ⟨← getStr (← j.getObjVal? "mt"), ← gShape (← j.getObjVal? "shape")⟩

private def gKey (s : String) : Except String StatusKey :=
  if s == "default" then pure .default
  else
    let cs := s.toList
    if !cs.isEmpty && cs.all isDigitA then
      match s.toNat? with
      | some n => if natStr n == cs then pure (.num n) else throw s!"status key {s} is not a canonical decimal"
      | none => throw s!"status key {s}"
    else pure (.other cs)

private def gResp (j : Json) : Except String Resp := do
  let key ← gKey (← (← j.getObjVal? "key").getStr?)
  let content ← getList gMedia (← j.getObjVal? "content")
  pure ⟨key, content⟩

private def gBody (j : Json) : Except String (Option GBody) := do
  if j.isNull then pure none else
  let media ← getStrs (← j.getObjVal? "media")
  -- loader/operations/request_body.py: `if not content_map: return None`
  if media.isEmpty then pure none else
  pure (some ⟨← getBool (← j.getObjVal? "required"), media⟩)

private def gOp (j : Json) : Except String Op := do
  let method ← getStr (← j.getObjVal? "method")
  let path ← getStr (← j.getObjVal? "path")
  let pl ← match j.getObjVal? "pathParams" with
    | .ok v => getList gParam v
    | .error _ => pure []
  let ps ← getList gParam (← j.getObjVal? "params")
  let body ← match j.getObjVal? "body" with
    | .ok v => gBody v
    | .error _ => pure none
  let rs ← getList gResp (← j.getObjVal? "responses")
  pure { method := method, path := parsePath path, params := irParams pl ps, body := body, responses := rs }

private def gValue (j : Json) : Except String GValue := do
  let t ← (← j.getObjVal? "t").getStr?
  match t with
  | "none" => pure .none
  | "str" => pure (.str (← getStr (← j.getObjVal? "v")))
  | "other" => pure (.other (← getStr (← j.getObjVal? "v")))
  | _ => throw s!"unknown value tag {t}"

private def gArg (j : Json) : Except String (Str × GValue) := do
  let a ← j.getArr?
  pure (← getStr (← argN a 0), ← gValue (← argN a 1))

private def jValue : GValue → Json
  | .none => Json.mkObj [("t", Json.str "none")]
  | .str v => Json.mkObj [("t", Json.str "str"), ("v", jstr v)]
  | .other v => Json.mkObj [("t", Json.str "other"), ("v", jstr v)]

private def jPiece : Piece → Json
  | .lit s => Json.mkObj [("lit", jstr s)]
  | .val v => Json.mkObj [("val", jValue v)]

private def jEntries (es : List (Str × GValue)) : Json :=
  jlist (fun e => Json.arr #[jstr e.1, jValue e.2]) es

private def jBody : BodyArg → Json
  | .none => Json.mkObj [("kw", Json.str "none"), ("v", jValue .none)]
  | .json v => Json.mkObj [("kw", Json.str "json"), ("v", jValue v)]
  | .files v => Json.mkObj [("kw", Json.str "files"), ("v", jValue v)]
  | .data v => Json.mkObj [("kw", Json.str "data"), ("v", jValue v)]

private def jErr : CallErr → String
  | .moduleError => "moduleError"
  | .typeError => "typeError"
  | .nameError => "nameError"
  | .valueError => "valueError"
  | .headerTypeError => "headerTypeError"
  | .cookieTypeError => "cookieTypeError"

private def jRequest : Except CallErr Request → Json
  | .error e => Json.mkObj [("err", Json.str (jErr e))]
  | .ok r => Json.mkObj [("ok", Json.mkObj [("method", jstr r.method), ("path", jlist jPiece r.path),
      ("query", jopt jEntries r.query), ("headers", jopt jEntries r.headers), ("cookies", jopt jEntries r.cookies), ("body", jBody r.body)])]

private def jTy : PyTy → Json
  | .bytes => Json.mkObj [("k", Json.str "bytes")]
  | .str => Json.mkObj [("k", Json.str "str")]
  | .int => Json.mkObj [("k", Json.str "int")]
  | .any => Json.mkObj [("k", Json.str "any")]
  | .model n => Json.mkObj [("k", Json.str "model"), ("n", jstr n)]
  | .listModel n => Json.mkObj [("k", Json.str "listModel"), ("n", jstr n)]

private def jRet : RetKind → Json
  | .none => Json.mkObj [("k", Json.str "none")]
  | .structure t => Json.mkObj [("k", Json.str "structure"), ("ty", jTy t)]
  | .cast t => Json.mkObj [("k", Json.str "cast"), ("ty", jTy t)]
  | .text => Json.mkObj [("k", Json.str "text")]
  | .content => Json.mkObj [("k", Json.str "content")]
  | .streamBytes => Json.mkObj [("k", Json.str "streamBytes")]
  | .streamNdjson => Json.mkObj [("k", Json.str "streamNdjson")]
  | .streamSse => Json.mkObj [("k", Json.str "streamSse")]
  | .streamEnd => Json.mkObj [("k", Json.str "streamEnd")]
  | .yieldOnce k => Json.mkObj [("k", Json.str "yieldOnce"), ("item", jRet k)]

private def jWhy : RaiseWhy → String
  | .transport => "transport"
  | .aliasArm => "alias"
  | .defaultArm => "default"
  | .unhandledArm => "unhandled"

private def jOutcome : Outcome → Json
  | .moduleError => Json.mkObj [("k", Json.str "moduleError")]
  | .nameError => Json.mkObj [("k", Json.str "nameError")]
  | .returned k => Json.mkObj [("k", Json.str "returned"), ("ret", jRet k)]
  | .raised cls st resp why =>
    let (c, code, name) : String × Json × Json := match cls with
      | .httpError => ("HTTPError", Json.null, Json.str "HTTPError")
      | .clientError => ("ClientError", Json.null, Json.str "ClientError")
      | .serverError => ("ServerError", Json.null, Json.str "ServerError")
      | .alias n => ("alias", jnat n, jstr (aliasName n))
    Json.mkObj [("k", Json.str "raised"), ("cls", Json.str c), ("code", code), ("name", name),
      ("isClient", Json.bool cls.isClient), ("isServer", Json.bool cls.isServer),
      ("status", jnat st), ("response", Json.bool resp), ("why", Json.str (jWhy why))]

private def jKey : StatusKey → Json
  | .num n => jstr (natStr n)
  | .default => Json.str "default"
  | .other s => jstr s

private def jAction : Action → Json
  | .retNone => Json.str "retNone"
  | .retStrategy => Json.str "retStrategy"
  | .retSecondary k => Json.mkObj [("retSecondary", jRet k)]
  | .retStreamEnd => Json.str "retStreamEnd"
  | .yieldSecondary k => Json.mkObj [("yieldSecondary", jRet k)]
  | .raiseAlias c => Json.mkObj [("raiseAlias", jnat c)]
  | .raiseDefault => Json.str "raiseDefault"
  | .raiseUnhandled => Json.str "raiseUnhandled"
  | .raiseCatchAll => Json.str "raiseCatchAll"
  | .retDefault => Json.str "retDefault"

private def jStrategy : Strategy → Json
  | .none => Json.str "none"
  | .single t => Json.mkObj [("single", jTy t)]
  | .text => Json.str "text"
  | .union m => Json.mkObj [("union", jlist (fun e => Json.arr #[jstr e.1, jTy e.2]) m)]
  | .streamBytes => Json.str "streamBytes"
  | .streamNdjson => Json.str "streamNdjson"
  | .streamSse => Json.str "streamSse"

private def jSeg : Seg → Json
  | .lit s => Json.mkObj [("lit", jstr s)]
  | .var v => Json.mkObj [("var", jstr v)]

private def gTransport (s : String) : Except String TransportKind :=
  match s with
  | "bundled" => pure .bundled
  | "passthrough" => pure .passthrough
  | _ => throw s!"unknown transport {s}"

private def gReply (j : Json) : Except String Reply := do
  let st ← getNat (← j.getObjVal? "status")
  let ct ← match j.getObjVal? "ctype" with
    | .ok v => if v.isNull then pure none else some <$> getStr v
    | .error _ => pure none
  pure ⟨st, ct⟩

def genCodeFns : List String := ["buildRequest", "handle", "parsePath", "gcSigOf", "moduleOk", "primary", "arms"]

def genCodeRun (f : String) (a : Array Json) : Except String Json := do
  match f with
  | "buildRequest" =>
    let op ← gOp (← argN a 0)
    let args ← getList gArg (← argN a 1)
    pure (jRequest (buildRequest op args))
  | "handle" =>
    let t ← gTransport (← (← argN a 0).getStr?)
    let op ← gOp (← argN a 1)
    let r ← gReply (← argN a 2)
    pure (jOutcome (handle t op r))
  | "parsePath" => pure (jlist jSeg (parsePath (← getStr (← argN a 0))))
  | "gcSigOf" =>
    let op ← gOp (← argN a 0)
    pure (jlist (fun e => Json.arr #[jstr e.1, Json.bool e.2]) (sigOf op))
  | "moduleOk" => pure (Json.bool (moduleOk (← gOp (← argN a 0))))
  | "primary" =>
    let rs ← getList gResp (← argN a 0)
    pure (Json.mkObj [("A", jopt (fun r => jKey r.key) (primaryA rs)), ("B", jopt (fun r => jKey r.key) (primaryB rs))])
  | "arms" =>
    let rs ← getList gResp (← argN a 0)
    pure (Json.mkObj [("arms", jlist (fun e => Json.arr #[jnat e.1, jAction e.2]) (arms rs)),
      ("default", jAction (defaultAction rs)), ("strategy", jStrategy (resolveStrategy rs))])
  | _ => throw s!"unknown function {f}"

def dispatchGenCode : Dispatch := fun f a _ =>
  if genCodeFns.contains f then some (genCodeRun f a) else none

end Pog.Drv
