import Pog.Lemmas.Registry
import Pog.Props.Loader
import Pog.Lemmas.GenCode
/-
  C06 (table part) — status code → exception class.

  The behavioural half of C06 (what the transport / generated `match` raises) lives with the
  http / gencode models; here are the facts about the TABLES the generator reads:
  which base class an alias derives from, and that `get_exception_class_name` yields distinct,
  non-builtin, syntactically valid class names — for the table rows and for the `Error<code>`
  fallback.  Every table-level fact is re-checked by `decide`/`decide +kernel` against the
  regenerated `Pog/Gen/Status.lean`; the general statements are derived from those facts only.
-/
/-
  C06, "a declared status is handled as declared" at the loader (Pog/Model/Loader.lean mirrors the parameter / request-body / response
  parsing inside `parse_operations`, `parse_response`, `parse_parameter`, `post_process_operation`; tied by vf/corr/loader.py; proved in
  Pog/Props/Loader.lean, claimed here):
    response_status_is_declared_key        for every kept operation the parsed status codes are the keys the responses are DECLARED under, in
                                           order - also when one `components.responses` entry is referenced under several keys, or a schema is
                                           referenced directly (an integer key is its decimal string, F16 repaired)
    dangling_response_ref_is_its_own_node  what a dangling `#/components/responses/X` becomes
-/
-- INDEX Pog.LoaderProps: response_status_is_declared_key, normKey_int, response_bad_key_raises, kept_operation_passes_respError, response_ref_resolves, dangling_response_ref_is_its_own_node, dangling_bare_response_ref
namespace Pog.C06
open Pog Pog.Reg

/-! ## base class by range -/

/-- The ranges the code uses are `[400,500)`, `[500,600)` and `[400,600)`. -/
theorem ranges_are :
    Gen.isClientErrorLo = 400 ∧ Gen.isClientErrorHi = 500 ∧
    Gen.isServerErrorLo = 500 ∧ Gen.isServerErrorHi = 600 ∧
    Gen.isErrorCodeLo = 400 ∧ Gen.isErrorCodeHi = 600 := bounds_gen

/-- `is_error_code` is the union of `is_client_error` and `is_server_error`: the defensive
    `else: continue` of the visitor is dead code. -/
theorem error_iff_client_or_server (code : Nat) :
    isErrorCode code = true ↔ (isClientError code = true ∨ isServerError code = true) :=
  isErrorCode_iff_client_or_server code

/-- Every alias of a 4xx code derives from `ClientError`, every alias of a 5xx code from
    `ServerError`, nothing else gets a class; stated on the generated bounds. -/
theorem alias_base_by_range (code : Nat) :
    (Gen.isClientErrorLo ≤ code ∧ code < Gen.isClientErrorHi → aliasBase code = some .clientError) ∧
    (Gen.isServerErrorLo ≤ code ∧ code < Gen.isServerErrorHi → aliasBase code = some .serverError) ∧
    (aliasBase code = none ↔ isErrorCode code = false) := by
  refine ⟨?_, ?_, ?_⟩
  · intro h
    exact aliasBase_client ((isClientError_iff code).mpr h)
  · intro h
    have hs := (isServerError_iff code).mpr h
    have hc : isClientError code = false := by
      cases hc : isClientError code with
      | false => rfl
      | true => exact absurd ⟨hc, hs⟩ (client_server_disjoint code)
    exact aliasBase_server hs hc
  · have := aliasBase_isSome_iff code
    cases h1 : aliasBase code <;> cases h2 : isErrorCode code <;> simp_all

/-- The same with the literal bounds. -/
theorem alias_base_by_range_literal (code : Nat) :
    (400 ≤ code ∧ code < 500 → aliasBase code = some .clientError) ∧
    (500 ≤ code ∧ code < 600 → aliasBase code = some .serverError) ∧
    (code < 400 ∨ 600 ≤ code → aliasBase code = none) := by
  obtain ⟨h1, h2, h3, h4, h5, h6⟩ := ranges_are
  have h := alias_base_by_range code
  rw [h1, h2, h3, h4] at h
  refine ⟨h.1, h.2.1, ?_⟩
  intro hc
  apply h.2.2.mpr
  cases he : isErrorCode code with
  | false => rfl
  | true =>
    have := (isErrorCode_iff code).mp he
    rw [h5, h6] at this
    omega

example : aliasBase 404 = some .clientError ∧ aliasBase 503 = some .serverError
    ∧ aliasBase 302 = none ∧ aliasBase 600 = none := by decide

/-! ## class names -/

/-- `get_exception_class_name` on the rows of `HTTP_EXCEPTION_NAMES` is duplicate-free (after the
    rename): no two statuses share an alias class. -/
theorem alias_names_distinct :
    (Gen.httpExceptionNames.map (fun r => aliasName r.1)).Nodup := table_names_nodup_gen

/-- No alias class shadows a Python builtin — this is what the rename of `NotImplementedError`
    (501) to `HttpNotImplementedError` achieves … -/
theorem alias_names_not_builtin :
    ∀ r ∈ Gen.httpExceptionNames, aliasName r.1 ∉ Gen.pyBuiltins := table_not_builtin_gen

/-- … and without the rename the raw table WOULD contain a builtin name. -/
theorem raw_table_has_builtin :
    ∃ r ∈ Gen.httpExceptionNames, r.2 ∈ Gen.pyBuiltins ∧ aliasName r.1 ≠ r.2 := by
  decide +kernel

/-- The fallback name `Error<code>` is no builtin either (it ends in a digit, builtins checked
    by shape on the generated list). -/
theorem fallback_not_builtin (code : Nat) :
    Gen.exceptionFallbackPrefix ++ natStr code ∉ Gen.pyBuiltins := by
  intro h
  have hb : ∀ b ∈ Gen.pyBuiltins, isFallbackShaped b = false := by decide +kernel
  have := hb _ h
  rw [fallback_isFallbackShaped] at this
  cases this

/-- Alias names are ASCII Python identifiers: table rows … -/
theorem alias_names_are_identifiers :
    ∀ r ∈ Gen.httpExceptionNames, isPyIdent (aliasName r.1) = true := table_ident_gen

/-- … the fallback for every code … -/
theorem fallback_is_identifier (code : Nat) :
    isPyIdent (Gen.exceptionFallbackPrefix ++ natStr code) = true := fallback_ident code

/-- … hence the result of `get_exception_class_name` for EVERY code. -/
theorem alias_name_is_identifier (code : Nat) : isPyIdent (aliasName code) = true :=
  aliasName_ident code

/-- For a code without a table row the name is the fallback, and it differs from every table
    alias (no table alias has the shape `Error<digits>`). -/
theorem fallback_distinct_from_table (code : Nat) (h : code ∉ Gen.httpExceptionNames.map (·.1)) :
    aliasName code = Gen.exceptionFallbackPrefix ++ natStr code ∧
    ∀ r ∈ Gen.httpExceptionNames, aliasName r.1 ≠ aliasName code := by
  have hl : Gen.httpExceptionNames.lookup code = none := by
    rcases inTable_cases code with ⟨n, hn⟩ | hn
    · exact absurd (List.mem_map_of_mem (f := (·.1)) hn) h
    · exact hn
  refine ⟨aliasName_fallback code hl, ?_⟩
  intro r hr heq
  have h1 := table_not_fallback_gen r hr
  rw [heq, aliasName_fallback code hl, fallback_isFallbackShaped] at h1
  cases h1

example : (999 : Nat) ∉ Gen.httpExceptionNames.map (·.1) ∧ aliasName 999 = "Error999".toList := by
  decide +kernel

/-- `get_exception_class_name` is injective on all natural numbers: two different statuses never
    get the same class name (table rows, fallbacks, and mixed). -/
theorem alias_name_injective (c c' : Nat) (h : aliasName c = aliasName c') : c = c' :=
  aliasName_injective c c' h

/-- Consequence used by C11's correspondence: a set of codes and the set of its class names
    determine each other. -/
theorem alias_names_nodup_of_codes (codes : List Nat) (h : codes.Nodup) :
    (codes.map aliasName).Nodup := by
  induction codes with
  | nil => simp
  | cons c cs ih =>
    rw [List.nodup_cons] at h
    rw [List.map_cons, List.nodup_cons]
    refine ⟨?_, ih h.2⟩
    intro hm
    obtain ⟨c', hc', he⟩ := List.mem_map.mp hm
    exact h.1 (aliasName_injective c' c he ▸ hc')

example : aliasName 404 = "NotFoundError".toList ∧ aliasName 501 = "HttpNotImplementedError".toList
    ∧ aliasName 599 = "Error599".toList := by decide +kernel


/-! # C06, behavioural half: what the caller observes for a status outside 200-299

  Model: `Pog.GenCode.handle` (Pog/Model/GenCode.lean), tied to the emitted code by `corr_gencode.py`.

  FULL STATEMENT (C06): for every operation and every HTTP status outside 200-299, declared or not, the call never
  returns a value: it raises an instance of the package's `HTTPError` carrying that status code and the response;
  a 4xx status raises a `ClientError`, a 5xx status a `ServerError`.

    bundled transport    : never returns, status + response attached                        (full, `never_returns_non2xx_bundled`)
    bundled transport    : 4xx ↦ `ClientError`, 5xx ↦ `ServerError`                         (full, `bundled_class_by_range`)
    pass-through, declared 4xx/5xx : the status-specific alias, whose base is by range      (full, `passthrough_declared_error_class`)
    pass-through, undeclared status : the class of its range, also under a `default`
                                      response with content (F15, F40 repaired)             (full, `passthrough_undeclared_class_by_range`)
    either transport, every three-digit status outside 200-299, declared or not :
                                      raises, status + response attached, `ClientError` iff
                                      4xx, `ServerError` iff 5xx                            (full, `non2xx_raises_class_by_range`)
    either transport, every operation : never returns a value for such a status             (full, `never_returns_non2xx`)
-/
section behaviour
open Pog.GenCode

/-- With the bundled `HttpxTransport` a status outside 200-299 never ends in a returned value — for EVERY
    operation (importable or not) and every reply; when the module is importable the outcome is the
    transport's own exception carrying the status and the response. -/
theorem never_returns_non2xx_bundled (op : Op) (r : Reply) (h : ¬ (200 ≤ r.status ∧ r.status < 300)) :
    (∀ k, handle .bundled op r ≠ .returned k) ∧
    (moduleOk op = true →
      handle .bundled op r = .raised (bundledClass r.status) r.status true .transport) := by
  have hc : r.status < 200 ∨ r.status ≥ 300 := by omega
  constructor
  · intro k
    unfold handle
    by_cases hm : moduleOk op = true
    · simp [hm, hc]
    · simp [hm]
  · intro hm
    unfold handle
    simp [hm, hc]

/-- The class the bundled transport raises is chosen by range: `ClientError` for 400-499, `ServerError` for
    500-599 (base `HTTPError` for 1xx, 3xx and ≥ 600) — status and response attached. -/
theorem bundled_class_by_range (op : Op) (r : Reply) (hm : moduleOk op = true) :
    (400 ≤ r.status ∧ r.status < 500 →
      handle .bundled op r = .raised .clientError r.status true .transport ∧ ExcCls.clientError.isClient = true) ∧
    (500 ≤ r.status ∧ r.status < 600 →
      handle .bundled op r = .raised .serverError r.status true .transport ∧ ExcCls.serverError.isServer = true) ∧
    (r.status < 200 ∨ (300 ≤ r.status ∧ r.status < 400) ∨ 600 ≤ r.status →
      handle .bundled op r = .raised .httpError r.status true .transport) := by
  refine ⟨?_, ?_, ?_⟩
  · intro h
    have := (never_returns_non2xx_bundled op r (by omega)).2 hm
    rw [this]
    simp [bundledClass, h, ExcCls.isClient]
  · intro h
    have := (never_returns_non2xx_bundled op r (by omega)).2 hm
    rw [this]
    have h1 : ¬ (400 ≤ r.status ∧ r.status < 500) := by omega
    simp [bundledClass, h, h1, ExcCls.isServer]
  · intro h
    have := (never_returns_non2xx_bundled op r (by omega)).2 hm
    rw [this]
    have h1 : ¬ (400 ≤ r.status ∧ r.status < 500) := by omega
    have h2 : ¬ (500 ≤ r.status ∧ r.status < 600) := by omega
    simp [bundledClass, h1, h2]

example : moduleOk ⟨"GET".toList, [.lit "/a".toList], [], none, [⟨.num 200, []⟩]⟩ = true := by decide +kernel

/-- The `match` of the emitted method selects `raise <alias>(response=response)` for a declared 4xx/5xx status. -/
theorem select_declared_error (rs : List Resp) (s : Nat) (hs : 400 ≤ s ∧ s < 600)
    (hd : ∃ x ∈ rs, x.key = .num s) : selectAction rs s = .raiseAlias s := by
  obtain ⟨x, hx, hk⟩ := hd
  have hns := not_starts2_of_error s hs
  have hab : (aliasBase s).isSome = true := by
    rw [Pog.Reg.aliasBase_isSome_iff, Pog.Reg.isErrorCode_iff]
    obtain ⟨_, _, _, _, h5, h6⟩ := Pog.Reg.bounds_gen
    omega
  have hxo : x ∈ otherResponses rs := by
    apply mem_otherResponses hx
    intro p n hp heq
    have := (processedPrimary_spec hp).2.2.1
    rw [← heq, hk, hns] at this
    cases this
  have hxa : otherArm (resolveStrategy rs).isStreaming x = some (s, .raiseAlias s) := by
    rw [otherArm_num hk, hns]; simp [hab]
  have hex : ∃ a ∈ arms rs, a.1 = s := ⟨_, otherArm_mem_arms hxo hxa, rfl⟩
  have hall : ∀ a ∈ arms rs, a.1 = s → a.2 = Action.raiseAlias s := by
    intro a ha has
    rcases mem_arms ha with ⟨p, hp, _⟩ | ⟨y, _, hy⟩
    · have hsp := processedPrimary_spec hp
      have h2 := hsp.2.2.1
      rw [hsp.2.1, has, hns] at h2
      cases h2
    · have hyk := otherArm_code (n := a.1) (a := a.2) hy
      rw [otherArm_num hyk, has, hns] at hy
      simp only [Bool.false_eq_true, if_false, hab, if_true, Option.some.injEq] at hy
      rw [← hy]
  obtain ⟨a, hfa, ha2⟩ := find_arm hex hall
  unfold selectAction
  rw [hfa]
  exact ha2

/-- Pass-through transport, DECLARED 4xx/5xx status: the generated `match` raises the status-specific alias
    class with the status and the response; the alias derives from `ClientError` for 400-499 and from
    `ServerError` for 500-599. -/
theorem passthrough_declared_error_class (op : Op) (r : Reply) (hm : moduleOk op = true)
    (hs : 400 ≤ r.status ∧ r.status < 600) (hd : ∃ x ∈ op.responses, x.key = .num r.status) :
    handle .passthrough op r = .raised (.alias r.status) r.status true .aliasArm ∧
    (r.status < 500 → (ExcCls.alias r.status).isClient = true) ∧
    (500 ≤ r.status → (ExcCls.alias r.status).isServer = true) := by
  refine ⟨?_, ?_, ?_⟩
  · unfold handle
    simp only [hm, Bool.not_true, Bool.false_eq_true, if_false]
    rw [select_declared_error op.responses r.status hs hd]
    rfl
  · intro h
    have := (alias_base_by_range_literal r.status).1 ⟨hs.1, h⟩
    simp [ExcCls.isClient, this]
  · intro h
    have := (alias_base_by_range_literal r.status).2.1 ⟨h, hs.2⟩
    simp [ExcCls.isServer, this]

/-- An operation declaring 200 (a model), 404 and 503. -/
def exDeclared : Op :=
  ⟨"GET".toList, [.lit "/pets/".toList, .var "id".toList], [⟨"id".toList, .path, true, .plain⟩], none,
   [⟨.num 200, [⟨mtJson, .model "Pet".toList⟩]⟩, ⟨.num 404, []⟩, ⟨.num 503, []⟩]⟩

example : moduleOk exDeclared = true ∧ (∃ x ∈ exDeclared.responses, x.key = .num 404) ∧
    handle .passthrough exDeclared ⟨404, none⟩ = .raised (.alias 404) 404 true .aliasArm ∧
    handle .passthrough exDeclared ⟨503, none⟩ = .raised (.alias 503) 503 true .aliasArm := by
  decide +kernel

/-- The class chosen by the `case _:` arms of the emitted `match` (`_write_raise_by_status_range`): `ClientError` for 400-499,
    `ServerError` for 500-599, the base `HTTPError` for everything else. -/
theorem rangeClass_by_range (s : Nat) :
    (400 ≤ s ∧ s < 500 → rangeClass s = .clientError ∧ (rangeClass s).isClient = true) ∧
    (500 ≤ s ∧ s < 600 → rangeClass s = .serverError ∧ (rangeClass s).isServer = true) ∧
    (s < 400 ∨ 600 ≤ s → rangeClass s = .httpError) := by
  refine ⟨?_, ?_, ?_⟩
  · intro h
    simp [rangeClass, h, ExcCls.isClient]
  · intro h
    have h1 : ¬ (400 ≤ s ∧ s < 500) := by omega
    simp [rangeClass, h, h1, ExcCls.isServer]
  · intro h
    have h1 : ¬ (400 ≤ s ∧ s < 500) := by omega
    have h2 : ¬ (500 ≤ s ∧ s < 600) := by omega
    simp [rangeClass, h1, h2]

/-- The arms of the emitted `match` choose the class exactly as the bundled transport does. -/
theorem rangeClass_eq_bundledClass (s : Nat) : rangeClass s = bundledClass s := rfl

/-- The former witness of F15 (pass-through transport, UNDECLARED error status; the catch-all arm raised the BASE
    `HTTPError` for 409 and 500): the catch-all now raises `ClientError` for 409, `ServerError` for 500 and the base
    class for 302, "Unhandled status code" each time. -/
theorem passthrough_undeclared_former_witness :
    handle .passthrough exDeclared ⟨409, none⟩ = .raised .clientError 409 true .unhandledArm ∧
    ExcCls.clientError.isClient = true ∧
    handle .passthrough exDeclared ⟨500, none⟩ = .raised .serverError 500 true .unhandledArm ∧
    ExcCls.serverError.isServer = true ∧
    handle .passthrough exDeclared ⟨302, none⟩ = .raised .httpError 302 true .unhandledArm := by
  decide +kernel

/-- Pass-through transport, a status for which the operation declares no numeric response: the `case _:` arm raises the
    class of the status' range with the status and the response - "Default error" when a `default` response is declared,
    "Unhandled status code" otherwise.  The only undeclared statuses that do not raise are the 2xx ones under a `default`
    response with content (`h2`; F40 repaired: before, that arm returned for EVERY status, and this theorem carried the
    hypothesis `defaultAction op.responses ≠ .retStrategy`). -/
theorem passthrough_undeclared_class_by_range (op : Op) (r : Reply) (hm : moduleOk op = true)
    (hu : ∀ x ∈ op.responses, x.key.code? ≠ some r.status)
    (h2 : ¬ (200 ≤ r.status ∧ r.status < 300) ∨ defaultAction op.responses ≠ .retDefault) :
    handle .passthrough op r = .raised (rangeClass r.status) r.status true
      (if op.responses.any (fun x => x.key.isDefault) then .defaultArm else .unhandledArm) := by
  unfold handle
  simp only [hm, Bool.not_true, Bool.false_eq_true, if_false]
  rw [select_undeclared hu]
  rcases defaultAction_cases op.responses with ⟨hany, hd | hd⟩ | ⟨hany, hd⟩
  · rcases h2 with h2 | h2
    · rw [hd, hany]
      simp [runAction, h2]
    · exact absurd hd h2
  · rw [hd, hany]
    simp [runAction]
  · rw [hd, hany]
    simp [runAction]

/-- An operation with a `default` response that has content. -/
def exDefaultContent : Op :=
  ⟨"GET".toList, [.lit "/pets".toList], [], none,
   [⟨.num 200, [⟨mtJson, .model "Pet".toList⟩]⟩, ⟨.default, [⟨mtJson, .model "Problem".toList⟩]⟩]⟩

/-- The hypotheses of `passthrough_undeclared_class_by_range` are satisfiable: without a `default` response, with one
    without content, and with one WITH content (the class F40 used to exclude). -/
example :
    let op : Op := ⟨"GET".toList, [.lit "/a".toList], [], none, [⟨.num 200, []⟩, ⟨.num 404, []⟩, ⟨.default, []⟩]⟩
    moduleOk op = true ∧ (∀ x ∈ op.responses, x.key.code? ≠ some 503) ∧
    handle .passthrough op ⟨503, none⟩ = .raised .serverError 503 true .defaultArm ∧
    moduleOk exDeclared = true ∧ (∀ x ∈ exDeclared.responses, x.key.code? ≠ some 409) ∧
    moduleOk exDefaultContent = true ∧ (∀ x ∈ exDefaultContent.responses, x.key.code? ≠ some 500) ∧
    defaultAction exDefaultContent.responses = .retDefault := by
  decide +kernel

/-- The former witness of F40 (a declared `default` response WITH content made the `case _:` arm `return` through the
    primary strategy: with a pass-through transport a 500, 404 or 302 reply was RETURNED, parsed as the success type
    `Pet`): these statuses now raise by range, "Default error"; an undeclared 2xx status (201) is still returned. -/
theorem default_with_content_former_witness :
    moduleOk exDefaultContent = true ∧
    handle .passthrough exDefaultContent ⟨500, none⟩ = .raised .serverError 500 true .defaultArm ∧
    handle .passthrough exDefaultContent ⟨404, none⟩ = .raised .clientError 404 true .defaultArm ∧
    handle .passthrough exDefaultContent ⟨302, none⟩ = .raised .httpError 302 true .defaultArm ∧
    handle .passthrough exDefaultContent ⟨201, none⟩ = .returned (.structure (.model "Pet".toList)) := by
  decide +kernel

/-- What is left of the returning `default` arm: when the `case _:` arm is the guarded strategy return, a 2xx status that
    matches no declared numeric arm is returned through the primary strategy (never the missing-import `NameError`) -
    with either transport. -/
theorem default_with_content_returns_undeclared_2xx (t : TransportKind) (op : Op) (r : Reply) (hm : moduleOk op = true)
    (hd : defaultAction op.responses = .retDefault)
    (hu : ∀ x ∈ op.responses, x.key.code? ≠ some r.status)
    (h2 : 200 ≤ r.status ∧ r.status < 300) :
    handle t op r = .returned (strategyRet (resolveStrategy op.responses) r) := by
  have hb : ¬ (r.status < 200 ∨ r.status ≥ 300) := by omega
  unfold handle
  cases t <;>
    simp only [hm, Bool.not_true, Bool.false_eq_true, if_false, hb, select_undeclared hu, hd, runAction, h2, and_self,
      if_true, returnOf_strategy_of_retDefault r hd]

example : defaultAction exDefaultContent.responses = .retDefault ∧
    (∀ x ∈ exDefaultContent.responses, x.key.code? ≠ some 201) := by decide +kernel

/-- `isinstance(e, ClientError)` / `isinstance(e, ServerError)` for the status-specific alias of a DECLARED status that
    has one: exactly by range. -/
theorem alias_class_by_range (s : Nat) (h : (aliasBase s).isSome = true) :
    (ExcCls.alias s).isClient = decide (400 ≤ s ∧ s < 500) ∧ (ExcCls.alias s).isServer = decide (500 ≤ s ∧ s < 600) := by
  obtain ⟨h1, h2, h3⟩ := alias_base_by_range_literal s
  by_cases hc : 400 ≤ s ∧ s < 500
  · have hs : ¬ (500 ≤ s ∧ s < 600) := by omega
    simp [ExcCls.isClient, ExcCls.isServer, h1 hc, hc, hs]
  · by_cases hs : 500 ≤ s ∧ s < 600
    · simp [ExcCls.isClient, ExcCls.isServer, h2 hs, hc, hs]
    · rw [h3 (by omega)] at h
      cases h

/-- The same for the classes the `case _:` arms and the bundled transport choose. -/
theorem rangeClass_class_by_range (s : Nat) :
    (rangeClass s).isClient = decide (400 ≤ s ∧ s < 500) ∧ (rangeClass s).isServer = decide (500 ≤ s ∧ s < 600) := by
  by_cases hc : 400 ≤ s ∧ s < 500
  · have hs : ¬ (500 ≤ s ∧ s < 600) := by omega
    simp [rangeClass, ExcCls.isClient, ExcCls.isServer, hc, hs]
  · by_cases hs : 500 ≤ s ∧ s < 600
    · simp [rangeClass, ExcCls.isClient, ExcCls.isServer, hc, hs]
    · simp [rangeClass, ExcCls.isClient, ExcCls.isServer, hc, hs]

/-- Pass-through transport, the emitted `match` alone: a status that the GENERATOR does not treat as 2xx (its decimal
    string does not start with `2`: `hns`) and that is not in 200-299 raises - declared (its own arm: the alias class or,
    for 1xx/3xx, the base class) or not (the `case _:` arm) - with the status and the response attached; the exception is
    a `ClientError` exactly for 400-499 and a `ServerError` exactly for 500-599. -/
theorem passthrough_non2xx_raises_class_by_range (op : Op) (r : Reply) (hm : moduleOk op = true)
    (hns : (StatusKey.num r.status).starts2 = false) (h2 : ¬ (200 ≤ r.status ∧ r.status < 300)) :
    ∃ cls why, handle .passthrough op r = .raised cls r.status true why ∧
      cls.isClient = decide (400 ≤ r.status ∧ r.status < 500) ∧
      cls.isServer = decide (500 ≤ r.status ∧ r.status < 600) := by
  by_cases hd : ∃ x ∈ op.responses, x.key = .num r.status
  · have hsel := select_declared_non2 op.responses r.status hns hd
    by_cases hab : (aliasBase r.status).isSome = true
    · refine ⟨.alias r.status, .aliasArm, ?_, alias_class_by_range r.status hab⟩
      unfold handle
      simp only [hm, Bool.not_true, Bool.false_eq_true, if_false, hsel, hab, if_true, runAction]
    · have hnone : aliasBase r.status = none := by
        cases h : aliasBase r.status with
        | none => rfl
        | some b => rw [h] at hab; exact absurd rfl hab
      have hout : r.status < 400 ∨ 600 ≤ r.status := by
        obtain ⟨h1, h2', _⟩ := alias_base_by_range_literal r.status
        by_cases hc : 400 ≤ r.status ∧ r.status < 500
        · rw [h1 hc] at hnone; cases hnone
        · by_cases hs : 500 ≤ r.status ∧ r.status < 600
          · rw [h2' hs] at hnone; cases hnone
          · omega
      have hc : ¬ (400 ≤ r.status ∧ r.status < 500) := by omega
      have hs : ¬ (500 ≤ r.status ∧ r.status < 600) := by omega
      refine ⟨.httpError, .unhandledArm, ?_, ?_, ?_⟩
      · unfold handle
        simp only [hm, Bool.not_true, Bool.false_eq_true, if_false, hsel, hab, runAction]
      · simp [ExcCls.isClient, hc]
      · simp [ExcCls.isServer, hs]
  · have hu : ∀ x ∈ op.responses, x.key.code? ≠ some r.status := by
      intro x hx hk
      apply hd
      refine ⟨x, hx, ?_⟩
      cases hkey : x.key with
      | num n => rw [hkey] at hk; simp only [StatusKey.code?, Option.some.injEq] at hk; rw [hk]
      | default => rw [hkey] at hk; cases hk
      | other s => rw [hkey] at hk; cases hk
    exact ⟨_, _, passthrough_undeclared_class_by_range op r hm hu (Or.inl h2), rangeClass_class_by_range r.status⟩

/-- **C06, behavioural half, in full**: for every operation whose module imports, either transport and every three-digit
    status outside 200-299 - declared or not, `default` response or not - the call RAISES an exception of the package
    carrying that status code and the response; it is a `ClientError` exactly for 400-499 and a `ServerError` exactly for
    500-599 (F14, F15, F40 repaired).  "Three-digit" is the domain of HTTP status codes; the generator recognises a 2xx key
    by its first character, see the example below. -/
theorem non2xx_raises_class_by_range (t : TransportKind) (op : Op) (r : Reply) (hm : moduleOk op = true)
    (h3 : 100 ≤ r.status ∧ r.status < 1000) (h2 : ¬ (200 ≤ r.status ∧ r.status < 300)) :
    ∃ cls why, handle t op r = .raised cls r.status true why ∧
      cls.isClient = decide (400 ≤ r.status ∧ r.status < 500) ∧
      cls.isServer = decide (500 ≤ r.status ∧ r.status < 600) := by
  cases t with
  | passthrough => exact passthrough_non2xx_raises_class_by_range op r hm (not_starts2_of_3digits r.status h3 h2) h2
  | bundled =>
    refine ⟨bundledClass r.status, .transport, (never_returns_non2xx_bundled op r h2).2 hm, ?_⟩
    rw [← rangeClass_eq_bundledClass]
    exact rangeClass_class_by_range r.status

/-- … and for EVERY operation (importable or not) such a status never ends in a returned value. -/
theorem never_returns_non2xx (t : TransportKind) (op : Op) (r : Reply)
    (h3 : 100 ≤ r.status ∧ r.status < 1000) (h2 : ¬ (200 ≤ r.status ∧ r.status < 300)) :
    ∀ k, handle t op r ≠ .returned k := by
  intro k
  by_cases hm : moduleOk op = true
  · obtain ⟨cls, why, h, _⟩ := non2xx_raises_class_by_range t op r hm h3 h2
    rw [h]
    intro h'
    cases h'
  · unfold handle
    simp [hm]

/-- The hypotheses are satisfiable - and the three-digit bound is needed: a response declared under the key `2000` is a
    "2xx" response for the generator (the key starts with `2`), so a status 2000, which no HTTP server can send, is returned. -/
example : moduleOk exDefaultContent = true ∧
    handle .passthrough exDefaultContent ⟨999, none⟩ = .raised .httpError 999 true .defaultArm ∧
    handle .passthrough ⟨"GET".toList, [.lit "/a".toList], [], none, [⟨.num 2000, []⟩]⟩ ⟨2000, none⟩ = .returned .none := by
  decide +kernel

end behaviour

end Pog.C06
