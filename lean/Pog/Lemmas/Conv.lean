import Pog.Lemmas.ConvEq
/-
  Lemmas about M-conv: unfolding equations of `structF`, the union strategy, the dataclass hook.
-/
namespace Pog

/-! ## unfolding -/

theorem structF_union (c : Codecs) (n : Nat) (decls : Decls) (args : List Ty) (disc : Option Disc) (j : JsonV) :
    structF c (n + 1) decls (.union args disc) j = structUnion (structF c n decls) args disc j := by
  simp [structF, resolvable]

theorem structF_optional (c : Codecs) (n : Nat) (decls : Decls) (t : Ty) (j : JsonV) :
    structF c (n + 1) decls (.optional t) j = structUnion (structF c n decls) [t, .none] none j := by
  simp [structF, resolvable]

theorem structF_dc (c : Codecs) (n : Nat) (decls : Decls) (name : Str) (j : JsonV) :
    structF c (n + 1) decls (.dc name) j = structClass (structF c n decls) decls name j := by
  simp [structF, resolvable]

theorem structF_list (c : Codecs) (n : Nat) (decls : Decls) (t : Ty) (j : JsonV) :
    structF c (n + 1) decls (.list t) j =
      if resolvable t then structList (structF c n decls t) j else .error (.leaf .unsupported) := by
  by_cases h : resolvable t = true <;> simp [structF, resolvable, h]

theorem structF_dict (c : Codecs) (n : Nat) (decls : Decls) (t : Ty) (j : JsonV) :
    structF c (n + 1) decls (.dict t) j =
      if resolvable t then structDict (structF c n decls t) j else .error (.leaf .unsupported) := by
  by_cases h : resolvable t = true <;> simp [structF, resolvable, h]

/-! ## the dataclass hook -/

/-- A successful dataclass hook returns an instance of exactly that class. -/
theorem structClass_ok_inst (rec : Ty → JsonV → Except SErr Val) (decls : Decls) (name : Str) (j : JsonV) (v : Val)
    (h : structClass rec decls name j = .ok v) : ∃ fs, v = .inst name fs := by
  unfold structClass at h
  split at h
  · cases h
  · split at h
    · cases h
    · split at h
      · cases h
      · split at h
        · cases h
        · split at h
          · cases h; exact ⟨_, rfl⟩
          · cases h

theorem structF_dc_ok_inst (c : Codecs) (n : Nat) (decls : Decls) (name : Str) (j : JsonV) (v : Val)
    (h : structF c n decls (.dc name) j = .ok v) : ∃ fs, v = .inst name fs := by
  cases n with
  | zero => simp [structF] at h
  | succ n => rw [structF_dc] at h; exact structClass_ok_inst _ _ _ _ _ h

/-! ## `_structure_union` -/

theorem aget_nil_none {α : Type} (k : Str) : aget ([] : List (Str × α)) k = none := rfl

/-- Discriminator present and mapped: the mapped class decides alone. -/
theorem structUnion_disc_mapped (rec : Ty → JsonV → Except SErr Val) (args : List Ty) (d : Disc)
    (kvs : List (Str × JsonV)) (m : List (Str × Str)) (s variant : Str)
    (hm : d.mapping = some m) (hp : aget kvs d.prop = some (.str s)) (hv : aget m s = some variant) :
    structUnion rec args (some d) (.obj kvs) =
      match rec (.dc variant) (.obj kvs) with
      | .ok v => .ok v
      | .error _ => .error (.leaf (.discFailed variant)) := by
  cases m with
  | nil => simp [aget] at hv
  | cons kv rest =>
    simp only [structUnion, hp, hm, hv]
    cases rec (.dc variant) (.obj kvs) <;> rfl

/-- Discriminator present, mapping non-empty, value not a key of it. -/
theorem structUnion_disc_unmapped (rec : Ty → JsonV → Except SErr Val) (args : List Ty) (d : Disc)
    (kvs : List (Str × JsonV)) (m : List (Str × Str)) (dv : JsonV)
    (hm : d.mapping = some m) (hne : m ≠ []) (hp : aget kvs d.prop = some dv)
    (hun : ∀ s, dv = .str s → aget m s = none) :
    structUnion rec args (some d) (.obj kvs) =
      .error (.leaf (match dv with | .arr _ => .unhashable | .obj _ => .unhashable | _ => .discUnknown)) := by
  cases m with
  | nil => exact absurd rfl hne
  | cons kv rest =>
    cases dv with
    | str s => simp only [structUnion, hp, hm, hun s rfl]
    | null => simp only [structUnion, hp, hm]
    | bool b => simp only [structUnion, hp, hm]
    | int i => simp only [structUnion, hp, hm]
    | arr xs => simp only [structUnion, hp, hm]
    | obj xs => simp only [structUnion, hp, hm]

/-- Without a usable mapping, or without the property in the payload, the metadata is ignored. -/
theorem structUnion_disc_ignored (rec : Ty → JsonV → Except SErr Val) (args : List Ty) (d : Disc) (j : JsonV)
    (h : d.mapping = none ∨ d.mapping = some [] ∨ (∀ kvs, j = .obj kvs → aget kvs d.prop = none)) :
    structUnion rec args (some d) j = structUnion rec args none j := by
  cases j with
  | obj kvs =>
    rcases h with h | h | h
    · cases hp : aget kvs d.prop <;> simp [structUnion, hp, h]
    · cases hp : aget kvs d.prop <;> simp [structUnion, hp, h]
    · simp [structUnion, h kvs rfl]
  | null => simp [structUnion]
  | bool b => simp [structUnion]
  | int i => simp [structUnion]
  | str s => simp [structUnion]
  | arr xs => simp [structUnion]

theorem firstOk_append_of_fail (rec : Ty → JsonV → Except SErr Val) (j : JsonV) (pre : List Ty) (t : Ty) (v : Val)
    (post : List Ty) (hpre : ∀ u ∈ pre, ∃ e, rec u j = .error e) (h : rec t j = .ok v) :
    firstOk rec j (pre ++ t :: post) = some v := by
  induction pre with
  | nil => simp [firstOk, h]
  | cons u us ih =>
    obtain ⟨e, he⟩ := hpre u (by simp)
    simp only [List.cons_append, firstOk, he]
    exact ih (fun w hw => hpre w (by simp [hw]))

theorem firstOk_none_of_fail (rec : Ty → JsonV → Except SErr Val) (j : JsonV) (ts : List Ty)
    (h : ∀ u ∈ ts, ∃ e, rec u j = .error e) : firstOk rec j ts = none := by
  induction ts with
  | nil => rfl
  | cons u us ih =>
    obtain ⟨e, he⟩ := h u (by simp)
    simp only [firstOk, he]
    exact ih (fun w hw => h w (by simp [hw]))

/-- No discriminator, dict payload: the first dataclass variant (in declaration order) that accepts wins. -/
theorem structUnion_obj_first_dc (rec : Ty → JsonV → Except SErr Val) (args : List Ty) (kvs : List (Str × JsonV))
    (pre post : List Ty) (t : Ty) (v : Val)
    (hsplit : args.filter isDcTy = pre ++ t :: post)
    (hpre : ∀ u ∈ pre, ∃ e, rec u (.obj kvs) = .error e) (h : rec t (.obj kvs) = .ok v) :
    structUnion rec args none (.obj kvs) = .ok v := by
  simp [structUnion, isObj, hsplit, firstOk_append_of_fail rec _ pre t v post hpre h]

/-- No discriminator, non-dict non-null payload: the first of the remaining variants that accepts wins. -/
theorem structUnion_scalar_first_other (rec : Ty → JsonV → Except SErr Val) (args : List Ty) (j : JsonV)
    (pre post : List Ty) (t : Ty) (v : Val)
    (hj : isObj j = false) (hnull : j ≠ .null)
    (hsplit : args.filter isOtherVariant = pre ++ t :: post)
    (hpre : ∀ u ∈ pre, ∃ e, rec u j = .error e) (h : rec t j = .ok v) :
    structUnion rec args none j = .ok v := by
  cases j with
  | null => exact absurd rfl hnull
  | obj kvs => simp [isObj] at hj
  | bool b => simp [structUnion, isObj, hsplit, firstOk_append_of_fail rec _ pre t v post hpre h]
  | int i => simp [structUnion, isObj, hsplit, firstOk_append_of_fail rec _ pre t v post hpre h]
  | str s => simp [structUnion, isObj, hsplit, firstOk_append_of_fail rec _ pre t v post hpre h]
  | arr xs => simp [structUnion, isObj, hsplit, firstOk_append_of_fail rec _ pre t v post hpre h]

theorem firstOk_some (rec : Ty → JsonV → Except SErr Val) (j : JsonV) (ts : List Ty) (v : Val)
    (h : firstOk rec j ts = some v) : ∃ t ∈ ts, rec t j = .ok v := by
  induction ts with
  | nil => simp [firstOk] at h
  | cons u us ih =>
    unfold firstOk at h
    split at h
    · rename_i w hw
      cases h
      exact ⟨u, by simp, hw⟩
    · obtain ⟨t, ht, hr⟩ := ih h
      exact ⟨t, by simp [ht], hr⟩

/-- `_structure_union` never invents: a successful result is `None` for a `null` payload of a union listing `NoneType`,
    the result of ONE member (or of the class the discriminator maps to) on the whole payload, or the payload itself
    when `dict[str, Any]` is a member. -/
theorem structUnion_ok_cases (rec : Ty → JsonV → Except SErr Val) (args : List Ty) (disc : Option Disc) (j : JsonV) (v : Val)
    (h : structUnion rec args disc j = .ok v) :
    (j = .null ∧ v = .none ∧ args.any isNoneTy = true)
    ∨ (∃ t ∈ args, rec t j = .ok v)
    ∨ (∃ d m s variant kvs, disc = some d ∧ j = .obj kvs ∧ d.mapping = some m ∧ aget kvs d.prop = some (.str s)
          ∧ aget m s = some variant ∧ rec (.dc variant) j = .ok v)
    ∨ (args.any isDictAny = true ∧ isObj j = true ∧ v = Val.ofJson j) := by
  have mem_filter : ∀ (p : Ty → Bool) (t : Ty), t ∈ args.filter p → t ∈ args := fun p t ht => (List.mem_filter.mp ht).1
  unfold structUnion at h
  split at h
  · split at h
    · rename_i hn; cases h; exact .inl ⟨rfl, rfl, hn⟩
    · cases h
  · rename_i hnn
    simp only at h
    split at h
    · -- via discriminator
      rename_i r hr
      split at hr
      · rename_i d kvs
        split at hr
        · cases hr
        · rename_i dv hdv
          split at hr
          · cases hr
          · cases hr
          · rename_i m hm1 hm2
            split at hr
            · cases hr; cases h
            · cases hr; cases h
            · rename_i s
              split at hr
              · rename_i variant hv
                split at hr
                · rename_i w hw
                  cases hr; cases h
                  exact .inr (.inr (.inl ⟨d, m, s, variant, kvs, rfl, rfl, by assumption, hdv, hv, hw⟩))
                · cases hr; cases h
              · cases hr; cases h
            · cases hr; cases h
      · cases hr
    · split at h
      · rename_i r hr
        split at hr
        · rename_i hobj
          split at hr
          · rename_i w hw
            cases hr; cases h
            obtain ⟨t, ht, hrt⟩ := firstOk_some rec j _ _ hw
            exact .inr (.inl ⟨t, mem_filter _ t ht, hrt⟩)
          · split at hr
            · rename_i hfb
              cases hr; cases h
              exact .inr (.inr (.inr ⟨hfb, hobj, rfl⟩))
            · split at hr
              · cases hr; cases h
              · cases hr
        · cases hr
      · split at h
        · rename_i w hw
          cases h
          obtain ⟨t, ht, hrt⟩ := firstOk_some rec j _ _ hw
          exact .inr (.inl ⟨t, mem_filter _ t ht, hrt⟩)
        · split at h
          · rename_i hfb
            cases h
            simp only [Bool.and_eq_true] at hfb
            exact .inr (.inr (.inr ⟨hfb.1, hfb.2, rfl⟩))
          · cases h

end Pog
