import Pog.Model.Surface
/-
  M-clientgen: `ClientVisitor` (src/pyopenapi_gen/visit/client_visitor.py) — the three classes of the generated
  `client.py` / `mocks/mock_client.py` as DATA (a skeleton), not as text.

    visit (26-72)                           `tagTuplesRaw` / `tagTuples`: tag candidates per `normalize_tag_key`, canonical tag
                                            `max(candidates, key=tag_score)`, `for key in sorted(tag_map)`;
                                            the grouping itself is `Pog.tagMapVisitor` (Pog/Model/Surface.lean), re-used.
    generate_client_protocol (256-334)      `protocolSkel`, `protocolImportReqs`
    _generate_client_implementation (74-254) `apiClientSkel`, `implImportReqs`
    generate_client_mock_class (336-477)    `mockClientSkel`, `mockImportReqs`, `mockTextImports`; its `tag_tuples` argument is built by
                                            `MocksEmitter.emit` (emitters/mocks_emitter.py) from its own grouping → `mockTuples`
                                            (= `Pog.groupMocks`); since the repair of F23 that grouping is the endpoints emitter's in
                                            the order of the keys, so the list equals the visitor's (`mockTuples_eq_tagTuples`).

  A tag tuple is `(tag, class_name, module_name)` in the order of the Python tuple.

  F64 repaired: the NAME under which a tag client is exposed (property, private attribute `_<name>`, keyword of
  `MockAPIClient.__init__`) is `_tag_attr_name(module_name)` = `tagAttr`: the module name, with a trailing underscore when it
  (or `_` + it) is one of the names the three classes define themselves (`_OWN_MEMBER_NAMES` = `ownMembers`).  The import
  paths keep the module name.  (`Pog.clientProps` / `Pog.mockClientProps` of Pog/Model/Surface.lean list the MODULE names of
  the tuples in property order - the third components - not the attribute names.)

  What is abstracted: the text of docstrings and of method bodies (fixed strings, except the tag name inside a docstring).
  `visitSyntaxOk` / `mockSyntaxOk` are a DESCRIPTION of CPython's compiler for the emitted shape (TRUSTED, checked by the
  correspondence on ASCII module names): the text compiles iff every module name and every attribute name (`tagAttr`) is an
  identifier that is no keyword,
  `MockAPIClient.__init__` has a non-empty body and no duplicate parameter.  Tags that break the DOCSTRING they are quoted in
  (`"""`, a trailing backslash, a line break) are outside this description (the docstring text is not modelled); non-ASCII
  module names (`用户` is a valid Python identifier, `isPyIdent` is ASCII-only) are not compared by the correspondence.
  `propSurvives` describes Python's class-body semantics (a later binding of the same name replaces the property); checked by
  executing the generated class statements with stub tag clients.
-/
namespace Pog.ClientGen
open Pog

/-- `(tag, class_name, module_name)` -/
abbrev TagTuple := Str × Str × Str

def TagTuple.tag (t : TagTuple) : Str := t.1
def TagTuple.cls (t : TagTuple) : Str := t.2.1
def TagTuple.module (t : TagTuple) : Str := t.2.2

/-- The operations as the grouping model sees them (operation ids play no role in `client.py`). -/
def opsOfTags (tagss : List (List Str)) : List TagOp := tagss.map fun ts => ⟨[], ts⟩

/-- `(tag_map[key], sanitize_class_name(tag_map[key]) + "Client", sanitize_module_name(tag_map[key]))` -/
def mkTuple (u : UInfo) (t : Str) : TagTuple := (t, sanClass t ++ kClientSuffix, sanModule u t)

/-- `ClientVisitor.visit`, step 1, with its two partial operations explicit:
    `none` = `max([])` raised `ValueError` or `tag_map[key]` raised `KeyError`. -/
def tagTuplesRaw (u : UInfo) (tagss : List (List Str)) : Option (List TagTuple) :=
  match tagMapVisitor u (opsOfTags tagss) with
  | none => none
  | some tm => (sortKeys (tm.map (·.1))).mapM fun k => (tagDictGet tm k).map (mkTuple u)

/-- The same, total (`Pog.ClientGen.tagTuplesRaw_eq` : `tagTuplesRaw u tagss = some (tagTuples u tagss)`). -/
def tagTuples (u : UInfo) (tagss : List (List Str)) : List TagTuple :=
  let tm := tagMapEmitter u (opsOfTags tagss)
  (sortKeys (tm.map (·.1))).filterMap fun k => (tagDictGet tm k).map (mkTuple u)

/-- The canonical tag of a normalised key (`tag_map[key]`; `default` for a key that does not occur). -/
def canonicalTag (u : UInfo) (tagss : List (List Str)) (key : Str) : Str :=
  (tagDictGet (tagMapEmitter u (opsOfTags tagss)) key).getD kDefaultTag

/-- `op.tags or ["default"]` -/
def tagsOr (ts : List Str) : List Str := if ts.isEmpty then [kDefaultTag] else ts

/-- `MocksEmitter.emit`: the `tag_tuples` handed to `generate_client_mock_class`. -/
def mockTuples (u : UInfo) (tagss : List (List Str)) : List TagTuple :=
  (groupMocks u (opsOfTags tagss)).map fun g => (g.canon, g.cls, g.module)

/-! ## The skeleton of a class -/

structure ClassSkel where
  name : Str
  bases : List Str
  /-- has an `__init__` -/
  hasInit : Bool
  /-- parameter names of `__init__`, `self` included -/
  initParams : List Str
  /-- the instance attributes assigned in `__init__` (`self.<attr> = …`), in order -/
  attrs : List Str
  /-- `__init__` has no statement at all (the text is then a `SyntaxError`) -/
  initBodyEmpty : Bool
  /-- `@property def <name>(self) -> <returned class>` in order -/
  props : List (Str × Str)
  /-- the other `def`s of the class body, in order -/
  methods : List Str
  deriving DecidableEq, Repr

/- The constants are spelled as character lists: `"…".toList` does not reduce under `simp`/`whnf`. -/
def kProtocolSuffix : Str := ['P','r','o','t','o','c','o','l']
def kMockPrefix : Str := ['M','o','c','k']

def kRequest : Str := ['r','e','q','u','e','s','t']
def kClose : Str := ['c','l','o','s','e']
def kAenter : Str := ['_','_','a','e','n','t','e','r','_','_']
def kAexit : Str := ['_','_','a','e','x','i','t','_','_']
def kInit : Str := ['_','_','i','n','i','t','_','_']
def kConfig : Str := ['c','o','n','f','i','g']
def kTransport : Str := ['t','r','a','n','s','p','o','r','t']
def kBaseUrl : Str := ['_','b','a','s','e','_','u','r','l']
def kSelf : Str := ['s','e','l','f']

/-- `request`, `close`, `__aenter__`, `__aexit__` — written after the properties in all three classes. -/
def fixedMethods : List Str := [kRequest, kClose, kAenter, kAexit]

/-- `self.config`, `self.transport`, `self._base_url` -/
def fixedAttrs : List Str := [kConfig, kTransport, kBaseUrl]

/-- `ClientVisitor._OWN_MEMBER_NAMES`: the instance attributes, the methods and the receiver of `MockAPIClient.__init__`. -/
def ownMembers : List Str := [kConfig, kTransport, kBaseUrl, kRequest, kClose, kAenter, kAexit, kInit, kSelf]

/-- `ClientVisitor._tag_attr_name`: `module_name + "_"` when `module_name` or `"_" + module_name` is an own member. -/
def tagAttr (m : Str) : Str :=
  if ownMembers.contains m || ownMembers.contains ('_' :: m) then m ++ ['_'] else m

/-- `self._<attr_name>` -/
def privAttr (m : Str) : Str := '_' :: m

/-- `generate_client_protocol` -/
def protocolSkel (tt : List TagTuple) : ClassSkel :=
  { name := "APIClientProtocol".toList
    bases := ["Protocol".toList]
    hasInit := false
    initParams := []
    attrs := []
    initBodyEmpty := false
    props := tt.map fun t => (tagAttr t.module, t.cls ++ kProtocolSuffix)
    methods := fixedMethods }

/-- `_generate_client_implementation` -/
def apiClientSkel (tt : List TagTuple) : ClassSkel :=
  { name := "APIClient".toList
    bases := ["APIClientProtocol".toList]
    hasInit := true
    initParams := [kSelf, kConfig, kTransport]
    attrs := fixedAttrs ++ tt.map fun t => privAttr (tagAttr t.module)
    initBodyEmpty := false
    props := tt.map fun t => (tagAttr t.module, t.cls)
    methods := fixedMethods }

/-- `generate_client_mock_class` -/
def mockClientSkel (tt : List TagTuple) : ClassSkel :=
  { name := "MockAPIClient".toList
    bases := []
    hasInit := true
    initParams := kSelf :: tt.map fun t => tagAttr t.module
    attrs := tt.map fun t => privAttr (tagAttr t.module)
    -- F31 repaired: without tag clients the constructor body is the single statement `pass`
    initBodyEmpty := false
    props := tt.map fun t => (tagAttr t.module, t.cls ++ kProtocolSuffix)
    methods := fixedMethods }

/-- The default value of the `i`-th keyword of `MockAPIClient.__init__`: `Mock<Class>()`. -/
def mockDefaults (tt : List TagTuple) : List Str := tt.map fun t => kMockPrefix ++ t.cls

/-! ## Import requests -/

/-- One call on the render context, in program order. -/
inductive ImportReq
  | relative (module name : Str)   -- `context.import_collector.add_relative_import(module, name)`
  | logical (module name : Str)    -- `context.add_import(module, name)`
  | typing (ty : Str)              -- `context.add_typing_imports_for_type(ty)`
  deriving DecidableEq, Repr

def kEndpointsDot : Str := ".endpoints.".toList

def excTypings : List ImportReq :=
  [.typing "type[BaseException] | None".toList, .typing "BaseException | None".toList, .typing "object | None".toList]

/-- `generate_client_protocol` -/
def protocolImportReqs : List ImportReq :=
  [.typing "Protocol".toList, .logical "typing".toList "runtime_checkable".toList, .typing "Any".toList] ++ excTypings

def coreReqs (core : Str) : List ImportReq :=
  [.logical (core ++ ".http_transport".toList) "HttpTransport".toList,
   .logical (core ++ ".http_transport".toList) "HttpxTransport".toList,
   .logical (core ++ ".config".toList) "ClientConfig".toList]

/-- The import of the `@property` loop: `pkg` = `context.get_current_package_name_for_generated_code()`
    (`none` = `None`; the empty string is falsy as well). -/
def propImportReq (pkg : Option Str) (t : TagTuple) : ImportReq :=
  match pkg with
  | some p => if p.isEmpty then .logical ("endpoints.".toList ++ t.module) t.cls
              else .logical (p ++ kEndpointsDot ++ t.module) t.cls
  | none => .logical ("endpoints.".toList ++ t.module) t.cls

/-- `_generate_client_implementation` (`core` = `context.core_package_name`). -/
def implImportReqs (core : Str) (pkg : Option Str) (tt : List TagTuple) : List ImportReq :=
  tt.flatMap (fun t => [.relative (kEndpointsDot ++ t.module) t.cls,
                        .relative (kEndpointsDot ++ t.module) (t.cls ++ kProtocolSuffix)])
  ++ coreReqs core
  ++ [.logical (core ++ ".auth.plugins".toList) "ApiKeyAuth".toList,
      .typing "HttpTransport | None".toList, .typing "Any".toList, .typing "Dict".toList]
  ++ tt.map (fun t => .typing (t.cls ++ " | None".toList))
  ++ tt.map (propImportReq pkg)
  ++ [.typing "Any".toList, .typing "None".toList] ++ excTypings
  ++ coreReqs core

/-- `visit`: the protocol is generated first. -/
def visitImportReqs (core : Str) (pkg : Option Str) (tt : List TagTuple) : List ImportReq :=
  protocolImportReqs ++ implImportReqs core pkg tt

/-- `generate_client_mock_class`: requests on the context … -/
def mockImportReqs : List ImportReq :=
  [.logical "typing".toList "TYPE_CHECKING".toList, .logical "typing".toList "Any".toList]

/-- … and the import statements it writes itself: (under `if TYPE_CHECKING:`, module, name). -/
def mockTextImports (tt : List TagTuple) : List (Bool × Str × Str) :=
  (true, "..client".toList, "APIClientProtocol".toList)
    :: tt.map (fun t => (true, "..endpoints.".toList ++ t.module, t.cls ++ kProtocolSuffix))
  ++ tt.map (fun t => (false, ".endpoints.mock_".toList ++ t.module, kMockPrefix ++ t.cls))

/-- The endpoint modules `client.py` imports from, as `(module, name)` pairs. -/
def endpointImports (tt : List TagTuple) : List (Str × Str) :=
  tt.flatMap fun t => [(kEndpointsDot ++ t.module, t.cls), (kEndpointsDot ++ t.module, t.cls ++ kProtocolSuffix)]

/-! ## Does the text compile?  (trusted description of CPython, see the header) -/

def allDistinct : List Str → Bool
  | [] => true
  | x :: xs => !xs.contains x && allDistinct xs

/-- `client.py` (Protocol + APIClient): `def <attr>(self)`, `self._<attr>`, `from .endpoints.<module> import …`. -/
def visitSyntaxOk (tt : List TagTuple) : Bool :=
  tt.all fun t => isValidPyIdentifier t.module && isValidPyIdentifier (tagAttr t.module)

/-- `mock_client.py`: additionally the body of `__init__` must not be empty and its parameters (`self` included) must be
    pairwise distinct (`SyntaxError: duplicate argument`). -/
def mockSyntaxOk (tt : List TagTuple) : Bool :=
  !(mockClientSkel tt).initBodyEmpty &&
    tt.all (fun t => isValidPyIdentifier t.module && isValidPyIdentifier (tagAttr t.module)) &&
    allDistinct (mockClientSkel tt).initParams

/-! ## What Python makes of the class body -/

/-- The names bound in the class namespace by the body, in order (`__init__`, properties, methods). -/
def bodyNames (s : ClassSkel) : List Str :=
  (if s.hasInit then [kInit] else []) ++ s.props.map (·.1) ++ s.methods

/-- A property is still a property of the finished class iff no LATER definition of the body re-binds its name:
    position `i` of `props` survives. -/
def propSurvives (s : ClassSkel) (i : Nat) : Bool :=
  match s.props[i]? with
  | none => false
  | some p => !((s.props.drop (i + 1)).map (·.1)).contains p.1 && !s.methods.contains p.1

end Pog.ClientGen
