#!/venv/bin/python
"""C06 (table part) — status code -> exception class: Lean tables/model vs `core/http_status_codes.py` and the emitted
alias classes.

run():    `get_exception_class_name`, `is_error_code`, `is_client_error`, `is_server_error` for EVERY code 0..799 plus
          seeded random larger codes vs `aliasName` / `isErrorCode` / `isClientError` / `isServerError`; the base class the
          if/elif/continue of the generator picks vs `aliasBase`; and, through the REAL `ExceptionsEmitter.emit`, the name
          and base class of every alias class actually written to `exception_aliases.py` (all codes 0..799 declared,
          in seeded random chunks) vs `aliasName` / `aliasBase` of the codes `specCodes` keeps.
oracle(): returns zero evaluations — the end-to-end oracle of C06 (what a generated client raises) lives with the
          gencode/http work packages.
Importable: no work and no `pyopenapi_gen` import at module import time.
"""
from __future__ import annotations

import ast
import contextlib
import json
import os
import random
import shutil
import subprocess
import sys
import tempfile

DEFAULT_DRIVER = "/verif/lean/.lake/build/bin/driver"
FNS = ["aliasName", "aliasBase", "isErrorCode", "isClientError", "isServerError"]

RULE = (
    "every status code 0..799, the codes 1000, 4040, 10**9, 2**64+404 and int(5000*scale) seeded random codes below 10**7 "
    "are put through get_exception_class_name / is_error_code / is_client_error / is_server_error and the model "
    "(5 comparisons per code); then the codes 0..799 are shuffled (seed) into chunks of 1-60 codes, each chunk is the "
    "response set of a spec emitted by the real ExceptionsEmitter, and every class of the written exception_aliases.py "
    "(name, base class, order, __all__) is compared with aliasName/aliasBase over specCodes(chunk).  A code is "
    "NON-TRIVIAL when it has a row in HTTP_EXCEPTION_NAMES or lies in an error range (is_error_code); distinct codes are "
    "counted."
)


def _drive(driver: str, reqs: list) -> list:
    if not reqs:
        return []
    inp = "".join(json.dumps({"f": f, "a": list(a)}) + "\n" for f, *a in reqs)
    p = subprocess.run([driver], input=inp, capture_output=True, text=True, timeout=600)
    lines = p.stdout.splitlines()
    assert len(lines) == len(reqs), (len(lines), len(reqs), p.stderr[-2000:])
    res = [json.loads(x) for x in lines]
    for q, r in zip(reqs, res):
        if isinstance(r, dict) and "error" in r:
            raise RuntimeError(f"driver error {q}: {r['error']}")
    return res


@contextlib.contextmanager
def _scratch(tag: str):
    base = os.environ.get("VERIF_SCRATCH_DIR", "/tmp")
    os.makedirs(base, exist_ok=True)
    d = os.path.realpath(tempfile.mkdtemp(prefix=f"corr_c06_{tag}_", dir=base))
    old_env, old_td = os.environ.get("TMPDIR"), tempfile.tempdir
    os.makedirs(os.path.join(d, "tmp"))
    os.environ["TMPDIR"] = os.path.join(d, "tmp")
    tempfile.tempdir = os.path.join(d, "tmp")
    try:
        yield d
    finally:
        tempfile.tempdir = old_td
        if old_env is None:
            os.environ.pop("TMPDIR", None)
        else:
            os.environ["TMPDIR"] = old_env
        shutil.rmtree(d, ignore_errors=True)


def _parse_alias_file(path):
    tree = ast.parse(open(path).read())
    classes = [(n.name, [ast.unparse(b) for b in n.bases]) for n in tree.body if isinstance(n, ast.ClassDef)]
    all_list = None
    for n in tree.body:
        if isinstance(n, ast.Assign) and any(isinstance(t, ast.Name) and t.id == "__all__" for t in n.targets):
            all_list = ast.literal_eval(n.value)
    return classes, all_list


def run(seed: int, scale: float, driver: str) -> dict:
    from pyopenapi_gen import HTTPMethod, IROperation, IRResponse, IRSpec
    from pyopenapi_gen.core import http_status_codes as hsc
    from pyopenapi_gen.emitters.exceptions_emitter import ExceptionsEmitter

    rng = random.Random(seed)
    comparisons = 0
    disagreements: list = []
    dist = {"codes": 0, "table_row": 0, "fallback_name": 0, "renamed": 0, "base_ClientError": 0, "base_ServerError": 0,
            "base_none": 0, "emitted_specs": 0, "emitted_classes": 0}

    def disagree(label, request, model, impl):
        disagreements.append({"label": label, "request": request, "model": model, "impl": impl})

    codes = list(range(0, 800)) + [1000, 4040, 10**9, 2**64 + 404]
    codes += [rng.randrange(800, 10**7) for _ in range(max(0, int(5000 * scale)))]
    order = list(range(0, 800))
    rng.shuffle(order)
    chunks = []
    while order:
        k = rng.randint(1, 60)
        chunks.append(order[:k])
        order = order[k:]
    if scale < 1.0:
        chunks = chunks[:max(1, int(len(chunks) * scale))]

    res = _drive(driver, [(fn, c) for c in codes for fn in FNS] + [("specCodes", ch) for ch in chunks])
    model = {fn: {} for fn in FNS}
    for i, c in enumerate(codes):
        for j, fn in enumerate(FNS):
            model[fn][c] = res[i * len(FNS) + j]
    m_spec = res[len(codes) * len(FNS):]

    nontrivial = set()
    samples = []
    for c in codes:
        comparisons += 5
        dist["codes"] += 1
        py_name = hsc.get_exception_class_name(c)
        if py_name != model["aliasName"][c]:
            disagree("aliasName", c, model["aliasName"][c], py_name)
        for fn, pyf in (("isErrorCode", hsc.is_error_code), ("isClientError", hsc.is_client_error),
                        ("isServerError", hsc.is_server_error)):
            if pyf(c) != model[fn][c]:
                disagree(fn, c, model[fn][c], pyf(c))
        py_base = "ClientError" if hsc.is_client_error(c) else "ServerError" if hsc.is_server_error(c) else None
        if py_base != model["aliasBase"][c]:
            disagree("aliasBase", c, model["aliasBase"][c], py_base)
        in_table = c in hsc.HTTP_EXCEPTION_NAMES
        dist["table_row" if in_table else "fallback_name"] += 1
        if in_table and hsc.HTTP_EXCEPTION_NAMES[c] != py_name:
            dist["renamed"] += 1
        dist["base_" + (py_base or "none")] += 1
        if in_table or hsc.is_error_code(c):
            nontrivial.add(c)
        if c in (404, 499, 501, 302, 600):
            samples.append({"code": c, "impl": [py_name, py_base], "model": [model["aliasName"][c], model["aliasBase"][c]]})

    # the classes the real emitter writes
    with _scratch("run") as scratch:
        for ci, (chunk, kept) in enumerate(zip(chunks, m_spec)):
            core_dir = os.path.join(scratch, f"e{ci}", "core")
            os.makedirs(core_dir)
            spec = IRSpec(title="t", version="1", schemas={}, servers=[], operations=[IROperation(
                operation_id="op", method=HTTPMethod.GET, path="/x", summary=None, description=None,
                responses=[IRResponse(status_code=str(c), description="", content={}) for c in chunk])])
            shared = rng.random() < 0.5  # registry branch (`_generate_for_codes`) or plain branch (`visit`)
            em = ExceptionsEmitter(core_package_name="core", overall_project_root=os.path.dirname(core_dir) if shared else None)
            _files, ret = em.emit(spec, core_dir, client_package_name="client_a")
            classes, all_list = _parse_alias_file(os.path.join(core_dir, "exception_aliases.py"))
            exp = [(model["aliasName"][c], [model["aliasBase"][c]]) for c in kept]
            comparisons += 2 + len(kept)
            dist["emitted_specs"] += 1
            dist["emitted_classes"] += len(classes)
            if len(classes) != len(exp):
                disagree("emitted class count", {"chunk": chunk, "shared": shared}, exp, classes)
            else:
                for (c, e, g) in zip(kept, exp, classes):
                    if (e[0], e[1]) != (g[0], g[1]):
                        disagree("emitted class", {"code": c, "shared": shared}, e, list(g))
            exp_all = sorted(n for n, _ in exp) if exp else None
            if all_list != exp_all or ret != sorted(n for n, _ in exp):
                disagree("__all__", {"chunk": chunk, "shared": shared}, exp_all, all_list)
            shutil.rmtree(os.path.join(scratch, f"e{ci}"), ignore_errors=True)

    return {"comparisons": comparisons, "disagreements": disagreements[:50], "n_disagreements": len(disagreements),
            "nontrivial": len(nontrivial), "rule": RULE, "samples": samples, "distribution": dist}


def oracle(seed: int, scale: float) -> dict:
    """The table part of C06 has no behaviour of its own to observe end to end; the C06 oracle (what a generated client
    raises for each status) lives with the gencode/http work packages."""
    return {"evaluations": 0, "failures": [], "failures_by_class": {}}


def replay(case) -> bool:
    return False


if __name__ == "__main__":
    import time

    seed = int(sys.argv[1]) if len(sys.argv) > 1 else 606
    scale = float(sys.argv[2]) if len(sys.argv) > 2 else 1.0
    drv = sys.argv[3] if len(sys.argv) > 3 else DEFAULT_DRIVER
    t0 = time.time()
    r = run(seed, scale, drv)
    for d in r["disagreements"]:
        print("DISAGREE", json.dumps(d, default=str)[:600])
    print(f"comparisons: {r['comparisons']}; nontrivial codes: {r['nontrivial']}; "
          f"distribution: {json.dumps(r['distribution'])}  [{time.time() - t0:.1f}s]")
    print(f"{r['n_disagreements']} disagreements")
    o = oracle(seed, scale)
    print(f"oracle: {o['evaluations']} evaluations, {len(o['failures'])} failures by class {json.dumps(o['failures_by_class'])}")
    sys.exit(1 if r["n_disagreements"] else 0)
