#!/venv/bin/python
"""C11 — clients sharing one core package keep working as more are generated.

run():    correspondence of the Lean registry model (`registryTrace`/`registryRun`, `isSharedCore`, `specCodes`,
          `aliasName`, `aliasBase`) with the REAL `ExceptionsEmitter` (emit / _is_shared_core / _update_registry /
          _generate_for_codes) and `ExceptionVisitor.visit`, after EVERY step of random histories.
oracle(): the property itself, end to end on the real generator: histories of `generate_client` runs of several clients
          into one project with a shared core package at depth 1..4; after every step every client generated so far is
          imported in a fresh subprocess.  No Lean involved.
replay(): re-runs one oracle case.

Importable: no work and no `pyopenapi_gen` import at module import time.
"""
from __future__ import annotations

import ast
import contextlib
import io
import json
import os
import random
import shutil
import subprocess
import sys
import tempfile
from concurrent.futures import ThreadPoolExecutor

PYTHON = "/venv/bin/python"
DEFAULT_DRIVER = "/verif/lean/.lake/build/bin/driver"

RULE = (
    "visitor: random specs (0-3 operations x 0-6 response keys from a pool with numeric, zero-padded, 'default', '4XX', '' "
    "keys) -> status codes vs `specCodes`, class names vs `aliasName`; layouts: hand-picked + random (project root, core "
    "dir) pairs incl. '/', '..', '.', trailing '/', root None/'' -> `_is_shared_core` vs `isSharedCore`; histories: "
    "hand-picked counterexample histories + random histories (2-4 clients, 1-6 steps, core dir 1-4 levels below the project "
    "root, occasionally client name None/'' or project root None/''/parent) through the real ExceptionsEmitter.emit into "
    "one core dir; after EVERY step registry file (content and key order), alias class names in file order, their base "
    "classes, __all__ and the return value are compared with the model trace.  A history is NON-TRIVIAL when it has >= 2 "
    "different client names and declares >= 1 error (4xx/5xx) code; distinct (depth, steps) are counted."
)


# ---------------------------------------------------------------------------------------------- helpers

def _drive(driver: str, reqs: list) -> list:
    """one batch: the driver answers at EOF"""
    if not reqs:
        return []
    inp = "".join(json.dumps({"f": f, "a": list(a)}) + "\n" for f, *a in reqs)
    p = subprocess.run([driver], input=inp, capture_output=True, text=True, timeout=600)
    lines = p.stdout.splitlines()
    assert len(lines) == len(reqs), (len(lines), len(reqs), p.stderr[-2000:])
    res = [json.loads(x) for x in lines]
    for q, r in zip(reqs, res):
        if isinstance(r, dict) and "error" in r:
            raise RuntimeError(f"driver error {q}: {r['error']}")
    return res


@contextlib.contextmanager
def _scratch(tag: str):
    """scratch dir under VERIF_SCRATCH_DIR; TMPDIR / tempfile.tempdir point into it (the generator appends a debug log
    to tempfile.gettempdir()); everything is restored and removed on exit"""
    base = os.environ.get("VERIF_SCRATCH_DIR", "/tmp")
    os.makedirs(base, exist_ok=True)
    d = os.path.realpath(tempfile.mkdtemp(prefix=f"corr_c11_{tag}_", dir=base))
    old_env, old_td = os.environ.get("TMPDIR"), tempfile.tempdir
    os.makedirs(os.path.join(d, "tmp"))
    os.environ["TMPDIR"] = os.path.join(d, "tmp")
    tempfile.tempdir = os.path.join(d, "tmp")
    try:
        yield d
    finally:
        tempfile.tempdir = old_td
        if old_env is None:
            os.environ.pop("TMPDIR", None)
        else:
            os.environ["TMPDIR"] = old_env
        shutil.rmtree(d, ignore_errors=True)


def _comps(path: str) -> list:
    """components of a resolved absolute path ('/' -> [])"""
    return [c for c in os.path.realpath(path).split("/") if c]


def _declared_of(per_op) -> list:
    # abstraction boundary of the model: the numeric status strings as ints
    return [int(s) for sts in per_op for s in sts if s.isdigit()]


def _mk_spec(per_op):
    from pyopenapi_gen import HTTPMethod, IROperation, IRResponse, IRSpec

    ops = [
        IROperation(operation_id=f"op{i}", method=HTTPMethod.GET, path=f"/x{i}", summary=None, description=None,
                    responses=[IRResponse(status_code=s, description="", content={}) for s in sts])
        for i, sts in enumerate(per_op)
    ]
    return IRSpec(title="t", version="1", schemas={}, operations=ops, servers=[])


def _parse_alias_file(path):
    tree = ast.parse(open(path).read())
    classes = [(n.name, [ast.unparse(b) for b in n.bases]) for n in tree.body if isinstance(n, ast.ClassDef)]
    all_list = None
    for n in tree.body:
        if isinstance(n, ast.Assign) and any(isinstance(t, ast.Name) and t.id == "__all__" for t in n.targets):
            all_list = ast.literal_eval(n.value)
    return classes, all_list


POOL = ["200", "204", "301", "400", "401", "404", "409", "418", "422", "429", "499", "500", "501", "503", "599",
        "600", "default", "0404", "4XX", "", "100", "399", "1000", "05"]
CODES = ["200", "204", "301", "400", "401", "404", "409", "418", "422", "429", "499", "500", "501", "503", "599",
         "600", "default"]
CLIENTS = ["client_a", "client_b", "zeta", "Alpha", "v1.api", "v2.api"]
NAMES = ["zzc11_a", "zzc11_b", "core", "x", "y", "z", "pkg"]
HAND_LAYOUTS = [("/", "/"), ("/", "/core"), ("/", "/a/core"), ("/", "/a/b/core"), ("/zzc11_a", "/zzc11_a"),
                ("/zzc11_a", "/"), ("/zzc11_a/x", "/zzc11_a"), (None, "/zzc11_a/core"), ("", "/zzc11_a/core"),
                ("/zzc11_a", "/zzc11_a/x/../core"), ("/zzc11_a/.", "/zzc11_a/x/y/../../core/"),
                ("/zzc11_a", "/zzc11_b/core"), ("/zzc11_a", "/zzc11_a/x/y/core"), ("/zzc11_a", "/zzc11_a/x/y/z/core")]


# ---------------------------------------------------------------------------------------------- run

def run(seed: int, scale: float, driver: str) -> dict:
    from pyopenapi_gen.context.render_context import RenderContext
    from pyopenapi_gen.emitters.exceptions_emitter import ExceptionsEmitter
    from pyopenapi_gen.visit.exception_visitor import ExceptionVisitor

    rng = random.Random(seed)
    comparisons = 0
    disagreements: list = []
    dist = {"visitor_specs": 0, "layouts": 0, "layouts_shared_true": 0, "histories": 0,
            "histories_by_depth": {1: 0, 2: 0, 3: 0, 4: 0}, "steps": 0, "registry_steps": 0, "plain_steps": 0,
            "steps_unnamed": 0, "steps_no_root": 0, "regenerations_of_a_client": 0}
    samples: list = []

    def disagree(label, request, model, impl):
        disagreements.append({"label": label, "request": request, "model": model, "impl": impl})

    with _scratch("run") as scratch:
        # ---------------- plan everything first (all random choices), then two driver batches
        vis_cases = [[[rng.choice(POOL) for _ in range(rng.randint(0, 6))] for _ in range(rng.randint(0, 3))]
                     for _ in range(max(1, int(1000 * scale)))]

        def rand_path(n):
            return "/" + "/".join(rng.choice(NAMES) for _ in range(n))

        layouts = list(HAND_LAYOUTS)
        for _ in range(max(1, int(2000 * scale))):
            root = rand_path(rng.randint(0, 3)) if rng.random() < 0.9 else rng.choice([None, ""])
            if root and rng.random() < 0.7:
                core = root.rstrip("/") + "".join("/" + rng.choice(NAMES) for _ in range(rng.randint(0, 4)))
            else:
                core = rand_path(rng.randint(0, 5))
            if rng.random() < 0.15:
                core = core + "/q/.."
            layouts.append((root, core or "/"))

        # histories: (depth, parts, steps[(client, per_op, root_kind)]); root_kind in {"root","none","empty","parent"}
        hists = []
        for depth in (1, 2, 3, 4):  # the C11 counterexample and its recognised-layout contrast
            hists.append((depth, [("client_a", [["200", "404"]], "root"), ("client_b", [["200", "500"]], "root"),
                                  ("client_a", [["422", "404", "404"]], "root"), ("client_b", [[]], "root")]))
        hists.append((1, [("client_a", [["404"]], "root"), (None, [["500"]], "root"), ("", [["418"]], "root"),
                          ("client_b", [["503"]], "none"), ("client_b", [["503"]], "empty"),
                          ("client_b", [["503"]], "root")]))
        for _ in range(max(1, int(1000 * scale))):
            depth = rng.randint(1, 4)
            clients = rng.sample(CLIENTS, rng.randint(2, 4))
            steps = []
            for _s in range(rng.randint(1, 6)):
                r = rng.random()
                client = rng.choice(clients) if r < 0.92 else (None if r < 0.96 else "")
                kind = "root" if rng.random() < 0.93 else rng.choice(["none", "empty", "parent"])
                per_op = [[rng.choice(CODES) for _ in range(rng.randint(0, 5))] for _ in range(rng.randint(1, 3))]
                steps.append((client, per_op, kind))
            hists.append((depth, steps))
        plans = []
        for hi, (depth, steps) in enumerate(hists):
            root = os.path.join(scratch, f"h{hi}", "proj")
            parts = [rng.choice(["pkg", "x", "y", "shared"]) for _ in range(depth - 1)] + ["core"]
            core_dir = os.path.join(root, *parts)
            root_args = [{"root": root, "none": None, "empty": "", "parent": os.path.dirname(root)}[k]
                         for _, _, k in steps]
            plans.append((depth, steps, root, parts, core_dir, root_args))

        # ---------------- driver batch A: specCodes, isSharedCore (layouts and history steps), name/base tables
        reqs = [("specCodes", _declared_of(p)) for p in vis_cases]
        reqs += [("isSharedCore", _comps(r) if r else None, _comps(c)) for r, c in layouts]
        for depth, steps, root, parts, core_dir, root_args in plans:
            reqs += [("isSharedCoreFor", _comps(r) if r else None, _comps(core_dir), [x for x in c.split(".") if x] if c else None)
                     for r, (c, _p, _k) in zip(root_args, steps)]
        tcodes = list(range(350, 650))
        reqs += [("aliasName", c) for c in tcodes] + [("aliasBase", c) for c in tcodes]
        res = _drive(driver, reqs)
        pos = 0
        m_vis = res[pos:pos + len(vis_cases)]; pos += len(vis_cases)
        m_lay = res[pos:pos + len(layouts)]; pos += len(layouts)
        m_shared = []
        for pl in plans:
            m_shared.append(res[pos:pos + len(pl[1])]); pos += len(pl[1])
        m_name = dict(zip(tcodes, res[pos:pos + len(tcodes)])); pos += len(tcodes)
        m_base = dict(zip(tcodes, res[pos:pos + len(tcodes)])); pos += len(tcodes)

        # ---------------- driver batch B: the traces (the model decides `shared` with ITS isSharedCore)
        all_gens = []
        for (depth, steps, root, parts, core_dir, root_args), sh in zip(plans, m_shared):
            all_gens.append([{"client": c, "declared": _declared_of(p), "shared": s}
                             for (c, p, _), s in zip(steps, sh)])
        res = _drive(driver, [("registryTrace", g) for g in all_gens] + [("registryRun", g) for g in all_gens])
        m_trace, m_final = res[:len(all_gens)], res[len(all_gens):]

        # ---------------- visitor
        for per_op, m in zip(vis_cases, m_vis):
            ctx = RenderContext(package_root_for_generated_code=scratch, core_package_name="core",
                                overall_project_root=scratch)
            ctx.set_current_file(os.path.join(scratch, "exception_aliases.py"))
            _code, names, codes = ExceptionVisitor().visit(_mk_spec(per_op), ctx)
            comparisons += 2
            dist["visitor_specs"] += 1
            if codes != m:
                disagree("specCodes", per_op, m, codes)
            exp = [m_name.get(c) for c in m]
            if names != exp:
                disagree("visit names", per_op, exp, names)

        # ---------------- layouts
        for (r, c), m in zip(layouts, m_lay):
            py = ExceptionsEmitter(core_package_name="core", overall_project_root=r)._is_shared_core(c)
            comparisons += 1
            dist["layouts"] += 1
            dist["layouts_shared_true"] += int(py)
            if py != m:
                disagree("isSharedCore", {"root": r, "core": c}, m, py)

        # ---------------- histories through the real emitter
        nontrivial_keys = set()
        for hi, ((depth, steps, root, parts, core_dir, root_args), sh, gens, trace, final) in enumerate(
                zip(plans, m_shared, all_gens, m_trace, m_final)):
            os.makedirs(core_dir)
            dist["histories"] += 1
            dist["histories_by_depth"][depth] += 1
            comparisons += 1
            if len(trace) != len(steps) or trace[-1] != final:
                disagree("run vs trace", gens, final, None)
            names_seen = {g["client"] for g in gens if g["client"]}
            if len(names_seen) >= 2 and any(400 <= c < 600 for g in gens for c in g["declared"]):
                nontrivial_keys.add(json.dumps([depth, gens], sort_keys=True))
            seen_clients = set()
            for si, ((client, per_op, _k), root_arg, shm) in enumerate(zip(steps, root_args, sh)):
                em = ExceptionsEmitter(core_package_name=".".join(parts), overall_project_root=root_arg)
                shared_py = em._is_shared_core(core_dir, client) if client else em._is_shared_core(core_dir)
                comparisons += 1
                if shared_py != shm:
                    disagree("isSharedCore(step)", {"root": root_arg, "core": core_dir}, shm, shared_py)
                dist["steps"] += 1
                dist["registry_steps" if (shared_py and client) else "plain_steps"] += 1
                dist["steps_unnamed"] += int(not client)
                dist["steps_no_root"] += int(not root_arg)
                if client and client in seen_clients:
                    dist["regenerations_of_a_client"] += 1
                if client:
                    seen_clients.add(client)
                files, ret_names = em.emit(_mk_spec(per_op), core_dir, client_package_name=client)
                model = trace[si]
                req = {"history": hi, "depth": depth, "step": si, "gens": gens[:si + 1]}
                comparisons += 6
                reg_path = os.path.join(core_dir, ".exception_registry.json")
                py_reg = [[k, v] for k, v in json.load(open(reg_path)).items()] if os.path.exists(reg_path) else []
                if py_reg != model["registry"]:
                    disagree("registry", req, model["registry"], py_reg)
                classes, all_list = _parse_alias_file(os.path.join(core_dir, "exception_aliases.py"))
                exp_names = [m_name.get(c) for c in model["aliases"]]
                exp_bases = [[m_base.get(c)] for c in model["aliases"]]
                if [n for n, _ in classes] != exp_names:
                    disagree("alias classes", req, exp_names, [n for n, _ in classes])
                if [b for _, b in classes] != exp_bases:
                    disagree("alias bases", req, exp_bases, [b for _, b in classes])
                exp_all = sorted(exp_names) if exp_names else None
                if all_list != exp_all:
                    disagree("__all__", req, exp_all, all_list)
                if ret_names != sorted(exp_names):
                    disagree("emit return", req, sorted(exp_names), ret_names)
                if files != [os.path.join(core_dir, "exception_aliases.py")]:
                    disagree("emit files", req, None, files)
            if hi in (2, 4, 5, 6, 7) and len(samples) < 5:
                samples.append({"core_depth": depth, "core_package": ".".join(parts), "gens": gens,
                                "model_final": final})
            shutil.rmtree(os.path.join(scratch, f"h{hi}"), ignore_errors=True)

    return {"comparisons": comparisons, "disagreements": disagreements[:50], "n_disagreements": len(disagreements),
            "nontrivial": len(nontrivial_keys), "rule": RULE, "samples": samples, "distribution": dist}


# ---------------------------------------------------------------------------------------------- oracle

ORACLE_STATUSES = [400, 401, 404, 409, 422, 429, 500, 501, 503]
CORE_BY_DEPTH = {1: "core", 2: "shared.core", 3: "a.b.core", 4: "x.y.z.core"}
ORACLE_CLIENTS = ["client_a", "client_b", "client_c", "v1.api", "v2.api"]
CLS_DEEP = "deep-shared-core-bypasses-registry"
CLS_SHALLOW = "shared-core-regression"


def _oracle_spec(title: str, codes: list, n_ops: int) -> dict:
    paths = {}
    for i in range(n_ops):
        resp = {"200": {"description": "ok", "content": {"application/json": {"schema": {
            "type": "object", "properties": {"id": {"type": "integer"}}}}}}}
        for c in codes[i::n_ops] if n_ops > 1 else codes:
            resp[str(c)] = {"description": f"error {c}"}
        paths[f"/items{i}"] = {"get": {"operationId": f"list_items{i}", "summary": f"list {i}",
                                       "tags": ["items" if i == 0 else f"group{i}"], "responses": resp}}
    return {"openapi": "3.0.0", "info": {"title": title, "version": "1.0.0"}, "paths": paths}


_IMPORT_SNIPPET = (
    "import sys, importlib, pkgutil; sys.path.insert(0, sys.argv[1]); p = sys.argv[2]; "
    "importlib.import_module(p + '.client'); e = importlib.import_module(p + '.endpoints'); "
    "[importlib.import_module(m.name) for m in pkgutil.walk_packages(e.__path__, e.__name__ + '.')]"
)


def _import_client(root: str, pkg: str):
    env = dict(os.environ)
    env.pop("PYTHONPATH", None)
    extra = os.environ.get("VERIF_PYTHONPATH")  # optional: another checkout for the generated code's needs (none today)
    if extra:
        env["PYTHONPATH"] = extra
    p = subprocess.run([PYTHON, "-c", _IMPORT_SNIPPET, root, pkg], capture_output=True, text=True, timeout=120,
                       env=env, cwd=root)
    last = (p.stderr.strip().splitlines() or [""])[-1]
    return p.returncode == 0, last


def _run_oracle_case(case: dict, scratch: str, pool: ThreadPoolExecutor, stop_at_first: bool = False):
    """runs one history; returns (evaluations, failures, info)"""
    from pyopenapi_gen import generate_client

    root = os.path.join(scratch, f"o{case['id']}", "proj")
    os.makedirs(root)
    core_pkg = case["core_package"]
    depth = len(core_pkg.split("."))
    ever_worked: set = set()  # clients that imported fine at some earlier check
    evaluations = 0
    failures = []
    info = {"nonforce_refused": 0, "generation_errors": 0}
    for si, st in enumerate(case["steps"]):
        client, codes, force = st["client"], st["codes"], st["force"]
        spec_path = os.path.join(scratch, f"o{case['id']}", f"spec_{si}_{client}.json")
        with open(spec_path, "w") as f:
            json.dump(_oracle_spec(client, codes, st.get("ops", 1)), f)
        out, err = io.StringIO(), io.StringIO()
        gen_error = None
        try:
            with contextlib.redirect_stdout(out), contextlib.redirect_stderr(err):
                generate_client(spec_path, root, client, core_package=core_pkg, force=force, no_postprocess=True)
        except Exception as e:  # noqa: BLE001
            gen_error = f"{type(e).__name__}: {str(e)[:200]}"
            if not force and type(e).__name__ == "GenerationError":
                info["nonforce_refused"] += 1  # diff check refuses to touch existing output: nothing was written
            else:
                info["generation_errors"] += 1
        generated = sorted(c for c in ORACLE_CLIENTS if os.path.isdir(os.path.join(root, *c.split("."))))
        results = list(pool.map(lambda c: (c, *_import_client(root, c)), generated))
        for c, ok, msg in results:
            evaluations += 1
            if ok:
                ever_worked.add(c)
            elif c == client and gen_error is None:
                # the client just (re)generated does not import: not a sharing regression
                failures.append({"class": "fresh-client-does-not-import",
                                 "case": {**case, "failing_step": si, "failing_client": c},
                                 "observed": msg, "expected": "a freshly generated client imports"})
            elif c in ever_worked:
                # a client that imported fine earlier no longer does after generating ANOTHER client
                failures.append({
                    "class": CLS_DEEP if depth >= 3 else CLS_SHALLOW,
                    "case": {**case, "failing_step": si, "failing_client": c},
                    "observed": msg,
                    "expected": f"`import {c}.client, {c}.endpoints.*` keeps working after step {si} "
                                f"(generate {client} {codes} force={force}"
                                + (f", generator raised {gen_error}" if gen_error else "") + ")",
                })
        if stop_at_first and failures:
            break
    shutil.rmtree(os.path.join(scratch, f"o{case['id']}"), ignore_errors=True)
    return evaluations, failures, info


def _oracle_cases(seed: int, scale: float) -> list:
    rng = random.Random(seed * 7919 + 11)
    cases = []
    # one fixed history per depth (A needs 404, B only 500, A regenerated with a changed spec, B non-force)
    for depth in (1, 2, 3, 4):
        cases.append({"id": len(cases), "core_package": CORE_BY_DEPTH[depth], "steps": [
            {"client": "client_a", "codes": [404, 422], "force": True},
            {"client": "client_b", "codes": [500], "force": True},
            {"client": "client_a", "codes": [409], "force": True},
            {"client": "client_b", "codes": [500], "force": False}]})
    # a REFUSED non-force run (existing client, changed spec: a status dropped / added) must leave no trace: the generations that
    # follow it must still emit every alias the untouched client files import
    for depth in (1, 2):
        for changed in ([422], [404, 422, 409], []):
            cases.append({"id": len(cases), "core_package": CORE_BY_DEPTH[depth], "steps": [
                {"client": "client_a", "codes": [404, 422], "force": True},
                {"client": "client_b", "codes": [500], "force": True},
                {"client": "client_a", "codes": changed, "force": False},
                {"client": "client_c", "codes": [409], "force": True},
                {"client": "client_b", "codes": [500, 503], "force": True}]})
    n_random = max(0, int(round(16 * scale)))
    for k in range(n_random):
        depth = 1 + (k % 4)
        clients = rng.sample(ORACLE_CLIENTS, rng.randint(2, 4))
        steps = []
        order = list(clients)  # every client at least once, then repetitions / changed specs
        rng.shuffle(order)
        for _ in range(rng.randint(0, 2)):
            order.append(rng.choice(clients))
        seen = set()
        for c in order:
            codes = sorted(rng.sample(ORACLE_STATUSES, rng.randint(0, 3)))
            steps.append({"client": c, "codes": codes, "force": (c not in seen and rng.random() < 0.5)
                          or rng.random() < 0.7, "ops": rng.randint(1, 2)})
            seen.add(c)
        cases.append({"id": len(cases), "core_package": CORE_BY_DEPTH[depth], "steps": steps})
    return cases


def oracle(seed: int, scale: float) -> dict:
    evaluations = 0
    failures: list = []
    info_total = {"histories": 0, "steps": 0, "nonforce_refused": 0, "generation_errors": 0,
                  "histories_by_depth": {1: 0, 2: 0, 3: 0, 4: 0}}
    with _scratch("oracle") as scratch, ThreadPoolExecutor(max_workers=8) as pool:
        for case in _oracle_cases(seed, scale):
            ev, fl, info = _run_oracle_case(case, scratch, pool)
            evaluations += ev
            failures += fl
            info_total["histories"] += 1
            info_total["steps"] += len(case["steps"])
            info_total["histories_by_depth"][len(case["core_package"].split("."))] += 1
            info_total["nonforce_refused"] += info["nonforce_refused"]
            info_total["generation_errors"] += info["generation_errors"]
    by_class: dict = {}
    for f in failures:
        by_class[f["class"]] = by_class.get(f["class"], 0) + 1
    return {"evaluations": evaluations, "failures": failures, "failures_by_class": by_class, "info": info_total}


def replay(case) -> bool:
    """re-run one oracle case (the `case` of a failure, or a plain history); True iff the property is still violated
    (for a failure case: the same client fails at the same step)"""
    case = dict(case)
    case.setdefault("id", 0)
    with _scratch("replay") as scratch, ThreadPoolExecutor(max_workers=8) as pool:
        _ev, fl, _info = _run_oracle_case(case, scratch, pool)
    if "failing_step" in case:
        return any(f["case"]["failing_step"] == case["failing_step"]
                   and f["case"]["failing_client"] == case["failing_client"] for f in fl)
    return bool(fl)


# ---------------------------------------------------------------------------------------------- script

if __name__ == "__main__":
    import time

    seed = int(sys.argv[1]) if len(sys.argv) > 1 else 1106
    scale = float(sys.argv[2]) if len(sys.argv) > 2 else 1.0
    drv = sys.argv[3] if len(sys.argv) > 3 else DEFAULT_DRIVER
    t0 = time.time()
    r = run(seed, scale, drv)
    for d in r["disagreements"]:
        print("DISAGREE", json.dumps(d, default=str)[:600])
    print(f"comparisons: {r['comparisons']}; nontrivial histories: {r['nontrivial']}; "
          f"distribution: {json.dumps(r['distribution'])}  [{time.time() - t0:.1f}s]")
    print(f"{r['n_disagreements']} disagreements")
    t0 = time.time()
    o = oracle(seed, scale)
    print(f"oracle: {o['evaluations']} evaluations, {len(o['failures'])} failures by class "
          f"{json.dumps(o['failures_by_class'])}; {json.dumps(o['info'])}  [{time.time() - t0:.1f}s]")
    if o["failures"]:
        f = o["failures"][0]
        print("first failure:", f["class"], "|", f["observed"])
        print("replay(first failure) ->", replay(f["case"]))
    sys.exit(1 if r["n_disagreements"] else 0)
