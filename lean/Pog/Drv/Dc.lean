import Pog.Drv.Util
import Pog.Model.Dc
open Lean Pog Pog.Drv Pog.Dc
namespace Pog.Drv

def dcFns : List String := ["dcGenerate", "dcFieldDefault", "dcEnumDefaultMember", "dcSortKeys", "dcShape"]

private def getOptD (f : Json → Except String α) (j : Json) : Except String (Option α) :=
  if j.isNull then pure none else do pure (some (← f j))

private def fieldOrD (j : Json) (k : String) : Json := (j.getObjVal? k).toOption.getD Json.null

private def boolOrD (j : Json) (k : String) : Bool := ((fieldOrD j k).getBool?).toOption.getD false

private def strOrD (j : Json) (k : String) : Except String Str :=
  let v := fieldOrD j k
  if v.isNull then pure [] else getStr v

/-- `null` | `{"k":"str","v":s}` | `{"k":"bool","v":b}` | `{"k":"int","v":n}` | `{"k":"float","t":text}` |
    `{"k":"other","t":text}` -/
private def getDefaultD (j : Json) : Except String (Option DefaultVal) := do
  if j.isNull then return none
  let k ← (fieldOrD j "k").getStr?
  match k with
  | "str" => pure (some (.str (← getStr (fieldOrD j "v"))))
  | "bool" => pure (some (.bool (← getBool (fieldOrD j "v"))))
  | "int" => pure (some (.int (← getInt (fieldOrD j "v"))))
  | "float" => pure (some (.float (← getStr (fieldOrD j "t"))))
  | "other" => pure (some (.other (← getStr (fieldOrD j "t"))))
  | _ => throw s!"unknown default kind {k}"

private def getPropD (j : Json) : Except String DcProp := do
  pure { key := (← getStr (fieldOrD j "key"))
         ty := (← getOptD getStr (fieldOrD j "type"))
         name := (← getOptD getStr (fieldOrD j "name"))
         anyOf := boolOrD j "anyOf", oneOf := boolOrD j "oneOf", allOf := boolOrD j "allOf"
         default := (← getDefaultD (fieldOrD j "default"))
         pyType := (← strOrD j "pyType")
         enumVals := (← getOptD getStrs (fieldOrD j "enumVals"))
         desc := (← getOptD getStr (fieldOrD j "desc")) }

private def getAddPropsD (j : Json) : Except String AddProps :=
  if j.isNull then pure .absent
  else match j.getBool? with
    | .ok b => pure (.bool b)
    | .error _ => do pure (.schema (← strOrD j "pyType"))

private def getSchemaD (j : Json) : Except String DcSchema := do
  let pj := fieldOrD j "props"
  let props ← if pj.isNull then pure [] else getList getPropD pj
  let rj := fieldOrD j "required"
  let req ← if rj.isNull then pure [] else getStrs rj
  pure { name := (← getOptD getStr (fieldOrD j "name"))
         ty := (← getOptD getStr (fieldOrD j "type"))
         props := props, required := req
         hasItems := boolOrD j "hasItems"
         itemsFieldType := (← strOrD j "itemsFieldType")
         itemPyType := (← strOrD j "itemPyType")
         desc := (← getOptD getStr (fieldOrD j "desc"))
         addProps := (← getAddPropsD (fieldOrD j "addProps"))
         docMentionsFactory := boolOrD j "docMentionsFactory" }

private def shapeNameD : Shape → String
  | .wrapperJson => "wrapperJson" | .arrayWrapper => "arrayWrapper" | .object => "object" | .empty => "empty"

private def errNameD : DcErr → String
  | .valueError => "ValueError" | .fieldImportMissing => "RuntimeError:field-import" | .loopDiverges => "loopDiverges"

private def jfieldD (f : DcField) : Json :=
  Json.arr #[jstr f.pyName, jstr f.pyType, jopt jstr f.default, jopt jstr f.doc, jopt jstr f.wire]

def dcRun (f : String) (a : Array Json) (u : UInfo) : Except String Json := do
  match f with
  | "dcGenerate" =>
    let s ← getSchemaD (← argN a 0)
    let base ← getStr (← argN a 1)
    match generate u s base with
    | .error e => pure (Json.mkObj [("raises", Json.str (errNameD e))])
    | .ok o =>
      pure (Json.mkObj [
        ("shape", Json.str (shapeNameD o.shape)),
        ("fields", jlist jfieldD o.fields),
        ("mappings", jlist (fun (k, n) => Json.arr #[jstr k, jstr n]) o.mappings),
        ("body", jstrs (o.body.map DcField.pyName)),
        ("lines", jstrs o.lines),
        ("valueType", jopt jstr o.valueType),
        ("defaultsLast", Json.bool (defaultsLast false o.body))])
  | "dcFieldDefault" => pure (jstr (fieldDefault u (← getPropD (← argN a 0))))
  | "dcEnumDefaultMember" => pure (jstr (enumDefaultMember u (← getStr (← argN a 0))))
  | "dcSortKeys" =>
    let req ← getStrs (← argN a 0)
    let keys ← getStrs (← argN a 1)
    pure (jstrs ((sortProps req (keys.map (fun k => ({ key := k } : DcProp)))).map DcProp.key))
  | "dcShape" => pure (Json.str (shapeNameD (shape (← getSchemaD (← argN a 0)))))
  | _ => throw s!"unknown function {f}"

def dispatchDc : Dispatch := fun f a u =>
  if dcFns.contains f then some (dcRun f a u) else none

end Pog.Drv
