import Pog.Lemmas.ParserFaithful2
/-
  Lemmas about M-parser, part 6a: the fragment `Simple3 ⊇ Simple2` and its heap / tracker predicates.

  New in `Simple3`:
    * a declared schema `{allOf: [<$ref to a declared schema> | <inline object with leaf / array properties>]*,
      required?}` (no own `properties`);
    * properties that are INLINE OBJECTS `{type: object, properties: {leaf / array of leaf}}` (promoted to
      `<Parent><Prop>`), ENUM primitives (parsed and registered under `mapCtx parent key`), both as properties
      and (enums) as declared schemas;
    * anonymous enum primitives as array items / map values;
    * `nullable` wrappers around every property node, array items node and map value node.

  The model of a declared schema is no longer described by its own node but by what `shape` computes for it
  (`ShapeIs`: stable in the fuel and the visited set), because an `allOf` child carries the merged fields of its
  parents.
-/
namespace Pog.Prs
open Pog Pog.Trk

/-! ### the fragment -/

/-- a leaf without wrapper: a primitive (plain or ENUM: an anonymous enum is never registered) or a `$ref` to a
    declared schema -/
def leafOK (names : List Str) : Node → Bool
  | .prim _ _ => true
  | .ref t => simpleProp names (.ref t)
  | _ => false

/-- a leaf, `nullable` allowed -/
def leaf3 (names : List Str) (p : Node) : Bool := leafOK names p.core

theorem leafOK_cases (names : List Str) (p : Node) (h : leafOK names p = true) :
    (∃ ty e, p = .prim ty e) ∨
    (∃ t, p = .ref t ∧ t ∈ names ∧ t.contains '/' = false ∧ t ≠ []) := by
  cases p with
  | prim ty e => exact Or.inl ⟨ty, e, rfl⟩
  | ref t =>
    have h' : simpleProp names (.ref t) = true := h
    rcases simpleProp_cases names _ h' with ⟨ty', e'⟩ | ⟨t', e', h1, h2, h3⟩
    · cases e'
    · cases e'
      exact Or.inr ⟨t, rfl, h1, h2, h3⟩
  | obj _ _ _ => simp [leafOK] at h
  | arr _ => simp [leafOK] at h
  | allOf _ _ _ => simp [leafOK] at h
  | oneOf _ => simp [leafOK] at h
  | anyOf _ => simp [leafOK] at h
  | nullable _ => simp [leafOK] at h

/-- a property of an inline object / of an inline `allOf` member -/
def innerProp3 (names : List Str) (p : Node) : Bool :=
  match p.core with
  | .prim _ false => true
  | .ref t => simpleProp names (.ref t)
  | .arr i => leaf3 names i
  | _ => false

def innerProps3 (names : List Str) (ps : List (Str × Node)) : Bool :=
  ps.all (fun kv => !kv.1.isEmpty && innerProp3 names kv.2) && decide ((ps.map (·.1)).Nodup)

def simpleProp3 (names : List Str) (p : Node) : Bool :=
  match p.core with
  | .prim _ _ => true
  | .ref t => simpleProp names (.ref t)
  | .arr i => leaf3 names i
  | .obj none _ (some a) => leaf3 names a
  | .obj (some ps) _ none => innerProps3 names ps
  | _ => false

def allOfPart3 (names : List Str) : Node → Bool
  | .ref t => simpleProp names (.ref t)
  | .obj (some ps) _ none => innerProps3 names ps
  | _ => false

def simpleNode3 (names : List Str) : Node → Bool
  | .obj (some ps) _ none =>
    ps.all (fun kv => !kv.1.isEmpty && simpleProp3 names kv.2) && decide ((ps.map (·.1)).Nodup)
  | .arr i => leaf3 names i
  | .prim _ _ => true
  | .allOf parts [] _ => parts.all (allOfPart3 names)
  | _ => false

/-- the name under which a property is parsed AND registered, if any -/
def ctxOf3 (n k : Str) (p : Node) : Option Str :=
  match p.core with
  | .obj none _ (some _) => some (mapCtx n k)
  | .obj (some _) _ none => some (n ++ sanClass k)
  | .prim _ true => some (mapCtx n k)
  | _ => none

def ctxsL3 (n : Str) (ps : List (Str × Node)) : List Str := ps.filterMap (fun kv => ctxOf3 n kv.1 kv.2)

/-- the context names of a declared schema -/
def ctxs3 (n : Str) (nd : Node) : List Str := ctxsL3 n (nodeProps nd)

def leafCost3 (rank : Str → Nat) (i : Node) : Nat := leafCost rank i.core

/-- cost of a property of an inline object below the frame of the inline object -/
def innerCost3 (rank : Str → Nat) (p : Node) : Nat :=
  match p.core with
  | .ref t => rank t + 1
  | .arr i => leafCost3 rank i + 1
  | _ => 0

def propCostOK3 (rank : Str → Nat) (R : Nat) (p : Node) : Bool :=
  match p.core with
  | .ref t => decide (rank t + 1 ≤ R)
  | .arr i => decide (leafCost3 rank i + 1 ≤ R)
  | .obj none _ (some a) => decide (leafCost3 rank a + 1 ≤ R)
  | .obj (some ps) _ none => decide (1 ≤ R) && ps.all (fun kv => decide (innerCost3 rank kv.2 + 1 ≤ R))
  | .prim _ true => decide (1 ≤ R)
  | _ => true

def partCostOK3 (rank : Str → Nat) (R : Nat) : Node → Bool
  | .ref t => decide (rank t + 2 ≤ R)
  | .obj (some ps) _ none => decide (1 ≤ R) && ps.all (fun kv => decide (innerCost3 rank kv.2 + 1 ≤ R))
  | _ => true

def nodeCostOK3 (rank : Str → Nat) (R : Nat) : Node → Bool
  | .obj (some ps) _ none => ps.all (fun kv => propCostOK3 rank R kv.2)
  | .arr i => decide (leafCost3 rank i ≤ R)
  | .allOf parts _ _ => parts.all (partCostOK3 rank R)
  | _ => true

/-- the hypotheses of `parse_faithful_partial3` -/
structure Simple3 (decls : Decls) (rank : Str → Nat) : Prop where
  nodup : (decls.map (·.1)).Nodup
  node : ∀ d ∈ decls, simpleNode3 (decls.map (·.1)) d.2 = true
  name : ∀ d ∈ decls, d.1 ≠ [] ∧ sanClass d.1 = d.1
  cost : ∀ d ∈ decls, nodeCostOK3 rank (rank d.1) d.2 = true
  ctxFresh : ∀ d ∈ decls, ∀ c ∈ ctxs3 d.1 d.2, c ∉ decls.map (·.1) ∧ sanClass c = c
  ctxNodup : ∀ d ∈ decls, (ctxs3 d.1 d.2).Nodup
  ctxInj : ∀ d ∈ decls, ∀ d' ∈ decls, ∀ c ∈ ctxs3 d.1 d.2, c ∈ ctxs3 d'.1 d'.2 → d.1 = d'.1

theorem ctxOf3_ne_nil {n k : Str} {p : Node} {c : Str} (h : ctxOf3 n k p = some c) : c ≠ [] := by
  unfold ctxOf3 at h
  split at h
  · cases h; exact mapCtx_ne_nil n k
  · cases h
    intro e
    exact sanClass_ne_nil k (List.append_eq_nil_iff.mp e).2
  · cases h; exact mapCtx_ne_nil n k
  · cases h

theorem core_core (n : Node) : n.core.core = n.core := by
  fun_induction Node.core n <;> simp_all [Node.core]

theorem nodeKind_core (n : Node) : nodeKind n.core = nodeKind n := by
  fun_induction Node.core n <;> simp_all [nodeKind]

/-! ### heap objects -/

/-- a reference holder that points at a registered, undeclared enum schema -/
def EnumHolder (names : List Str) (s : PSt) (ty : PrimTy) (pid : Nat) : Prop :=
  Anon s pid ∧ ∃ c mid, (s.get pid).refersTo = some mid ∧ c ∉ names ∧ dGet c s.reg = some mid ∧
    mid < s.heap.length ∧ (s.get mid).kind = .full ∧ (s.get mid).refersTo = none ∧
    (s.get mid).type = some ty.str

theorem EnumHolder.step {names : List Str} {s s' : PSt} (h : HStepW s s') {ty : PrimTy} {pid : Nat}
    (hd : EnumHolder names s ty pid) : EnumHolder names s' ty pid := by
  obtain ⟨h1, c, mid, h2, h3, h4, h5, h6, h7, h8⟩ := hd
  have hf := shape_fields (h.heap pid h1.1)
  have hm := shape_fields (h.heap mid h5)
  exact ⟨h1.step h, c, mid, by rw [hf.2.1]; exact h2, h3, h.reg _ _ h4, Nat.lt_of_lt_of_le h5 h.heapLen,
    by rw [hm.1]; exact h6, by rw [hm.2.1]; exact h7, by rw [hm.2.2.1]; exact h8⟩

/-- `Denotes`, or (for a primitive kind) an enum holder -/
def DenP (names : List Str) (s : PSt) (K : Kind) (pid : Nat) : Prop :=
  Denotes names s K pid ∨ ∃ ty, K = .prim ty ∧ EnumHolder names s ty pid

theorem DenP.step {names : List Str} {s s' : PSt} (h : HStepW s s') {K : Kind} {pid : Nat}
    (hd : DenP names s K pid) : DenP names s' K pid := by
  rcases hd with hd | ⟨ty, e, hd⟩
  · exact Or.inl (Denotes.step h K pid hd)
  · exact Or.inr ⟨ty, e, hd.step h⟩

/-- fuel `irKind` needs, bounded by what `modelFields` gives it -/
def FieldK (names : List Str) (s : PSt) (kk : Str × Kind) (e : Str × Nat) : Prop :=
  e.1 = kk.1 ∧ kfuel kk.2 ≤ 6 ∧ DenP names s kk.2 e.2

theorem FieldK.step {names : List Str} {s s' : PSt} (h : HStepW s s') (kk : Str × Kind) (e : Str × Nat)
    (hf : FieldK names s kk e) : FieldK names s' kk e :=
  ⟨hf.1, hf.2.1, hf.2.2.step h⟩

/-- unvisited part of the fuel measure of `shape` -/
def muVis (decls : Decls) (vis : List Str) : Nat :=
  ((decls.filter (fun d => !vis.contains d.1)).map (fun d => d.2.size + 1)).sum

/-- `shape` of the declared node `nd` of `m` is `(F, R)`, whatever the (sufficient) fuel and the (harmless)
    visited set -/
def ShapeIs (decls : Decls) (rank : Str → Nat) (m : Str) (nd : Node) (F : List (Str × Kind)) (R : List Str) : Prop :=
  ∀ f vis, m ∈ vis → (∀ v ∈ vis, rank m ≤ rank v) → muVis decls vis + nd.size < f → shape decls f vis nd = (F, R)

/-- the heap object `i` is a faithful model of the declared schema `m` -/
def ModelOK3 (decls : Decls) (rank : Str → Nat) (s : PSt) (m : Str) (i : Nat) : Prop :=
  ∃ nd F R, dGet m decls = some nd ∧ ShapeIs decls rank m nd F R ∧ (s.get i).kind = .full ∧
    All2 (FieldK (decls.map (·.1)) s) F (s.get i).props ∧ ∀ k, k ∈ (s.get i).required ↔ k ∈ R

theorem ModelOK3.step {decls : Decls} {rank : Str → Nat} {s s' : PSt} (h : HStepW s s') (m : Str) (i : Nat)
    (hi : i < s.heap.length) (hm : ModelOK3 decls rank s m i) : ModelOK3 decls rank s' m i := by
  obtain ⟨nd, F, R, h1, h2, h3, h4, h5⟩ := hm
  have hf := shape_fields (h.heap i hi)
  exact ⟨nd, F, R, h1, h2, by rw [hf.1]; exact h3,
    by rw [hf.2.2.2.2.1]; exact All2.imp (fun a b hab => FieldK.step h a b hab) h4,
    by rw [hf.2.2.2.2.2]; exact h5⟩

def WF3 (decls : Decls) (rank : Str → Nat) (s : PSt) : Prop :=
  (∀ m i, dGet m s.reg = some i → i < s.heap.length ∧ (m ∈ decls.map (·.1) → ModelOK3 decls rank s m i)) ∧
  (∀ m m' i, dGet m s.reg = some i → dGet m' s.reg = some i → m = m')

theorem WF3.step {decls : Decls} {rank : Str → Nat} {s s' : PSt} (h : HStepW s s') (hreg : s'.reg = s.reg)
    (hw : WF3 decls rank s) : WF3 decls rank s' := by
  refine ⟨?_, ?_⟩
  · intro m i hm
    rw [hreg] at hm
    obtain ⟨h1, h2⟩ := hw.1 m i hm
    exact ⟨Nat.lt_of_lt_of_le h1 h.heapLen, fun hmem => ModelOK3.step h m i h1 (h2 hmem)⟩
  · intro m m' i h1 h2
    rw [hreg] at h1 h2
    exact hw.2 m m' i h1 h2

theorem WF3.congr {decls : Decls} {rank : Str → Nat} {s s' : PSt} (hh : s'.heap = s.heap) (hr : s'.reg = s.reg)
    (hw : WF3 decls rank s) : WF3 decls rank s' :=
  WF3.step (hstep_of_eq hh hr).toW hr hw

theorem wf3_reg_lt {decls : Decls} {rank : Str → Nat} {s : PSt} (hw : WF3 decls rank s) (k : Str) (i : Nat)
    (h : dGet k s.reg = some i) : i < s.heap.length := (hw.1 k i h).1

/-! ### tracker ↔ registry coherence -/

/-- as `TK`, plus: an untouched name is unregistered, and a context name has only been touched if its
    owner has -/
def TK3 (decls : Decls) (rank : Str → Nat) (s : PSt) (R : Nat) : Prop :=
  s.tr.cycles = [] ∧
  (∀ m ∈ s.tr.stack, dGet m s.tr.states = some .inProgress) ∧
  (∀ m, (dGet m s.tr.states = none ∧ s.regHas m = false) ∨
        (dGet m s.tr.states = some .completed ∧ s.regHas m = true) ∨
        (dGet m s.tr.states = some .inProgress ∧ (m ∈ decls.map (·.1) → R ≤ rank m) ∧ s.regHas m = false)) ∧
  (∀ d ∈ decls, ∀ k ∈ ctxs3 d.1 d.2, dGet (k) s.tr.states ≠ none → dGet d.1 s.tr.states ≠ none)

/-- a context name (not in `ex`) whose tracker state changed belongs to an owner that was parsed from
    start to end within the step -/
def Own3 (decls : Decls) (ex : List Str) (s s' : PSt) : Prop :=
  ∀ d ∈ decls, ∀ k ∈ ctxs3 d.1 d.2, k ∉ ex →
    dGet (k) s'.tr.states ≠ dGet (k) s.tr.states →
    dGet d.1 s.tr.states = none ∧ dGet d.1 s'.tr.states = some .completed

theorem Own3.of_states_eq {decls : Decls} {ex : List Str} {s s' : PSt} (h : s'.tr.states = s.tr.states) :
    Own3 decls ex s s' := by
  intro d _ k _ _ hne
  rw [h] at hne
  exact absurd rfl hne

theorem Own3.mono {decls : Decls} {ex ex' : List Str} {s s' : PSt} (hsub : ∀ c ∈ ex, c ∈ ex')
    (h : Own3 decls ex s s') : Own3 decls ex' s s' :=
  fun d hd k hk hnot hne => h d hd k hk (fun hc => hnot (hsub _ hc)) hne

theorem Own3.trans {decls : Decls} {ex : List Str} {a b c : PSt} (s1 : Step a b) (s2 : Step b c)
    (o1 : Own3 decls ex a b) (o2 : Own3 decls ex b c) : Own3 decls ex a c := by
  intro d hd k hk hnot hne
  by_cases e1 : dGet (k) b.tr.states = dGet (k) a.tr.states
  · have e2 : dGet (k) c.tr.states ≠ dGet (k) b.tr.states := by rw [e1]; exact hne
    obtain ⟨x1, x2⟩ := o2 d hd k hk hnot e2
    refine ⟨?_, x2⟩
    rcases s1.states d.1 with e | ⟨_, e, _⟩
    · rw [← e]; exact x1
    · rw [x1] at e; cases e
  · obtain ⟨x1, x2⟩ := o1 d hd k hk hnot e1
    refine ⟨x1, ?_⟩
    rcases s2.states d.1 with e | ⟨e, _, _⟩
    · rw [e]; exact x2
    · rw [x2] at e; cases e

theorem TK3.step {decls : Decls} {rank : Str → Nat} {ex : List Str} {s s' : PSt} {R : Nat} (h : Step s s')
    (o : Own3 decls ex s s')
    (hex : ∀ d ∈ decls, ∀ k ∈ ctxs3 d.1 d.2, k ∈ ex → dGet d.1 s'.tr.states ≠ none)
    (hk : TK3 decls rank s R) : TK3 decls rank s' R := by
  obtain ⟨hc, hst, hall, hown⟩ := hk
  refine ⟨by rw [h.cycles]; exact hc, ?_, ?_, ?_⟩
  · intro m hm
    rw [h.stack] at hm
    rcases h.states m with e | ⟨e, _, _⟩
    · rw [e]; exact hst m hm
    · rw [hst m hm] at e; cases e
  · intro m
    rcases h.states m with e | ⟨_, e', r⟩
    · have hno : s.regHas m = false → s'.regHas m = false := by
        intro c
        cases hr : s'.regHas m with
        | false => rfl
        | true =>
          rcases h.regNew m hr with x | ⟨x, x'⟩
          · rw [c] at x; cases x
          · rw [e, x] at x'; cases x'
      rcases hall m with ⟨a, b⟩ | ⟨a, b⟩ | ⟨a, b, c⟩
      · exact Or.inl ⟨by rw [e]; exact a, hno b⟩
      · exact Or.inr (Or.inl ⟨by rw [e]; exact a, h.regMono m b⟩)
      · exact Or.inr (Or.inr ⟨by rw [e]; exact a, b, hno c⟩)
    · exact Or.inr (Or.inl ⟨e', r⟩)
  · intro d hd k hk hne
    by_cases hin : k ∈ ex
    · exact hex d hd k hk hin
    · by_cases e : dGet (k) s'.tr.states = dGet (k) s.tr.states
      · rw [e] at hne
        have := hown d hd k hk hne
        rcases h.states d.1 with e1 | ⟨_, e1, _⟩
        · rw [e1]; exact this
        · rw [e1]; exact fun x => by cases x
      · rw [(o d hd k hk hin e).2]
        exact fun x => by cases x

theorem TK3.anti {decls : Decls} {rank : Str → Nat} {s : PSt} {R R' : Nat} (h : TK3 decls rank s R) (hr : R' ≤ R) :
    TK3 decls rank s R' := by
  obtain ⟨hc, hst, hall, hown⟩ := h
  refine ⟨hc, hst, fun m => ?_, hown⟩
  rcases hall m with a | a | ⟨a, b, c⟩
  · exact Or.inl a
  · exact Or.inr (Or.inl a)
  · exact Or.inr (Or.inr ⟨a, fun hm => Nat.le_trans hr (b hm), c⟩)

theorem TK3.congr {decls : Decls} {rank : Str → Nat} {s s' : PSt} {R : Nat} (hc : s'.tr.cycles = s.tr.cycles)
    (hst : s'.tr.stack = s.tr.stack) (hs : s'.tr.states = s.tr.states) (hr : s'.reg = s.reg)
    (h : TK3 decls rank s R) : TK3 decls rank s' R := by
  unfold TK3 PSt.regHas at *
  rw [hc, hst, hs, hr]
  exact h

/-! ### frames -/

theorem own_anon3 {decls : Decls} {ex : List Str} {s s2 : PSt} (h : Own3 decls ex (anonIn s) s2) :
    Own3 decls ex s (anonOut s2) := h

theorem TK3.anonIn {decls : Decls} {rank : Str → Nat} {s : PSt} {R : Nat} (h : TK3 decls rank s R) :
    TK3 decls rank (anonIn s) R := h

theorem WF3.anonIn {decls : Decls} {rank : Str → Nat} {s : PSt} (h : WF3 decls rank s) : WF3 decls rank (Prs.anonIn s) :=
  WF3.congr (s := s) (s' := Prs.anonIn s) rfl rfl h
theorem WF3.anonOut {decls : Decls} {rank : Str → Nat} {s : PSt} (h : WF3 decls rank s) : WF3 decls rank (Prs.anonOut s) :=
  WF3.congr (s := s) (s' := Prs.anonOut s) rfl rfl h
theorem DenP.anonOut {names : List Str} {s : PSt} {K : Kind} {pid : Nat} (h : DenP names s K pid) :
    DenP names (Prs.anonOut s) K pid := DenP.step (hstep_of_eq (s := s) (s' := Prs.anonOut s) rfl rfl).toW h


theorem WF3.close {decls : Decls} {rank : Str → Nat} {se sf : PSt} {n : Str} {model : IR} (hw : WF3 decls rank se) (hhs : HStep se sf)
    {extra : List IR} (hreg : sf.reg = dSet n se.heap.length se.reg) (hheap : sf.heap = se.heap ++ model :: extra)
    (hm : n ∈ decls.map (·.1) → ModelOK3 decls rank sf n se.heap.length) : WF3 decls rank sf := by
  have hfreg_ne : ∀ k, k ≠ n → dGet k sf.reg = dGet k se.reg := by
    intro k hk'
    rw [hreg, dGet_dSet_ne _ _ _ _ hk']
  have hfreg_n : dGet n sf.reg = some se.heap.length := by rw [hreg, dGet_dSet_self]
  refine ⟨?_, ?_⟩
  · intro m i hmi
    by_cases hmn : m = n
    · subst hmn
      rw [hfreg_n] at hmi
      cases hmi
      exact ⟨by rw [hheap]; simp, hm⟩
    · rw [hfreg_ne m hmn] at hmi
      obtain ⟨h1, h2⟩ := hw.1 m i hmi
      exact ⟨Nat.lt_of_lt_of_le h1 hhs.heapLen, fun hmem => ModelOK3.step hhs.toW m i h1 (h2 hmem)⟩
  · intro m m' i h1 h2
    by_cases hmn : m = n
    · by_cases hmn' : m' = n
      · rw [hmn, hmn']
      · subst hmn
        rw [hfreg_n] at h1
        cases h1
        rw [hfreg_ne m' hmn'] at h2
        exact absurd (hw.1 m' _ h2).1 (Nat.lt_irrefl _)
    · by_cases hmn' : m' = n
      · subst hmn'
        rw [hfreg_n] at h2
        cases h2
        rw [hfreg_ne m hmn] at h1
        exact absurd (hw.1 m _ h1).1 (Nat.lt_irrefl _)
      · rw [hfreg_ne m hmn] at h1
        rw [hfreg_ne m' hmn'] at h2
        exact hw.2 m m' i h1 h2

theorem own_close3 {decls : Decls} {ex ex' : List Str} {n : Str} {s se sf : PSt}
    (hsf : sf.tr.states = dSet n .completed se.tr.states) (ho : Own3 decls ex (afterEnter s n) se)
    (hex : ∀ d ∈ decls, ∀ k ∈ ctxs3 d.1 d.2, k ∉ ex' →
      k ≠ n ∧ (k ∈ ex → dGet d.1 s.tr.states = none ∧ d.1 = n)) :
    Own3 decls ex' s sf := by
  intro d hd k hk hnot hne
  obtain ⟨hcn, hin⟩ := hex d hd k hk hnot
  have h1states : (afterEnter s n).tr.states = dSet n .inProgress s.tr.states := rfl
  rw [hsf, dGet_dSet_ne _ _ _ _ hcn] at hne
  by_cases hc : k ∈ ex
  · obtain ⟨x1, x2⟩ := hin hc
    refine ⟨x1, ?_⟩
    rw [hsf, x2, dGet_dSet_self]
  · have hne' : dGet (k) se.tr.states ≠ dGet (k) (afterEnter s n).tr.states := by
      rw [h1states, dGet_dSet_ne _ _ _ _ hcn]; exact hne
    obtain ⟨x1, x2⟩ := ho d hd k hk hc hne'
    have hdn : d.1 ≠ n := by
      intro e
      rw [h1states, e, dGet_dSet_self] at x1
      cases x1
    rw [h1states, dGet_dSet_ne _ _ _ _ hdn] at x1
    refine ⟨x1, ?_⟩
    rw [hsf, dGet_dSet_ne _ _ _ _ hdn]
    exact x2

theorem TK3.afterEnter {decls : Decls} {rank : Str → Nat} {s : PSt} {R R' : Nat} {n : Str}
    (hk : TK3 decls rank s R) (hstate : dGet n s.tr.states = none) (hR : R' ≤ R)
    (hrank : n ∈ decls.map (·.1) → R' ≤ rank n)
    (hown : ∀ d ∈ decls, ∀ k ∈ ctxs3 d.1 d.2, k = n → dGet d.1 s.tr.states ≠ none) :
    TK3 decls rank (Prs.afterEnter s n) R' := by
  obtain ⟨h1stack, _, _, h1cyc, h1states, _, h1reg, _⟩ := afterEnter_facts s n
  have h1regHas : ∀ k, (Prs.afterEnter s n).regHas k = s.regHas k := by intro k; unfold PSt.regHas; rw [h1reg]
  have hnstack : n ∉ s.tr.stack := by
    intro hm
    have := hk.2.1 n hm
    rw [hstate] at this
    cases this
  have hnreg : s.regHas n = false := by
    rcases hk.2.2.1 n with ⟨_, b⟩ | ⟨a, _⟩ | ⟨a, _⟩
    · exact b
    · rw [hstate] at a; cases a
    · rw [hstate] at a; cases a
  refine ⟨by rw [h1cyc]; exact hk.1, ?_, ?_, ?_⟩
  · intro m hm
    rw [h1stack] at hm
    rw [h1states]
    rcases List.mem_append.mp hm with h | h
    · have hne : m ≠ n := fun e => hnstack (e ▸ h)
      rw [dGet_dSet_ne _ _ _ _ hne]
      exact hk.2.1 m h
    · simp at h; subst h; exact dGet_dSet_self _ _ _
  · intro m
    rw [h1states, h1regHas]
    by_cases hmn : m = n
    · subst hmn
      exact Or.inr (Or.inr ⟨dGet_dSet_self _ _ _, hrank, hnreg⟩)
    · rw [dGet_dSet_ne _ _ _ _ hmn]
      rcases hk.2.2.1 m with a | a | ⟨a, b, c⟩
      · exact Or.inl a
      · exact Or.inr (Or.inl a)
      · exact Or.inr (Or.inr ⟨a, fun hm => Nat.le_trans hR (b hm), c⟩)
  · intro d hd k hkk hne
    rw [h1states] at hne ⊢
    have hfinal : dGet d.1 s.tr.states ≠ none → dGet d.1 (dSet n SchemaState.inProgress s.tr.states) ≠ none := by
      intro h
      by_cases e : d.1 = n
      · rw [e, dGet_dSet_self]; exact fun x => by cases x
      · rw [dGet_dSet_ne _ _ _ _ e]; exact h
    by_cases e : k = n
    · exact hfinal (hown d hd k hkk e)
    · rw [dGet_dSet_ne _ _ _ _ e] at hne
      exact hfinal (hk.2.2.2 d hd k hkk hne)

theorem enter_fresh3 {decls : Decls} {rank : Str → Nat} {s : PSt} {R : Nat} {n : Str} (hk : TK3 decls rank s R)
    (hn : n ≠ []) (hstate : dGet n s.tr.states = none) (hd : s.tr.depth + 1 ≤ s.tr.maxDepth) :
    Trk.enter s.tr (some n) true = (enteredTr s.tr n, { action := .continueParsing }) := by
  have hnstack : n ∉ s.tr.stack := by
    intro hm
    have := hk.2.1 n hm
    rw [hstate] at this
    cases this
  exact enter_fresh s.tr n true hn hstate hnstack hd

end Pog.Prs
