import Pog.Model.Basic
import Pog.Model.Names
import Pog.Model.Registry
/-
  M-gencode — the OBSERVABLE BEHAVIOUR of one emitted endpoint method as a function of the shape
  of the operation (IR level: what `core/loader` hands to the visitors).

  Python (generator)                                        model
  --------------------------------------------------------  ---------------------------------------
  loader/operations/parser.py:93-114 (path-level + op-level) `irParams`
  helpers/url_utils.extract_url_variables, the `re.sub` of
    url_args_generator._build_url_with_path_vars             `parsePath`, `pathVars`
  processors/parameter_processor.process_parameters          `orderedParams` (`declaredInfos`, `bodyInfo`,
                                                              `undeclaredInfos`, `requiredFirst`)
  generators/signature_generator                             `stdSig` (identifier = sanitised TWICE)
  generators/url_args_generator + request_generator          `buildStd`
  generators/overload_generator + endpoint_method_generator
    ._generate_implementation_method                         `ovlParams`, `sigOf`, `ovlBody`, `buildOvl`
  types/strategies/response_strategy._get_primary_response   `primaryA`
  helpers/endpoint_utils._get_primary_response               `primaryB`
  response_strategy.ResponseStrategyResolver.resolve         `resolveStrategy`
  generators/response_handler_generator
    .generate_response_handling                              `arms`, `defaultAction`, `runAction`
    ._write_raise_by_status_range (the `case _:` arms)       `rangeClass`
    ._is_ndjson_stream (streaming arm of
      `_write_strategy_based_return`)                        `isNdjsonStream`, `streamJson`
    ._is_text_body (`_write_strategy_based_return` and the
      arm of another 2xx response)                           `isTextBody`, `singleOf`, `secondaryRet`
    ._write_secondary_return (the `return` of the arm of
      another 2xx response; F35 repaired)                    `secondaryAction`, `isAsyncGen`
  core/http_transport.HttpxTransport.request:192-200         `bundledClass`, the `.bundled` branch of `handle`
  emitters/exceptions_emitter (which alias classes exist)    `aliasBase` (Pog.Model.Registry)
  CPython compiling / importing the emitted module           `moduleOk`

  ABSTRACTED
    * Values are opaque tokens (`GValue`): `DataclassSerializer.serialize` is the identity on them; the
      model says WHICH caller value goes into WHICH slot of the `transport.request(...)` call.
    * A response media type carries a `Shape` (a summary of its schema) and `shapeTy`/`useCattrs`
      give the effect of `UnifiedTypeService.resolve_schema_type` and of the type-STRING heuristics
      `_should_use_cattrs_structure` on those shapes (validated by the correspondence, not re-derived
      from the strings).
    * A status key is `num n` (the canonical decimal `str(n)`), `default`, or `other s` (any other
      string, e.g. `2XX`; never all-digits).  `str(n).startswith("2")` is `leadDigit n = 2`.
  TRUSTED (third party, written as executable description)
    * CPython: duplicate parameter names and `from core import <missing name>` make the module unimportable
      (`moduleOk`; `return <value>` inside an async generator would too - since the repair of F35 no arm of a
      streaming method is emitted that way); a function whose body contains a `yield` is an async generator: calling
      it gives an async iterator, a bare `return` ends the iteration (`isAsyncGen`); calling with an
      unknown keyword or without a required one raises `TypeError` before the body runs; reading an
      unbound local raises `NameError`; `match` takes the first arm whose literal equals the subject.
    * httpx 0.28: `cookies={…}` becomes the `Cookie` header (a value that is neither `str` nor `None` raises `TypeError`
      in http.cookiejar, `cookieValuesOk`); a keyword that is `None` is ignored; a header value that is not `str` raises
      `TypeError` before anything is sent (`headerValuesOk`; since the repair of F39 only a value of a parameter that
      is not declared integer / number / boolean can still be a non-`str` there).
-/
namespace Pog.GenCode

/-! ## shape of an operation -/

/-- `IRParameter.param_in` -/
inductive GLoc
  | path | query | header | cookie
  /-- any other string (the loader copies `in` verbatim) -/
  | other
  deriving DecidableEq, Repr

/-- The python type of a declared parameter, as far as `url_args_generator._string_value_expr` looks at it:
    `p["type"]` without its ` | None` is `int` / `float` (`num`), `bool`, or anything else (`plain`: `str`, a model,
    an enum, a list, …).  The spec's `integer` / `number` / `boolean` resolve to the first two. -/
inductive PKind
  | plain | num | bool
  deriving DecidableEq, Repr

structure GParam where
  name : Str
  loc : GLoc
  required : Bool
  kind : PKind
  deriving DecidableEq, Repr

/-- A piece of the path template: literal text or `{var}`. -/
inductive Seg
  | lit (s : Str)
  | var (v : Str)
  deriving DecidableEq, Repr

/-- `IRRequestBody` (`content` keys in dict order; the loader drops a body without content). -/
structure GBody where
  required : Bool
  media : List Str
  deriving DecidableEq, Repr

/-- `IRResponse.status_code` -/
inductive StatusKey
  | num (n : Nat)
  | default
  | other (s : Str)
  deriving DecidableEq, Repr

/-- Summary of a response media type's schema. -/
inductive Shape
  /-- `$ref` to a named object schema (a generated dataclass) -/
  | model (n : Str)
  /-- inline `array` of `$ref` to a named object schema -/
  | listModel (n : Str)
  /-- inline `integer` -/
  | int
  /-- inline `string` (no binary format) -/
  | string
  /-- inline `string` / `format: binary` -/
  | binary
  /-- media type object without a `schema` -/
  | noSchema
  deriving DecidableEq, Repr

structure Media where
  mt : Str
  shape : Shape
  deriving DecidableEq, Repr

structure Resp where
  key : StatusKey
  content : List Media
  deriving DecidableEq, Repr

structure Op where
  /-- `HTTPMethod` value (upper case) -/
  method : Str
  path : List Seg
  /-- `IROperation.parameters` -/
  params : List GParam
  body : Option GBody
  responses : List Resp
  deriving DecidableEq, Repr

/-- loader/operations/parser.py:93-114 (F4 repaired): the path-level parameters that no operation-level parameter
    overrides (same name and location), then the operation's own; both in document order.
    (`GLoc.other` stands for ONE location string outside the four: two `other` parameters of an operation are taken
    to carry the same string - the correspondence generates `formData` only.) -/
def irParams (pathLevel opLevel : List GParam) : List GParam :=
  pathLevel.filter (fun bp => !opLevel.any (fun p => bp.name == p.name && bp.loc == p.loc)) ++ opLevel

/-! ## the path template -/

/-- State of the scanner for `{([^}]+)}`: outside a brace, or inside with the characters read since
    the `{` (reversed). -/
inductive PSt
  | out (lit : Str)
  | inb (lit : Str) (acc : Str)

def pathFlushLit (lit : Str) (acc : List Seg) : List Seg :=
  if lit.isEmpty then acc else Seg.lit lit.reverse :: acc

/-- One character of `re.finditer(r"{([^}]+)}", path)`. `acc` = finished segments, reversed. -/
def pathStep (st : PSt × List Seg) (c : Char) : PSt × List Seg :=
  match st with
  | (.out lit, acc) => if c == '{' then (.inb lit [], acc) else (.out (c :: lit), acc)
  | (.inb lit v, acc) =>
    if c == '}' then
      match v with
      | [] => (.out ('}' :: '{' :: lit), acc)            -- `{}`: `[^}]+` needs one character
      | _ => (.out [], Seg.var v.reverse :: pathFlushLit lit acc)
    else (.inb lit (c :: v), acc)                         -- `[^}]` also eats `{`

/-- Split a path template into literal text and `{var}` occurrences exactly as the regular
    expression `{([^}]+)}` does (an unclosed `{…` is literal text). -/
def parsePath (p : Str) : List Seg :=
  match p.foldl pathStep (.out [], []) with
  | (.out lit, acc) => (pathFlushLit lit acc).reverse
  | (.inb lit v, acc) => (pathFlushLit (v ++ '{' :: lit) acc).reverse

def pathVars : List Seg → List Str
  | [] => []
  | .lit _ :: r => pathVars r
  | .var v :: r => v :: pathVars r

/-! ## parameters of the emitted method -/

inductive SLoc
  | path | query | header | cookie | other | body
  deriving DecidableEq, Repr

def GLoc.toS : GLoc → SLoc
  | .path => .path | .query => .query | .header => .header | .cookie => .cookie | .other => .other

/-- One entry of `ordered_params`. -/
structure PInfo where
  /-- `p["name"]` — sanitised ONCE -/
  name : Str
  required : Bool
  loc : SLoc
  /-- `p["original_name"]` -/
  orig : Str
  /-- what `_string_value_expr` makes of `p["type"]` -/
  kind : PKind
  deriving DecidableEq, Repr

/-- The Python identifier in the signature and in the body: `sanitize_method_name(p["name"])`,
    i.e. the original name sanitised TWICE. -/
def PInfo.ident (p : PInfo) : Str := sanMethod p.name

/-- The identifier under which a declared parameter appears in the single-content signature. -/
def GParam.ident (p : GParam) : Str := sanMethod (sanMethod p.name)

def GParam.info (p : GParam) : PInfo := ⟨sanMethod p.name, p.required, p.loc.toS, p.name, p.kind⟩

def declaredInfos (ps : List GParam) : List PInfo :=
  ps.map GParam.info

def mtJson : Str := "application/json".toList
def mtMultipart : Str := "multipart/form-data".toList
def mtForm : Str := "application/x-www-form-urlencoded".toList

/-- Which keyword of `transport.request` carries the body in the single-content method. -/
inductive BodyKind
  | json | files | form | bytes
  deriving DecidableEq, Repr

/-- `primary_content_type` and the body parameter: multipart > json > urlencoded > first. -/
def primaryBody (media : List Str) : Option (Str × BodyKind) :=
  if mtMultipart ∈ media then some (mtMultipart, .files)
  else if mtJson ∈ media then some (mtJson, .json)
  else if mtForm ∈ media then some (mtForm, .form)
  else match media with
    | m :: _ => some (m, .bytes)
    | [] => none

def BodyKind.param : BodyKind → Str
  | .json => "body".toList
  | .files => "files".toList
  | .form => "form_data".toList
  | .bytes => "bytes_content".toList

/-- The body parameter, unless its name is already a key of `param_details_map`. -/
def bodyInfo (body : Option GBody) (taken : List Str) : List PInfo :=
  match body with
  | none => []
  | some b =>
    match primaryBody b.media with
    | none => []
    | some (_, k) => if k.param ∈ taken then [] else [⟨k.param, b.required, .body, k.param, .plain⟩]

/-- `_ensure_path_variables_as_params`: every `{var}` whose sanitised name is not yet a key becomes a
    required path parameter.  (Python iterates a `set`; the order is irrelevant for keyword calls.) -/
def undeclaredInfos : List Str → List Str → List PInfo
  | [], _ => []
  | v :: vs, taken =>
    if sanMethod v ∈ taken then undeclaredInfos vs taken
    else ⟨sanMethod v, true, .path, v, .plain⟩ :: undeclaredInfos vs (sanMethod v :: taken)

/-- `list.sort(key=lambda p: not p["required"])` — stable. -/
def requiredFirst (l : List PInfo) : List PInfo :=
  l.filter (·.required) ++ l.filter (fun p => !p.required)

def unsortedParams (op : Op) : List PInfo :=
  let d := declaredInfos op.params
  let b := bodyInfo op.body (d.map (·.name))
  let u := undeclaredInfos (pathVars op.path) ((d ++ b).map (·.name))
  d ++ b ++ u

/-- `EndpointParameterProcessor.process_parameters(op)[0]` -/
def orderedParams (op : Op) : List PInfo := requiredFirst (unsortedParams op)

/-- `len(op.request_body.content) > 1` -/
def isMulti (op : Op) : Bool :=
  match op.body with
  | some b => decide (b.media.length > 1)
  | none => false

/-! ### the implementation method for several request media types -/

/-- `_get_content_type_param_info(content_type)["name"]` -/
def ctParam (mt : Str) : Str :=
  if mt = mtJson then "body".toList
  else if mt = mtMultipart then "files".toList
  else if mt = mtForm then "data".toList
  else "body".toList

def dedupStr : List Str → List Str → List Str
  | [], _ => []
  | x :: xs, seen => if x ∈ seen then dedupStr xs seen else x :: dedupStr xs (x :: seen)

/-- `overload_generator._operation_param_parts` (F12 repaired): the entries of `ordered_params` except the request body
    parameter - declared parameters of every location, then the path variables without a parameter object; required
    first; the identifier sanitised twice and `= None` for an optional one, as in the single-content signature. -/
def ovlParams (op : Op) : List PInfo := (orderedParams op).filter (fun p => p.loc ≠ .body)

def ovlPositional (op : Op) : List (Str × Bool) := (ovlParams op).map (fun p => (p.ident, p.required))

def ovlKeywordOnly (media : List Str) : List Str := dedupStr (media.map ctParam) []

def contentTypeParam : Str := "content_type".toList

/-- (identifier, required) of every parameter the emitted method accepts. -/
def sigOf (op : Op) : List (Str × Bool) :=
  if isMulti op then
    ovlPositional op
      ++ (ovlKeywordOnly ((op.body.map (·.media)).getD [])).map (·, false)
      ++ [(contentTypeParam, false)]
  else (orderedParams op).map (fun p => (p.ident, p.required))

/-! ## responses: primary selection (two copies), strategy, arms -/

/-- `str(n).startswith("2")` via the leading decimal digit (fuelled; `n` steps always suffice). -/
def leadDigitAux : Nat → Nat → Nat
  | 0, n => n
  | fuel + 1, n => if n < 10 then n else leadDigitAux fuel (n / 10)

def leadDigit (n : Nat) : Nat := leadDigitAux n n

/-- `status_code.startswith("2")` -/
def StatusKey.starts2 : StatusKey → Bool
  | .num n => leadDigit n == 2
  | .default => false
  | .other s => match s with
    | c :: _ => c == '2'
    | [] => false

/-- `status_code == "<code>"` -/
def StatusKey.isCode (k : StatusKey) (c : Nat) : Bool :=
  match k with
  | .num n => n == c
  | _ => false

def StatusKey.isDefault : StatusKey → Bool
  | .default => true
  | _ => false

/-- `status_code.isdigit()` / `int(status_code)` -/
def StatusKey.code? : StatusKey → Option Nat
  | .num n => some n
  | _ => none

def preferredCodes : List Nat := [200, 201, 202, 204]

/-- `IRResponse.status_code` as the python `str` it is. -/
def StatusKey.str : StatusKey → Str
  | .num n => natStr n
  | .default => "default".toList
  | .other s => s

/-- python `a < b` on `str`: lexicographic by code point. -/
def strLt : Str → Str → Bool
  | [], [] => false
  | [], _ :: _ => true
  | _ :: _, [] => false
  | a :: as, b :: bs => if a.toNat < b.toNat then true else if b.toNat < a.toNat then false else strLt as bs

/-- python `min(rs, key=lambda r: r.status_code)`: the FIRST element whose key is minimal. -/
def minByKey : List Resp → Option Resp
  | [] => none
  | r :: rs =>
    match minByKey rs with
    | none => some r
    | some m => if strLt m.key.str r.key.str then some m else some r

/-- `for r in sorted(rs, key=lambda r: r.status_code): if p(r): return r` — `sorted` is stable, so this is the
    first minimal element among those satisfying `p`. -/
def firstSortedWhere (p : Resp → Bool) (rs : List Resp) : Option Resp := minByKey (rs.filter p)

/-- response_strategy.py `_get_primary_response`: nested `for code … for response …` loops, then the lowest other
    2xx key, then `default`, then the lowest key (repaired F57: the last two steps no longer depend on the order of
    the `responses` mapping). -/
def primaryA.byCode (rs : List Resp) : List Nat → Option Resp
  | [] => none
  | c :: cs =>
    match rs.find? (fun r => r.key.isCode c) with
    | some r => some r
    | none => primaryA.byCode rs cs

def primaryA (rs : List Resp) : Option Resp :=
  if rs.isEmpty then none else
  match primaryA.byCode rs preferredCodes with
  | some r => some r
  | none =>
    match firstSortedWhere (fun r => r.key.starts2) rs with
    | some r => some r
    | none =>
      match rs.find? (fun r => r.key.isDefault) with
      | some r => some r
      | none => minByKey rs

/-- endpoint_utils.py `_get_primary_response`: `next((r for r in … if …), None)` per code, an
    `IRResponse` instance is always truthy. -/
def nextWhere (p : Resp → Bool) : List Resp → Option Resp
  | [] => none
  | r :: rs => if p r then some r else nextWhere p rs

def primaryB.loopCodes (rs : List Resp) : List Nat → Option Resp
  | [] => none
  | c :: cs =>
    match nextWhere (fun r => r.key.isCode c) rs with
    | some r => some r
    | none => primaryB.loopCodes rs cs

def primaryB (rs : List Resp) : Option Resp :=
  match primaryB.loopCodes rs preferredCodes with
  | some r => some r
  | none =>
    match firstSortedWhere (fun r => r.key.starts2) rs with
    | some r => some r
    | none =>
      match nextWhere (fun r => r.key.isDefault) rs with
      | some r => some r
      | none =>
        match rs with
        | _ :: _ => minByKey rs
        | [] => none

/-- The python type a schema shape resolves to (`UnifiedTypeService.resolve_schema_type`). -/
inductive PyTy
  | bytes | str | int | any
  | model (n : Str)
  | listModel (n : Str)
  deriving DecidableEq, Repr

def shapeTy : Shape → PyTy
  | .model n => .model n
  | .listModel n => .listModel n
  | .int => .int
  | .string => .str
  | .binary => .bytes
  | .noSchema => .any

/-- `_should_use_cattrs_structure(type string)` on these types. -/
def useCattrs : PyTy → Bool
  | .model _ => true
  | .listModel _ => true
  | _ => false

def isInfix (pat : Str) : Str → Bool
  | [] => pat.isEmpty
  | c :: cs => pat.isPrefixOf (c :: cs) || isInfix pat cs

def streamFormats : List Str :=
  ["application/octet-stream".toList, "text/event-stream".toList, "application/x-ndjson".toList,
   "application/json-seq".toList, "multipart/mixed".toList]

/-- loader/responses/parser.py: `IRResponse.stream`. -/
def respStream (r : Resp) : Bool :=
  r.content.any (fun m => lowerAscii m.mt ∈ streamFormats) || r.content.any (fun m => m.shape = .binary)

/-- `ct in ["application/octet-stream", "application/pdf"] or ct.startswith(("image/", "audio/", "video/"))` -/
def isBinaryCt (mt : Str) : Bool :=
  mt = "application/octet-stream".toList || mt = "application/pdf".toList ||
  startsWith mt "image/".toList || startsWith mt "audio/".toList || startsWith mt "video/".toList

/-- response_strategy `_get_response_schema`: `application/json`, else the first containing `json`, else the first. -/
def strategyMedia (content : List Media) : Option Media :=
  match content.find? (fun m => m.mt = mtJson) with
  | some m => some m
  | none =>
    match content.find? (fun m => isInfix "json".toList m.mt) with
    | some m => some m
    | none => content.head?

/-- response_handler_generator `_get_response_schema`: `application/json`, else the first. -/
def handlerMedia (content : List Media) : Option Media :=
  match content.find? (fun m => m.mt = mtJson) with
  | some m => some m
  | none => content.head?

/-- `ct.startswith("text/")` -/
def isTextCt (mt : Str) : Bool := startsWith mt "text/".toList

/-- `_resolve_content_type_to_python_type` -/
def ctTy (m : Media) : PyTy :=
  if isBinaryCt m.mt then .bytes
  else if isTextCt m.mt then (if m.shape = .binary then .bytes else .str)
  else shapeTy m.shape

def dedupTy : List PyTy → List PyTy → List PyTy
  | [], _ => []
  | x :: xs, seen => if x ∈ seen then dedupTy xs seen else x :: dedupTy xs (x :: seen)

/-- What `ResponseStrategy` says about the return statement. -/
inductive Strategy
  /-- `return_type == "None"` -/
  | none
  | single (t : PyTy)
  /-- one type and `_is_text_body`: `str` over `text/*` media types only — `return response.text` (repaired F32b) -/
  | text
  /-- `Union[...]` with a `content_type_mapping` (≥ 2 distinct types) -/
  | union (m : List (Str × PyTy))
  /-- `is_streaming` with `AsyncIterator[bytes]` in the return type -/
  | streamBytes
  /-- `is_streaming`, not bytes, and `_is_ndjson_stream`: `application/x-ndjson` declared, no event stream (repaired F43) -/
  | streamNdjson
  /-- `is_streaming`, anything else -/
  | streamSse
  deriving DecidableEq, Repr

def Strategy.isNone : Strategy → Bool
  | .none => true
  | _ => false

def Strategy.isUnion : Strategy → Bool
  | .union _ => true
  | _ => false

def Strategy.isStreaming : Strategy → Bool
  | .streamBytes => true
  | .streamNdjson => true
  | .streamSse => true
  | _ => false

def mtNdjson : Str := "application/x-ndjson".toList

/-- response_handler_generator `_is_ndjson_stream`: no key contains `event-stream` and some key, lower-cased, is
    `application/x-ndjson` (the response has content whenever a streaming strategy is not `AsyncIterator[bytes]`). -/
def isNdjsonStream (content : List Media) : Bool :=
  !content.any (fun m => isInfix "event-stream".toList m.mt) && content.any (fun m => lowerAscii m.mt = mtNdjson)

/-- The streaming arm of `_write_strategy_based_return` when the return type is not `AsyncIterator[bytes]`:
    `iter_ndjson` for an NDJSON stream, else the SSE parser. -/
def streamJson (content : List Media) : Strategy :=
  if isNdjsonStream content then .streamNdjson else .streamSse

/-- response_handler_generator `_is_text_body(response_ir, type)`: the type is `str`, the response has content and
    every media type key starts with `text/`. -/
def isTextBody (content : List Media) (t : PyTy) : Bool :=
  t = .str && !content.isEmpty && content.all (fun m => isTextCt m.mt)

/-- A non-streaming, non-`Union` return type in `_write_strategy_based_return`: `response.text` for a text body,
    else cattrs / `cast` on `response.json()`. -/
def singleOf (content : List Media) (t : PyTy) : Strategy :=
  if isTextBody content t then .text else .single t

/-- `ResponseStrategyResolver.resolve`, together with the decisions `_write_strategy_based_return` takes from
    `strategy.response_ir` rather than from the return type alone (`streamJson`, `singleOf`). -/
def resolveStrategy (rs : List Resp) : Strategy :=
  match primaryA rs with
  | none => .none
  | some p =>
    if p.content.isEmpty then .none
    else if respStream p then
      if p.content.any (fun m => isBinaryCt m.mt) then .streamBytes
      else if p.content.any (fun m => isInfix "event-stream".toList m.mt) then streamJson p.content
      else match strategyMedia p.content with
        | some m => if shapeTy m.shape = .bytes then .streamBytes else streamJson p.content
        | none => .streamBytes
    else if p.content.length > 1 then
      let mapping := p.content.map (fun m => (m.mt, ctTy m))
      match dedupTy (mapping.map (·.2)) [] with
      | [] => .none
      | [t] => singleOf p.content t
      | _ => .union mapping
    else
      match strategyMedia p.content with
      | some m => singleOf p.content (shapeTy m.shape)
      | none => .none

/-- What a `return` arm hands back (value-level decoding is not modelled). -/
inductive RetKind
  /-- `return None` -/
  | none
  /-- `structure_from_dict(response.json(), T)` -/
  | structure (t : PyTy)
  /-- `cast(T, response.json())` -/
  | cast (t : PyTy)
  /-- `response.text` -/
  | text
  /-- `response.content` -/
  | content
  /-- `async for chunk in iter_bytes(response): yield chunk` -/
  | streamBytes
  /-- `async for item in iter_ndjson(response): yield item` -/
  | streamNdjson
  /-- `async for chunk in iter_sse_events_text(response): yield json.loads(chunk)` -/
  | streamSse
  /-- a bare `return` reached in a method that is an async generator: the iteration ends without an item (F35 repaired) -/
  | streamEnd
  /-- `yield <value>` + bare `return` — the arm of another 2xx response in a streaming method (F35 repaired): the
      async iterator's only item is the value a non-streaming method would have returned -/
  | yieldOnce (k : RetKind)
  deriving DecidableEq, Repr

def tyRet (t : PyTy) : RetKind := if useCattrs t then .structure t else .cast t

/-- The per-response `return` of a 2xx response that is not the primary one. -/
def secondaryRet (r : Resp) : RetKind :=
  match handlerMedia r.content with
  | none => .none
  | some m => if isTextBody r.content (shapeTy m.shape) then .text else tyRet (shapeTy m.shape)

inductive Action
  | retNone
  /-- `_write_strategy_based_return` -/
  | retStrategy
  | retSecondary (k : RetKind)
  /-- `_write_secondary_return` for a streaming strategy, no value: a bare `return` (F35 repaired) -/
  | retStreamEnd
  /-- `_write_secondary_return` for a streaming strategy: `yield <value>` + bare `return` (F35 repaired) -/
  | yieldSecondary (k : RetKind)
  /-- `raise <alias>(response=response)` -/
  | raiseAlias (code : Nat)
  /-- `_write_raise_by_status_range(…, "Default error")`: `ClientError` / `ServerError` / `HTTPError` by range (F15 repaired) -/
  | raiseDefault
  /-- `raise HTTPError(…, message="Unhandled status code", …)` — the arm of a declared 1xx/3xx status -/
  | raiseUnhandled
  /-- `_write_raise_by_status_range(…, "Unhandled status code")` — the final catch-all (F15 repaired) -/
  | raiseCatchAll
  /-- the `case _:` arm of a `default` response with content (F40 repaired):
      `if 200 <= response.status_code < 300:` + `_write_strategy_based_return`, then `_write_raise_by_status_range(…, "Default error")` -/
  | retDefault
  deriving DecidableEq, Repr

/-- The arm ends in a `return` (or, for a streaming strategy, in the `yield` loop) whatever the status. -/
def Action.isReturn : Action → Bool
  | .retNone => true
  | .retStrategy => true
  | .retSecondary _ => true
  | .retStreamEnd => true
  | .yieldSecondary _ => true
  | _ => false

/-- The primary response gets the first `case` iff its key is all digits and starts with `2`. -/
def processedPrimary (rs : List Resp) : Option (Resp × Nat) :=
  match primaryB rs with
  | some p =>
    match p.key.code? with
    | some n => if p.key.starts2 then some (p, n) else none
    | none => none
  | none => none

/-- Is `x` the response that got the first (primary) `case`? -/
def isPrimaryArm (rs : List Resp) (x : Resp) : Bool :=
  match processedPrimary rs with
  | some (p, _) => decide (p = x)
  | none => false

/-- `other_responses` -/
def otherResponses (rs : List Resp) : List Resp :=
  match processedPrimary rs with
  | some (p, _) => rs.filter (fun r => !(r == p))
  | none => rs

/-- response_handler_generator `_write_secondary_return(writer, strategy, value)` (F35 repaired) as called by the arm of
    a 2xx response that is not the primary one: `return <value>` unless `strategy.is_streaming`; in a streaming method
    (an async generator, where `return <value>` is a SyntaxError) `yield <value>` - nothing for `None` - and a bare
    `return`. -/
def secondaryAction (streaming : Bool) (r : Resp) : Action :=
  if r.content.isEmpty then (if streaming then .retStreamEnd else .retNone)
  else (if streaming then .yieldSecondary (secondaryRet r) else .retSecondary (secondaryRet r))

/-- `streaming` = `strategy.is_streaming` of the operation. -/
def otherArm (streaming : Bool) (r : Resp) : Option (Nat × Action) :=
  match r.key.code? with
  | none => none
  | some n =>
    if r.key.starts2 then
      some (n, secondaryAction streaming r)
    -- `elif is_error_code(code): raise <alias>` / `else: raise HTTPError(…"Unhandled status code"…)` (F3 repaired)
    else some (n, if (aliasBase n).isSome then .raiseAlias n else .raiseUnhandled)

/-- The `case <int>:` arms of the emitted `match`, in order. -/
def arms (rs : List Resp) : List (Nat × Action) :=
  let first := match processedPrimary rs with
    | some (_, n) => [(n, if (resolveStrategy rs).isNone then Action.retNone else Action.retStrategy)]
    | none => []
  first ++ (otherResponses rs).filterMap (otherArm (resolveStrategy rs).isStreaming)

/-- The `case _:` arm. -/
def defaultAction (rs : List Resp) : Action :=
  match rs.find? (fun r => r.key.isDefault) with
  | some d => if !d.content.isEmpty && !(resolveStrategy rs).isNone then .retDefault else .raiseDefault
  | none => .raiseCatchAll

/-- `match response.status_code:` — first arm with an equal literal, else `case _`. -/
def selectAction (rs : List Resp) (status : Nat) : Action :=
  match (arms rs).find? (fun a => a.1 == status) with
  | some a => a.2
  | none => defaultAction rs

/-! ## can the emitted module be imported at all? -/

/-- The emitted method contains a `yield`, i.e. CPython compiles it to an async generator: a streaming strategy return is
    emitted (for the primary response or in the arm of a `default` response with content) or the arm of another 2xx
    response of a streaming method yields its value (F35 repaired: such an arm used to be `return <value>`, a
    SyntaxError next to a `yield`). -/
def isAsyncGen (rs : List Resp) : Bool :=
  (resolveStrategy rs).isStreaming &&
    ((processedPrimary rs).isSome || defaultAction rs == .retDefault ||
     (otherResponses rs).any (fun r => r.key.code?.isSome && r.key.starts2 && !r.content.isEmpty))

def badLitChar (c : Char) : Bool := c == '{' || c == '}' || c == '"' || c == '\\' || c == '\n' || c == '\r'

/-- Literal path text and original parameter names are pasted into `f"…"` / `"…"` literals. -/
def literalsOk (op : Op) : Bool :=
  op.path.all (fun s => match s with
    | .lit t => !t.any badLitChar
    | .var v => !(sanMethod v).isEmpty) &&
  op.params.all (fun p => !p.name.any badLitChar)

/-- All parameter names of the emitted `def`, `self` included. -/
def defNames (op : Op) : List Str := "self".toList :: (sigOf op).map (·.1)

def moduleOk (op : Op) : Bool :=
  decide (defNames op).Nodup && (defNames op).all (fun n => !n.isEmpty) && literalsOk op

/-! ## the request -/

/-- A caller-side value after `DataclassSerializer.serialize`: `None`, a `str`, or anything else. -/
inductive GValue
  | none
  | str (tok : Str)
  | other (tok : Str)
  deriving DecidableEq, Repr

/-- Keyword arguments of the call: identifier ↦ value. -/
abbrev GArgs := List (Str × GValue)

def argGet : GArgs → Str → Option GValue
  | [], _ => none
  | (k, v) :: r, i => if k = i then some v else argGet r i

/-- The value of a local: the argument, or the `= None` default. -/
def argVal (args : GArgs) (ident : Str) : GValue := (argGet args ident).getD .none

inductive Piece
  | lit (s : Str)
  /-- `{ident}` inside the f-string: `format(value)` -/
  | val (v : GValue)
  deriving DecidableEq, Repr

inductive BodyArg
  | none
  /-- `json=` -/
  | json (v : GValue)
  /-- `files=` -/
  | files (v : GValue)
  /-- `data=` (form-encoded for a dict, raw for bytes) -/
  | data (v : GValue)
  deriving DecidableEq, Repr

/-- The arguments of the one `self._transport.request(method, url, …)` call. -/
structure Request where
  method : Str
  /-- `url` after `self.base_url` -/
  path : List Piece
  /-- `params=`; `none` = `params=None` -/
  query : Option (List (Str × GValue))
  /-- `headers=`; `none` = `headers=None` -/
  headers : Option (List (Str × GValue))
  body : BodyArg
  /-- `cookies=` (the `Cookie` header httpx builds from it); `none` = the call has no `cookies` keyword -/
  cookies : Option (List (Str × GValue)) := none
  deriving DecidableEq, Repr

inductive CallErr
  /-- the module does not compile / import -/
  | moduleError
  /-- unexpected keyword or missing required argument -/
  | typeError
  /-- unbound name in the method body -/
  | nameError
  /-- `raise ValueError("One of the content-type parameters must be provided")` -/
  | valueError
  /-- httpx: `Header value must be str or bytes` -/
  | headerTypeError
  /-- http.cookiejar under httpx: `expected string or bytes-like object` for a cookie value -/
  | cookieTypeError
  deriving DecidableEq, Repr

instance decEqExceptGen {ε α : Type} [DecidableEq ε] [DecidableEq α] : DecidableEq (Except ε α)
  | .ok a, .ok b => if h : a = b then isTrue (by rw [h]) else isFalse (fun h' => h (Except.ok.inj h'))
  | .error a, .error b => if h : a = b then isTrue (by rw [h]) else isFalse (fun h' => h (Except.error.inj h'))
  | .ok _, .error _ => isFalse (fun h => by cases h)
  | .error _, .ok _ => isFalse (fun h => by cases h)

/-- CPython's argument binding for a call with keywords only. -/
def bindOk (sig : List (Str × Bool)) (args : GArgs) : Bool :=
  args.all (fun kv => sig.any (fun s => s.1 = kv.1)) &&
  sig.all (fun s => !s.2 || (argGet args s.1).isSome)

/-- `url = f"{self.base_url}<path with {sanitised var}>"`; `locals` = the parameters of the `def`. -/
def urlPieces (locals : List Str) (args : GArgs) : List Seg → Except CallErr (List Piece)
  | [] => .ok []
  | .lit s :: r =>
    match urlPieces locals args r with
    | .ok ps => .ok (.lit s :: ps)
    | .error e => .error e
  | .var v :: r =>
    if sanMethod v ∈ locals then
      match urlPieces locals args r with
      | .ok ps => .ok (.val (argVal args (sanMethod v)) :: ps)
      | .error e => .error e
    else .error .nameError

/-- One line of the `params` / `headers` dict display. -/
def dictEntry (args : GArgs) (p : PInfo) : Option (Str × GValue) :=
  if p.required then some (p.orig, argVal args p.ident)
  else if argVal args p.ident = .none then none
  else some (p.orig, argVal args p.ident)

def dictEntries (loc : SLoc) (ps : List PInfo) (args : GArgs) : List (Str × GValue) :=
  (ps.filter (fun p => p.loc = loc)).filterMap (dictEntry args)

def GValue.isStr : GValue → Bool
  | .str _ => true
  | _ => false

/-- The text of `str(v)`: the token of a value IS its string form (`str(None)` is `None`). -/
def GValue.tok : GValue → Str
  | .none => "None".toList
  | .str t => t
  | .other t => t

/-- `url_args_generator._string_value_expr` (F39 repaired), the expression a header / cookie entry is written with:
    `str(serialize(v))` for an `int` / `float` parameter, `str(serialize(v)).lower()` for a `bool` one (httpx's
    spelling `true` / `false` of a query boolean), `serialize(v)` unconverted for every other declared type.
    (`lowerAscii`: exact on what `str` makes of a bool, a number or `None`; python's `.lower()` also lowers
    non-ASCII capitals of a `str` passed where a boolean is declared.) -/
def strValue (k : PKind) (v : GValue) : GValue :=
  match k with
  | .plain => v
  | .num => .str v.tok
  | .bool => .str (lowerAscii v.tok)

/-- One line of the `headers` / `cookies` dict display: the line of `dictEntry` with the value written through
    `_string_value_expr` (the `is not None` test of an optional one is on the argument itself). -/
def strEntry (args : GArgs) (p : PInfo) : Option (Str × GValue) :=
  (dictEntry args p).map (fun e => (e.1, strValue p.kind e.2))

/-- `_write_header_params` (`loc = header`) / `_write_cookie_params` (`loc = cookie`, F11 repaired). -/
def strEntries (loc : SLoc) (ps : List PInfo) (args : GArgs) : List (Str × GValue) :=
  (ps.filter (fun p => p.loc = loc)).filterMap (strEntry args)

def headerValuesOk (h : Option (List (Str × GValue))) : Bool :=
  match h with
  | none => true
  | some es => es.all (fun e => e.2.isStr)

def GValue.isOther : GValue → Bool
  | .other _ => true
  | _ => false

/-- http.cookiejar (`_cookie_attrs`, reached from `httpx.Request.__init__`): `non_word_re.search(cookie.value)` raises
    `TypeError` for a value that is neither `None` nor a `str`; a `None` value is written as the bare cookie name. -/
def cookieValuesOk (c : Option (List (Str × GValue))) : Bool :=
  match c with
  | none => true
  | some es => es.all (fun e => !e.2.isOther)

/-- httpx ignores a keyword whose value is `None`. -/
def mkBody (k : GValue → BodyArg) (v : GValue) : BodyArg := if v = .none then .none else k v

/-- The path with every `{var}` replaced by the value bound to the sanitised variable name. -/
def substPath (args : GArgs) : List Seg → List Piece
  | [] => []
  | .lit s :: r => .lit s :: substPath args r
  | .var v :: r => .val (argVal args (sanMethod v)) :: substPath args r

/-- `params: dict[str, Any] = {…}` — written iff some parameter is `in: query`; `params=None` otherwise. -/
def stdQuery (op : Op) (args : GArgs) : Option (List (Str × GValue)) :=
  if (orderedParams op).any (fun p => p.loc = .query) then some (dictEntries .query (orderedParams op) args)
  else none

/-- `headers: dict[str, Any] = {…}` — written iff some parameter is `in: header`. -/
def stdHeaders (op : Op) (args : GArgs) : Option (List (Str × GValue)) :=
  if (orderedParams op).any (fun p => p.loc = .header) then some (strEntries .header (orderedParams op) args)
  else none

/-- `cookies: dict[str, Any] = {…}` — written iff some parameter is `in: cookie`, and then `cookies=cookies` is passed
    to the transport call (F11 repaired); no `cookies` keyword at all otherwise. -/
def stdCookies (op : Op) (args : GArgs) : Option (List (Str × GValue)) :=
  if (orderedParams op).any (fun p => p.loc = .cookie) then some (strEntries .cookie (orderedParams op) args)
  else none

/-- The body keyword of the single-content method. -/
def stdBody (op : Op) (args : GArgs) : Except CallErr BodyArg :=
  match op.body with
  | none => .ok .none
  | some b =>
    match primaryBody b.media with
    | none => .ok .none
    | some (_, .json) => .ok (mkBody .json (argVal args "body".toList))
    | some (_, .files) => .ok (mkBody .files (argVal args "files".toList))
    | some (_, .form) => .ok (mkBody .data (argVal args "form_data".toList))
    | some (mt, .bytes) =>
      -- request_generator: `elif "multipart/form-data" in primary_content_type: files=files_data`,
      -- but url_args_generator only defined `bytes_body`
      if isInfix mtMultipart mt then .error .nameError
      else .ok (mkBody .data (argVal args "bytes_content".toList))

/-- The `self._transport.request(method, url, params=…, <body keyword>, headers=…[, cookies=…])` call with the dicts
    `generate_url_and_args` wrote - the same for the single-content method and (F12 repaired) for every branch of the
    implementation method for several media types. -/
def sendRequest (op : Op) (args : GArgs) (pieces : List Piece) (b : BodyArg) : Except CallErr Request :=
  if !headerValuesOk (stdHeaders op args) then .error .headerTypeError
  else if !cookieValuesOk (stdCookies op args) then .error .cookieTypeError
  else .ok { method := op.method, path := pieces, query := stdQuery op args, headers := stdHeaders op args, body := b,
             cookies := stdCookies op args }

/-- The single-content (or body-less) method: `generate_url_and_args` + `generate_request_call`. -/
def buildStd (op : Op) (args : GArgs) : Except CallErr Request :=
  if !bindOk (sigOf op) args then .error .typeError else
  match urlPieces ((orderedParams op).map (·.ident)) args op.path with
  | .error e => .error e
  | .ok pieces =>
    match stdBody op args with
    | .error e => .error e
    | .ok b => sendRequest op args pieces b

/-- The `if … is not None: … elif …` chain over the media types in spec order. -/
def dispatchBody (args : GArgs) : List Str → Option BodyArg
  | [] => none
  | mt :: r =>
    let v := argVal args (ctParam mt)
    if v = .none then dispatchBody args r
    else if mt = mtJson then some (.json v)
    else if mt = mtMultipart then some (.files v)
    else some (.data v)

/-- The body keyword of the implementation method for several media types: the branch of the runtime dispatch that is
    taken; the final `else:` (F62 repaired) is `raise ValueError(…)` when the requestBody is required, else the call
    without a body keyword. -/
def ovlBody (op : Op) (args : GArgs) : Except CallErr BodyArg :=
  match dispatchBody args ((op.body.map (·.media)).getD []) with
  | none => if (op.body.map (·.required)).getD true then .error .valueError else .ok .none
  | some b => .ok b

/-- `_generate_implementation_method` for ≥ 2 request media types (F12 repaired): `generate_url_and_args` on the
    parameters of `_operation_param_parts` (url, `params`, `headers`, `cookies` as in the single-content method), then
    the runtime dispatch, every branch passing those dicts. -/
def buildOvl (op : Op) (args : GArgs) : Except CallErr Request :=
  if !bindOk (sigOf op) args then .error .typeError else
  match urlPieces ((sigOf op).map (·.1)) args op.path with
  | .error e => .error e
  | .ok pieces =>
    match ovlBody op args with
    | .error e => .error e
    | .ok b => sendRequest op args pieces b

/-- Awaiting the emitted method: either it fails before the transport is reached, or the transport is
    called exactly once with this request. -/
def buildRequest (op : Op) (args : GArgs) : Except CallErr Request :=
  if !moduleOk op then .error .moduleError
  else if isMulti op then buildOvl op args
  else buildStd op args

/-- The transport calls made by one invocation. -/
def wire (op : Op) (args : GArgs) : List Request :=
  match buildRequest op args with
  | .ok r => [r]
  | .error _ => []

/-! ## the response -/

inductive TransportKind
  /-- the bundled `HttpxTransport` -/
  | bundled
  /-- a user transport that hands every `httpx.Response` back -/
  | passthrough
  deriving DecidableEq, Repr

structure Reply where
  status : Nat
  /-- the `Content-Type` header, if any -/
  ctype : Option Str
  deriving DecidableEq, Repr

inductive ExcCls
  | httpError
  | clientError
  | serverError
  /-- the status-specific alias class `get_exception_class_name(code)` -/
  | alias (code : Nat)
  deriving DecidableEq, Repr

/-- `isinstance(e, ClientError)` -/
def ExcCls.isClient : ExcCls → Bool
  | .clientError => true
  | .alias c => aliasBase c == some .clientError
  | _ => false

/-- `isinstance(e, ServerError)` -/
def ExcCls.isServer : ExcCls → Bool
  | .serverError => true
  | .alias c => aliasBase c == some .serverError
  | _ => false

inductive RaiseWhy
  | transport | aliasArm | defaultArm | unhandledArm
  deriving DecidableEq, Repr

inductive Outcome
  | moduleError
  /-- `NameError: name 'structure_from_dict' is not defined` — the arm uses a name the module never imported -/
  | nameError
  | returned (k : RetKind)
  /-- `status` = `e.status_code`; `withResponse` = `e.response is the httpx.Response` -/
  | raised (cls : ExcCls) (status : Nat) (withResponse : Bool) (why : RaiseWhy)
  deriving DecidableEq, Repr

/-- http_transport.py:193-199 -/
def bundledClass (s : Nat) : ExcCls :=
  if 400 ≤ s ∧ s < 500 then .clientError
  else if 500 ≤ s ∧ s < 600 then .serverError
  else .httpError

/-- response_handler_generator `_write_raise_by_status_range` (F15 repaired), the emitted
    `if 400 <= response.status_code < 500: raise ClientError(…)` / `if 500 <= response.status_code < 600: raise ServerError(…)` /
    `raise HTTPError(…)`. -/
def rangeClass (s : Nat) : ExcCls :=
  if 400 ≤ s ∧ s < 500 then .clientError
  else if 500 ≤ s ∧ s < 600 then .serverError
  else .httpError

def isPyWs (c : Char) : Bool := c == ' ' || c == '\t' || c == '\n' || c == '\r' || c == '\x0b' || c == '\x0c'

def stripWs (s : Str) : Str := (s.dropWhile isPyWs).reverse.dropWhile isPyWs |>.reverse

/-- `response.headers.get("content-type", "").split(";")[0].strip().lower()` -/
def normCtype (h : Option Str) : Str :=
  lowerAscii (stripWs ((h.getD []).takeWhile (· != ';')))

/-- one arm of the dispatch: `bytes` -> `response.content`; `str` under a media type whose lower-cased name does not contain
    `json` -> `response.text`; everything else (a `str` of a JSON media type included, repaired F69) as for a single type -/
def tyDispatchRet (k : Str) (t : PyTy) : RetKind :=
  if t = .bytes then .content
  else if t = .str ∧ isInfix "json".toList (lowerAscii k) = false then .text
  else tyRet t

/-- `_write_content_type_conditional_handling`: `if`/`elif` on all but the last entry, `else` for the last. -/
def unionDispatch (ct : Str) : List (Str × PyTy) → RetKind
  | [] => .none
  | [(k, t)] => tyDispatchRet k t
  | (k, t) :: rest => if ct = lowerAscii k then tyDispatchRet k t else unionDispatch ct rest

def strategyRet (s : Strategy) (r : Reply) : RetKind :=
  match s with
  | .none => .none
  | .single t => tyRet t
  | .text => .text
  | .union m => unionDispatch (normCtype r.ctype) m
  | .streamBytes => .streamBytes
  | .streamNdjson => .streamNdjson
  | .streamSse => .streamSse

def RetKind.needsStructure : RetKind → Bool
  | .structure _ => true
  | .yieldOnce k => k.needsStructure
  | _ => false

/-- Does the emitted module import `structure_from_dict`?  `context.add_import(…, "structure_from_dict")`
    is executed by `_write_strategy_based_return` for a non-streaming, non-`Union` return type that uses
    cattrs (response_handler_generator.py:567-570) and by the per-response arm of another 2xx response
    that uses cattrs (`_register_cattrs_import`, line 479) and, since the repair of F58, by the `Union`
    content-type dispatch for each entry that uses cattrs.
    ASSUMPTION: the operation is alone in its tag module (imports are collected per module; a sibling
    operation could supply the import). -/
def Strategy.usesStructure : Strategy → Bool
  | .single t => useCattrs t
  -- `_write_content_type_conditional_handling` registers the import for every cattrs entry it writes (repaired F58)
  | .union m => m.any (fun e => useCattrs e.2)
  | _ => false

def importsStructure (rs : List Resp) : Bool :=
  ((resolveStrategy rs).usesStructure &&
   ((processedPrimary rs).isSome || defaultAction rs == .retDefault)) ||
  (otherResponses rs).any (fun r => match otherArm (resolveStrategy rs).isStreaming r with
    | some (_, .retSecondary k) => k.needsStructure
    | some (_, .yieldSecondary k) => k.needsStructure
    | _ => false)

def returnOf (rs : List Resp) (k : RetKind) : Outcome :=
  if k.needsStructure && !importsStructure rs then .nameError else .returned k

def runAction (rs : List Resp) (r : Reply) : Action → Outcome
  | .retNone => .returned .none
  | .retStrategy => returnOf rs (strategyRet (resolveStrategy rs) r)
  | .retSecondary k => returnOf rs k
  -- a bare `return`: the end of the iteration when the method is an async generator, `None` from a coroutine
  | .retStreamEnd => .returned (if isAsyncGen rs then .streamEnd else .none)
  | .yieldSecondary k => returnOf rs (.yieldOnce k)
  | .raiseAlias c => .raised (.alias c) r.status true .aliasArm
  | .raiseDefault => .raised (rangeClass r.status) r.status true .defaultArm
  | .raiseUnhandled => .raised .httpError r.status true .unhandledArm
  | .raiseCatchAll => .raised (rangeClass r.status) r.status true .unhandledArm
  | .retDefault =>
    if 200 ≤ r.status ∧ r.status < 300 then returnOf rs (strategyRet (resolveStrategy rs) r)
    else .raised (rangeClass r.status) r.status true .defaultArm

/-- What the caller observes when the server answers `r` (the request itself went out). -/
def handle (t : TransportKind) (op : Op) (r : Reply) : Outcome :=
  if !moduleOk op then .moduleError else
  match t with
  | .bundled =>
    if r.status < 200 ∨ r.status ≥ 300 then .raised (bundledClass r.status) r.status true .transport
    else runAction op.responses r (selectAction op.responses r.status)
  | .passthrough => runAction op.responses r (selectAction op.responses r.status)

end Pog.GenCode
