"""Generic check built from correspondence modules that follow the work-package contract
(vf/corr/<x>.py: run(seed, scale, driver) / oracle(seed, scale) / replay(case))."""
from __future__ import annotations

import importlib
import time

from .. import findings
from ..common import Run, seed
from ..lean import DRIVER_BIN


def scale_of(ctx, quick: float = 1.0, thorough: float = 8.0) -> float:
    import os
    # a widened failing-input search in the quick tier uses 3x the quick budget (the thorough tier its own budget)
    s = thorough if ctx.thorough else (min(thorough, quick * 3) if ctx.widen else quick)
    return s * float(os.environ.get("VERIF_BUDGET_SCALE", "1"))


def run_corr(run: Run, ctx, modname: str, name: str, quick: float = 1.0, thorough: float = 8.0) -> None:
    mod = importlib.import_module(modname)
    t0 = time.time()
    res = mod.run(seed(), scale_of(ctx, quick, thorough), str(DRIVER_BIN))
    run.cov["evaluations"] += int(res.get("comparisons", 0))
    run.cov["traces_validated_against_impl"] += int(res.get("comparisons", 0))
    run.cov["distinct_nontrivial"] += int(res.get("nontrivial", 0))
    if res.get("rule"):
        run.cov["rule"] = (run.cov.get("rule") or "") + f"[{name}] {res['rule']} "
    for s in res.get("samples", [])[:4]:
        run.sample({"correspondence": name, "case": s}, limit=10)
    run.cov.setdefault("input_distribution", {})[name] = res.get("distribution", {})
    run.cov.setdefault("correspondence_wall_s", {})[name] = round(time.time() - t0, 1)
    for d in res.get("disagreements", []):
        ctx.corr_fail(name, d.get("request", d.get("label")), d.get("impl"), d.get("model"))


def run_oracle(run: Run, ctx, known: findings.Known, modname: str, name: str, classes: dict[str, str],
               quick: float = 1.0, thorough: float = 8.0) -> None:
    """classes: oracle defect-class id -> finding id in known_findings.json."""
    mod = importlib.import_module(modname)
    if not hasattr(mod, "oracle"):
        return
    t0 = time.time()
    res = mod.oracle(seed(), scale_of(ctx, quick, thorough))
    n = int(res.get("evaluations", 0))
    run.cov["evaluations"] += n
    run.cov.setdefault("oracle_evaluations", {})[name] = n
    if n and not res.get("nontrivial_counted_in_run"):
        run.cov["distinct_nontrivial"] += int(res.get("nontrivial", 0))
    run.cov.setdefault("oracle_wall_s", {})[name] = round(time.time() - t0, 1)
    per_class: dict[str, int] = {}
    for f in res.get("failures", []):
        c = f.get("class", "?")
        per_class[c] = per_class.get(c, 0) + 1
        fid = classes.get(c)
        if fid and known.listed(fid):
            known.hit(fid, {"class": c, "case": f.get("case")})
        else:
            if len(run.violations) < 5:
                run.violation("input", {"oracle": name, "module": modname, "class": c, "case": f.get("case")},
                              observed=f.get("observed"), expected=f.get("expected"),
                              what=f"{name}: {c}: observed {str(f.get('observed'))[:160]}")
    run.cov.setdefault("oracle_failure_classes", {})[name] = per_class
    for s in res.get("samples", [])[:3]:
        run.sample({"oracle": name, "case": s}, limit=12)


class Informational:
    """Wrapper around findings.Known for oracles some of whose defect classes are function-level hazards that were never shown to break
    the property end to end (mapped to an id starting with "-"): those are counted in the evidence, never reported as a violation and
    never as a KNOWN-FINDING; every other class goes to the wrapped Known as usual."""
    def __init__(self, known):
        self.known = known

    def listed(self, fid):
        return fid.startswith("-") or self.known.listed(fid)

    def hit(self, fid, case, what=""):
        return True if fid.startswith("-") else self.known.hit(fid, case, what)


def replay_generic(rec) -> bool:
    case = rec.get("case") or {}
    mod = importlib.import_module(case["module"])
    return bool(mod.replay(case["case"]))


def replay_witnesses(run: Run, known: findings.Known, witness_mod: dict[str, str]) -> None:
    """witness_mod: finding id -> corr module whose replay() understands that finding's stored witness."""
    def fails(fid, w):
        m = witness_mod.get(fid)
        if not m or w is None:
            return None
        return bool(importlib.import_module(m).replay(w))
    known.replay_witnesses(fails)
