#!/venv/bin/python
"""C13 (+ tag-grouping part of C07): correspondence of the Lean model `Pog/Model/Surface.lean` with the real code,
and the direct oracle.

run()     real python vs compiled Lean driver on the same inputs:
  T1 grouping   REAL `EndpointsEmitter.emit`, `ClientVisitor.visit`, `MocksEmitter.emit` (only the leaf renderers are
                replaced by recorders) on random tag assignments        vs  groupEndpoints / tagMapVisitor / clientProps /
                groupMocksRaw (= groupMocks) / mockClientProps;  the REAL source text of the two nested `tag_score` functions and of
                `mocks_emitter._tag_score` vs tagScore.
  T2 pipeline   REAL `generate_client` on seeded random specs with spies on `EndpointMethodGenerator.generate`,
                `generate_endpoint_protocol`, `_transform_to_mock`: the strings the visitor really passes and gets back
                                                                          vs  protoStub / toMockOp
  T3 texts      every recorded method text and seeded mutations of it fed to the real text transformers directly
                                                                          vs  protoStub / toMockOp;
                CPython's own parser (`ast`) and `inspect` on the compiled text  vs  sigOf / natureOf
oracle()  the property itself on generated packages imported in a fresh interpreter (inspect.signature of client class
          vs Protocol vs mock class, coroutine/async-generator nature, NotImplementedError, property names of APIClient
          vs MockAPIClient, every operation reachable under each of its tags).
"""
from __future__ import annotations

import ast
import json
import os
import random
import re
import shutil
import subprocess
import sys
import tempfile
import types

HERE = os.path.dirname(os.path.abspath(__file__))
PY = "/venv/bin/python" if os.path.exists("/venv/bin/python") else sys.executable

# ------------------------------------------------------------------------------------------------ helpers


class _Scratch:
    """Scratch dir under VERIF_SCRATCH_DIR; the generator's debug log (tempfile.gettempdir()) is redirected into it."""

    def __init__(self, tag: str):
        self.tag = tag

    def __enter__(self):
        base = os.environ.get("VERIF_SCRATCH_DIR", "/tmp")
        os.makedirs(base, exist_ok=True)
        self.dir = tempfile.mkdtemp(prefix=f"c13_{self.tag}_", dir=base)
        self.tmp = os.path.join(self.dir, "tmp")
        os.makedirs(self.tmp)
        self.old_tempdir = tempfile.tempdir
        self.old_env = os.environ.get("TMPDIR")
        tempfile.tempdir = self.tmp
        os.environ["TMPDIR"] = self.tmp
        return self

    def __exit__(self, *exc):
        tempfile.tempdir = self.old_tempdir
        if self.old_env is None:
            os.environ.pop("TMPDIR", None)
        else:
            os.environ["TMPDIR"] = self.old_env
        shutil.rmtree(self.dir, ignore_errors=True)
        return False


def _uinfo(strings) -> dict:
    tbl = {}
    for s in strings:
        for c in s:
            if ord(c) >= 128 and str(ord(c)) not in tbl:
                tbl[str(ord(c))] = {"w": bool(re.match(r"\w", c)), "d": c.isdigit(), "l": c.lower(), "U": c.upper(),
                                    "iu": c.isupper()}
    return tbl


def _drive(driver: str, reqs: list[dict]) -> list:
    if not reqs:
        return []
    out = []
    B = 4000
    for i in range(0, len(reqs), B):
        chunk = reqs[i:i + B]
        data = "\n".join(json.dumps(r, ensure_ascii=True) for r in chunk) + "\n"
        p = subprocess.run([driver], input=data, capture_output=True, text=True, timeout=600)
        if p.returncode != 0:
            raise RuntimeError(f"driver exited {p.returncode}: {p.stderr[-2000:]}")
        lines = p.stdout.split("\n")
        if lines and lines[-1] == "":
            lines.pop()
        if len(lines) != len(chunk):
            raise RuntimeError(f"driver answered {len(lines)} lines for {len(chunk)} requests")
        out.extend(json.loads(l) for l in lines)
    return out


def _quiet():
    import logging
    import warnings
    logging.disable(logging.CRITICAL)
    warnings.simplefilter("ignore")


# ------------------------------------------------------------------------------------------------ spec generator

SCHEMA_POOL = ["User", "Pet", "Order", "Widget", "Report", "AsyncIteratorResult"]
TAG_POOL = ["Users", "users", "USERS", "User Group", "user_group", "UserGroup", "user-group", "admin-ops", "AdminOps",
            "admin_ops", "v2", "V2", "Pets", "pets", "orders", "Data Sources", "data-sources", "DataSources", "a1", "a_1"]
HOSTILE_TAGS = ["", "default", "Default", "_", "-", "données", "Données", "été", "aé", "a", "class", "None", "1st", "pet_s",
                "HTTPServer", "HTTPserver", "httpServer", "x__y", "x-_y", "ÉCOLE", "école", "ǅ", "ß", "SS", "İ", "用户", "A-B", "a b",
                "a.b", "AB", "Ab", "aB", "ab", "A", "B1", "b1", "b_1", "B-1"]
PARAM_POOL = ["id", "user_id", "petId", "limit", "offset", "q", "sort-by", "includeDeleted", "X-Request-Id", "filter", "since",
              "status"]
OP_BASES = ["listItems", "getItem", "createItem", "update_item", "deleteItem", "streamEvents", "downloadFile", "uploadThing",
            "search", "getReport", "patchWidget", "ping"]
PRIMS = [{"type": "string"}, {"type": "integer"}, {"type": "boolean"}, {"type": "number"}]


def _rand_spec(rng: random.Random, *, n_ops=None, tag_mode="any", asynciter_schema=True, hostile=False, multi_pair=False) -> dict:
    names = rng.sample(SCHEMA_POOL[:5], rng.randint(2 if multi_pair else 1, 3))
    if asynciter_schema and rng.random() < 0.35:
        names.append("AsyncIteratorResult")
    schemas = {}
    for n in names:
        props = {p: rng.choice(PRIMS) for p in rng.sample(["id", "name", "count", "active", "note"], rng.randint(1, 4))}
        schemas[n] = {"type": "object", "properties": props}
    paths: dict = {}
    n_ops = n_ops or rng.randint(1, 6)
    pool = TAG_POOL + (HOSTILE_TAGS if hostile else [])
    for i in range(n_ops):
        opid = rng.choice(OP_BASES) + "N" + str(i)
        path = f"/r{i}"
        params = []
        for pn in rng.sample(PARAM_POOL, rng.choice([0, 0, 1, 2, 3, 4, 6])):
            where = rng.choice(["path", "query", "query", "header"])
            p = {"name": pn, "in": where, "schema": dict(rng.choice(PRIMS))}
            if where == "path":
                p["required"] = True
                path += "/{" + pn + "}"
            elif rng.random() < 0.35:
                p["required"] = True
            if rng.random() < 0.3:
                p["description"] = rng.choice(["the value", "yield to others", "async def x(", "a: b", "ends with colon:"])
            params.append(p)
        if rng.random() < 0.2:
            # header parameters named like HTTP's own headers are ordinary parameters of the generated method
            hn = rng.choice(["Accept", "Authorization", "accept", "If-None-Match"])   # not Content-Type: observation F63
            if not any(q["name"].lower() == hn.lower() for q in params):
                params.append({"name": hn, "in": "header", "schema": {"type": "string"}, **({"required": True} if rng.random() < 0.3 else {})})
        op: dict = {"operationId": opid, "parameters": params}
        if rng.random() < 0.5:
            op["summary"] = rng.choice(["Do it", "yield the floor", "def f(x):", "Returns AsyncIterator of things"])
        if rng.random() < 0.3:
            op["description"] = rng.choice(["Long text.", "yield  # not code", "@overload is mentioned", "async def nothing("])
        if tag_mode == "single":
            ntags = rng.choice([0, 1, 1, 1])
        elif tag_mode == "none":
            ntags = 0
        else:
            ntags = rng.choice([0, 1, 1, 2, 3])
        if ntags:
            op["tags"] = [rng.choice(pool) for _ in range(ntags)]
        ref = {"$ref": "#/components/schemas/" + rng.choice(names)}
        body = rng.choice(["none", "none", "json", "json", "multi", "multi3", "multipart", "form", "octet"])
        if body != "none":
            content = {}
            if body in ("json", "multi", "multi3"):
                content["application/json"] = {"schema": ref}
            if body in ("multi", "multi3", "multipart"):
                content["multipart/form-data"] = {"schema": {"type": "object", "properties": {"file": {"type": "string", "format": "binary"}}}}
            if body in ("form", "multi3"):
                content["application/x-www-form-urlencoded"] = {"schema": {"type": "object", "properties": {"a": {"type": "string"}}}}
            if body == "octet":
                content["application/octet-stream"] = {"schema": {"type": "string", "format": "binary"}}
            op["requestBody"] = {"required": rng.random() < 0.7, "content": content}
        resp = rng.choice(["ref", "ref", "array", "prim", "none", "sse", "octet", "ndjson", "aires"])
        if resp == "aires" and "AsyncIteratorResult" not in names:
            resp = "ref"
        r200: dict = {"description": "ok"}
        if resp == "ref":
            r200["content"] = {"application/json": {"schema": ref}}
        elif resp == "aires":
            r200["content"] = {"application/json": {"schema": {"$ref": "#/components/schemas/AsyncIteratorResult"}}}
        elif resp == "array":
            r200["content"] = {"application/json": {"schema": {"type": "array", "items": ref}}}
        elif resp == "prim":
            r200["content"] = {"application/json": {"schema": dict(rng.choice(PRIMS))}}
        elif resp == "sse":
            # the item type ends up inside `AsyncIterator[...]`: optional items, nested generics and named models as well as plain strings
            r200["content"] = {"text/event-stream": {"schema": rng.choice([{"type": "string"}, {"type": "string"}, ref,
                                                                           {"type": "array", "items": {"type": "number"}, "nullable": True},
                                                                           {"type": "object", "additionalProperties": {"type": "integer"}, "nullable": True}])}}
        elif resp == "octet":
            r200["content"] = {"application/octet-stream": {"schema": {"type": "string", "format": "binary"}}}
        elif resp == "ndjson":
            r200["content"] = {"application/x-ndjson": {"schema": rng.choice([ref, ref, {"type": "array", "items": {"type": "number"}, "nullable": True},
                                                                             {"type": "object", "additionalProperties": {"type": "integer"}, "nullable": True}])}}
        op["responses"] = {("204" if resp == "none" else "200"): r200}
        if resp in ("ref", "array", "prim") and rng.random() < 0.25:
            # a SECONDARY 2xx response that streams next to a primary one that does not: client, Protocol and mock follow the primary
            op["responses"][rng.choice(["202", "206"])] = {"description": "partial", "content": rng.choice([
                {"application/octet-stream": {"schema": {"type": "string", "format": "binary"}}}, {"text/event-stream": {"schema": {"type": "string"}}}])}
        if rng.random() < 0.3:
            op["responses"]["404"] = {"description": "nf"}
        method = rng.choice(["get", "post", "put", "patch", "delete"]) if "requestBody" in op else rng.choice(["get", "delete"])
        paths.setdefault(path, {})[method] = op
    if multi_pair:
        # several operations of ONE tag client with multiple request media types whose JSON bodies are DIFFERENT schemas
        # (per-generator state shared between the methods of a class shows up here and nowhere else)
        for j, n in enumerate(names[:3]):
            content = {"application/json": {"schema": {"$ref": "#/components/schemas/" + n}},
                       "multipart/form-data": {"schema": {"type": "object", "properties": {"file": {"type": "string", "format": "binary"}}}}}
            o = {"operationId": f"uploadPairN{j}", "requestBody": {"required": True, "content": content},
                 "responses": {"200": {"description": "ok", "content": {"application/json": {"schema": {"$ref": "#/components/schemas/" + n}}}}}}
            if tag_mode != "none":
                o["tags"] = ["pairs"]
            paths[f"/mp{j}"] = {"post": o}
    return {"openapi": "3.0.3", "info": {"title": "T", "version": "1"}, "paths": paths, "components": {"schemas": schemas}}


def _generate(doc: dict, root: str, package: str = "pkg.client") -> str | None:
    """Run the real generator in-process; returns an error string or None."""
    import contextlib
    import io
    from pyopenapi_gen import generate_client
    os.makedirs(root, exist_ok=True)
    spec_path = root.rstrip("/") + "-spec.json"
    with open(spec_path, "w", encoding="utf-8") as f:
        json.dump(doc, f)
    buf = io.StringIO()
    try:
        with contextlib.redirect_stdout(buf), contextlib.redirect_stderr(buf):
            generate_client(spec_path, root, package, force=True, no_postprocess=True)
        return None
    except BaseException as e:  # noqa: BLE001
        return f"{type(e).__name__}: {str(e)[:400]}"


# ------------------------------------------------------------------------------------------------ impl side: texts


class _DummyCtx:
    core_package_name = "core"

    def add_import(self, *a, **k):
        pass

    def add_typing_imports_for_type(self, *a, **k):
        pass

    def add_plain_import(self, *a, **k):
        pass


def _impl_proto(text: str) -> list[str] | str:
    """The REAL `generate_endpoint_protocol` on one operation whose generated method source is `text`."""
    from unittest import mock
    from pyopenapi_gen.visit.endpoint import endpoint_visitor as ev

    class Fake:
        def __init__(self, schemas=None):
            pass

        def generate(self, op, context):
            return text

    try:
        with mock.patch.object(ev, "EndpointMethodGenerator", Fake):
            code = ev.EndpointVisitor({}).generate_endpoint_protocol("T", [object()], _DummyCtx())
    except Exception as e:  # a DISAGREEMENT, not a harness failure
        return f"<raised {type(e).__name__}: {str(e)[:120]}>"
    lines = code.split("\n")
    head, rest = lines[:4], lines[4:]
    if head[0] != "@runtime_checkable" or not head[1].startswith("class TClientProtocol"):
        return "unexpected header " + repr(head)
    if any(not l.startswith("    ") for l in rest):
        return "unindented line " + repr(rest)
    return [l[4:] for l in rest]


def _impl_mock(text: str, opid: str, tags: list[str]) -> str:
    from pyopenapi_gen.visit.endpoint.generators import mock_generator as mg
    g = mg.MockGenerator.__new__(mg.MockGenerator)
    op = types.SimpleNamespace(operation_id=opid, tags=list(tags), responses=[], parameters=[], request_body=None, summary=None, description=None,
                               path="/x", method=types.SimpleNamespace(value="get"))
    try:
        return g._transform_to_mock(text, op)
    except Exception as e:  # the code under test raised on an input the model handles: a DISAGREEMENT, not a harness failure
        return f"<raised {type(e).__name__}: {str(e)[:120]}>"


def _impl_sig(text: str):
    """Signature of the LAST top-level def of `text` according to CPython's parser; 'syntax' when it does not parse."""
    try:
        tree = ast.parse(text)
    except SyntaxError:
        return "syntax"
    defs = [n for n in tree.body if isinstance(n, (ast.FunctionDef, ast.AsyncFunctionDef))]
    if not defs:
        return None
    fn = defs[-1]
    if fn.decorator_list:
        return "unsupported"      # a decorated final def is outside the shape `sigOf` reads (it skips @overload blocks)
    seg = lambda n: None if n is None else ast.get_source_segment(text, n)  # noqa: E731
    a = fn.args
    if a.posonlyargs or a.vararg or a.kwarg:
        return "unsupported"
    params = []
    pos_defaults = [None] * (len(a.args) - len(a.defaults)) + list(a.defaults)
    for arg, d in zip(a.args, pos_defaults):
        params.append([arg.arg, seg(arg.annotation), seg(d), False])
    for arg, d in zip(a.kwonlyargs, a.kw_defaults):
        params.append([arg.arg, seg(arg.annotation), seg(d), True])
    allargs = a.args + a.kwonlyargs
    if not (bool(allargs) and allargs[0].lineno != fn.lineno) and [p[0] for p in params] != ["self"]:
        return "unsupported"      # the only one-line form the writer emits is `name(self)`
    return {"async": isinstance(fn, ast.AsyncFunctionDef), "name": fn.name, "params": params, "ret": seg(fn.returns),
            "multi": bool(allargs) and allargs[0].lineno != fn.lineno}


def _f47_shape(c: dict) -> bool:
    """The input feature of F47 (repaired - a failure of this shape is a recurrence): a client COROUTINE whose signature mentions
    `AsyncIterator` only inside a longer type name (`AsyncIteratorResult`).  A method that is really annotated `AsyncIterator[...]`
    (a stream) and is not an async generator is a different defect."""
    import re
    sig = str(c.get("sig"))
    return c.get("nature") == "coroutine" and bool(re.search(r"AsyncIterator\w", sig)) and not re.search(r"\bAsyncIterator\[", sig)


def _impl_nature(text: str, name: str | None):
    import inspect
    import typing
    ns: dict = {"overload": typing.overload}
    try:
        exec(compile("from __future__ import annotations\n" + text, "<m>", "exec"), ns)  # noqa: S102 - generated method text
    except SyntaxError:
        return "syntax"
    f = ns.get(name) if name else None
    if f is None:
        return None
    if inspect.isasyncgenfunction(f):
        return "asyncgen"
    if inspect.iscoroutinefunction(f):
        return "coroutine"
    if inspect.isgeneratorfunction(f):
        return "generator"
    return "plain"


def _mutations(rng: random.Random, text: str) -> list[str]:
    """Seeded text mutations that exercise the scanners' branches beyond what the generator emits today."""
    lines = text.split("\n")
    out = []
    hdr = next((i for i in reversed(range(len(lines))) if lines[i].startswith("async def ")), None)
    close = next((i for i, l in enumerate(lines) if l.startswith(") ->") and l.endswith(":")), None)
    if hdr is not None and close is not None and close < hdr:
        return out
    if hdr is None or close is None:
        return out
    m = lines[:]
    m[hdr] = m[hdr].replace("async def ", "def ", 1)                                  # plain def: proto skips it, mock keeps it
    out.append("\n".join(m))
    name = lines[hdr][len("async def "):-1]
    ret = lines[close][len(") -> "):-1]
    out.append("\n".join(lines[:hdr] + [f"async def {name}(self) -> {ret}:"] + lines[close + 1:]))   # one-line form
    out.append("\n".join(lines[:hdr] + [f"async def {name}(self):"] + lines[close + 1:]))
    m = lines[:]
    m[close] = m[close][:-1]                                                          # signature never closed
    out.append("\n".join(m[:close + 1]))
    m = lines[:]
    m.insert(close, "    stream: AsyncIterator[bytes] | None = None,")                 # AsyncIterator in a parameter only
    out.append("\n".join(m))
    m = lines[:]
    m[close] = ") -> AsyncIterator[bytes]:" if "AsyncIterator" not in ret else ") -> bytes:"
    out.append("\n".join(m))
    m = lines[:]
    m[close] = ") -> MyAsyncIteratorThing:"
    out.append("\n".join(m))
    # streaming return annotations with everything an annotation may contain (optional items, quoted forward references, dotted
    # names, nested generics, unions): the decision is made on the annotation being `AsyncIterator[...]`, whatever is inside
    for ann in ("AsyncIterator[List[float] | None]", 'AsyncIterator["Node"]', "AsyncIterator[models.Pet]", "AsyncIterator[Dict[str, Any]]",
                "AsyncIterator[Union[Cat, Dog]]", "AsyncIterator[bytes] | None", "AsyncIterator", "AsyncIterator [bytes]"):
        m = lines[:]
        m[close] = f") -> {ann}:"
        out.append("\n".join(m))
    ws = rng.choice(["\t", "\x0b", "\u00a0", "\u2003", "\x1f", " \r", "\u3000"])
    m = [(ws + l + ws if rng.random() < 0.5 else l) for l in lines]                    # odd whitespace around lines
    out.append("\n".join(m))
    m = lines[:]
    m.insert(hdr, "@overload")                                                         # decorator directly on the final def
    out.append("\n".join(m))
    m = lines[:]
    m.insert(hdr + 1, "    weird: Literal[\"x:\"] = \"y\":")                             # a parameter line ending with ':'
    out.append("\n".join(m))
    m = lines[:]
    del m[hdr]                                                                          # header gone
    out.append("\n".join(m))
    out.append("\n".join(["@overload", "async def f(", "self", ") -> int: ...", "", "@overloaded", "x", "y: ..."]))
    out.append("")
    return out


# ------------------------------------------------------------------------------------------------ impl side: grouping


def _mk_ctx(root: str):
    from pyopenapi_gen.context.render_context import RenderContext
    out = os.path.join(root, "pkg")
    os.makedirs(out, exist_ok=True)
    return RenderContext(core_package_name="pkg.core", package_root_for_generated_code=out, overall_project_root=root,
                         parsed_schemas={}, output_package_name="pkg"), out


def _impl_grouping(tag_lists: list[list[str]], root: str) -> dict:
    """REAL emit() of EndpointsEmitter / ClientEmitter's visitor / MocksEmitter; only leaf renderers are recorders."""
    from pyopenapi_gen import HTTPMethod, IROperation, IRSpec
    from pyopenapi_gen.core.utils import NameSanitizer
    from pyopenapi_gen.emitters.endpoints_emitter import EndpointsEmitter
    from pyopenapi_gen.emitters.mocks_emitter import MocksEmitter
    from pyopenapi_gen.visit.client_visitor import ClientVisitor

    shutil.rmtree(root, ignore_errors=True)
    ctx, out = _mk_ctx(root)
    ops = [IROperation(operation_id=f"op{i}", method=HTTPMethod.GET, path=f"/p{i}", summary=None, description=None,
                       tags=list(t)) for i, t in enumerate(tag_lists)]
    ident = {id(o): f"op{i}" for i, o in enumerate(ops)}
    res: dict = {}

    ep_calls = []

    class EV:
        def visit(self, op, context):
            return ""

        def emit_endpoint_client_class(self, tag, method_codes, context, operations=None):
            ep_calls.append((tag, os.path.basename(context.current_file), [ident[id(o)] for o in operations]))
            return ""

    em = EndpointsEmitter(context=ctx)
    em.visitor = EV()
    try:
        em.emit(ops, out)
        res["endpoints"] = [[None, tag, f[:-3], NameSanitizer.sanitize_class_name(tag) + "Client", ids] for tag, f, ids in ep_calls]
    except Exception as e:  # noqa: BLE001
        res["endpoints"] = f"raise {type(e).__name__}"

    spec = IRSpec(title="t", version="1", operations=ops)
    cv_calls = []

    class CV(ClientVisitor):
        def generate_client_protocol(self, spec, context, tag_tuples):
            cv_calls.append(list(tag_tuples))
            return ""

        def _generate_client_implementation(self, spec, context, tag_tuples):
            return ""

    try:
        ctx.set_current_file(os.path.join(out, "client.py"))
        CV().visit(spec, ctx)
        res["client_tuples"] = [list(t) for t in cv_calls[0]]
    except Exception as e:  # noqa: BLE001
        res["client_tuples"] = f"raise {type(e).__name__}"

    mk_calls = []
    mc_calls = []

    class MEV:
        def generate_endpoint_mock_class(self, tag, operations, context):
            mk_calls.append((tag, os.path.basename(context.current_file), [ident[id(o)] for o in operations]))
            return ""

    class MCV:
        def generate_client_mock_class(self, spec, context, tag_tuples):
            mc_calls.append([list(t) for t in tag_tuples])
            return ""

    me = MocksEmitter(ctx)
    me.endpoint_visitor = MEV()
    me.client_visitor = MCV()
    try:
        me.emit(spec, out)
        res["mocks"] = [[tag, f[len("mock_"):-3], ids] for tag, f, ids in mk_calls]
        res["mock_tuples"] = mc_calls[0]
    except Exception as e:  # noqa: BLE001
        res["mocks"] = f"raise {type(e).__name__}"
    return res


def _real_tag_scores():
    """The two nested `tag_score` functions, compiled from their REAL source text, and the module-level copy of the mocks emitter
    (F23 repaired: `_tag_score`; absent from a tree without the repair)."""
    import inspect
    import textwrap
    from pyopenapi_gen.emitters.endpoints_emitter import EndpointsEmitter
    from pyopenapi_gen.visit.client_visitor import ClientVisitor
    fns = []
    for owner in (EndpointsEmitter.emit, ClientVisitor.visit):
        src = textwrap.dedent(inspect.getsource(owner))
        tree = ast.parse(src)
        node = next(n for n in ast.walk(tree) if isinstance(n, ast.FunctionDef) and n.name == "tag_score")
        ns: dict = {"re": re}
        exec(compile(ast.Module(body=[node], type_ignores=[]), "<tag_score>", "exec"), ns)  # noqa: S102 - source of /repo
        fns.append(ns["tag_score"])
    from pyopenapi_gen.emitters import mocks_emitter
    fns.append(getattr(mocks_emitter, "_tag_score", None))
    return fns


def _rand_tag(rng: random.Random) -> str:
    k = rng.random()
    if k < 0.45:
        return rng.choice(TAG_POOL)
    if k < 0.75:
        return rng.choice(HOSTILE_TAGS)
    alphabet = "abAB1_- .éÉ"
    return "".join(rng.choice(alphabet) for _ in range(rng.randint(0, 6)))


# ------------------------------------------------------------------------------------------------ run


def run(seed: int, scale: float, driver: str) -> dict:
    _quiet()
    rng = random.Random(seed)
    comparisons = 0
    disagreements: list[dict] = []
    dist: dict = {}
    samples: list = []
    nontrivial: set = set()

    def bump(k, n=1):
        dist[k] = dist.get(k, 0) + n

    def check(label, request, model, impl):
        nonlocal comparisons
        comparisons += 1
        if model != impl:
            if len(disagreements) < 50:
                disagreements.append({"label": label, "request": request, "model": model, "impl": impl})
            return False
        return True

    with _Scratch("run") as sc:
        # ------------------------------------------------------------------ T1 grouping
        n_group = max(20, int(500 * scale))
        cases = []
        hand = [[["Users", "admin-ops"], ["users"], []], [["Users"], ["users"]], [["a1"], ["a_1"]], [["Users", "users"]],
                [[""]], [[""], []], [["aé"], ["a"]], [["_"], ["-"]], [["user_group"], ["UserGroup"], ["User Group"]], [[]],
                [["HTTPServer"], ["HTTPserver"], ["httpServer"]], [["ǅ"], ["ß"], ["SS"]], []]
        cases.extend(hand)
        for _ in range(n_group):
            base = [_rand_tag(rng) for _ in range(rng.randint(1, 4))]
            cases.append([[rng.choice(base) if rng.random() < 0.8 else _rand_tag(rng) for _ in range(rng.choice([0, 1, 1, 2, 3]))]
                          for _ in range(rng.randint(1, 6))])
        reqs = []
        for c in cases:
            ops = [[f"op{i}", t] for i, t in enumerate(c)]
            u = _uinfo(t for ts in c for t in ts)
            for f in ("groupEndpoints", "groupEndpointsFused", "tagMapVisitor", "clientProps", "groupMocksRaw", "mockClientProps",
                      "tagMapEmitter", "groupMocks"):
                reqs.append({"f": f, "a": [ops], "u": u})
        model = _drive(driver, reqs)
        for ci, c in enumerate(cases):
            mge, mgf, mtv, mcp, mgm, mmp, mte, mgmf = model[ci * 8:(ci + 1) * 8]
            impl = _impl_grouping(c, os.path.join(sc.dir, "g"))
            check("groupEndpoints", c, None if mge is None else [[None] + g[1:] for g in mge], impl["endpoints"])
            check("groupEndpoints-fused", c, mgf, mge)
            check("tagMapEmitter", c, None if mge is None else [[g[0], g[1]] for g in mge], mte)
            if isinstance(impl["client_tuples"], list):
                check("tagMapVisitor", c, None if mtv is None else sorted(t for _, t in mtv), sorted(t[0] for t in impl["client_tuples"]))
                check("clientProps", c, mcp, [t[2] for t in impl["client_tuples"]])
            else:
                check("tagMapVisitor", c, mtv, impl["client_tuples"])
            check("groupMocks", c, None if mgm is None else [[g[1], g[2], g[4]] for g in mgm], impl["mocks"])
            check("groupMocks-fused", c, mgmf, mgm)
            if isinstance(impl["mocks"], list) and mgm is not None:
                check("mockClientProps", c, mmp, [t[2] for t in impl["mock_tuples"]])
                check("mock-tuple-class", c, [g[3] for g in mgm], [t[1] for t in impl["mock_tuples"]])
            multi = any(len(t) > 1 for t in c)
            variants = isinstance(mge, list) and len({t for ts in c for t in (ts or ["default"])}) > len(mge)
            bump("group:multi-tag" if multi else "group:single-tag")
            if variants:
                bump("group:tag-variants-share-key")
            if multi or variants:
                nontrivial.add(("g", json.dumps(c, ensure_ascii=False)))
        samples.append({"grouping": cases[0], "model": model[0]})

        # tag_score: real nested functions vs model
        tags = sorted({t for c in cases for ts in c for t in ts} | set(TAG_POOL) | set(HOSTILE_TAGS) | {_rand_tag(rng) for _ in range(int(300 * scale))}
                      | {"".join(rng.choice("abAB1_- .éÉ") for _ in range(rng.randint(1, 9))) for _ in range(int(1500 * scale))})
        ms = _drive(driver, [{"f": "tagScore", "a": [t], "u": _uinfo([t])} for t in tags])
        f_em, f_cv, f_mk = _real_tag_scores()
        for t, m in zip(tags, ms):
            check("tagScore-emitter", t, m, list(f_em(t)))
            check("tagScore-visitor", t, m, list(f_cv(t)))
            check("tagScore-mocks", t, m, None if f_mk is None else list(f_mk(t)))
            if m[0] or m[2]:
                nontrivial.add(("s", t))
        bump("tagScore", len(tags))
        # python `<` on str vs pyStrLt, `max` vs pyMaxTag
        pairs = [(rng.choice(tags), rng.choice(tags)) for _ in range(int(300 * scale))]
        ml = _drive(driver, [{"f": "strLt", "a": [a, b]} for a, b in pairs])
        for (a, b), m in zip(pairs, ml):
            check("strLt", [a, b], m, a < b)
        lists = [[rng.choice(tags) for _ in range(rng.randint(1, 5))] for _ in range(int(300 * scale))]
        mm = _drive(driver, [{"f": "pyMaxTag", "a": [l], "u": _uinfo(l)} for l in lists])
        for l, m in zip(lists, mm):
            check("pyMaxTag", l, m, max(l, key=f_em))

        # ------------------------------------------------------------------ T2 real pipeline with spies
        from pyopenapi_gen.visit.endpoint import endpoint_visitor as ev
        from pyopenapi_gen.visit.endpoint.generators import endpoint_method_generator as emg
        from pyopenapi_gen.visit.endpoint.generators import mock_generator as mg

        gen_log: list = []
        proto_log: list = []
        mock_log: list = []
        orig_gen = emg.EndpointMethodGenerator.generate
        orig_proto = ev.EndpointVisitor.generate_endpoint_protocol
        orig_mock = mg.MockGenerator._transform_to_mock

        def spy_gen(self, op, context):
            t = orig_gen(self, op, context)
            gen_log.append(t)
            return t

        def spy_proto(self, tag, operations, context):
            start = len(gen_log)
            code = orig_proto(self, tag, operations, context)
            proto_log.append((gen_log[start:], code))
            return code

        def spy_mock(self, full_method_code, op):
            o = orig_mock(self, full_method_code, op)
            mock_log.append((full_method_code, op.operation_id, list(op.tags), o))
            return o

        n_specs = max(3, int(24 * scale))
        gen_errors = 0
        emg.EndpointMethodGenerator.generate = spy_gen
        ev.EndpointVisitor.generate_endpoint_protocol = spy_proto
        mg.MockGenerator._transform_to_mock = spy_mock
        try:
            for si in range(n_specs):
                doc = _rand_spec(rng, hostile=(si % 3 == 2), multi_pair=(si % 3 == 1))
                err = _generate(doc, os.path.join(sc.dir, f"p{si}"))
                if err:
                    gen_errors += 1
                shutil.rmtree(os.path.join(sc.dir, f"p{si}"), ignore_errors=True)
        finally:
            emg.EndpointMethodGenerator.generate = orig_gen
            ev.EndpointVisitor.generate_endpoint_protocol = orig_proto
            mg.MockGenerator._transform_to_mock = orig_mock
        bump("pipeline:specs", n_specs)
        bump("pipeline:generation-errors", gen_errors)

        # protocol class body = concatenation of the per-operation stubs
        reqs = [{"f": "protoStub", "a": [t.split("\n")]} for texts, _ in proto_log for t in texts]
        mres = iter(_drive(driver, reqs))
        for texts, code in proto_log:
            want = []
            for t in texts:
                want.extend("    " + l for l in next(mres))
            check("pipeline-protocol", texts, want, code.split("\n")[4:])
        reqs = [{"f": "toMockOp", "a": [opid, tags, t.split("\n")], "u": _uinfo(tags)} for t, opid, tags, _ in mock_log]
        for (t, opid, tags, o), m in zip(mock_log, _drive(driver, reqs)):
            check("pipeline-mock", [opid, tags, t], m, o)
        bump("pipeline:protocol-classes", len(proto_log))
        bump("pipeline:mock-methods", len(mock_log))

        # ------------------------------------------------------------------ T3 texts (real + mutated)
        real_texts = sorted({t for t in gen_log})
        texts: list[tuple[str, bool]] = [(t, True) for t in real_texts]
        for t in real_texts:
            for m in _mutations(rng, t):
                texts.append((m, False))
        seen = set()
        uniq = []
        for t, real in texts:
            if t not in seen:
                seen.add(t)
                uniq.append((t, real))
        texts = uniq
        reqs = []
        metas = []
        for t, real in texts:
            ls = t.split("\n")
            opid = rng.choice(OP_BASES) + rng.choice(["", "2", "-x"])
            tags = rng.choice([[], ["Users"], ["user group", "x"], [""], ["été"]])
            metas.append((opid, tags))
            reqs.append({"f": "protoStub", "a": [ls]})
            reqs.append({"f": "toMockOp", "a": [opid, tags, ls], "u": _uinfo(tags)})
            reqs.append({"f": "sigOf", "a": [ls]})
            reqs.append({"f": "natureOf", "a": [ls]})
            reqs.append({"f": "wellFormed", "a": [ls]})
        mres = _drive(driver, reqs)
        second = []
        second_meta = []
        for i, (t, real) in enumerate(texts):
            mp, mm, msig, mnat, mwf = mres[i * 5:(i + 1) * 5]
            opid, tags = metas[i]
            ip = _impl_proto(t)
            im = _impl_mock(t, opid, tags)
            okp = check("protoStub", t, mp, ip)
            okm = check("toMock", [opid, tags, t], mm, im)
            isig = _impl_sig(t)
            if isig not in ("syntax", "unsupported"):
                check("sigOf", t, msig, isig)
                inat = _impl_nature(t, isig["name"] if isig else None)
                if inat != "syntax":            # e.g. `await` in a plain def: parses, does not compile
                    check("natureOf", t, mnat, inat)
            else:
                bump("text:not-python")
            if real:
                check("wellFormed(real text)", t, mwf, True)
            bump("text:real" if real else "text:mutated")
            bump("text:wellFormed" if mwf else "text:not-wellFormed")
            if "@overload" in t:
                bump("text:overloads")
            if "AsyncIterator" in t:
                bump("text:AsyncIterator")
            if isinstance(msig, dict) and (len(msig["params"]) > 1 or "@overload" in t or "AsyncIterator" in t):
                nontrivial.add(("t", t))
            # second round: signature / nature of the OUTPUTS of the real transformers
            if okp and isinstance(ip, list):
                second.append({"f": "sigOf", "a": [ip]})
                second_meta.append(("sigOf(proto)", "\n".join(ip)))
            if okm:
                second.append({"f": "sigOf", "a": [im.split("\n")]})
                second_meta.append(("sigOf(mock)", im))
                second.append({"f": "natureOf", "a": [im.split("\n")]})
                second_meta.append(("natureOf(mock)", im))
        for (label, t), m in zip(second_meta, _drive(driver, second)):
            isig = _impl_sig(t)
            if isig in ("syntax", "unsupported"):
                continue
            if label.startswith("sigOf"):
                check(label, t, m, isig)
            else:
                inat = _impl_nature(t, isig["name"] if isig else None)
                if inat != "syntax":
                    check(label, t, m, inat)
        if real_texts:
            samples.append({"method_text": real_texts[0], "model_protoStub": mres[0], "model_sigOf": mres[2]})
            ov = next((i for i, (t, r) in enumerate(texts) if r and "@overload" in t), None)
            if ov is not None:
                samples.append({"method_text": texts[ov][0][:1200], "model_sigOf": mres[ov * 5 + 2], "model_nature": mres[ov * 5 + 3]})

    return {"comparisons": comparisons, "disagreements": disagreements, "nontrivial": len(nontrivial),
            "rule": ("grouping: 1-6 operations with 0-3 tags drawn from a pool with case/punctuation/non-ASCII variants, run through the "
                     "REAL emitters with recording leaf renderers; non-trivial = an operation with >=2 tags or two distinct tags sharing "
                     "a normalised key.  texts: every method source produced by the real generator on seeded random specs (0-6 params, "
                     "bodies, multi-content overloads, streaming) plus 12 seeded mutations each, through the real Protocol/mock text "
                     "transformers, `ast` and `inspect`; non-trivial = >1 parameter, overloads or AsyncIterator.  tag_score: the real "
                     "nested functions compiled from source; non-trivial = pascal flag or an upper-case letter."),
            "samples": samples[:6], "distribution": dist}


# ------------------------------------------------------------------------------------------------ oracle

PROBE_SRC = r'''
import asyncio, importlib, inspect, json, os, pkgutil, sys
root, package = sys.argv[1], sys.argv[2]
sys.path.insert(0, root)
out = {"errors": [], "clients": {}, "api_props": None, "mock_props": None}
def imp(name):
    try:
        return importlib.import_module(name)
    except BaseException as e:
        out["errors"].append({"module": name, "error": f"{type(e).__name__}: {str(e)[:200]}"})
        return None
def nature(f):
    if inspect.isasyncgenfunction(f): return "asyncgen"
    if inspect.iscoroutinefunction(f): return "coroutine"
    return "plain"
def methods(cls):
    return {n: f for n, f in vars(cls).items() if inspect.isfunction(f) and not n.startswith("_")}
def sig(f):
    try:
        return str(inspect.signature(f))
    except Exception as e:
        return "ERR " + str(e)
def props(cls):
    return sorted(n for n, v in vars(cls).items() if isinstance(v, property))
def call(mock_cls, name, f):
    async def go():
        inst = mock_cls()
        s = inspect.signature(f)
        kw = {}
        args = []
        for p in list(s.parameters.values())[1:]:
            if p.default is inspect.Parameter.empty:
                if p.kind == p.KEYWORD_ONLY: kw[p.name] = None
                else: args.append(None)
        try:
            r = getattr(inst, name)(*args, **kw)
            if inspect.isasyncgen(r):
                await r.__anext__()
            else:
                await r
            return "returned"
        except NotImplementedError as e:
            return "NotImplementedError:" + str(e)
        except BaseException as e:
            return type(e).__name__ + ":" + str(e)[:120]
    return asyncio.run(go())
ep_dir = os.path.join(root, *package.split("."), "endpoints")
mods = sorted(f[:-3] for f in os.listdir(ep_dir) if f.endswith(".py") and f != "__init__.py")
for m in mods:
    em = imp(f"{package}.endpoints.{m}")
    info = {"client": None, "mock_module": os.path.exists(os.path.join(root, *package.split("."), "mocks", "endpoints", f"mock_{m}.py"))}
    out["clients"][m] = info
    if em is None:
        continue
    cls = [c for n, c in vars(em).items() if inspect.isclass(c) and n.endswith("Client") and c.__module__ == em.__name__]
    proto = [c for n, c in vars(em).items() if inspect.isclass(c) and n.endswith("ClientProtocol") and c.__module__ == em.__name__]
    if len(cls) != 1 or len(proto) != 1:
        info["error"] = f"classes {[c.__name__ for c in cls]} protocols {[c.__name__ for c in proto]}"
        continue
    cls, proto = cls[0], proto[0]
    info["client"] = cls.__name__
    cm, pm = methods(cls), methods(proto)
    info["methods"] = {n: {"sig": sig(f), "nature": nature(f)} for n, f in cm.items()}
    info["proto"] = {n: {"sig": sig(f), "nature": nature(f)} for n, f in pm.items()}
    try:
        info["client_isinstance_proto"] = isinstance(cls(None, ""), proto)
    except BaseException as e:
        info["client_isinstance_proto"] = f"{type(e).__name__}: {e}"
    if info["mock_module"]:
        mm = imp(f"{package}.mocks.endpoints.mock_{m}")
        if mm is not None:
            mk = getattr(mm, "Mock" + cls.__name__, None)
            if mk is None:
                info["mock"] = None
            else:
                km = methods(mk)
                info["mock"] = {n: {"sig": sig(f), "nature": nature(f), "call": call(mk, n, f)} for n, f in km.items()}
                try:
                    info["mock_isinstance_proto"] = isinstance(mk(), proto)
                except BaseException as e:
                    info["mock_isinstance_proto"] = f"{type(e).__name__}: {e}"
cm = imp(f"{package}.client")
if cm is not None:
    out["api_props"] = props(cm.APIClient)
    out["api_prop_types"] = {}
    for n in out["api_props"]:
        r = inspect.signature(vars(cm.APIClient)[n].fget).return_annotation
        out["api_prop_types"][n] = getattr(r, "__name__", str(r))
mc = imp(f"{package}.mocks.mock_client")
if mc is not None:
    out["mock_props"] = props(mc.MockAPIClient)
    try:
        inst = mc.MockAPIClient()
        out["mock_prop_types"] = {n: type(getattr(inst, n)).__name__ for n in out["mock_props"]}
        out["mock_isinstance_proto"] = isinstance(inst, cm.APIClientProtocol) if cm is not None else None
    except BaseException as e:
        out["mock_prop_types"] = f"{type(e).__name__}: {e}"
imp(f"{package}.mocks")
print(json.dumps(out))
'''


def _probe(root: str, package: str, scratch: str) -> dict:
    probe = os.path.join(scratch, "probe_c13.py")
    if not os.path.exists(probe):
        with open(probe, "w") as f:
            f.write(PROBE_SRC)
    env = {k: v for k, v in os.environ.items() if k != "PYTHONPATH"}
    env["PYTHONDONTWRITEBYTECODE"] = "1"
    try:
        p = subprocess.run([PY, probe, root, package], capture_output=True, text=True, timeout=120, env=env, cwd=root)
    except subprocess.TimeoutExpired:
        return {"probe_error": "timeout"}
    if p.returncode != 0:
        return {"probe_error": f"rc={p.returncode}", "stderr": p.stderr[-1500:]}
    try:
        return json.loads(p.stdout.strip().split("\n")[-1])
    except Exception:  # noqa: BLE001
        return {"probe_error": "bad json", "stdout": p.stdout[-300:], "stderr": p.stderr[-800:]}


def _expected_surface(doc: dict):
    """What the property demands, from the document alone: per operation the set of its tags (or `default`)."""
    ops = []
    for path, item in doc["paths"].items():
        for method, op in item.items():
            ops.append((op["operationId"], list(op.get("tags") or [])))
    return ops


def _norm(t: str) -> str:
    # the property's notion of "same tag" is the generator's own documented normalisation (case/punctuation-insensitive)
    return re.sub(r"[\W_]+", "", t).lower()


def _snake(opid: str) -> str:
    s = re.sub(r"([a-z0-9])([A-Z])", r"\1_\2", opid)
    return re.sub(r"[^0-9a-zA-Z]+", "_", s).strip("_").lower()


def _evaluate(doc: dict, root: str, scratch: str) -> tuple[int, list[dict]]:
    """Generate, import in a fresh interpreter, evaluate the property.  Returns (#evaluations, failures)."""
    fails: list[dict] = []
    n = 0
    err = _generate(doc, root)
    if err:
        return 1, [{"class": "generation-error", "observed": err, "expected": "generation succeeds"}]
    pr = _probe(root, "pkg.client", scratch)
    if "probe_error" in pr:
        return 1, [{"class": "probe-error", "observed": pr, "expected": "probe runs"}]
    ops = _expected_surface(doc)

    def fail(cls, observed, expected):
        fails.append({"class": cls, "observed": observed, "expected": expected})

    import_errs = pr["errors"]
    mock_client_broken = any(e["module"].endswith("mocks.mock_client") or e["module"].endswith(".mocks") for e in import_errs)
    for e in import_errs:
        n += 1
        if "mock" in e["module"]:
            variants = len({t for _, ts in ops for t in ts[:1]}) > len({_norm(t) for _, ts in ops for t in ts[:1]})
            fail("mock-tag-case-variants-collide" if variants else "mock-import-error", e, "module imports")
        else:
            fail("client-import-error", e, "module imports")
    # C07: every operation on the client of each of its tags, reachable as an APIClient property
    groups: dict[str, list[str]] = {}
    for opid, tags in ops:
        for k in dict.fromkeys(_norm(t) for t in (tags or ["default"])):
            groups.setdefault(k, []).append(_snake(opid))
    clients = pr["clients"]
    by_key = {}
    for m, info in clients.items():
        by_key.setdefault(_norm(m), []).append(m)
    for k, want in groups.items():
        n += 1
        ms = by_key.get(k, [])
        if len(ms) != 1 or clients[ms[0]].get("methods") is None:
            fail("tag-client-missing", {"key": k, "modules": ms}, "exactly one tag client module")
            continue
        got = sorted(clients[ms[0]]["methods"])
        if got != sorted(want):
            fail("tag-client-methods", {"module": ms[0], "methods": got}, sorted(want))
        n += 1
        if pr.get("api_props") is not None and ms[0] not in pr["api_props"]:
            fail("tag-client-unreachable", {"module": ms[0], "api_props": pr["api_props"]}, "property on APIClient")
    # C13 per tag client: client vs Protocol vs mock
    for m, info in clients.items():
        if info.get("methods") is None:
            continue
        n += 1
        if info.get("client_isinstance_proto") is not True:
            fail("client-not-protocol", info.get("client_isinstance_proto"), True)
        for name, c in info["methods"].items():
            n += 1
            p = info["proto"].get(name)
            if p is None:
                fail("protocol-method-missing", {"module": m, "method": name}, "present")
            else:
                if p["sig"] != c["sig"]:
                    fail("protocol-signature", {"module": m, "method": name, "proto": p["sig"], "client": c["sig"]}, "equal")
                want_nat = "plain" if c["nature"] == "asyncgen" else c["nature"]   # documented convention for async generators
                if p["nature"] != want_nat:
                    fail("protocol-async-dropped" if _f47_shape(c) else "protocol-nature-differs", {"module": m, "method": name, "proto": p["nature"], "client": c["nature"]}, want_nat)
        if not info["mock_module"] or info.get("mock") is None:
            n += 1
            if not any("mock" in e["module"] for e in import_errs) or not info["mock_module"]:
                fail("mock-groups-by-first-raw-tag", {"module": m, "mock_module": info["mock_module"]}, "mock class for every tag client")
            continue
        n += 1
        if info.get("mock_isinstance_proto") is not True:
            fail("mock-groups-by-first-raw-tag" if set(info["mock"]) != set(info["methods"]) else "mock-not-protocol",
                 {"module": m, "isinstance": info.get("mock_isinstance_proto"), "mock_methods": sorted(info["mock"]),
                  "client_methods": sorted(info["methods"])}, True)
        for name, c in info["methods"].items():
            n += 1
            k = info["mock"].get(name)
            if k is None:
                fail("mock-groups-by-first-raw-tag", {"module": m, "method": name, "mock_methods": sorted(info["mock"])}, "mock method present")
                continue
            if k["sig"] != c["sig"]:
                fail("mock-signature", {"module": m, "method": name, "mock": k["sig"], "client": c["sig"]}, "equal")
            if k["nature"] != c["nature"]:
                # the class of F47 (repaired): signatures that MENTION `AsyncIterator` in a type NAME (AsyncIteratorResult) only
                f47 = _f47_shape(c)
                fail("mock-asyncgen-nature" if f47 else "mock-nature-differs", {"module": m, "method": name, "mock": k["nature"], "client": c["nature"]}, "equal")
            elif not k["call"].startswith("NotImplementedError:"):
                fail("mock-does-not-raise", {"module": m, "method": name, "call": k["call"]}, "NotImplementedError")
        for name in info["mock"]:
            if name not in info["methods"]:
                n += 1
                fail("mock-extra-method", {"module": m, "method": name}, "absent")
    n += 1
    if pr.get("api_props") is not None and not mock_client_broken:
        if pr.get("mock_props") != pr["api_props"]:
            fail("mock-groups-by-first-raw-tag", {"mock_props": pr.get("mock_props"), "api_props": pr["api_props"]}, "same property names")
        elif isinstance(pr.get("mock_prop_types"), dict):
            for p_, t in pr["api_prop_types"].items():
                if pr["mock_prop_types"].get(p_) != "Mock" + t:
                    fail("mock-prop-type", {"prop": p_, "mock": pr["mock_prop_types"].get(p_), "client": t}, "Mock" + t)
            if pr.get("mock_isinstance_proto") is not True:
                fail("mockapi-not-protocol", pr.get("mock_isinstance_proto"), True)
    return n, fails


# defect classes proved as `_counterexample` in Pog/Props/C13.lean (expected on the unchanged tree)
EXPECTED_CLASSES: list[str] = []     # the classes of F23 (mock-groups-by-first-raw-tag, mock-tag-case-variants-collide) and of F47 are repaired


def _witness_docs() -> list[dict]:
    """Fixed minimal documents, one per proved `_counterexample` (so every expected class is exercised on each run)."""
    def op(opid, tags, resp_schema="User"):
        o = {"operationId": opid, "responses": {"200": {"description": "ok", "content": {"application/json": {
            "schema": {"$ref": "#/components/schemas/" + resp_schema}}}}}}
        if tags:
            o["tags"] = tags
        return o
    comps = {"schemas": {"User": {"type": "object", "properties": {"id": {"type": "integer"}}},
                         "AsyncIteratorResult": {"type": "object", "properties": {"id": {"type": "integer"}}}}}
    base = {"openapi": "3.0.3", "info": {"title": "T", "version": "1"}, "components": comps}
    return [
        dict(base, paths={"/a": {"get": op("getA", ["Users", "admin-ops"])}, "/b": {"get": op("getB", ["Users"])}}),
        dict(base, paths={"/a": {"get": op("getA", ["Users"])}, "/b": {"get": op("getB", ["users"])}}),
        dict(base, paths={"/a": {"get": op("getIt", ["Users"], "AsyncIteratorResult")}, "/b": {"get": op("getB", [])}}),
    ]


def _oracle_doc(rng: random.Random, i: int) -> tuple[dict, str]:
    w = _witness_docs()
    if i < len(w):
        return w[i], "witness"
    mode = ["single", "any", "single", "any", "none"][i % 5]
    doc = _rand_spec(rng, tag_mode=mode, asynciter_schema=(i % 2 == 0), multi_pair=(i % 3 == 1))
    return doc, mode


def oracle(seed: int, scale: float) -> dict:
    _quiet()
    rng = random.Random(seed)
    evaluations = 0
    failures: list[dict] = []
    with _Scratch("oracle") as sc:
        n = max(3, int(22 * scale))
        for i in range(n):
            doc, mode = _oracle_doc(rng, i)
            root = os.path.join(sc.dir, f"o{i}")
            k, fs = _evaluate(doc, root, sc.dir)
            evaluations += k
            seen = set()
            for f in fs:
                if f["class"] in seen:       # one failure per class and document
                    continue
                seen.add(f["class"])
                f["case"] = {"doc": doc, "class": f["class"]}
                failures.append(f)
            shutil.rmtree(root, ignore_errors=True)
    return {"evaluations": evaluations, "failures": failures}


def replay(case) -> bool:
    _quiet()
    with _Scratch("replay") as sc:
        _, fs = _evaluate(case["doc"], os.path.join(sc.dir, "r"), sc.dir)
    return any(f["class"] == case["class"] for f in fs)


if __name__ == "__main__":
    import time
    drv = os.path.join(HERE, ".lake/build/bin/driver")
    seed = int(sys.argv[1]) if len(sys.argv) > 1 else 20260929
    scale = float(sys.argv[2]) if len(sys.argv) > 2 else 1.0
    t0 = time.time()
    r = run(seed, scale, drv)
    for d in r["disagreements"][:10]:
        print("DISAGREE", json.dumps(d, ensure_ascii=False)[:3000])
    print(json.dumps({k: r[k] for k in ("comparisons", "nontrivial", "distribution")}, indent=1))
    print(f"run: {time.time() - t0:.1f}s")
    t0 = time.time()
    o = oracle(seed, scale)
    by: dict = {}
    for f in o["failures"]:
        by[f["class"]] = by.get(f["class"], 0) + 1
    print("oracle evaluations", o["evaluations"], "failures by class", by, f"{time.time() - t0:.1f}s")
    unexpected = [f for f in o["failures"] if f["class"] not in EXPECTED_CLASSES]
    for f in unexpected[:5]:
        print("UNEXPECTED", json.dumps({k: f[k] for k in ("class", "observed", "expected")}, ensure_ascii=False)[:1500])
    print(f"{len(r['disagreements'])} disagreements")
