import Pog.Model.Fresh
import Pog.Model.ConvSpec
/-
  What the generator hands to the converter (C03, converter part):

    * `DataclassGenerator.generate` (visit/model/dataclass_generator.py:477-520): properties sorted by
      `(name not in required, name)`, field identifiers from `fieldNames` (M-fresh), `field_mappings[prop] = field`;
    * `PythonConstructRenderer.render_dataclass` (core/writers/python_construct_renderer.py:313-335):
      `Meta.key_transform_with_load = {prop: field}`, `Meta.key_transform_with_dump = {field: prop}`;
      (the TEXT-level escaping of the keys inside the generated source is C15's business: here the maps are values);
    * `SchemaResolver._resolve_string` (types/resolvers/schema_resolver.py:280-310): the string `format` ↦ python type.
-/
namespace Pog

/-! ### `format_mapping` of `_resolve_string`

  FACT ABOUT THE SOURCE: the dict literal `format_mapping`; an unlisted format (e.g. `byte`, `password`) gives `str`.
  Leaf `.str` stands for the python type `str`. -/
def formatMapping : List (Str × Leaf) :=
  [ ("date".toList, .date), ("date-time".toList, .datetime), ("time".toList, .time), ("uuid".toList, .uuid),
    ("email".toList, .str), ("uri".toList, .str), ("hostname".toList, .str), ("ipv4".toList, .str),
    ("ipv6".toList, .str), ("binary".toList, .bytes) ]

/-- `format_mapping.get(format_type, "str")` -/
def leafOfFormat (fmt : Str) : Leaf := (aget formatMapping fmt).getD .str

/-- Both directions of the converter know the leaf: it can be structured, and it is either unstructured by a hook
    of the module or is JSON as it stands (a cattrs builtin). -/
def leafRoundTrips (l : Leaf) : Bool :=
  leafCanStructure l && (cattrsBuiltinLeaves.contains l || leafHasUnstructureHook l)

/-! ### the emitted dataclass -/

/-- One schema property as the generator sees it: name, resolved python type, default kind. -/
structure PropSpec where
  name : Str
  ty : Ty
  dflt : Dflt
  deriving Repr, Inhabited

/-- Python `a < b` on `str` (code-point lexicographic). -/
def strLt : Str → Str → Bool
  | [], [] => false
  | [], _ :: _ => true
  | _ :: _, [] => false
  | a :: as, b :: bs => a.toNat < b.toNat || (a == b && strLt as bs)

/-- The sort key `(name not in required, name)`: required properties first, then by name. -/
def propLe (a b : PropSpec) : Bool :=
  let ka := a.dflt != .required
  let kb := b.dflt != .required
  if ka == kb then !(strLt b.name a.name) else (!ka && kb)

def insertProp (p : PropSpec) : List PropSpec → List PropSpec
  | [] => [p]
  | q :: qs => if propLe p q then p :: q :: qs else q :: insertProp p qs

/-- `sorted(schema.properties.items(), key=…)` (keys are pairwise distinct, so stability is immaterial). -/
def sortProps : List PropSpec → List PropSpec
  | [] => []
  | p :: ps => insertProp p (sortProps ps)

def zipFields : List PropSpec → List Str → List Field
  | p :: ps, n :: ns => ⟨n, p.ty, p.dflt⟩ :: zipFields ps ns
  | _, _ => []

/-- The dataclass the generator emits for an object schema with these properties: fields in sorted order under
    the derived identifiers, `Meta` maps between the ORIGINAL property names and those identifiers. -/
def generatedClass (props : List PropSpec) : Option ClassDecl :=
  let sorted := sortProps props
  match fieldNames (sorted.map PropSpec.name) with
  | none => none
  | some names =>
    some { fields := zipFields sorted names
           loadMap := some ((sorted.map PropSpec.name).zip names)
           dumpMap := some (names.zip (sorted.map PropSpec.name)) }

end Pog
