import Pog.Model.StreamSpec
/-
  Lemmas about the stream models (`Pog.Model.Stream`) used by `Pog.Props.C18`.
-/
namespace Pog

/-! ### The line automaton -/

theorem lrun_append (s : LSt) (a b : Str) :
    lrun s (a ++ b) = ((lrun s a).1 ++ (lrun (lrun s a).2 b).1, (lrun (lrun s a).2 b).2) := by
  induction a generalizing s with
  | nil => simp [lrun]
  | cons c cs ih => simp [lrun, ih, List.append_assoc]

theorem lrun_singleton (s : LSt) (c : Char) : lrun s [c] = lstep s c := by
  simp [lrun]

theorem lrun_concat (s : LSt) (a : Str) (c : Char) :
    lrun s (a ++ [c]) = ((lrun s a).1 ++ (lstep (lrun s a).2 c).1, (lstep (lrun s a).2 c).2) := by
  rw [lrun_append, lrun_singleton]

/-- Prefixing the current line of the start state. -/
def LSt.addP (p : Str) (s : LSt) : LSt := ⟨p ++ s.cur, s.pcr⟩

theorem lstep_addP (p : Str) (s : LSt) (c : Char) :
    lstep (s.addP p) c =
      (if (lstep s c).1 = [] then ([], (lstep s c).2.addP p) else (mergeFirst p (lstep s c).1, (lstep s c).2)) := by
  cases hp : s.pcr <;> by_cases h1 : (c == '\n') = true <;> by_cases h2 : (c == '\r') = true <;>
    by_cases h3 : isLineBreak c = true <;> simp [lstep, LSt.addP, hp, h1, h2, h3, mergeFirst]

theorem mergeFirst_append (p : Str) (a b : List Str) (h : a ≠ []) :
    mergeFirst p (a ++ b) = mergeFirst p a ++ b := by
  cases a with
  | nil => exact absurd rfl h
  | cons x xs => simp [mergeFirst]

theorem mergeFirst_nil_left (l : List Str) : mergeFirst [] l = l := by
  cases l <;> simp [mergeFirst]

theorem mergeFirst_eq_nil (p : Str) (l : List Str) : mergeFirst p l = [] ↔ l = [] := by
  cases l <;> simp [mergeFirst]

theorem mergeFirst_mergeFirst (p q : Str) (l : List Str) :
    mergeFirst p (mergeFirst q l) = mergeFirst (p ++ q) l := by
  cases l <;> simp [mergeFirst]

theorem addP_addP (p q : Str) (s : LSt) : (s.addP q).addP p = s.addP (p ++ q) := by
  simp [LSt.addP]

theorem lrun_addP (p : Str) (s : LSt) (t : Str) :
    lrun (s.addP p) t =
      (if (lrun s t).1 = [] then ([], (lrun s t).2.addP p) else (mergeFirst p (lrun s t).1, (lrun s t).2)) := by
  induction t generalizing s p with
  | nil => simp [lrun]
  | cons c cs ih =>
    simp only [lrun]
    rw [lstep_addP]
    by_cases h1 : (lstep s c).1 = []
    · simp only [h1, if_true, List.nil_append]
      rw [ih]
    · simp only [h1, if_false, List.append_eq_nil_iff, false_and]
      rw [mergeFirst_append _ _ _ h1]

theorem isLineBreak_cr : isLineBreak '\r' = true := by decide
theorem isLineBreak_lf : isLineBreak '\n' = true := by decide

/-- What the last character fed says about the state reached. -/
theorem lstep_end (s : LSt) (c : Char) :
    (c = '\r' ∧ (lstep s c).2.pcr = true) ∨
    (c ≠ '\r' ∧ isLineBreak c = true ∧ (lstep s c).2 = ⟨[], false⟩ ∧ (lstep s c).1 ≠ []) ∨
    (isLineBreak c = false ∧ (lstep s c).2.pcr = false ∧ (lstep s c).2.cur ≠ []) := by
  by_cases h2 : c = '\r'
  · subst h2
    cases hp : s.pcr <;> simp [lstep, hp]
  · by_cases h1 : c = '\n'
    · subst h1
      cases hp : s.pcr <;> simp [lstep, hp, isLineBreak_lf]
    · cases hp : s.pcr <;> by_cases h3 : isLineBreak c = true <;> simp [lstep, hp, h1, h2, h3]

theorem lrun_end (s : LSt) (t : Str) (c : Char) (h : t.getLast? = some c) :
    (c = '\r' ∧ (lrun s t).2.pcr = true) ∨
    (c ≠ '\r' ∧ isLineBreak c = true ∧ (lrun s t).2 = ⟨[], false⟩ ∧ (lrun s t).1 ≠ []) ∨
    (isLineBreak c = false ∧ (lrun s t).2.pcr = false ∧ (lrun s t).2.cur ≠ []) := by
  obtain ⟨a, rfl⟩ : ∃ a, t = a ++ [c] := by
    rcases List.eq_nil_or_concat t with rfl | ⟨a, b, rfl⟩
    · simp at h
    · simp at h; subst h; exact ⟨a, by simp⟩
  rw [lrun_concat]
  rcases lstep_end (lrun s a).2 c with h1 | h1 | h1
  · exact Or.inl h1
  · exact Or.inr (Or.inl ⟨h1.1, h1.2.1, h1.2.2.1, by simp [h1.2.2.2]⟩)
  · exact Or.inr (Or.inr h1)

theorem init_addP (cur : Str) : LSt.init.addP cur = ⟨cur, false⟩ := by simp [LSt.addP, LSt.init]

theorem lines1_eq (buffer : List Str) (cur : Str) (lines : List Str)
    (hb : buffer.flatten = cur) (hn : buffer = [] ↔ cur = []) :
    (if buffer.isEmpty = true then lines else mergeFirst buffer.flatten lines) = mergeFirst cur lines := by
  by_cases h : buffer = []
  · have := hn.mp h
    subst h; subst this
    simp [mergeFirst_nil_left]
  · simp [h, hb]

theorem decodeBody_nl (buffer : List Str) (cur : Str) (e : Bool) (t : Str) (c : Char)
    (hb : buffer.flatten = cur) (hn : buffer = [] ↔ cur = [])
    (hc : t.getLast? = some c) (hl : isLineBreak c = true) :
    LD.decodeBody buffer e t = (⟨[], e⟩, mergeFirst cur (splitLines t)) := by
  unfold LD.decodeBody
  simp only [hc, hl, if_true, lines1_eq buffer cur _ hb hn]
  split
  · rename_i h; cases h
  · rfl

theorem decodeBody_nonl (buffer : List Str) (cur : Str) (e : Bool) (t : Str) (c : Char)
    (hb : buffer.flatten = cur) (hn : buffer = [] ↔ cur = [])
    (hc : t.getLast? = some c) (hl : isLineBreak c = false) (ls : List Str) (l : Str)
    (hs : splitLines t = ls ++ [l]) :
    LD.decodeBody buffer e t =
      if ls = [] then (⟨buffer ++ [l], e⟩, []) else (⟨[l], e⟩, mergeFirst cur ls) := by
  unfold LD.decodeBody
  simp only [hc, hl, hs, lines1_eq buffer cur _ hb hn]
  cases ls with
  | nil => simp
  | cons x xs =>
    have : mergeFirst cur (x :: xs ++ [l]) = mergeFirst cur (x :: xs) ++ [l] :=
      mergeFirst_append _ _ _ (by simp)
    rw [this]
    cases xs <;> simp

/-- `decodeBody` on a non-empty `t` is a run of the automaton from the buffered line. -/
theorem decodeBody_spec (buffer : List Str) (cur : Str) (e : Bool) (t : Str) (ht : t ≠ [])
    (hb : buffer.flatten = cur) (hn : buffer = [] ↔ cur = []) :
    (LD.decodeBody buffer e t).1.trailingCR = e ∧
    (if (lrun ⟨cur, false⟩ t).2.pcr = true then
      (LD.decodeBody buffer e t).2 = (lrun ⟨cur, false⟩ t).1 ++ [(lrun ⟨cur, false⟩ t).2.cur]
        ∧ (LD.decodeBody buffer e t).1.buffer = []
    else
      (LD.decodeBody buffer e t).2 = (lrun ⟨cur, false⟩ t).1
        ∧ (LD.decodeBody buffer e t).1.buffer.flatten = (lrun ⟨cur, false⟩ t).2.cur
        ∧ ((LD.decodeBody buffer e t).1.buffer = [] ↔ (lrun ⟨cur, false⟩ t).2.cur = [])) := by
  obtain ⟨c, hc⟩ : ∃ c, t.getLast? = some c := by
    cases h : t.getLast? with
    | none => simp at h; exact absurd h ht
    | some c => exact ⟨c, rfl⟩
  rw [← init_addP cur, lrun_addP]
  have hsl : splitLines t = (lrun LSt.init t).1 ++ lfinish (lrun LSt.init t).2 := rfl
  have hend := lrun_end LSt.init t c hc
  generalize hq : lrun LSt.init t = q at hsl hend
  obtain ⟨ls, ⟨qc, qp⟩⟩ := q
  simp only at hend hsl ⊢
  rcases hend with ⟨h1, h2⟩ | ⟨h1, h2, h3, h4⟩ | ⟨h1, h2, h3⟩
  · subst h2
    rw [decodeBody_nl buffer cur e t c hb hn hc (by rw [h1]; exact isLineBreak_cr), hsl]
    by_cases hls : ls = []
    · subst hls; simp [lfinish, mergeFirst, LSt.addP]
    · simp [hls, lfinish, mergeFirst_append _ _ _ hls]
  · injection h3 with h3a h3b
    subst h3a; subst h3b
    rw [decodeBody_nl buffer cur e t c hb hn hc h2, hsl]
    simp [h4, lfinish]
  · subst h2
    have hs : splitLines t = ls ++ [qc] := by rw [hsl]; simp [lfinish, h3]
    rw [decodeBody_nonl buffer cur e t c hb hn hc h1 ls qc hs]
    by_cases hls : ls = []
    · subst hls; simp [LSt.addP, hb, h3]
    · simp [hls, h3]

/-- The abstraction relation between a `LineDecoder` and the line automaton. -/
def LDRel (ld : LD) (s : LSt) : Prop :=
  ld.buffer.flatten = s.cur ∧ (ld.buffer = [] ↔ s.cur = []) ∧ ld.trailingCR = s.pcr

theorem LDRel_init : LDRel LD.init LSt.init := by simp [LDRel, LD.init, LSt.init]

/-- `decode` after the carried `\r` has been prepended. -/
theorem decodeCore_spec (buffer : List Str) (cur : Str) (t1 : Str) (ht : t1 ≠ [])
    (hb : buffer.flatten = cur) (hn : buffer = [] ↔ cur = []) :
    (LD.decodeBody buffer (t1.getLast? == some '\r') (if (t1.getLast? == some '\r') = true then t1.dropLast else t1)).2
        = (lrun ⟨cur, false⟩ t1).1 ∧
    LDRel (LD.decodeBody buffer (t1.getLast? == some '\r') (if (t1.getLast? == some '\r') = true then t1.dropLast else t1)).1
        (lrun ⟨cur, false⟩ t1).2 := by
  obtain ⟨a, c, rfl⟩ : ∃ a c, t1 = a ++ [c] := by
    rcases List.eq_nil_or_concat t1 with rfl | ⟨a, c, rfl⟩
    · exact absurd rfl ht
    · exact ⟨a, c, by simp⟩
  · by_cases hc : c = '\r'
    · subst hc
      simp only [List.getLast?_append, List.getLast?_singleton, Option.some_or, beq_self_eq_true,
        if_true, List.dropLast_concat, lrun_concat]
      by_cases ha : a = []
      · subst ha
        simp [LD.decodeBody, lrun, lstep, LDRel, hb, hn]
      · have h := decodeBody_spec buffer cur true a ha hb hn
        generalize LD.decodeBody buffer true a = d at h ⊢
        generalize lrun ⟨cur, false⟩ a = r at h ⊢
        obtain ⟨⟨db, dc⟩, dl⟩ := d
        obtain ⟨rl, ⟨rc, rp⟩⟩ := r
        simp only at h
        cases rp
        · simp at h
          simp [lstep, LDRel, h]
        · simp at h
          simp [lstep, LDRel, h]
    · have hne' : ((a ++ [c]).getLast? == some '\r') = false := by simp [hc]
      simp only [hne', Bool.false_eq_true, if_false]
      have h := decodeBody_spec buffer cur false (a ++ [c]) ht hb hn
      have hend := lrun_end ⟨cur, false⟩ (a ++ [c]) c (by simp)
      generalize LD.decodeBody buffer false (a ++ [c]) = d at h ⊢
      generalize lrun ⟨cur, false⟩ (a ++ [c]) = r at h hend ⊢
      obtain ⟨⟨db, dc⟩, dl⟩ := d
      obtain ⟨rl, ⟨rc, rp⟩⟩ := r
      have hp : rp = false := by
        rcases hend with h1 | h1 | h1
        · exact absurd h1.1 hc
        · have := h1.2.2.1; injection this
        · exact h1.2.1
      subst hp
      simp at h
      simp [LDRel, h]

theorem decode_spec (ld : LD) (s : LSt) (h : LDRel ld s) (text : Str) (ht : text ≠ []) :
    (ld.decode text).2 = (lrun s text).1 ∧ LDRel (ld.decode text).1 (lrun s text).2 := by
  obtain ⟨hb, hn, hp⟩ := h
  obtain ⟨cur, pcr⟩ := s
  simp only at hb hn hp
  unfold LD.decode
  simp only [hp]
  cases pcr
  · simp only [Bool.false_eq_true, if_false]
    exact decodeCore_spec ld.buffer cur text ht hb hn
  · simp only [if_true]
    have := decodeCore_spec ld.buffer cur ('\r' :: text) (by simp) hb hn
    have hr : lrun ⟨cur, false⟩ ('\r' :: text) = lrun ⟨cur, true⟩ text := by
      simp [lrun, lstep]
    rw [hr] at this
    exact this

theorem flush_spec (ld : LD) (s : LSt) (h : LDRel ld s) : ld.flush = lfinish s := by
  obtain ⟨hb, hn, hp⟩ := h
  unfold LD.flush lfinish
  rw [hp, hb]
  cases s.pcr
  · by_cases hc : s.cur = []
    · simp [hc, hn.mpr hc]
    · have : ld.buffer ≠ [] := fun h => hc (hn.mp h)
      simp [hc, this]
  · simp

theorem ldFeed_spec (ld : LD) (s : LSt) (h : LDRel ld s) (chunks : List Str) :
    ldFeed ld chunks = (lrun s chunks.flatten).1 ++ lfinish (lrun s chunks.flatten).2 := by
  induction chunks generalizing ld s with
  | nil => simp [ldFeed, lrun, flush_spec ld s h]
  | cons t ts ih =>
    by_cases ht : t = []
    · subst ht
      simp [ldFeed, ih ld s h]
    · have hd := decode_spec ld s h t ht
      simp only [ldFeed, List.isEmpty_iff, ht, if_false, List.flatten_cons, lrun_append]
      rw [ih _ _ hd.2, hd.1, List.append_assoc]

theorem linesOf_eq_splitLines (chunks : List Str) : linesOf chunks = splitLines chunks.flatten :=
  ldFeed_spec LD.init LSt.init LDRel_init chunks

/-- The `IndexError` branches of `LD.decodeBody` are unreachable. -/
theorem splitLines_ne_nil (t : Str) (ht : t ≠ []) : splitLines t ≠ [] := by
  obtain ⟨c, hc⟩ : ∃ c, t.getLast? = some c := by
    cases h : t.getLast? with
    | none => simp at h; exact absurd h ht
    | some c => exact ⟨c, rfl⟩
  unfold splitLines
  rcases lrun_end LSt.init t c hc with h | h | h
  · simp [lfinish, h.2]
  · simp [h.2.2.2]
  · simp [lfinish, h.2.1, h.2.2]

/-! ### Equations that pin `splitLines` down (the usual description of `str.splitlines`) -/

theorem lrun_noBreak (cur l : Str) (h : l.all (fun c => !isLineBreak c) = true) :
    lrun ⟨cur, false⟩ l = ([], ⟨cur ++ l, false⟩) := by
  induction l generalizing cur with
  | nil => simp [lrun]
  | cons c cs ih =>
    simp only [List.all_cons, Bool.and_eq_true, Bool.not_eq_true'] at h
    have hcr : c ≠ '\r' := by
      intro hc; rw [hc, isLineBreak_cr] at h; exact absurd h.1 (by decide)
    simp [lrun, lstep, hcr, h.1, ih _ h.2]

theorem lstep_after_cr (l : Str) (d : Char) (hd : d ≠ '\n') :
    lstep ⟨l, true⟩ d = (l :: (lstep LSt.init d).1, (lstep LSt.init d).2) := by
  by_cases h2 : d = '\r' <;> by_cases h3 : isLineBreak d = true <;> simp [lstep, LSt.init, hd, h2, h3]

theorem splitLines_nil : splitLines [] = [] := by decide

theorem splitLines_noBreak (l : Str) (hl : l ≠ []) (h : l.all (fun c => !isLineBreak c) = true) :
    splitLines l = [l] := by
  have := lrun_noBreak [] l h
  simp only [LSt.init, splitLines, List.nil_append] at this ⊢
  simp [this, lfinish, hl]

/-- A line break other than `\r` ends the line. -/
theorem splitLines_break (l rest : Str) (c : Char) (h : l.all (fun c => !isLineBreak c) = true)
    (hc : isLineBreak c = true) (hcr : c ≠ '\r') :
    splitLines (l ++ c :: rest) = l :: splitLines rest := by
  have := lrun_noBreak [] l h
  simp only [LSt.init, splitLines, List.nil_append] at this ⊢
  simp [lrun_append, this, lrun, lstep, hc, hcr]

/-- `\r\n` is one line break. -/
theorem splitLines_crlf (l rest : Str) (h : l.all (fun c => !isLineBreak c) = true) :
    splitLines (l ++ '\r' :: '\n' :: rest) = l :: splitLines rest := by
  have := lrun_noBreak [] l h
  simp only [LSt.init, splitLines, List.nil_append] at this ⊢
  simp [lrun_append, this, lrun, lstep]

/-- A `\r` not followed by `\n` ends the line. -/
theorem splitLines_cr (l rest : Str) (h : l.all (fun c => !isLineBreak c) = true)
    (hr : rest.head? ≠ some '\n') :
    splitLines (l ++ '\r' :: rest) = l :: splitLines rest := by
  have := lrun_noBreak [] l h
  simp only [LSt.init, splitLines, List.nil_append] at this ⊢
  cases rest with
  | nil => simp [lrun_append, this, lrun, lstep, lfinish]
  | cons d r =>
    have hd : d ≠ '\n' := by simpa using hr
    have h2 := lstep_after_cr l d hd
    simp only [LSt.init] at h2
    have h3 : lstep ⟨l, false⟩ '\r' = ([], ⟨l, true⟩) := by simp [lstep]
    simp [lrun_append, this, lrun, h2, h3]

/-! ### `iter_sse` -/

theorem splitAtEmpty_ne_nil (ls : List Str) : splitAtEmpty ls ≠ [] := by
  cases ls with
  | nil => simp [splitAtEmpty]
  | cons l ls =>
    unfold splitAtEmpty
    split
    · simp
    · cases splitAtEmpty ls <;> simp [consHead]

theorem consHead_nil (S : List (List Str)) (h : S ≠ []) : consHead [] S = S := by
  cases S with
  | nil => exact absurd rfl h
  | cons b bs => simp [consHead]

theorem consHead_consHead (a b : List Str) (S : List (List Str)) :
    consHead a (consHead b S) = consHead (a ++ b) S := by
  cases S <;> simp [consHead]

theorem consHead_cons (a b : List Str) (bs : List (List Str)) : consHead a (b :: bs) = (a ++ b) :: bs := rfl

theorem sseLoop_spec (acc : List Str) (ls : List Str) :
    sseLoop acc ls = ((consHead acc (splitAtEmpty ls)).filter (fun b => !b.isEmpty)).map parseEvent := by
  induction ls generalizing acc with
  | nil =>
    by_cases h : acc = [] <;> simp [sseLoop, splitAtEmpty, consHead, h]
  | cons l ls ih =>
    by_cases hl : l = []
    · subst hl
      by_cases h : acc = []
      · subst h
        simp [sseLoop, splitAtEmpty, consHead_cons, ih, consHead_nil _ (splitAtEmpty_ne_nil ls)]
      · simp [sseLoop, splitAtEmpty, consHead_cons, ih, h, consHead_nil _ (splitAtEmpty_ne_nil ls)]
    · simp [sseLoop, splitAtEmpty, hl, ih, consHead_consHead]

theorem iterSSE_eq_blocks (ls : List Str) : iterSSE ls = (blocks ls).map parseEvent := by
  simp [iterSSE, blocks, sseLoop_spec, consHead_nil _ (splitAtEmpty_ne_nil ls)]

/-! ### `_parse_sse_event` -/

theorem fieldValue?_eq (name : Str) (hname : ':' ∉ name) (line : Str) :
    fieldValue? name line =
      match splitColon line with
      | some (f, v) => if f = name then some (lstripWs v) else none
      | none => none := by
  induction name generalizing line with
  | nil =>
    cases line with
    | nil => simp [fieldValue?, splitColon]
    | cons c cs =>
      by_cases hc : c = ':'
      · subst hc; simp [fieldValue?, splitColon]
      · have hc' : ¬ (':' = c) := fun h => hc h.symm
        simp only [fieldValue?, splitColon, List.nil_append, List.isPrefixOf, beq_iff_eq, hc, hc', Bool.and_true]
        cases splitColon cs with
        | none => simp
        | some p => simp
  | cons n ns ih =>
    have hn : n ≠ ':' := fun h => hname (by simp [h])
    have hns : ':' ∉ ns := fun h => hname (by simp [h])
    cases line with
    | nil => simp [fieldValue?, splitColon]
    | cons c cs =>
      by_cases hc : c = ':'
      · subst hc
        simp [fieldValue?, splitColon, List.isPrefixOf, hn]
      · have := ih hns cs
        simp only [fieldValue?, List.cons_append, List.isPrefixOf, List.length_cons, List.drop_succ_cons,
          splitColon, beq_iff_eq, hc, if_false, Bool.and_eq_true] at this ⊢
        by_cases hnc : n = c
        · subst hnc
          simp only [true_and]
          rw [this]
          cases splitColon cs with
          | none => simp
          | some p => simp
        · simp only [hnc, false_and, if_false]
          cases splitColon cs with
          | none => simp
          | some p =>
            have : ¬ (c = n) := fun h => hnc h.symm
            simp [this]

theorem parseLine_spec (st : PSt) (line : Str) :
    parseLine st line =
      ⟨st.data ++ (fieldValue? "data".toList line).toList,
       (fieldValue? "event".toList line).or st.event,
       (fieldValue? "id".toList line).or st.id⟩ := by
  rw [fieldValue?_eq _ (by decide), fieldValue?_eq _ (by decide), fieldValue?_eq _ (by decide)]
  unfold parseLine
  by_cases hcm : line.head? = some ':'
  · obtain ⟨cs, rfl⟩ : ∃ cs, line = ':' :: cs := by
      cases line with
      | nil => simp at hcm
      | cons c cs => simp at hcm; exact ⟨cs, by rw [hcm]⟩
    simp [splitColon]
  · simp only [beq_iff_eq, hcm, if_false]
    cases splitColon line with
    | none => simp
    | some p =>
      obtain ⟨f, v⟩ := p
      by_cases h1 : f = "data".toList
      · subst h1; simp
      · by_cases h2 : f = "event".toList
        · subst h2; simp
        · by_cases h3 : f = "id".toList
          · subst h3; simp
          · have h1' : ¬ f = ['d', 'a', 't', 'a'] := by simpa using h1
            have h2' : ¬ f = ['e', 'v', 'e', 'n', 't'] := by simpa using h2
            have h3' : ¬ f = ['i', 'd'] := by simpa using h3
            simp [h1', h2', h3']

theorem getLast?_cons_or {α : Type} (v : α) (xs : List α) (d : Option α) :
    ((v :: xs).getLast?).or d = (xs.getLast?).or (some v) := by
  rw [List.getLast?_cons]
  cases xs.getLast? <;> simp

theorem parseLines_spec (st : PSt) (ls : List Str) :
    parseLines st ls =
      ⟨st.data ++ ls.filterMap (fieldValue? "data".toList),
       (ls.filterMap (fieldValue? "event".toList)).getLast?.or st.event,
       (ls.filterMap (fieldValue? "id".toList)).getLast?.or st.id⟩ := by
  induction ls generalizing st with
  | nil => simp [parseLines]
  | cons l ls ih =>
    rw [parseLines, ih, parseLine_spec]
    simp only [List.filterMap_cons, List.append_assoc]
    congr 1
    · cases fieldValue? "data".toList l <;> simp
    · cases fieldValue? "event".toList l with
      | none => simp
      | some v => exact (getLast?_cons_or v _ _).symm
    · cases fieldValue? "id".toList l with
      | none => simp
      | some v => exact (getLast?_cons_or v _ _).symm

theorem parseEvent_spec (ls : List Str) :
    parseEvent ls =
      ⟨joinWith ['\n'] (ls.filterMap (fieldValue? "data".toList)),
       (ls.filterMap (fieldValue? "event".toList)).getLast?,
       (ls.filterMap (fieldValue? "id".toList)).getLast?⟩ := by
  simp [parseEvent, parseLines_spec, PSt.toEvent, PSt.init]

theorem parseLine_comment (st : PSt) (l : Str) (h : notComment l = false) : parseLine st l = st := by
  simp only [notComment, Bool.not_eq_false'] at h
  simp [parseLine, h]

theorem parseLines_filter_notComment (st : PSt) (ls : List Str) :
    parseLines st (ls.filter notComment) = parseLines st ls := by
  induction ls generalizing st with
  | nil => rfl
  | cons l ls ih =>
    cases h : notComment l
    · simp [h, parseLines, parseLine_comment st l h, ih]
    · simp [h, parseLines, ih]

theorem parseEvent_filter_notComment (ls : List Str) : parseEvent (ls.filter notComment) = parseEvent ls := by
  simp [parseEvent, parseLines_filter_notComment]

end Pog
