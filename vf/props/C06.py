"""C06 — non-2xx responses always raise a status-carrying, class-correct error.

proof  : Pog.Props.C06 (status -> alias class tables regenerated from source; alias base by range; names distinct, not builtins)
tie    : vf.corr.c06 (status tables vs the real functions)
oracle : generated client called with a fake server answering every sampled status 100..599 (declared, undeclared,
         `default`, 3xx) through the bundled HttpxTransport and through a pass-through transport.
"""
from __future__ import annotations

import json

from .. import e2e, findings, opsrig
from ..common import Run, rng
from ..gen import spec as gs
from . import _generic as g

PROP = "C06"
ALL_STATUSES = [100, 101, 199, 300, 301, 302, 304, 399, 400, 401, 403, 404, 409, 418, 422, 429, 451, 499, 500, 501, 502, 503, 504, 511, 599]


def case_fn(case: dict, d):
    root = d / "proj"
    pkg, core = case.get("package", "pkg.client"), case.get("core")
    gen = e2e.generate(case["doc"], root, package=pkg, core=core)
    if not gen["ok"]:
        return {"gen_ok": False, "gen_error": gen["error"]}
    calls = [{"id": i, "module": c["module"], "cls": c["cls"], "method": c["method"], "args": c["args"], "reply": c["reply"],
              "transport": c["transport"]} for i, c in enumerate(case["calls"])]
    pr = e2e.probe(root, pkg, core, [{"task": "calls", "calls": calls}], timeout=300)
    return {"gen_ok": True, "probe": pr}


WITNESS_DOC = {"openapi": "3.0.3", "info": {"title": "W", "version": "1"}, "paths": {
    "/w": {"get": {"operationId": "getW", "responses": {
        "200": {"description": "ok", "content": {"application/json": {"schema": {"type": "object", "properties": {"a": {"type": "string"}}}}}},
        "404": {"description": "nf"},
        "default": {"description": "err", "content": {"application/json": {"schema": {"type": "object", "properties": {"a": {"type": "string"}}}}}}}}},
    "/v": {"get": {"operationId": "getV", "responses": {"200": {"description": "ok"}, "409": {"description": "c"}}}}},
    "components": {"schemas": {}}}


def build_cases(ctx, n: int) -> list[dict]:
    cases = []
    for i in range(-1, n):
        r = rng(f"C06:{i}")
        o = gs.Opts(mainstream=True, always_opid=True, max_ops=3, enum_params=False, formats=("date-time", "date"),
                    default_response=True, error_responses=True, streaming=(i % 5 == 0), component_responses=(i % 2 == 1), error_only_ops=True, multi_tags=(i % 2 == 0))
        doc = gs.gen_spec(r, o) if i >= 0 else WITNESS_DOC   # case -1: the recorded findings' witness document
        calls = []
        for path, m, op, pl in opsrig.ops_of(doc):
            declared = [c for c in op["responses"] if str(c).isdigit()]
            declared_err = [int(c) for c in declared if not 200 <= int(c) < 300]
            has_default = "default" in op["responses"]
            default_content = bool((op["responses"].get("default") or {}).get("content"))
            statuses = sorted(set(declared_err + r.sample(ALL_STATUSES, 5 if not (ctx.thorough or ctx.widen) else len(ALL_STATUSES))
                                  + ([403, 500] if i < 0 else [])))
            base = opsrig.call_plan(r, doc, path, m, op, pl, supply_optional=0.0)
            for s in statuses:
                for tr in ("bundled", "passthrough"):
                    body = b"" if s < 200 or s in (204, 304) else r.choice([json.dumps({"message": "x"}), json.dumps({"detail": "d", "title": "t"}), "[1, 2]", '"oops"', "7", "null",
                                                                            "not json at all", "", json.dumps({"error": {"code": 1}})]).encode()
                    import base64
                    # an operation filed under several tags is rendered once per tag client: every rendering is called
                    for loc in opsrig.locate_all(op):
                        calls.append({**base, **loc, "transport": tr, "status": s, "declared": s in declared_err, "has_default": has_default,
                                      "default_content": default_content, "op": {"path": path, "method": m, "operationId": op["operationId"], "via": loc["module"]},
                                      "reply": {"status": s, "headers": {"content-type": "application/json"}, "body_b64": base64.b64encode(body).decode()}})
        pkg, core = [("pkg.client", None), ("client", None), ("client", "core"), ("pkg.client", "shared.core"), ("a.b.client", None)][(i + 1) % 5]
        cases.append({"id": f"c06-{i}", "doc": doc, "calls": calls, "package": pkg, "core": core})
    return cases


def judge(call: dict, out: dict) -> list[tuple[str, str]]:
    """-> [(defect class, message)]"""
    s = call["status"]
    oc = out.get("outcome", {})
    bad = []
    if oc.get("kind") == "arg_error":
        return []
    default_returns = call["has_default"] and call["default_content"] and not call["declared"] and call["transport"] == "passthrough"
    if oc.get("kind") != "raised":
        cls = "default-with-content-returns" if default_returns else "returned-for-non-2xx"
        return [(cls, f"status {s} via {call['transport']}: the call returned {oc.get('type')} instead of raising")]
    if not oc.get("is_http_error") and default_returns:
        # the shape of the repaired F40: `case _` went through the primary strategy's return; a body that does not fit the success type failed to decode
        return [("default-with-content-returns", f"status {s} via passthrough: the default arm tried to return a value and raised {oc.get('type')}")]
    if not oc.get("is_http_error"):
        return [("not-http-error", f"status {s} via {call['transport']}: raised {oc.get('type')} ({oc.get('msg', '')[:120]}), not an HTTPError")]
    if oc.get("status_code") != s:
        bad.append(("wrong-status", f"status {s} via {call['transport']}: exception carries status_code={oc.get('status_code')}"))
    if not oc.get("has_response") or oc.get("response_status") != s:
        bad.append(("no-response", f"status {s} via {call['transport']}: exception does not carry the response"))
    if 400 <= s < 500 and not oc.get("is_client_error"):
        bad.append((("bundled-base-class" if call["transport"] == "bundled" else "passthrough-undeclared-base-class" if not call["declared"] else "declared-4xx-not-client-error"),
                    f"status {s} via {call['transport']} ({'declared' if call['declared'] else 'undeclared'}): {oc.get('type')} is not a ClientError"))
    if 500 <= s < 600 and not oc.get("is_server_error"):
        bad.append((("bundled-base-class" if call["transport"] == "bundled" else "passthrough-undeclared-base-class" if not call["declared"] else "declared-5xx-not-server-error"),
                    f"status {s} via {call['transport']} ({'declared' if call['declared'] else 'undeclared'}): {oc.get('type')} is not a ServerError"))
    return bad


# failure class -> recorded finding; a class without an entry is a VIOLATION.  F15 (the catch-all raising the base class for an
# undeclared 4xx/5xx status: "passthrough-undeclared-base-class") and F40 (a `default` response with content returning for
# every undeclared status: "default-with-content-returns") are repaired and no longer expected; the witness document and the
# generator options that trigger them (default_response, error_responses, pass-through transport) are kept.
CLASSES = {"bundled-base-class": "F14"}


def check(run: Run, ctx) -> None:
    known = findings.Known(run, PROP)
    g.run_corr(run, ctx, "vf.corr.c06", "status tables")
    g.run_corr(run, ctx, "vf.corr.gencode", "GenCode (handle on generated clients, both transports)", quick=0.4, thorough=3.0)
    g.run_corr(run, ctx, "vf.corr.loader", "Loader (responses parsed under their declared keys, $ref resolution vs Pog.Loader)", quick=0.25, thorough=2.5)
    g.run_oracle(run, ctx, g.Informational(known), "vf.corr.loader", "loader oracle on the real parse_operations (status = declared key, stream flag, parameter order)",
                 {"LOADER-STREAM-FORMAT-ORDER": "-hazard", "LOADER-PROMO-NAME-COLLISION": "-hazard", "LOADER-POST-NAME-OVERWRITE": "-hazard"}, quick=0.3, thorough=3.0)
    run.cov["rule"] = (run.cov.get("rule") or "") + ("[oracle] random documents -> generated client -> every operation called with a fake server answering declared error "
                       "statuses plus a seeded sample (quick) / all (thorough) of 25 representative statuses in 100..599, through the bundled transport and a pass-through "
                       "transport; distinct by (document, operation, status, transport); non-trivial = status outside 2xx actually delivered to the client")
    cases = build_cases(ctx, ctx.budget(16, 120))
    results = e2e.run_cases("vf.props.C06:case_fn", cases)
    for case, res in zip(cases, results):
        if "infra_error" in res:
            run.infra_errors.append(res["infra_error"])
            continue
        if not res.get("gen_ok"):
            run.dist("generation", "rejected")
            continue
        pr = res["probe"]
        if not isinstance(pr.get("calls"), list):
            run.notes.append(f"probe problem on {case['id']}: {json.dumps(pr)[:300]}")
            continue
        for call, out in zip(case["calls"], pr["calls"]):
            run.count({"doc": case["id"], "op": call["op"], "status": call["status"], "transport": call["transport"]})
            run.cov["traces_validated_against_impl"] += 1
            run.dist("status_class", f"{call['status'] // 100}xx-{'declared' if call['declared'] else 'undeclared'}-{call['transport']}")
            fails = judge(call, out)
            if not fails:
                run.sample({"op": call["op"], "status": call["status"], "transport": call["transport"], "outcome": {k: out["outcome"].get(k) for k in ("type", "status_code", "is_client_error", "is_server_error")}}, limit=4)
            for cls, msg in fails:
                fid = CLASSES.get(cls)
                if fid and known.listed(fid):
                    known.hit(fid, {"op": call["op"], "status": call["status"], "transport": call["transport"], "msg": msg})
                elif len(run.violations) < 5:
                    run.violation("input", {"doc": case["doc"], "calls": [call]}, observed=out.get("outcome"), expected="raises HTTPError (ClientError for 4xx, ServerError for 5xx) carrying status and response",
                                  what=f"{call['op']['operationId']}: {msg}")
    known.report_unreplayed()


def search(run: Run, ctx) -> None:
    check(run, ctx)


def replay(run: Run, ctx, rec) -> bool:
    case = rec["case"]
    if "module" in case:
        return g.replay_generic(rec)
    res = e2e.run_cases("vf.props.C06:case_fn", [case], workers=1)[0]
    if not res.get("gen_ok"):
        return False
    return any(judge(c, o) for c, o in zip(case["calls"], res["probe"]["calls"]))
