import Pog.Model.Http
/-
  Lemmas about M-http (`Pog.Model.Http`) used by `Pog.Props.C17`.
-/
namespace Pog

/-! ### Python dict operations -/

theorem dictGet_dictSet (d : Dict) (k v k' : Str) :
    dictGet (dictSet d k v) k' = if k = k' then some v else dictGet d k' := by
  induction d with
  | nil => simp [dictSet, dictGet]
  | cons kv d ih =>
    obtain ⟨k0, v0⟩ := kv
    by_cases h0 : k0 = k
    · subst h0
      by_cases h1 : k0 = k' <;> simp [dictSet, dictGet, h1]
    · by_cases h1 : k0 = k'
      · subst h1
        have : ¬ k = k0 := fun e => h0 e.symm
        simp [dictSet, dictGet, h0, this]
      · simp [dictSet, dictGet, h0, h1, ih]

@[simp] theorem dictUpdate_nil (d : Dict) : dictUpdate d [] = d := rfl

theorem dictUpdate_cons (d : Dict) (kv : Str × Str) (e : Dict) :
    dictUpdate d (kv :: e) = dictUpdate (dictSet d kv.1 kv.2) e := rfl

theorem dictUpdate_single (d : Dict) (k v : Str) : dictUpdate d [(k, v)] = dictSet d k v := rfl

theorem dictUpdate_append (d a b : Dict) : dictUpdate d (a ++ b) = dictUpdate (dictUpdate d a) b := by
  simp [dictUpdate, List.foldl_append]

theorem lastWrite_append (a b : Dict) (k : Str) :
    lastWrite (a ++ b) k = (lastWrite b k).or (lastWrite a k) := by
  induction a with
  | nil => simp [lastWrite]
  | cons kv a ih =>
    obtain ⟨k0, v0⟩ := kv
    simp [lastWrite, ih, Option.or_assoc]

/-- Last writer wins — for exact keys, always. -/
theorem dictGet_dictUpdate (ws d : Dict) (k : Str) :
    dictGet (dictUpdate d ws) k = (lastWrite ws k).or (dictGet d k) := by
  induction ws generalizing d with
  | nil => simp [lastWrite]
  | cons kv ws ih =>
    obtain ⟨k0, v0⟩ := kv
    rw [dictUpdate_cons, ih, dictGet_dictSet]
    simp only [lastWrite, Option.or_assoc]
    by_cases h : k0 = k <;> simp [h]

theorem dictGet_isSome_iff (d : Dict) (k : Str) : (dictGet d k).isSome = true ↔ k ∈ dictKeys d := by
  induction d with
  | nil => simp [dictGet, dictKeys]
  | cons kv d ih =>
    obtain ⟨k0, v0⟩ := kv
    by_cases h : k0 = k
    · subst h; simp [dictGet, dictKeys]
    · have h' : ¬ k = k0 := fun e => h e.symm
      simp only [dictGet, h, if_false, ih]
      simp [dictKeys, h']

theorem dictGet_eq_none_of_not_mem (d : Dict) (k : Str) (h : k ∉ dictKeys d) : dictGet d k = none := by
  cases hg : dictGet d k with
  | none => rfl
  | some v => exact absurd ((dictGet_isSome_iff d k).mp (by simp [hg])) h

theorem lastWrite_isSome_iff (ws : Dict) (k : Str) : (lastWrite ws k).isSome = true ↔ k ∈ dictKeys ws := by
  induction ws with
  | nil => simp [lastWrite, dictKeys]
  | cons kv ws ih =>
    obtain ⟨k0, v0⟩ := kv
    have ih' : (lastWrite ws k).isSome = true ↔ k ∈ List.map Prod.fst ws := ih
    by_cases h : k0 = k
    · subst h; simp [lastWrite, dictKeys]
    · have h' : ¬ k = k0 := fun e => h e.symm
      simp [lastWrite, dictKeys, h, h', ih']

theorem dictKeys_dictSet (d : Dict) (k v : Str) :
    dictKeys (dictSet d k v) = if k ∈ dictKeys d then dictKeys d else dictKeys d ++ [k] := by
  induction d with
  | nil => simp [dictSet, dictKeys]
  | cons kv d ih =>
    obtain ⟨k0, v0⟩ := kv
    have ih' : List.map Prod.fst (dictSet d k v)
        = if k ∈ List.map Prod.fst d then List.map Prod.fst d else List.map Prod.fst d ++ [k] := ih
    by_cases h : k0 = k
    · subst h; simp [dictSet, dictKeys]
    · have h' : ¬ k = k0 := fun e => h e.symm
      simp only [dictSet, h, if_false, dictKeys, List.map_cons, List.mem_cons, h', false_or, ih']
      split <;> simp

theorem mem_dictKeys_dictSet (d : Dict) (k v k' : Str) :
    k' ∈ dictKeys (dictSet d k v) ↔ k' ∈ dictKeys d ∨ k' = k := by
  rw [dictKeys_dictSet]
  split
  · constructor
    · exact Or.inl
    · rintro (h | h)
      · exact h
      · subst h; assumption
  · simp

theorem nodup_dictSet (d : Dict) (k v : Str) (h : (dictKeys d).Nodup) : (dictKeys (dictSet d k v)).Nodup := by
  rw [dictKeys_dictSet]
  split
  · exact h
  · rename_i hk
    rw [List.nodup_append]
    refine ⟨h, by simp, ?_⟩
    intro a ha b hb
    simp only [List.mem_singleton] at hb
    subst hb
    exact fun e => hk (e ▸ ha)

theorem nodup_dictUpdate (ws d : Dict) (h : (dictKeys d).Nodup) : (dictKeys (dictUpdate d ws)).Nodup := by
  induction ws generalizing d with
  | nil => simpa using h
  | cons kv ws ih => rw [dictUpdate_cons]; exact ih _ (nodup_dictSet d kv.1 kv.2 h)

theorem mem_dictKeys_dictUpdate (ws d : Dict) (k : Str) :
    k ∈ dictKeys (dictUpdate d ws) ↔ k ∈ dictKeys d ∨ k ∈ dictKeys ws := by
  induction ws generalizing d with
  | nil => simp [dictKeys]
  | cons kv ws ih =>
    rw [dictUpdate_cons, ih, mem_dictKeys_dictSet]
    simp only [dictKeys, List.map_cons, List.mem_cons]
    constructor
    · rintro ((h | h) | h)
      · exact Or.inl h
      · exact Or.inr (Or.inl h)
      · exact Or.inr (Or.inr h)
    · rintro (h | h | h)
      · exact Or.inl (Or.inl h)
      · exact Or.inl (Or.inr h)
      · exact Or.inr h

/-! ### the wire view -/

theorem ciEq_iff (a b : Str) : ciEq a b = true ↔ a.map lowerA = b.map lowerA := by
  simp [ciEq]

theorem ciEq_refl (a : Str) : ciEq a a = true := by simp [ciEq]

theorem ciEq_symm {a b : Str} (h : ciEq a b = true) : ciEq b a = true := by
  rw [ciEq_iff] at *; exact h.symm

theorem ciEq_trans {a b c : Str} (h1 : ciEq a b = true) (h2 : ciEq b c = true) : ciEq a c = true := by
  rw [ciEq_iff] at *; exact h1.trans h2

theorem wireLookup_nil (name : Str) : wireLookup [] name = [] := rfl

theorem wireLookup_cons (k v : Str) (d : Dict) (name : Str) :
    wireLookup ((k, v) :: d) name = if ciEq k name then v :: wireLookup d name else wireLookup d name := by
  simp only [wireLookup, List.filter_cons]
  split <;> simp

/-- No key matches the name: nothing is sent under it. -/
theorem wireLookup_of_no_match (d : Dict) (name : Str) (h : ∀ k ∈ dictKeys d, ciEq k name = false) :
    wireLookup d name = [] := by
  induction d with
  | nil => rfl
  | cons kv d ih =>
    obtain ⟨k0, v0⟩ := kv
    rw [wireLookup_cons, h k0 (by simp [dictKeys])]
    exact ih (fun k hk => h k (by simp only [dictKeys, List.map_cons, List.mem_cons]; exact Or.inr hk))

/-! ### `merge_headers` -/

theorem ciEq_comm (a b : Str) : ciEq a b = ciEq b a := by
  simp only [ciEq]; exact Bool.beq_comm

@[simp] theorem dictUpdateCI_nil (d : Dict) : dictUpdateCI d [] = d := rfl

theorem dictUpdateCI_cons (d : Dict) (kv : Str × Str) (e : Dict) :
    dictUpdateCI d (kv :: e) = dictUpdateCI (dictSetCI d kv.1 kv.2) e := rfl

theorem dictUpdateCI_single (d : Dict) (k v : Str) : dictUpdateCI d [(k, v)] = dictSetCI d k v := rfl

theorem dictUpdateCI_append (d a b : Dict) : dictUpdateCI d (a ++ b) = dictUpdateCI (dictUpdateCI d a) b := by
  simp [dictUpdateCI, List.foldl_append]

theorem otherSpelling_self (k : Str) : otherSpelling k k = false := by simp [otherSpelling]

theorem otherSpelling_of_ne {k k' : Str} (h : k' ≠ k) : otherSpelling k k' = ciEq k' k := by
  simp [otherSpelling, h]

theorem dictSetCI_cons_self (d : Dict) (k v0 v : Str) :
    dictSetCI ((k, v0) :: d) k v = (k, v) :: d.filter (fun kv => !otherSpelling k kv.1) := by
  simp [dictSetCI, otherSpelling_self, dictSet]

theorem dictSetCI_cons_variant (d : Dict) (k0 v0 k v : Str) (h1 : k0 ≠ k) (h2 : ciEq k0 k = true) :
    dictSetCI ((k0, v0) :: d) k v = dictSetCI d k v := by
  simp [dictSetCI, otherSpelling_of_ne h1, h2]

theorem dictSetCI_cons_other (d : Dict) (k0 v0 k v : Str) (h : ciEq k0 k = false) :
    dictSetCI ((k0, v0) :: d) k v = (k0, v0) :: dictSetCI d k v := by
  have hne : k0 ≠ k := fun e => by rw [e, ciEq_refl] at h; cases h
  simp [dictSetCI, otherSpelling_of_ne hne, h, dictSet, hne]

/-- Reading an exact key after the other spellings of `k` have been deleted. -/
theorem dictGet_filter_other (d : Dict) (k k' : Str) :
    dictGet (d.filter (fun kv => !otherSpelling k kv.1)) k' = if otherSpelling k k' then none else dictGet d k' := by
  induction d with
  | nil => simp [dictGet]
  | cons kv d ih =>
    obtain ⟨k1, v1⟩ := kv
    rw [List.filter_cons]
    cases ho : otherSpelling k k1 with
    | true =>
      simp only [Bool.not_true, Bool.false_eq_true, if_false, ih, dictGet]
      by_cases h1 : k1 = k'
      · subst h1; simp [ho]
      · simp [h1]
    | false =>
      simp only [Bool.not_false, if_true, dictGet, ih]
      by_cases h1 : k1 = k'
      · subst h1; simp [ho]
      · simp [h1]

/-- `merge_headers(d, {k: v})` read back by exact key: `k` holds `v`, another spelling of `k` is gone, every other
    key is untouched. -/
theorem dictGet_dictSetCI (d : Dict) (k v k' : Str) :
    dictGet (dictSetCI d k v) k' = if k = k' then some v else if ciEq k k' then none else dictGet d k' := by
  unfold dictSetCI
  rw [dictGet_dictSet, dictGet_filter_other]
  by_cases h : k = k'
  · simp [h]
  · have h' : k' ≠ k := fun e => h e.symm
    simp [h, otherSpelling_of_ne h', ciEq_comm k' k]

theorem lastWriterCI_append (a b : Dict) (name : Str) :
    lastWriterCI (a ++ b) name = (lastWriterCI b name).or (lastWriterCI a name) := by
  induction a with
  | nil => simp [lastWriterCI]
  | cons kv a ih =>
    obtain ⟨k0, v0⟩ := kv
    simp [lastWriterCI, ih, Option.or_assoc]

theorem lastWriteCI_eq_map (ws : Dict) (name : Str) :
    lastWriteCI ws name = (lastWriterCI ws name).map Prod.snd := by
  induction ws with
  | nil => rfl
  | cons kv ws ih =>
    obtain ⟨k0, v0⟩ := kv
    simp only [lastWriteCI, lastWriterCI, ih]
    cases lastWriterCI ws name <;> cases ciEq k0 name <;> simp

/-- The spelling recorded for the last writer of `name` is a spelling of `name`. -/
theorem ciEq_of_lastWriterCI (ws : Dict) (name : Str) (w : Str × Str) (h : lastWriterCI ws name = some w) :
    ciEq w.1 name = true := by
  induction ws with
  | nil => simp [lastWriterCI] at h
  | cons kv ws ih =>
    obtain ⟨k0, v0⟩ := kv
    simp only [lastWriterCI] at h
    cases hl : lastWriterCI ws name with
    | some w' => rw [hl] at h ih; simp only [Option.some_or, Option.some.injEq] at h; subst h; exact ih rfl
    | none =>
      rw [hl] at h
      by_cases hc : ciEq k0 name = true
      · simp only [hc, if_true, Option.or_some, Option.some.injEq] at h; subst h; exact hc
      · simp [hc] at h

/-- The dict after a sequence of case-insensitive writes, read by EXACT key: `k` is present iff the last
    writer of that header name (any spelling) spelled it `k`, and then carries that writer's value. -/
theorem dictGet_dictUpdateCI (ws d : Dict) (k : Str) :
    dictGet (dictUpdateCI d ws) k =
      match lastWriterCI ws k with
      | some w => if w.1 = k then some w.2 else none
      | none => dictGet d k := by
  induction ws generalizing d with
  | nil => simp [lastWriterCI]
  | cons kv ws ih =>
    obtain ⟨k0, v0⟩ := kv
    rw [dictUpdateCI_cons, ih, dictGet_dictSetCI]
    simp only [lastWriterCI]
    cases lastWriterCI ws k with
    | some w => simp
    | none =>
      by_cases h : k0 = k
      · subst h; simp [ciEq_refl]
      · cases hc : ciEq k0 k <;> simp [h]

/-- Deleting the other spellings of a name that is itself absent: nothing is left under that name. -/
theorem wireLookup_filter_other (d : Dict) (k name : Str) (hk : k ∉ dictKeys d) :
    wireLookup (d.filter (fun kv => !otherSpelling k kv.1)) name
      = if ciEq k name then [] else wireLookup d name := by
  induction d with
  | nil => simp [wireLookup]
  | cons kv d ih =>
    obtain ⟨k1, v1⟩ := kv
    have hk' : k1 ≠ k ∧ k ∉ dictKeys d := by
      simp only [dictKeys, List.map_cons, List.mem_cons, not_or] at hk
      exact ⟨fun e => hk.1 e.symm, hk.2⟩
    rw [List.filter_cons, otherSpelling_of_ne hk'.1, wireLookup_cons]
    cases hc : ciEq k1 k with
    | true =>
      simp only [Bool.not_true, Bool.false_eq_true, if_false, ih hk'.2]
      cases hn : ciEq k name with
      | true => simp
      | false =>
        have : ciEq k1 name = false := by
          cases h1 : ciEq k1 name with
          | false => rfl
          | true => rw [ciEq_trans (ciEq_symm hc) h1] at hn; cases hn
        simp [this]
    | false =>
      simp only [Bool.not_false, if_true, wireLookup_cons, ih hk'.2]
      cases hn : ciEq k name with
      | true =>
        have : ciEq k1 name = false := by
          cases h1 : ciEq k1 name with
          | false => rfl
          | true => rw [ciEq_trans h1 (ciEq_symm hn)] at hc; cases hc
        simp [this]
      | false => simp

/-- On the wire, `merge_headers(d, {k: v})` leaves exactly one line under the name of `k`, carrying `v`, and
    touches no other name. -/
theorem wireLookup_dictSetCI (d : Dict) (hnd : (dictKeys d).Nodup) (k v name : Str) :
    wireLookup (dictSetCI d k v) name = if ciEq k name then [v] else wireLookup d name := by
  induction d with
  | nil => rw [show dictSetCI [] k v = [(k, v)] from rfl, wireLookup_cons, wireLookup_nil]
  | cons kv d ih =>
    obtain ⟨k0, v0⟩ := kv
    have hnd' : k0 ∉ dictKeys d ∧ (dictKeys d).Nodup := by simpa [dictKeys] using hnd
    by_cases h0 : k0 = k
    · subst h0
      rw [dictSetCI_cons_self, wireLookup_cons, wireLookup_filter_other d k0 name hnd'.1, wireLookup_cons]
      cases ciEq k0 name <;> simp
    · cases hc : ciEq k0 k with
      | true =>
        rw [dictSetCI_cons_variant d k0 v0 k v h0 hc, ih hnd'.2, wireLookup_cons]
        cases hn : ciEq k name with
        | true => simp
        | false =>
          have : ciEq k0 name = false := by
            cases h1 : ciEq k0 name with
            | false => rfl
            | true => rw [ciEq_trans (ciEq_symm hc) h1] at hn; cases hn
          simp [this]
      | false =>
        rw [dictSetCI_cons_other d k0 v0 k v hc, wireLookup_cons, ih hnd'.2, wireLookup_cons]
        cases hn : ciEq k name with
        | true =>
          have : ciEq k0 name = false := by
            cases h1 : ciEq k0 name with
            | false => rfl
            | true => rw [ciEq_trans h1 (ciEq_symm hn)] at hc; cases hc
          simp [this]
        | false => simp

theorem nodup_dictSetCI (d : Dict) (k v : Str) (h : (dictKeys d).Nodup) : (dictKeys (dictSetCI d k v)).Nodup := by
  unfold dictSetCI
  apply nodup_dictSet
  have : dictKeys (d.filter (fun kv => !otherSpelling k kv.1)) = (dictKeys d).filter (fun x => !otherSpelling k x) := by
    simp only [dictKeys, List.filter_map]; rfl
  rw [this]
  exact List.Pairwise.filter _ h

theorem nodup_dictUpdateCI (ws d : Dict) (h : (dictKeys d).Nodup) : (dictKeys (dictUpdateCI d ws)).Nodup := by
  induction ws generalizing d with
  | nil => simpa using h
  | cons kv ws ih => rw [dictUpdateCI_cons]; exact ih _ (nodup_dictSetCI d kv.1 kv.2 h)

/-- On the wire the last writer wins, for every sequence of writes: one line per written name. -/
theorem wireLookup_dictUpdateCI (ws d : Dict) (hnd : (dictKeys d).Nodup) (name : Str) :
    wireLookup (dictUpdateCI d ws) name =
      match lastWriteCI ws name with
      | some v => [v]
      | none => wireLookup d name := by
  induction ws generalizing d with
  | nil => simp [lastWriteCI]
  | cons kv ws ih =>
    obtain ⟨k0, v0⟩ := kv
    rw [dictUpdateCI_cons, ih _ (nodup_dictSetCI d k0 v0 hnd), wireLookup_dictSetCI d hnd]
    simp only [lastWriteCI]
    cases lastWriteCI ws name with
    | some v => simp
    | none => cases ciEq k0 name <;> simp

theorem wireLookup_dictUpdateCI_nil (ws : Dict) (name : Str) :
    wireLookup (dictUpdateCI [] ws) name = (lastWriteCI ws name).toList := by
  rw [wireLookup_dictUpdateCI ws [] (by simp [dictKeys])]
  cases lastWriteCI ws name <;> simp [wireLookup]

/-- A name that was written (in some spelling) has a last writer. -/
theorem lastWriteCI_isSome_of_mem (ws : Dict) (k name : Str) (hk : k ∈ dictKeys ws) (hc : ciEq k name = true) :
    (lastWriteCI ws name).isSome = true := by
  induction ws with
  | nil => simp [dictKeys] at hk
  | cons kv ws ih =>
    obtain ⟨k0, v0⟩ := kv
    simp only [dictKeys, List.map_cons, List.mem_cons] at hk
    simp only [lastWriteCI]
    rcases hk with h | h
    · subst h; cases lastWriteCI ws name <;> simp [hc]
    · have := ih h
      cases hl : lastWriteCI ws name with
      | none => simp [hl] at this
      | some v => simp

theorem lastWriteCI_append (a b : Dict) (name : Str) :
    lastWriteCI (a ++ b) name = (lastWriteCI b name).or (lastWriteCI a name) := by
  induction a with
  | nil => simp [lastWriteCI]
  | cons kv a ih =>
    obtain ⟨k0, v0⟩ := kv
    simp [lastWriteCI, ih, Option.or_assoc]

/-- The dict's own value for `k` is among the lines sent under `k`. -/
theorem mem_wireLookup_of_dictGet (d : Dict) (k v : Str) (h : dictGet d k = some v) : v ∈ wireLookup d k := by
  induction d with
  | nil => simp [dictGet] at h
  | cons kv d ih =>
    obtain ⟨k0, v0⟩ := kv
    rw [wireLookup_cons]
    by_cases hk : k0 = k
    · subst hk
      simp only [dictGet, if_true, Option.some.injEq] at h
      simp [ciEq_refl, h]
    · simp only [dictGet, hk, if_false] at h
      split
      · exact List.mem_cons_of_mem _ (ih h)
      · exact ih h

/-! ### plug-ins -/

@[simp] theorem authenticate_composite (ps : List Plugin) (a : RequestArgs) :
    authenticate (.composite ps) a = authenticateAll ps a := by
  simp [authenticate]

theorem authenticateAll_eq_foldlM (ps : List Plugin) (a : RequestArgs) :
    authenticateAll ps a = ps.foldlM (fun a p => authenticate p a) a := by
  induction ps generalizing a with
  | nil => simp [authenticateAll, pure, Except.pure]
  | cons p ps ih =>
    simp only [authenticateAll, List.foldlM_cons, bind, Except.bind]
    cases authenticate p a with
    | ok a' => simp [ih]
    | error e => simp

theorem setHeader_headers (a : RequestArgs) (h : Dict) (k v : Str) (ha : a.headers = some h) :
    (a.setHeader k v).headers = some (dictUpdateCI h [(k, v)]) := by
  simp [RequestArgs.setHeader, ha, dictUpdateCI_single]

mutual
/-- Every plug-in that returns acts on the headers as the sequence of writes `contrib p`. -/
theorem authenticate_headers : ∀ (p : Plugin) (a r : RequestArgs) (h : Dict), a.headers = some h →
    authenticate p a = .ok r → r.headers = some (dictUpdateCI h (contrib p))
  | .bearer tok, a, r, h, ha, hr => by
    simp only [authenticate, Except.ok.injEq] at hr
    subst hr; exact setHeader_headers a h _ _ ha
  | .headers hs, a, r, h, ha, hr => by
    simp only [authenticate, Except.ok.injEq] at hr
    subst hr; simp [ha, contrib]
  | .apiKey key loc name, a, r, h, ha, hr => by
    simp only [authenticate] at hr
    by_cases h1 : loc = locHeader
    · simp only [h1, if_true, Except.ok.injEq] at hr
      subst hr; simpa [contrib, h1] using setHeader_headers a h _ _ ha
    · by_cases h2 : loc = locQuery
      · rw [if_neg h1, if_pos h2] at hr
        simp only [Except.ok.injEq] at hr
        subst hr; simp [contrib, h1, ha]
      · by_cases h3 : loc = locCookie
        · rw [if_neg h1, if_neg h2, if_pos h3] at hr
          simp only [Except.ok.injEq] at hr
          subst hr; simp [contrib, h1, ha]
        · simp [h1, h2, h3] at hr
  | .oauth2 tok cb, a, r, h, ha, hr => by
    simp only [authenticate, Except.ok.injEq] at hr
    subst hr; exact setHeader_headers a h _ _ ha
  | .composite ps, a, r, h, ha, hr => by
    rw [authenticate_composite] at hr
    simpa [contrib] using authenticateAll_headers ps a r h ha hr
theorem authenticateAll_headers : ∀ (ps : List Plugin) (a r : RequestArgs) (h : Dict), a.headers = some h →
    authenticateAll ps a = .ok r → r.headers = some (dictUpdateCI h (contribAll ps))
  | [], a, r, h, ha, hr => by
    simp only [authenticateAll, Except.ok.injEq] at hr
    subst hr; simpa [contribAll] using ha
  | p :: ps, a, r, h, ha, hr => by
    simp only [authenticateAll] at hr
    cases h1 : authenticate p a with
    | error e => simp [h1] at hr
    | ok a' =>
      simp only [h1] at hr
      have := authenticate_headers p a a' h ha h1
      rw [contribAll, dictUpdateCI_append]
      exact authenticateAll_headers ps a' r _ this hr
end

mutual
theorem authenticate_of_firstErr_some : ∀ (p : Plugin) (a : RequestArgs) (e : Err),
    firstErr p = some e → authenticate p a = .error e
  | .bearer _, _, _, he => by simp [firstErr] at he
  | .headers _, _, _, he => by simp [firstErr] at he
  | .oauth2 _ _, _, _, he => by simp [firstErr] at he
  | .apiKey key loc name, a, e, he => by
    simp only [firstErr] at he
    split at he
    · simp at he
    · rename_i hn
      simp only [not_or] at hn
      simp only [Option.some.injEq] at he
      simp [authenticate, hn.1, hn.2.1, hn.2.2, he]
  | .composite ps, a, e, he => by
    rw [authenticate_composite]
    exact authenticateAll_of_firstErr_some ps a e (by simpa [firstErr] using he)
theorem authenticateAll_of_firstErr_some : ∀ (ps : List Plugin) (a : RequestArgs) (e : Err),
    firstErrAll ps = some e → authenticateAll ps a = .error e
  | [], _, _, he => by simp [firstErrAll] at he
  | p :: ps, a, e, he => by
    simp only [firstErrAll] at he
    cases h1 : firstErr p with
    | some e1 =>
      simp only [h1, Option.some.injEq] at he
      simp [authenticateAll, authenticate_of_firstErr_some p a e1 h1, he]
    | none =>
      simp only [h1] at he
      simp only [authenticateAll]
      cases h2 : authenticate p a with
      | error e2 => exact absurd h2 (by
          obtain ⟨r, hr⟩ := authenticate_of_firstErr_none p a h1
          simp [hr])
      | ok a' => exact authenticateAll_of_firstErr_some ps a' e he
theorem authenticate_of_firstErr_none : ∀ (p : Plugin) (a : RequestArgs),
    firstErr p = none → ∃ r, authenticate p a = .ok r
  | .bearer _, _, _ => ⟨_, by rw [authenticate]⟩
  | .headers _, _, _ => ⟨_, by rw [authenticate]⟩
  | .oauth2 _ _, _, _ => ⟨_, by rw [authenticate]⟩
  | .apiKey key loc name, a, he => by
    simp only [firstErr] at he
    split at he
    · rename_i hl
      simp only [authenticate]
      by_cases h1 : loc = locHeader
      · exact ⟨_, by rw [if_pos h1]⟩
      · by_cases h2 : loc = locQuery
        · exact ⟨_, by rw [if_neg h1, if_pos h2]⟩
        · have h3 : loc = locCookie := by
            rcases hl with h | h | h
            · exact absurd h h1
            · exact absurd h h2
            · exact h
          exact ⟨_, by rw [if_neg h1, if_neg h2, if_pos h3]⟩
    · simp at he
  | .composite ps, a, he => by
    rw [authenticate_composite]
    exact authenticateAll_of_firstErr_none ps a (by simpa [firstErr] using he)
theorem authenticateAll_of_firstErr_none : ∀ (ps : List Plugin) (a : RequestArgs),
    firstErrAll ps = none → ∃ r, authenticateAll ps a = .ok r
  | [], a, _ => ⟨a, by simp [authenticateAll]⟩
  | p :: ps, a, he => by
    simp only [firstErrAll] at he
    cases h1 : firstErr p with
    | some e1 => simp [h1] at he
    | none =>
      simp only [h1] at he
      obtain ⟨a', ha'⟩ := authenticate_of_firstErr_none p a h1
      obtain ⟨r, hr⟩ := authenticateAll_of_firstErr_none ps a' he
      exact ⟨r, by simp [authenticateAll, ha', hr]⟩
end

@[simp] theorem firstErr_composite (ps : List Plugin) : firstErr (.composite ps) = firstErrAll ps := by
  simp [firstErr]

@[simp] theorem contrib_composite (ps : List Plugin) : contrib (.composite ps) = contribAll ps := by
  simp [contrib]

theorem firstErrAll_cons (p : Plugin) (ps : List Plugin) :
    firstErrAll (p :: ps) = (firstErr p).or (firstErrAll ps) := by
  simp only [firstErrAll]; cases firstErr p <;> simp

theorem contribAll_append (a b : List Plugin) : contribAll (a ++ b) = contribAll a ++ contribAll b := by
  induction a with
  | nil => simp [contribAll]
  | cons p a ih => simp [contribAll, ih]

theorem firstErrAll_append (a b : List Plugin) : firstErrAll (a ++ b) = (firstErrAll a).or (firstErrAll b) := by
  induction a with
  | nil => simp [firstErrAll]
  | cons p a ih =>
    simp only [List.cons_append, firstErrAll, ih]
    cases firstErr p <;> simp

/-! ### params / cookies written by plug-ins -/

theorem locQuery_ne_locHeader : locQuery ≠ locHeader := by decide
theorem locCookie_ne_locHeader : locCookie ≠ locHeader := by decide
theorem locCookie_ne_locQuery : locCookie ≠ locQuery := by decide

@[simp] theorem writeInto_nil (b : Option Dict) : writeInto b [] = b := rfl

theorem writeInto_single (b : Option Dict) (k v : Str) : writeInto b [(k, v)] = some (dictSet (b.getD []) k v) := rfl

theorem writeInto_append (b : Option Dict) (ws1 ws2 : Dict) :
    writeInto (writeInto b ws1) ws2 = writeInto b (ws1 ++ ws2) := by
  cases ws1 with
  | nil => simp
  | cons w1 ws1 =>
    cases ws2 with
    | nil => simp
    | cons w2 ws2 =>
      simp only [writeInto, List.isEmpty_cons, List.cons_append, Bool.false_eq_true, if_false, Option.getD_some]
      rw [← List.cons_append, dictUpdate_append]

@[simp] theorem contribQ_composite (ps : List Plugin) : contribQ (.composite ps) = contribQAll ps := by
  simp [contribQ]

@[simp] theorem contribC_composite (ps : List Plugin) : contribC (.composite ps) = contribCAll ps := by
  simp [contribC]

theorem contribQAll_append (a b : List Plugin) : contribQAll (a ++ b) = contribQAll a ++ contribQAll b := by
  induction a with
  | nil => simp [contribQAll]
  | cons p a ih => simp [contribQAll, ih]

theorem contribCAll_append (a b : List Plugin) : contribCAll (a ++ b) = contribCAll a ++ contribCAll b := by
  induction a with
  | nil => simp [contribCAll]
  | cons p a ih => simp [contribCAll, ih]

mutual
/-- Every plug-in that returns acts on `params` and `cookies` as the sequences of writes `contribQ p`, `contribC p`. -/
theorem authenticate_params : ∀ (p : Plugin) (a r : RequestArgs), authenticate p a = .ok r →
    r.params = writeInto a.params (contribQ p) ∧ r.cookies = writeInto a.cookies (contribC p)
  | .bearer tok, a, r, hr => by
    simp only [authenticate, Except.ok.injEq] at hr
    subst hr; simp [RequestArgs.setHeader, contribQ, contribC]
  | .headers hs, a, r, hr => by
    simp only [authenticate, Except.ok.injEq] at hr
    subst hr; simp [contribQ, contribC]
  | .apiKey key loc name, a, r, hr => by
    simp only [authenticate] at hr
    by_cases h1 : loc = locHeader
    · subst h1
      simp only [if_true, Except.ok.injEq] at hr
      subst hr
      simp [RequestArgs.setHeader, contribQ, contribC, locQuery_ne_locHeader.symm, locCookie_ne_locHeader.symm]
    · by_cases h2 : loc = locQuery
      · rw [if_neg h1, if_pos h2] at hr
        simp only [Except.ok.injEq] at hr
        subst hr h2
        simp [contribQ, contribC, writeInto_single, locCookie_ne_locQuery.symm]
      · by_cases h3 : loc = locCookie
        · rw [if_neg h1, if_neg h2, if_pos h3] at hr
          simp only [Except.ok.injEq] at hr
          subst hr h3
          simp [contribQ, contribC, writeInto_single, locCookie_ne_locQuery]
        · simp [h1, h2, h3] at hr
  | .oauth2 tok cb, a, r, hr => by
    simp only [authenticate, Except.ok.injEq] at hr
    subst hr; simp [RequestArgs.setHeader, contribQ, contribC]
  | .composite ps, a, r, hr => by
    rw [authenticate_composite] at hr
    simpa using authenticateAll_params ps a r hr
theorem authenticateAll_params : ∀ (ps : List Plugin) (a r : RequestArgs), authenticateAll ps a = .ok r →
    r.params = writeInto a.params (contribQAll ps) ∧ r.cookies = writeInto a.cookies (contribCAll ps)
  | [], a, r, hr => by
    simp only [authenticateAll, Except.ok.injEq] at hr
    subst hr; simp [contribQAll, contribCAll]
  | p :: ps, a, r, hr => by
    simp only [authenticateAll] at hr
    cases h1 : authenticate p a with
    | error e => simp [h1] at hr
    | ok a' =>
      simp only [h1] at hr
      have h2 := authenticate_params p a a' h1
      have h3 := authenticateAll_params ps a' r hr
      rw [contribQAll, contribCAll, ← writeInto_append, ← writeInto_append, ← h2.1, ← h2.2]
      exact h3
end

/-- `if key in authenticated_args: kwargs[key] = authenticated_args[key]` after the writes `ws`. -/
theorem takeBack_writeInto (base : Option Dict) (ws : Dict) :
    (match writeInto base ws with
      | some q => some q
      | none => base) = writeInto base ws := by
  cases h : writeInto base ws with
  | some q => rfl
  | none =>
    cases ws with
    | nil => simpa using h
    | cons w ws => simp [writeInto] at h

/-- Exact-key reading of a `params` / `cookies` argument after the plug-in writes: last writer, else the caller's. -/
theorem dictGet_writeInto (base : Option Dict) (ws : Dict) (k : Str) :
    (writeInto base ws).bind (fun d => dictGet d k) = (lastWrite ws k).or (base.bind (fun d => dictGet d k)) := by
  cases ws with
  | nil => simp [lastWrite]
  | cons w ws =>
    simp only [writeInto, List.isEmpty_cons, Bool.false_eq_true, if_false, Option.bind_some, dictGet_dictUpdate]
    cases base <;> simp [dictGet]

/-! ### the transport -/


/-- The headers before the auth step: defaults, then per-request headers. -/
theorem baseHeaders_eq (defaults reqHeaders : Option Dict) :
    baseHeaders defaults reqHeaders = dictUpdateCI [] (defaults.getD [] ++ reqHeaders.getD []) := by
  rw [dictUpdateCI_append]
  rcases defaults with _ | _ | ⟨kv, d⟩ <;> rcases reqHeaders with _ | r <;> simp [baseHeaders]

/-- MASTER CHARACTERISATION of `_prepare_headers`: it raises exactly the plug-in's exception, and
    otherwise the returned headers are the empty dict merged with all writes in order
    (defaults, per-request headers, plug-in contributions / bearer token), and the `params` / `cookies`
    it leaves in `kwargs` are the caller's with the plug-ins' query / cookie writes applied. -/
theorem prepareRequest_spec (defaults reqHeaders params cookies : Option Dict) (auth : Option Plugin)
    (bearer : Option Str) :
    prepareRequest defaults reqHeaders params cookies auth bearer =
      match auth.bind firstErr with
      | some e => .error e
      | none => .ok { headers := dictUpdateCI [] (allWrites defaults reqHeaders auth bearer),
                      params := writeInto params (queryWrites auth),
                      cookies := writeInto cookies (cookieWrites auth) } := by
  unfold prepareRequest
  simp only [baseHeaders_eq]
  cases auth with
  | none =>
    cases bearer with
    | none => simp [allWrites, authWrites, queryWrites, cookieWrites]
    | some t => simp [allWrites, authWrites, queryWrites, cookieWrites, dictUpdateCI_append, dictUpdateCI_single]
  | some p =>
    simp only [Option.bind_some]
    cases hf : firstErr p with
    | some e => simp [authenticate_of_firstErr_some p _ e hf]
    | none =>
      obtain ⟨r, hr⟩ := authenticate_of_firstErr_none p
        { headers := some (dictUpdateCI [] (defaults.getD [] ++ reqHeaders.getD [])),
          params := params, cookies := cookies } hf
      have hh := authenticate_headers p _ r _ rfl hr
      have hp := authenticate_params p _ r hr
      simp only [allWrites, authWrites, queryWrites, cookieWrites, dictUpdateCI_append] at hr hh hp ⊢
      simp only [hr, hh, hp.1, hp.2, Except.ok.injEq, Prepared.mk.injEq, true_and]
      exact ⟨takeBack_writeInto _ _, takeBack_writeInto _ _⟩

/-- The headers `_prepare_headers` returns do not depend on the caller's params / cookies. -/
theorem prepareRequest_headers (defaults reqHeaders params cookies : Option Dict) (auth : Option Plugin)
    (bearer : Option Str) :
    (match prepareRequest defaults reqHeaders params cookies auth bearer with
      | .ok r => .ok r.headers
      | .error e => .error e) = prepareHeaders defaults reqHeaders auth bearer := by
  unfold prepareHeaders
  rw [prepareRequest_spec, prepareRequest_spec]
  cases auth.bind firstErr <;> rfl

theorem prepareHeaders_spec (defaults reqHeaders : Option Dict) (auth : Option Plugin) (bearer : Option Str) :
    prepareHeaders defaults reqHeaders auth bearer =
      match auth.bind firstErr with
      | some e => .error e
      | none => .ok (dictUpdateCI [] (allWrites defaults reqHeaders auth bearer)) := by
  unfold prepareHeaders
  rw [prepareRequest_spec]
  cases auth.bind firstErr <;> rfl

/-- MASTER CHARACTERISATION of `request` up to the call of httpx. -/
theorem sendArgs_spec {β : Type} (t : Transport) (c : CallerArgs β) :
    sendArgs t c =
      match t.auth.bind firstErr with
      | some e => .error e
      | none => .ok { headers := dictUpdateCI [] (allWrites t.defaultHeaders c.headers t.auth t.bearerToken),
                      params := writeInto c.params (queryWrites t.auth),
                      cookies := writeInto c.cookies (cookieWrites t.auth),
                      other := c.other } := by
  unfold sendArgs
  rw [prepareRequest_spec]
  cases t.auth.bind firstErr <;> rfl

end Pog
