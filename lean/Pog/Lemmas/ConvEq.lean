import Pog.Model.Conv
/-
  Decidable equality for the nested inductives of M-conv (`Val`, `SErr`), so that concrete
  witnesses can be closed by `decide`.  (`deriving DecidableEq` does not cover nested inductives.)
-/
namespace Pog

mutual
def Val.beq : Val → Val → Bool
  | .none, .none => true
  | .bool a, .bool b => a == b
  | .int a, .int b => a == b
  | .str a, .str b => a == b
  | .bytes a, .bytes b => a == b
  | .datetime a, .datetime b => a == b
  | .date a, .date b => a == b
  | .time a, .time b => a == b
  | .uuid a, .uuid b => a == b
  | .enum c a, .enum d b => c == d && a == b
  | .opaque c a, .opaque d b => c == d && a == b
  | .list a, .list b => Val.beqList a b
  | .dict a, .dict b => Val.beqKvs a b
  | .inst c a, .inst d b => c == d && Val.beqKvs a b
  | _, _ => false
def Val.beqList : List Val → List Val → Bool
  | [], [] => true
  | x :: xs, y :: ys => Val.beq x y && Val.beqList xs ys
  | _, _ => false
def Val.beqKvs : List (Str × Val) → List (Str × Val) → Bool
  | [], [] => true
  | (k, x) :: xs, (l, y) :: ys => k == l && Val.beq x y && Val.beqKvs xs ys
  | _, _ => false
end

mutual
theorem Val.eq_of_beq : ∀ a b : Val, Val.beq a b = true → a = b
  | .none, b => by cases b <;> simp [Val.beq]
  | .bool _, b => by cases b <;> simp [Val.beq]
  | .int _, b => by cases b <;> simp [Val.beq]
  | .str _, b => by cases b <;> simp [Val.beq]
  | .bytes _, b => by cases b <;> simp [Val.beq]
  | .datetime _, b => by cases b <;> simp [Val.beq]
  | .date _, b => by cases b <;> simp [Val.beq]
  | .time _, b => by cases b <;> simp [Val.beq]
  | .uuid _, b => by cases b <;> simp [Val.beq]
  | .enum _ _, b => by cases b <;> simp [Val.beq]
  | .opaque _ _, b => by cases b <;> simp [Val.beq]
  | .list xs, b => by
    cases b <;> simp [Val.beq]
    exact Val.eq_of_beqList xs _
  | .dict xs, b => by
    cases b <;> simp [Val.beq]
    exact Val.eq_of_beqKvs xs _
  | .inst c xs, b => by
    cases b <;> simp [Val.beq]
    exact fun h1 h2 => ⟨h1, Val.eq_of_beqKvs xs _ h2⟩
theorem Val.eq_of_beqList : ∀ a b : List Val, Val.beqList a b = true → a = b
  | [], b => by cases b <;> simp [Val.beqList]
  | x :: xs, b => by
    cases b with
    | nil => simp [Val.beqList]
    | cons y ys =>
      simp only [Val.beqList, Bool.and_eq_true, List.cons.injEq]
      exact fun ⟨h1, h2⟩ => ⟨Val.eq_of_beq x y h1, Val.eq_of_beqList xs ys h2⟩
theorem Val.eq_of_beqKvs : ∀ a b : List (Str × Val), Val.beqKvs a b = true → a = b
  | [], b => by cases b <;> simp [Val.beqKvs]
  | (k, x) :: xs, b => by
    cases b with
    | nil => simp [Val.beqKvs]
    | cons y ys =>
      obtain ⟨l, y⟩ := y
      simp only [Val.beqKvs, Bool.and_eq_true, List.cons.injEq, Prod.mk.injEq, beq_iff_eq]
      exact fun ⟨⟨h0, h1⟩, h2⟩ => ⟨⟨h0, Val.eq_of_beq x y h1⟩, Val.eq_of_beqKvs xs ys h2⟩
end

mutual
theorem Val.beq_refl : ∀ a : Val, Val.beq a a = true
  | .none => by simp [Val.beq]
  | .bool _ => by simp [Val.beq]
  | .int _ => by simp [Val.beq]
  | .str _ => by simp [Val.beq]
  | .bytes _ => by simp [Val.beq]
  | .datetime _ => by simp [Val.beq]
  | .date _ => by simp [Val.beq]
  | .time _ => by simp [Val.beq]
  | .uuid _ => by simp [Val.beq]
  | .enum _ _ => by simp [Val.beq]
  | .opaque _ _ => by simp [Val.beq]
  | .list xs => by simp [Val.beq, Val.beqList_refl xs]
  | .dict xs => by simp [Val.beq, Val.beqKvs_refl xs]
  | .inst _ xs => by simp [Val.beq, Val.beqKvs_refl xs]
theorem Val.beqList_refl : ∀ a : List Val, Val.beqList a a = true
  | [] => by simp [Val.beqList]
  | x :: xs => by simp [Val.beqList, Val.beq_refl x, Val.beqList_refl xs]
theorem Val.beqKvs_refl : ∀ a : List (Str × Val), Val.beqKvs a a = true
  | [] => by simp [Val.beqKvs]
  | (k, x) :: xs => by simp [Val.beqKvs, Val.beq_refl x, Val.beqKvs_refl xs]
end

instance : DecidableEq Val := fun a b =>
  if h : Val.beq a b = true then isTrue (Val.eq_of_beq a b h)
  else isFalse (fun e => h (e ▸ Val.beq_refl a))

mutual
def SErr.beq : SErr → SErr → Bool
  | .leaf a, .leaf b => a == b
  | .cls c a, .cls d b => c == d && SErr.beqKvs a b
  | .iter a, .iter b => SErr.beqList a b
  | _, _ => false
def SErr.beqList : List SErr → List SErr → Bool
  | [], [] => true
  | x :: xs, y :: ys => SErr.beq x y && SErr.beqList xs ys
  | _, _ => false
def SErr.beqKvs : List (Str × SErr) → List (Str × SErr) → Bool
  | [], [] => true
  | (k, x) :: xs, (l, y) :: ys => k == l && SErr.beq x y && SErr.beqKvs xs ys
  | _, _ => false
end

mutual
theorem SErr.eq_of_beq : ∀ a b : SErr, SErr.beq a b = true → a = b
  | .leaf _, b => by cases b <;> simp [SErr.beq]
  | .iter xs, b => by
    cases b <;> simp [SErr.beq]
    exact SErr.eq_of_beqList xs _
  | .cls c xs, b => by
    cases b <;> simp [SErr.beq]
    exact fun h1 h2 => ⟨h1, SErr.eq_of_beqKvs xs _ h2⟩
theorem SErr.eq_of_beqList : ∀ a b : List SErr, SErr.beqList a b = true → a = b
  | [], b => by cases b <;> simp [SErr.beqList]
  | x :: xs, b => by
    cases b with
    | nil => simp [SErr.beqList]
    | cons y ys =>
      simp only [SErr.beqList, Bool.and_eq_true, List.cons.injEq]
      exact fun ⟨h1, h2⟩ => ⟨SErr.eq_of_beq x y h1, SErr.eq_of_beqList xs ys h2⟩
theorem SErr.eq_of_beqKvs : ∀ a b : List (Str × SErr), SErr.beqKvs a b = true → a = b
  | [], b => by cases b <;> simp [SErr.beqKvs]
  | (k, x) :: xs, b => by
    cases b with
    | nil => simp [SErr.beqKvs]
    | cons y ys =>
      obtain ⟨l, y⟩ := y
      simp only [SErr.beqKvs, Bool.and_eq_true, List.cons.injEq, Prod.mk.injEq, beq_iff_eq]
      exact fun ⟨⟨h0, h1⟩, h2⟩ => ⟨⟨h0, SErr.eq_of_beq x y h1⟩, SErr.eq_of_beqKvs xs ys h2⟩
end

mutual
theorem SErr.beq_refl : ∀ a : SErr, SErr.beq a a = true
  | .leaf _ => by simp [SErr.beq]
  | .iter xs => by simp [SErr.beq, SErr.beqList_refl xs]
  | .cls _ xs => by simp [SErr.beq, SErr.beqKvs_refl xs]
theorem SErr.beqList_refl : ∀ a : List SErr, SErr.beqList a a = true
  | [] => by simp [SErr.beqList]
  | x :: xs => by simp [SErr.beqList, SErr.beq_refl x, SErr.beqList_refl xs]
theorem SErr.beqKvs_refl : ∀ a : List (Str × SErr), SErr.beqKvs a a = true
  | [] => by simp [SErr.beqKvs]
  | (k, x) :: xs => by simp [SErr.beqKvs, SErr.beq_refl x, SErr.beqKvs_refl xs]
end

instance : DecidableEq SErr := fun a b =>
  if h : SErr.beq a b = true then isTrue (SErr.eq_of_beq a b h)
  else isFalse (fun e => h (e ▸ SErr.beq_refl a))

instance {ε α : Type} [DecidableEq ε] [DecidableEq α] : DecidableEq (Except ε α) := fun a b =>
  match a, b with
  | .ok x, .ok y => if h : x = y then isTrue (by rw [h]) else isFalse (fun e => h (Except.ok.inj e))
  | .error x, .error y => if h : x = y then isTrue (by rw [h]) else isFalse (fun e => h (Except.error.inj e))
  | .ok _, .error _ => isFalse (fun e => by cases e)
  | .error _, .ok _ => isFalse (fun e => by cases e)

end Pog
