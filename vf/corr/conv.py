#!/venv/bin/python
"""C16 / C14 / C03 correspondence and oracle: the bundled (de)serialiser vs the Lean model M-conv.

Implementation side: `structure_from_dict`, `unstructure_to_dict` (core/cattrs_converter.py) and
`DataclassSerializer.serialize` (core/utils.py) of the pyopenapi_gen that is importable when the functions run.
Model side: the compiled Lean driver (`structure`, `roundtrip`, `unstructure`, `regTy`, `serialize`).

Dataclasses are created in-process with `dataclasses.make_dataclass` (+ a `Meta` class attribute carrying
`key_transform_with_load` / `key_transform_with_dump`), every case uses fresh class names, so the global cattrs
converter's state from earlier cases never matters; inside one case the set of registered unstructure hooks IS
tracked (it decides between wire names and python names for instances reached through `Any`).

No work at import time; pyopenapi_gen is imported inside functions.

run(seed, scale, driver)   correspondence: hand-picked witnesses, random type trees × conforming / mutated documents
                           (`structure`, `roundtrip`, `regTy`), random object graphs (`serialize`), directly constructed
                           instances (`unstructure`).
oracle(seed, scale)        the property laws on the implementation alone.  Defect classes EXPECTED on the unchanged tree
                           (each has a `_counterexample` theorem in Pog/Props/C14.lean, C16.lean or C03.lean):
    union-firstmatch-lossy            C14  an earlier dataclass member accepts the payload and drops its extra keys
    union-prim-coercion               C14  Union[str, int]: 5 ↦ "5" (members are tried by CALLING them)
    error-path-lost-through-optional  C16  below an Optional/union field the inner field path is not reported
  Classes that would be NEW findings: leaf-uuid-unsupported, leaf-time-unsupported (F10, repaired: a conforming document with
  a uuid.UUID / datetime.time value does not decode, or such a value is not written as a string), serializer-cycle-recursion
  (F26, repaired: a reference cycle that cattrs walks itself - resolved annotation, Any, dict - ends in RecursionError or in a
  copy unrolled to the recursion limit; the former witness is evaluated on every run, see FORMER_WITNESSES),
  serializer-dict-leaks-instance, serializer-registry-dependent (F48, repaired: serialize({"k": node}) leaves forward-referenced
  children as live instances / writes python names before and wire names after the class was registered; former witness
  likewise), roundtrip-lossy, roundtrip-decode-fails, roundtrip-encode-fails,
  encode-decode-mismatch, encode-decode-fails, error-path-wrong, error-not-reported, error-not-valueerror,
  union-decode-fails, union-disc-wrong-variant, union-disc-unmapped-guessed, union-disc-retried, serializer-null-key,
  serializer-not-json, serializer-raises.
replay(case)               re-evaluates one oracle case on fresh classes; True iff it still violates the property.
"""
from __future__ import annotations

import base64
import dataclasses
import datetime as _dt
import enum
import json
import os
import random
import re
import subprocess
import sys
import types
import typing
import uuid
from typing import Annotated, Any, Dict, ForwardRef, List, Optional, Union

HERE = os.path.dirname(os.path.abspath(__file__))
DEFAULT_DRIVER = os.path.join(HERE, ".lake", "build", "bin", "driver")
NS_NAME = "corr_conv_ns"

# ------------------------------------------------------------------------------------------------ pools

PYNAMES = ["a", "b", "c_", "d", "my_field", "id_", "class_", "type_", "x1", "user_id", "userid", "f", "g", "kind", "k2"]
# wire keys: keyword-like, case-fold-colliding, punctuation, empty, non-ASCII
WIREKEYS = ["id", "class", "type", "from", "userId", "userid", "UserID", "USERID", "a", "A", "b", "B", "a.b", "a-b",
            "x y", "", "é", "a'b", 'q"q', "back\\slash", "kind", "Kind", "my_field", "myField", "$ref", "@type", "0", "_"]
STRS = ["", "a", "b", "x", "kind", "7", " 7 ", "+1_0", "-3", "1__0", "_1", "0x10", "True", "None", "a'b", 'q"q', "a'\"b",
        "tab\there", "nl\nx", "back\\slash", "é", "用户", "A", "id", "x y", "\x01"]
INTS = [0, 1, -1, 2, 7, 10, 255, -40]
BIGINT = 123456789012345678901234567890
B64_OK = ["", "aGk=", "AAEC", "/+8=", "QQ==", "aGVsbG8gd29ybGQ="]
B64_BAD = ["a", "abc", "a===", "aGk", "abcde"]
DT_OK = ["2020-01-01T00:00:00", "2021-12-31T23:59:59Z", "1999-02-28T12:30:00+05:30", "2024-02-29T00:00:00-08:00",
         "2000-06-15T08:00:00+00:00"]
DT_CANON = ["2020-01-01T00:00:00", "1999-02-28T12:30:00+05:30", "2024-02-29T00:00:00-08:00", "2000-06-15T08:00:00+00:00"]
DT_BAD = ["", "x", "2020-13-01T00:00:00", "2021-02-29T00:00:00", "2020-01-01T25:00:00", "2020-01-01T00:00:00ZZ", "yesterday"]
DATE_OK = ["2020-01-01", "2024-02-29", "1999-12-31", "0001-01-01"]
DATE_BAD = ["", "x", "2020-13-01", "2021-02-29", "2020-1-1", "2020-01-01T00:00:00", "01/02/2020"]
UUIDS = ["123e4567-e89b-12d3-a456-426614174000", "00000000-0000-0000-0000-000000000005", "ffffffff-ffff-4fff-bfff-fffffffffffe"]
UUID_BAD = ["", "x", "123e4567-e89b-12d3-a456-42661417400", "123e4567-e89b-12d3-a456-4266141740000", "123e4567-e89b-12d3-a456-42661417400g",
            "not-a-uuid"]
TIMES = ["12:00:00", "23:59:59", "08:30:00+05:30", "00:00:00-08:00", "12:00:00Z"]
TIME_CANON = ["12:00:00", "23:59:59", "08:30:00+05:30", "00:00:00-08:00"]
TIME_BAD = ["", "x", "25:00:00", "12:60:00", "12:00:61", "12:00:00ZZ", "noon", "12-00-00"]
DISC_VALUES = ["one", "two", "three", "cat", "dog", "", "A"]

LEAVES = ["str", "int", "float", "bool", "bytes", "datetime", "date", "time", "uuid"]
BAD_LEAVES = ["uuid", "time"]          # the leaves of F10 (repaired): drawn more often by the `bad_leaf` feature and by the oracle


# ------------------------------------------------------------------------------------------------ impl access

def _impl():
    from pyopenapi_gen.core import cattrs_converter as cc
    from pyopenapi_gen.core.utils import DataclassSerializer
    return cc, DataclassSerializer


def _ns_module():
    m = sys.modules.get(NS_NAME)
    if m is None:
        m = types.ModuleType(NS_NAME)
        sys.modules[NS_NAME] = m
    return m


@dataclasses.dataclass(frozen=True)
class _Disc:
    """Discriminator metadata with the shape the generator emits (`property_name`, `get_mapping()`)."""
    property_name: str
    mapping_data: Optional[tuple] = None

    def get_mapping(self):
        if self.mapping_data is None:
            return None
        return {k: v for k, v in self.mapping_data}


def drive(driver: str, reqs: list[dict]) -> list:
    if not reqs:
        return []
    inp = "".join(json.dumps(r) + "\n" for r in reqs)
    p = subprocess.run([driver], input=inp, capture_output=True, text=True, timeout=1200)
    lines = p.stdout.splitlines()
    assert len(lines) == len(reqs), (len(lines), len(reqs), p.stderr[-2000:])
    return [json.loads(x) for x in lines]


# ------------------------------------------------------------------------------------------------ encodings

def enc_json(x):
    """Python JSON-shaped data → the driver's ordered encoding; raises TypeError on anything else."""
    if x is None or isinstance(x, bool):
        return x
    if isinstance(x, enum.Enum) and isinstance(x, (str, int)):
        return enc_json(x.value)
    if isinstance(x, int):
        return x
    if isinstance(x, float):
        if x.is_integer():
            return int(x)
        raise TypeError("non-integral float")
    if isinstance(x, str):
        return x
    if isinstance(x, list):
        return [enc_json(v) for v in x]
    if isinstance(x, dict):
        for k in x:
            if not isinstance(k, str):
                raise TypeError("non-str key")
        return {"o": [[k, enc_json(v)] for k, v in x.items()]}
    raise TypeError(f"not JSON: {type(x).__name__}")


def dec_json(x):
    """Inverse of enc_json (driver reply → Python data)."""
    if isinstance(x, list):
        return [dec_json(v) for v in x]
    if isinstance(x, dict):
        return {k: dec_json(v) for k, v in x["o"]}
    return x


def render_val(x):
    """A Python value → the driver's `val` encoding."""
    if x is None or isinstance(x, bool):
        return x
    if isinstance(x, enum.Enum):
        return {"enum": type(x).__name__, "v": enc_json(x.value)}
    if isinstance(x, int):
        return x
    if isinstance(x, float):
        return int(x) if x.is_integer() else {"opaque": "float", "v": repr(x)}
    if isinstance(x, str):
        return x
    if isinstance(x, (bytes, bytearray)):
        return {"bytes": base64.b64encode(bytes(x)).decode("ascii")}
    if isinstance(x, _dt.datetime):
        return {"dt": x.isoformat()}
    if isinstance(x, _dt.date):
        return {"date": x.isoformat()}
    if isinstance(x, uuid.UUID):
        return {"uuid": str(x)}
    if isinstance(x, _dt.time):
        return {"time": x.isoformat()}
    if isinstance(x, list):
        return [render_val(v) for v in x]
    if isinstance(x, dict):
        return {"dict": [[k, render_val(v)] for k, v in x.items()]}
    if dataclasses.is_dataclass(x) and not isinstance(x, type):
        return {"inst": type(x).__name__, "f": [[f.name, render_val(getattr(x, f.name))] for f in dataclasses.fields(x)]}
    return {"opaque": type(x).__name__, "v": repr(x)}


_KIND_PATTERNS = [
    (re.compile(r"^Failed to deserialize as (\w+) \(discriminator "), lambda m: "discFailed:" + m.group(1)),
    (re.compile(r"^Unknown discriminator value "), lambda m: "discUnknown"),
    (re.compile(r"^Could not structure dict into any variant of "), lambda m: "unionNoVariant"),
    (re.compile(r"^None is not valid for "), lambda m: "unionNone"),
    (re.compile(r"^Cannot structure None into (\w+): "), lambda m: "noneForClass:" + m.group(1)),
    (re.compile(r"^Cannot structure \w+ into "), lambda m: "unionCannot"),
    (re.compile(r"^Unsupported type: "), lambda m: "unsupported"),
    (re.compile(r"^unhashable type: "), lambda m: "unhashable"),
    (re.compile(r"^Cannot convert <class '[\w.]+'> to (datetime|date|time|UUID)$"), lambda m: "notTemporal"),
    (re.compile(r"^(badly formed hexadecimal UUID string|invalid literal for int\(\) with base 16: )"), lambda m: "uuidForm"),
    (re.compile(r"^(string indices must be integers|list indices must be integers|'\w+' object is not subscriptable)"),
     lambda m: "badIndex"),
    (re.compile(r"^argument of type '\w+' is not (iterable|a container or iterable)"), lambda m: "notContainer"),
    (re.compile(r"^invalid literal for int\(\) with base 10: |^could not convert string to float: "),
     lambda m: "numLiteral"),
    (re.compile(r"^(int|float)\(\) argument must be "), lambda m: "numArg"),
    (re.compile(r"^'\w+' object is not iterable$"), lambda m: "notIterable"),
    (re.compile(r"^'\w+' object has no attribute 'items'$"), lambda m: "noItems"),
    (re.compile(r"^(Invalid base64-encoded string|Incorrect padding|Non-base64 digit|Only base64 data|string argument should contain only ASCII)"), lambda m: "b64"),
    (re.compile(r"^(Invalid isoformat string|month must be in|day is out of range|hour must be in|minute must be in|"
                r"second must be in|year \d+ is out of range)"), lambda m: "isoformat"),
    (re.compile(r" is not a valid \w+$", re.S), lambda m: "enumInvalid"),
]


def classify(msg: str) -> str:
    for rx, f in _KIND_PATTERNS:
        m = rx.search(msg)
        if m:
            return f(m)
    if len(msg) >= 2 and msg[0] in "'\"" and msg[-1] == msg[0]:
        try:
            import ast
            k = ast.literal_eval(msg)
            if isinstance(k, str):
                return "keyError:" + k
        except Exception:
            pass
    return "UNCLASSIFIED:" + msg[:80]


def parse_value_error(msg: str) -> dict:
    """The text of the ValueError raised by structure_from_dict → {"grouped", "msgs": [[path, kind]…]}."""
    m = re.match(r"^Failed to convert data to [^:\n]*:", msg)
    assert m, msg
    rest = msg[m.end():]
    if rest.startswith("\n- "):
        items = rest[3:].split("\n- ")
        out = []
        for it in items:
            path, sep, text = it.partition(": ")
            assert sep, it
            out.append([path, classify(text)])
        return {"grouped": True, "msgs": out}
    assert rest.startswith(" "), msg
    return {"grouped": False, "msgs": [["", classify(rest[1:])]]}


# ------------------------------------------------------------------------------------------------ case generator

class Case:
    """One family of fresh dataclasses / enums plus the python types built from the model's type terms."""

    def __init__(self, rng: random.Random, tag: str, features: dict):
        self.rng = rng
        self.tag = tag
        self.decls: list = []          # [[name, decl]]
        self.classes: dict = {}        # name → python class
        self.enums: dict = {}          # name → (python Enum, members)
        self.feat = features
        self.counter = 0
        self.stats: dict[str, int] = {}
        self.canonical = bool(features.get("canonical", False))

    def note(self, k):
        self.stats[k] = self.stats.get(k, 0) + 1

    def fresh(self, prefix="K"):
        self.counter += 1
        return f"{prefix}{self.tag}_{self.counter}"

    # ---- python types

    def pytype(self, t):
        if isinstance(t, str):
            return {"str": str, "int": int, "float": float, "bool": bool, "bytes": bytes, "datetime": _dt.datetime,
                    "date": _dt.date, "uuid": uuid.UUID, "time": _dt.time, "any": Any, "none": type(None)}[t]
        if "list" in t:
            return List[self.pytype(t["list"])]
        if "dict" in t:
            return Dict[str, self.pytype(t["dict"])]
        if "opt" in t:
            return Optional[self.pytype(t["opt"])]
        if "dc" in t:
            return self.classes[t["dc"]]
        if "fwd" in t:
            return ForwardRef(t["fwd"])
        if "enum" in t:
            return self.enums[t["enum"]][0]
        if "union" in t:
            u = Union[tuple(self.pytype(a) for a in t["union"])]
            assert len(typing.get_args(u)) == len(t["union"]), (t, u)
            d = t.get("disc")
            if d is None:
                return u
            mp = None if d["mapping"] is None else tuple((v, self.classes[c]) for v, c in d["mapping"])
            return Annotated[u, _Disc(d["prop"], mp)]
        raise AssertionError(t)

    # ---- type terms

    def gen_leaf(self):
        r = self.rng.random()
        if r < self.feat.get("bad_leaf", 0.0):
            return self.rng.choice(BAD_LEAVES)
        return self.rng.choice(LEAVES)

    def gen_enum(self):
        name = self.fresh("E")
        if self.rng.random() < 0.6:
            members = self.rng.sample(["a", "b", "x", "kind", "", "A"], self.rng.randint(1, 3))
            base = str
        else:
            members = self.rng.sample([0, 1, 2, 7, -1], self.rng.randint(1, 3))
            base = int
        e = enum.Enum(name, [(f"M{i}", v) for i, v in enumerate(members)], type=base)
        self.enums[name] = (e, members)
        return {"enum": name, "members": members}

    def gen_union(self, depth):
        rng = self.rng
        kind = rng.choice(["dcs", "dcs", "prims", "mixed", "fallback", "disc", "disc"])
        if not self.feat.get("disc", True) and kind == "disc":
            kind = "dcs"
        if kind == "disc":
            return self.gen_disc_union(depth)
        args = []
        if kind in ("dcs", "mixed", "fallback"):
            for _ in range(rng.randint(1 if kind != "dcs" else 2, 3)):
                args.append({"dc": self.gen_class(depth + 1)})
        if kind in ("prims", "mixed"):
            prims = rng.sample(["str", "int", "bool", "float", "datetime", "date", "bytes", {"list": "str"},
                                {"list": "int"}, {"dict": "int"}], rng.randint(1 if kind == "mixed" else 2, 3))
            # typing collapses nothing here: all distinct, none nested unions
            args.extend(prims)
        if kind == "fallback" or rng.random() < 0.15:
            args.append({"dict": "any"})
        if rng.random() < 0.3:
            args.append("none")
        rng.shuffle(args)
        if len(args) < 2:
            args.append("str")
        return {"union": args, "disc": None}

    def gen_disc_union(self, depth):
        rng = self.rng
        prop = rng.choice(["kind", "type", "@type", "petType"])
        n = rng.randint(2, 3)
        values = rng.sample(DISC_VALUES, n + 1)
        names = [self.gen_class(depth + 1, disc_prop=prop if rng.random() < 0.85 else None) for _ in range(n)]
        style = rng.choice(["full", "full", "partial", "none", "empty", "outside", "permuted"])
        if style == "full":
            mapping = [[values[i], names[i]] for i in range(n)]
        elif style == "permuted":
            perm = names[:]
            rng.shuffle(perm)
            mapping = [[values[i], perm[i]] for i in range(n)]
        elif style == "partial":
            mapping = [[values[i], names[i]] for i in range(n - 1)]
        elif style == "none":
            mapping = None
        elif style == "empty":
            mapping = []
        else:
            outside = self.gen_class(depth + 1, disc_prop=prop)
            mapping = [[values[i], names[i]] for i in range(n - 1)] + [[values[n], outside]]
        args = [{"dc": nm} for nm in names]
        if rng.random() < 0.15:
            args.append({"dict": "any"})
        self.note("disc-" + style)
        return {"union": args, "disc": {"prop": prop, "mapping": mapping}}

    def gen_ty(self, depth, allow_union=True):
        rng = self.rng
        maxd = self.feat.get("depth", 4)
        choices = ["leaf"] * 5 + ["any"]
        if depth < maxd:
            choices += ["list", "dict", "opt", "opt", "dc", "dc", "enum"]
            if allow_union and self.feat.get("unions", True):
                choices += ["union", "union"]
        k = rng.choice(choices)
        if k == "leaf":
            return self.gen_leaf()
        if k == "any":
            return "any"
        if k == "list":
            return {"list": self.gen_ty(depth + 1)}
        if k == "dict":
            return {"dict": self.gen_ty(depth + 1)}
        if k == "opt":
            inner = self.gen_ty(depth + 1, allow_union=False)
            # Optional[Optional[T]] and Optional[Union[…]] are flattened by typing: keep the term faithful
            while isinstance(inner, dict) and ("opt" in inner or ("union" in inner and inner.get("disc") is None)):
                inner = self.gen_ty(depth + 1, allow_union=False)
            if inner == "none":
                inner = "str"
            if rng.random() < 0.25 and depth < maxd and self.feat.get("disc", True) and self.feat.get("unions", True):
                inner = self.gen_disc_union(depth + 1)
            return {"opt": inner}
        if k == "dc":
            return {"dc": self.gen_class(depth + 1)}
        if k == "enum":
            return self.gen_enum()
        return self.gen_union(depth + 1)

    # ---- classes

    def gen_class(self, depth, disc_prop=None, selfref=None):
        rng = self.rng
        name = self.fresh()
        nf = rng.randint(0, 4) if depth > 0 else rng.randint(1, 5)
        pynames = rng.sample(PYNAMES, nf)
        fields = []
        if disc_prop is not None:
            pn = "disc_" + str(self.counter)
            fields.append({"n": pn, "t": "str", "d": "req", "_wire": disc_prop})
        for pn in pynames:
            t = self.gen_ty(depth)
            fields.append({"n": pn, "t": t, "d": self.pick_default(t)})
        if selfref is not None:
            ref = {"dc": name} if selfref == "dc" else {"fwd": name}
            shape = rng.choice(["opt", "list", "dict"])
            t = {"opt": ref} if shape == "opt" else {"list": ref} if shape == "list" else {"dict": ref}
            fields.append({"n": "nxt", "t": t, "d": {"opt": "none", "list": "list", "dict": "dict"}[shape]})
            if rng.random() < 0.5:
                fields.append({"n": "anyref", "t": "any", "d": "none"})
        kw_only = rng.random() < 0.4
        if not kw_only:
            fields.sort(key=lambda f: f["d"] != "req")       # dataclass rule: defaults last (stable)
        # Meta maps
        mode = rng.choice(self.feat.get("meta_modes", ["none", "bij", "bij", "bij", "partial", "loadonly", "dumponly",
                                                       "inconsistent", "dupwire"]))
        load = dump = None
        wire = {}
        forced = {f["n"]: f["_wire"] for f in fields if "_wire" in f}
        if mode != "none" or forced:
            keys = [k for k in rng.sample(WIREKEYS, len(WIREKEYS)) if k not in forced.values()]
            for f in fields:
                if f["n"] in forced:
                    wire[f["n"]] = forced[f["n"]]
                elif mode == "partial" and rng.random() < 0.4:
                    continue
                elif mode == "none":
                    continue
                else:
                    wire[f["n"]] = keys.pop()
            if mode == "dupwire" and len(fields) >= 2:
                a, b = fields[0]["n"], fields[1]["n"]
                if a in wire and b not in forced:
                    wire[b] = wire[a]
            load_pairs = [[w, p] for p, w in wire.items()]
            dump_pairs = [[p, w] for p, w in wire.items()]
            if mode == "dupwire":
                # a python dict cannot hold the same json key twice: the later pair wins
                load_pairs = [[w, p] for w, p in dict((w, p) for w, p in load_pairs).items()]
            rng.shuffle(load_pairs)
            rng.shuffle(dump_pairs)
            load, dump = load_pairs, dump_pairs
            if mode == "loadonly" and not forced:
                dump = None
            if mode == "dumponly" and not forced:
                load = None
            if mode == "inconsistent" and dump_pairs and not forced:
                dump = [[p, w + "_out"] for p, w in dump_pairs]
            if mode in ("bij", "partial") and any(w in [g["n"] for g in fields if g["n"] not in wire] for w in wire.values()):
                mode = "collide"
        self.note("meta-" + mode)
        for f in fields:
            f.pop("_wire", None)
        decl = {"fields": fields, "load": load, "dump": dump}
        # python class
        specs = []
        for f in fields:
            pt = Any if (selfref is not None and f["n"] == "nxt") else self.pytype(f["t"])
            if f["d"] == "req":
                specs.append((f["n"], pt))
            elif f["d"] == "none":
                specs.append((f["n"], pt, dataclasses.field(default=None)))
            elif f["d"] == "list":
                specs.append((f["n"], pt, dataclasses.field(default_factory=list)))
            else:
                specs.append((f["n"], pt, dataclasses.field(default_factory=dict)))
        cls = dataclasses.make_dataclass(name, specs, kw_only=kw_only)
        ns = _ns_module()
        cls.__module__ = NS_NAME
        setattr(ns, name, cls)
        if load is not None or dump is not None:
            attrs = {}
            if load is not None:
                attrs["key_transform_with_load"] = {k: v for k, v in load}
            if dump is not None:
                attrs["key_transform_with_dump"] = {k: v for k, v in dump}
            cls.Meta = type("Meta", (), attrs)
        self.classes[name] = cls
        if selfref is not None:
            nxt = next(f for f in fields if f["n"] == "nxt")
            real = self.pytype(nxt["t"])
            cls.__dataclass_fields__["nxt"].type = real
            cls.__annotations__["nxt"] = real
        self.decls.append([name, decl])
        return name

    def pick_default(self, t):
        rng = self.rng
        r = rng.random()
        if isinstance(t, dict) and "opt" in t:
            return "none" if r < 0.8 else "req"
        if isinstance(t, dict) and "list" in t:
            return "list" if r < 0.5 else "req"
        if isinstance(t, dict) and "dict" in t:
            return "dict" if r < 0.5 else "req"
        if t == "any":
            return "none" if r < 0.5 else "req"
        if isinstance(t, dict) and "union" in t and "none" in t["union"]:
            return "none" if r < 0.7 else "req"
        # a non-optional type with `= None` (seen in hand-written dataclasses)
        return "none" if r < self.feat.get("none_on_nonopt", 0.06) else "req"

    def decl_of(self, name):
        for n, d in self.decls:
            if n == name:
                return d
        raise KeyError(name)

    def load_key(self, decl, pn):
        if decl["load"] is not None:
            for jk, pf in {k: v for k, v in decl["load"]}.items():
                if pf == pn:
                    return jk
        return pn

    # ---- JSON instances

    def gen_any_json(self, depth=0):
        rng = self.rng
        k = rng.choice(["null", "bool", "int", "str", "str", "list", "obj"] if depth < 2 else ["null", "bool", "int", "str"])
        if k == "null":
            return None
        if k == "bool":
            return rng.random() < 0.5
        if k == "int":
            return rng.choice(INTS)
        if k == "str":
            return rng.choice(STRS)
        if k == "list":
            return [self.gen_any_json(depth + 1) for _ in range(rng.randint(0, 3))]
        return {rng.choice(STRS + WIREKEYS): self.gen_any_json(depth + 1) for _ in range(rng.randint(0, 3))}

    def gen_conf(self, t, depth=0, trail=None):
        """A JSON value conforming to `t`.  `trail` collects the union choices made (for the oracle)."""
        rng = self.rng
        if isinstance(t, str):
            if t == "str":
                return rng.choice(STRS)
            if t == "int":
                return rng.choice(INTS)
            if t == "float":
                return rng.choice(INTS)                # floats are not modelled: stay below 2**53
            if t == "bool":
                return rng.random() < 0.5
            if t == "bytes":
                return rng.choice(B64_OK)
            if t == "datetime":
                return rng.choice(DT_CANON if self.canonical else DT_OK)
            if t == "date":
                return rng.choice(DATE_OK)
            if t == "uuid":
                return rng.choice(UUIDS)
            if t == "time":
                return rng.choice(TIME_CANON if self.canonical else TIMES)
            if t == "any":
                return self.gen_any_json()
            if t == "none":
                return None
        if "list" in t:
            return [self.gen_conf(t["list"], depth + 1, trail) for _ in range(rng.randint(0, 3 if depth < 3 else 1))]
        if "dict" in t:
            ks = rng.sample(STRS + WIREKEYS, rng.randint(0, 3 if depth < 3 else 1))
            return {k: self.gen_conf(t["dict"], depth + 1, trail) for k in ks}
        if "opt" in t:
            if rng.random() < 0.3 or depth > 6:
                return None
            return self.gen_conf(t["opt"], depth + 1, trail)
        if "enum" in t:
            return rng.choice(t["members"])
        if "dc" in t or "fwd" in t:
            return self.gen_conf_obj(t.get("dc") or t.get("fwd"), depth, trail)
        if "union" in t:
            d = t.get("disc")
            args = t["union"]
            if d is not None and d["mapping"] and rng.random() < 0.8:
                v, cname = rng.choice(d["mapping"])
                obj = self.gen_conf_obj(cname, depth, trail)
                obj[d["prop"]] = v
                if trail is not None:
                    trail.append(("disc", cname))
                return obj
            i = rng.randrange(len(args))
            if trail is not None:
                trail.append(("variant", i))
            return self.gen_conf(args[i], depth + 1, trail)
        raise AssertionError(t)

    def gen_conf_obj(self, cname, depth, trail=None):
        rng = self.rng
        decl = self.decl_of(cname)
        obj = {}
        for f in decl["fields"]:
            if f["d"] != "req" and (rng.random() < 0.4 or depth > 5):
                continue
            ft = f["t"]
            if depth > 5 and isinstance(ft, dict) and ("list" in ft or "dict" in ft):
                obj[self.load_key(decl, f["n"])] = [] if "list" in ft else {}
                continue
            obj[self.load_key(decl, f["n"])] = self.gen_conf(ft, depth + 1, trail)
        items = list(obj.items())
        rng.shuffle(items)
        return dict(items)

    def mutate(self, j, depth=0):
        """Break a conforming value somewhere."""
        rng = self.rng
        r = rng.random()
        if isinstance(j, dict) and j and r < 0.7:
            k = rng.choice(list(j))
            out = dict(j)
            op = rng.choice(["del", "sub", "sub", "rec", "rec", "extra"])
            if op == "del":
                del out[k]
            elif op == "sub":
                out[k] = self.gen_any_json()
            elif op == "rec":
                out[k] = self.mutate(j[k], depth + 1)
            else:
                out[rng.choice(WIREKEYS + PYNAMES)] = self.gen_any_json()
            return out
        if isinstance(j, list) and j and r < 0.7:
            i = rng.randrange(len(j))
            out = list(j)
            out[i] = self.mutate(j[i], depth + 1) if rng.random() < 0.6 else self.gen_any_json()
            return out
        if isinstance(j, str) and r < 0.5:
            return rng.choice(B64_BAD + DT_BAD + DATE_BAD + UUID_BAD + TIME_BAD + STRS)
        return self.gen_any_json()


def ty_features(t, decls, acc=None, seen=None):
    acc = set() if acc is None else acc
    seen = set() if seen is None else seen
    if isinstance(t, str):
        acc.add(t)
        return acc
    for k in ("list", "dict", "opt"):
        if k in t:
            acc.add(k)
            ty_features(t[k], decls, acc, seen)
            return acc
    if "enum" in t:
        acc.add("enum")
    elif "fwd" in t:
        acc.add("fwd")
    elif "dc" in t:
        acc.add("dc")
        if t["dc"] not in seen:
            seen.add(t["dc"])
            d = decls.get(t["dc"])
            if d:
                if d["load"] is not None or d["dump"] is not None:
                    acc.add("meta")
                for f in d["fields"]:
                    ty_features(f["t"], decls, acc, seen)
    elif "union" in t:
        acc.add("disc-union" if t.get("disc") else "union")
        for a in t["union"]:
            ty_features(a, decls, acc, seen)
    return acc


# ------------------------------------------------------------------------------------------------ impl runners

class Registry:
    """Names of the dataclasses whose UNSTRUCTURE hook has been registered since `mark()` (read off the
    converter's function-dispatch list: new entries are inserted at the front; each predicate closes over
    its class as a default argument)."""

    def __init__(self, cc):
        self.cc = cc
        self.un_pairs = cc.converter._unstructure_func._function_dispatch._handler_pairs
        self.st_pairs = cc.converter._structure_func._function_dispatch._handler_pairs
        self.un_base = len(self.un_pairs)
        self.st_base = len(self.st_pairs)

    def names(self):
        out = []
        for p in reversed(self.un_pairs[: len(self.un_pairs) - self.un_base]):
            d = getattr(p[0], "__defaults__", None)
            if d and isinstance(d[0], type):
                n = d[0].__name__
                if n not in out:
                    out.append(n)
        return out

    def reset(self):
        """Drop this case's registrations again (the classes are never used afterwards)."""
        del self.un_pairs[: len(self.un_pairs) - self.un_base]
        del self.st_pairs[: len(self.st_pairs) - self.st_base]
        self.cc.converter._unstructure_func.clear_cache()
        self.cc.converter._structure_func.clear_cache()


def impl_structure(cc, data, T):
    try:
        return {"ok": cc.structure_from_dict(data, T)}
    except ValueError as e:
        return {"err": parse_value_error(str(e))}


def impl_unstructure(cc, v):
    try:
        out = cc.unstructure_to_dict(v)
    except TypeError:
        return {"uerr": "typeError"}
    except AttributeError:
        return {"uerr": "attrError"}
    try:
        return {"ok": enc_json(out)}
    except TypeError:
        return {"uerr": "notJson"}


def strip_reg(r, names):
    if isinstance(r, dict) and "reg" in r:
        r = dict(r)
        r["reg"] = [n for n in r["reg"] if n in names]
    return r


# ------------------------------------------------------------------------------------------------ run()

FEATURE_SETS = [
    ("plain", {"unions": False, "disc": False, "bad_leaf": 0.0, "meta_modes": ["none", "bij", "bij", "partial"]}),
    ("unions", {"unions": True, "disc": True, "bad_leaf": 0.0}),
    # (no duplicate wire keys here: the model reports `notJson` as soon as a non-JSON object enters the result, the real dict
    #  display could still overwrite that entry under a duplicated key)
    ("everything", {"unions": True, "disc": True, "bad_leaf": 0.08,
                    "meta_modes": ["none", "bij", "bij", "bij", "partial", "loadonly", "dumponly", "inconsistent"]}),
    ("weirdmeta", {"unions": False, "disc": False, "bad_leaf": 0.0,
                   "meta_modes": ["loadonly", "dumponly", "inconsistent", "dupwire", "partial"]}),
]


def hand_cases():
    """Hand-picked (decls, type, [json…]) triples: the witnesses of the counterexample theorems and friends."""
    V1 = ["V1", {"fields": [{"n": "a", "t": "int", "d": "req"}], "load": None, "dump": None}]
    V2 = ["V2", {"fields": [{"n": "a", "t": "int", "d": "req"}, {"n": "b", "t": "int", "d": "req"}], "load": None,
                 "dump": None}]
    V3 = ["V3", {"fields": [{"n": "kind", "t": "str", "d": "req"}, {"n": "c", "t": "int", "d": "none"}], "load": None,
                 "dump": None}]
    U = ["U", {"fields": [{"n": "u", "t": "uuid", "d": "req"}], "load": None, "dump": None}]
    T = ["T", {"fields": [{"n": "t", "t": {"opt": "time"}, "d": "none"}], "load": None, "dump": None}]
    H = ["H", {"fields": [{"n": "z", "t": "int", "d": "req"}, {"n": "w", "t": {"opt": "int"}, "d": "none"}],
               "load": None, "dump": None}]
    C = ["C", {"fields": [{"n": "a", "t": "int", "d": "req"}, {"n": "b_", "t": {"opt": "str"}, "d": "none"},
                          {"n": "c", "t": {"list": "int"}, "d": "list"}, {"n": "d", "t": {"opt": {"dc": "H"}}, "d": "none"},
                          {"n": "f", "t": {"dict": {"dc": "H"}}, "d": "dict"}, {"n": "g", "t": {"list": {"dc": "H"}}, "d": "list"},
                          {"n": "h", "t": {"dc": "H"}, "d": "none"}],
               "load": [["b", "b_"], ["A", "a"]], "dump": [["b_", "b"], ["a", "A"]]}]
    disc = {"prop": "kind", "mapping": [["one", "V1"], ["two", "V2"], ["three", "V3"]]}
    du = {"union": [{"dc": "V1"}, {"dc": "V2"}, {"dc": "V3"}], "disc": disc}
    dn = {"union": [{"dc": "V1"}, {"dc": "V2"}, {"dc": "V3"}], "disc": {"prop": "kind", "mapping": None}}
    cases = [
        ([V1, V2], {"union": [{"dc": "V1"}, {"dc": "V2"}], "disc": None},
         [{"a": 1, "b": 2}, {"a": 1}, {"b": 2}, {}, None, "x", [1]]),
        ([V1, V2], {"union": [{"dc": "V2"}, {"dc": "V1"}], "disc": None}, [{"a": 1, "b": 2}, {"a": 1}]),
        ([], {"union": ["str", "int"], "disc": None}, [5, "5", True, None, [1], {"x": 1}]),
        ([], {"union": ["int", "str"], "disc": None}, [5, "7", "x", True, None, [1], {"x": 1}]),
        ([], {"union": [{"list": "str"}, "str"], "disc": None}, ["ab", ["a"], 5]),
        ([V1], {"union": [{"dc": "V1"}, "str"], "disc": None}, [{"x": 1}, {"a": 1}, "s"]),
        ([V1, V2, V3], du, [{"kind": "one", "a": 1, "b": 2}, {"kind": "two", "a": 1, "b": 2}, {"kind": "two", "a": 1},
                             {"kind": "zzz", "a": 1}, {"kind": 1, "a": 1}, {"kind": [1], "a": 1}, {"kind": None, "a": 1},
                             {"a": 1, "b": 2}, "x", None, {"kind": {"a": 1}}]),
        ([V1, V2, V3], dn, [{"kind": "two", "a": 1, "b": 2}]),
        ([V1, V2, V3], {"opt": du}, [{"kind": "two", "a": 1, "b": 2}, None, {"kind": "two", "a": 1}]),
        ([V1, V2, V3], {"list": du}, [[{"kind": "two", "a": 1}], [{"kind": "three"}]]),
        ([V2], {"union": [{"dc": "V2"}, {"dict": "any"}], "disc": None}, [{"a": 1}, [1], {"a": 1, "b": 2}]),
        ([], {"union": ["int", {"dict": "any"}], "disc": None}, [{"a": 1}, "5", "x"]),
        ([V2], {"union": [{"dc": "V2"}, {"dict": "int"}], "disc": None}, [{"a": "1"}]),
        ([U], {"dc": "U"}, [{"u": UUIDS[0]}, {}, {"u": "zz"}, {"u": 5}, {"u": None}]),
        ([], "uuid", [5, None, True, [1], {"a": 1}] + UUIDS + UUID_BAD),
        ([], "time", [5, None, True, [1], {"a": 1}] + TIMES + TIME_BAD + DT_OK[:2] + DATE_OK[:1]),
        ([T], {"dc": "T"}, [{}, {"t": None}, {"t": TIMES[0]}, {"t": "x"}, {"t": 5}]),
        ([H, C], {"dc": "C"}, [{"A": 1, "b": "x", "extra": 1}, {}, {"a": 1}, {"A": "x", "c": [1, "y", "z"]},
                               {"A": 1, "d": {"z": "q"}}, {"A": 1, "d": {}}, {"A": 1, "f": {"k": {"z": "q"}, "k2": {}}},
                               {"A": 1, "g": [{"z": 1}, {"z": "q"}, 5]}, {"A": 1, "h": None}, {"A": 1, "c": None},
                               {"A": 1, "d": None}, {"A": 1, "d": [1]}, {"A": 1, "d": "s"}, None, 5, "xAx", "xAxbx",
                               ["A", "b"], [1], True, {"A": 1}]),
        ([H], {"list": {"dc": "H"}}, [[{"z": 1}, {"z": "q"}, {}], "ab", {"z": 1}, 5]),
        ([H], {"dict": {"dc": "H"}}, [{"k": {"z": 1}, "j": {"z": "q"}}, [1]]),
        ([H], {"opt": {"dc": "H"}}, [{"z": "q"}, {"z": 1}, None]),
        ([], {"list": {"list": "int"}}, [[[1], ["q"]], "12", {"1": 2}, True]),
        ([], "str", [None, True, 5, "s", [1, "a'b", None], {"k": [True], "q\"q": "a'\"b"}, "nl\n", [], {}]),
        ([], "int", [BIGINT, -BIGINT, str(BIGINT), None, True, 5, "7", " 7 ", "+1_0", "1__0", "_1", "", "-", "0x10", [], {}, "-0", "00", "1_", "\t8\n"]),
        ([], "float", [None, False, 5, "7", "x", []]),
        ([], "bool", [None, True, 0, 5, "", "false", [], [0], {}, {"a": 1}]),
        ([], "bytes", [5, None, "aGk=", "a", [1], {"a": 1}, True] + B64_OK + B64_BAD),
        ([], "datetime", [5, None] + DT_OK + DT_BAD),
        ([], "date", [5, None] + DATE_OK + DATE_BAD),
        ([], "any", [None, 5, {"a": [1, {"b": None}]}]),
        ([], "none", [None, 5]),
        ([], {"enum": "E", "members": ["a", "b"]}, ["a", 1, True, "1", None, [1], {"a": 1}]),
        ([], {"enum": "F", "members": [1, 2]}, ["a", 1, True, "1", None, [1], 0, False]),
        ([], {"list": "uuid"}, [[], [UUIDS[0]], [UUIDS[1], "x", 5]]),
        ([], {"opt": "uuid"}, [None, UUIDS[0], "x"]),
        ([], {"dict": "time"}, [{}, {"a": TIMES[0], "b": TIMES[4]}, {"a": "x"}]),
        ([], {"union": ["uuid", "int"], "disc": None}, [UUIDS[0], "7", "x", 5]),
        ([], {"union": ["time", "date", "datetime"], "disc": None}, [TIMES[0], DATE_OK[0], DT_OK[0], "x"]),
        ([], {"dict": "any"}, [{"a": 1}, [1], None]),
        ([], {"opt": {"dict": "any"}}, [{"a": [None]}, [1], None]),
    ]
    return cases


def build_hand(case_tag, decls, ty):
    """Instantiate hand-written decls as fresh python classes (names get a unique suffix)."""
    c = Case(random.Random(0), case_tag, {})
    ren = {n: f"{n}h{case_tag}" for n, _ in decls}

    def rn(t):
        if isinstance(t, str):
            return t
        t = dict(t)
        for k in ("list", "dict", "opt"):
            if k in t:
                t[k] = rn(t[k])
        if "dc" in t:
            t["dc"] = ren[t["dc"]]
        if "enum" in t:
            t["enum"] = t["enum"] + "h" + case_tag
        if "union" in t:
            t["union"] = [rn(a) for a in t["union"]]
            if t.get("disc") and t["disc"]["mapping"] is not None:
                t["disc"] = {"prop": t["disc"]["prop"], "mapping": [[v, ren[n]] for v, n in t["disc"]["mapping"]]}
        return t

    def mk_enums(t):
        if isinstance(t, dict):
            if "enum" in t and t["enum"] not in c.enums:
                base = str if all(isinstance(m, str) for m in t["members"]) else int
                c.enums[t["enum"]] = (enum.Enum(t["enum"], [(f"M{i}", v) for i, v in enumerate(t["members"])], type=base),
                                      t["members"])
            for k in ("list", "dict", "opt"):
                if k in t:
                    mk_enums(t[k])
            for a in t.get("union", []):
                mk_enums(a)

    ty = rn(ty)
    mk_enums(ty)
    for n, d in decls:
        fields = [{"n": f["n"], "t": rn(f["t"]), "d": f["d"]} for f in d["fields"]]
        for f in fields:
            mk_enums(f["t"])
        specs = []
        for f in fields:
            pt = c.pytype(f["t"])
            if f["d"] == "req":
                specs.append((f["n"], pt))
            elif f["d"] == "none":
                specs.append((f["n"], pt, dataclasses.field(default=None)))
            elif f["d"] == "list":
                specs.append((f["n"], pt, dataclasses.field(default_factory=list)))
            else:
                specs.append((f["n"], pt, dataclasses.field(default_factory=dict)))
        cls = dataclasses.make_dataclass(ren[n], specs, kw_only=True)
        cls.__module__ = NS_NAME
        setattr(_ns_module(), ren[n], cls)
        attrs = {}
        if d["load"] is not None:
            attrs["key_transform_with_load"] = {k: v for k, v in d["load"]}
        if d["dump"] is not None:
            attrs["key_transform_with_dump"] = {k: v for k, v in d["dump"]}
        if attrs:
            cls.Meta = type("Meta", (), attrs)
        c.classes[ren[n]] = cls
        c.decls.append([ren[n], {"fields": fields, "load": d["load"], "dump": d["dump"]}])
    return c, ty


def run(seed: int = 16, scale: float = 1.0, driver: str = DEFAULT_DRIVER) -> dict:
    cc, Ser = _impl()
    rng = random.Random(seed)
    n_cases = max(4, int(round(440 * scale)))
    reqs: list[dict] = []
    impls: list = []
    labels: list[str] = []
    dist: dict[str, int] = {}
    samples: list = []
    nontrivial_keys: set = set()

    def bump(k, n=1):
        dist[k] = dist.get(k, 0) + n

    def add(label, req, impl, nontrivial_key=None):
        reqs.append(req)
        impls.append(impl)
        labels.append(label)
        if nontrivial_key is not None:
            nontrivial_keys.add(nontrivial_key)

    def exercise(c: Case, ty, jsons, label, class_names):
        """structure + roundtrip (+ registry bookkeeping) for each json, inside one registry window."""
        T = c.pytype(ty)
        reg = Registry(cc)
        try:
            for j in jsons:
                ej = enc_json(j)
                r = impl_structure(cc, j, T)
                if "ok" in r:
                    v = r["ok"]
                    before = reg.names()
                    rendered = {"ok": render_val(v)}
                    u = impl_unstructure(cc, v)
                    u["reg"] = reg.names()
                    add(label + ":structure", {"f": "structure", "a": [c.decls, ty, ej]}, rendered,
                        ("s", json.dumps([c.decls, ty, ej], sort_keys=True)))
                    add(label + ":roundtrip", {"f": "roundtrip", "a": [c.decls, ty, ej, before]}, u,
                        ("r", json.dumps([c.decls, ty, ej, before], sort_keys=True)))
                    bump("structure ok")
                    bump("unstructure " + ("ok" if "ok" in u else u["uerr"]))
                else:
                    add(label + ":structure", {"f": "structure", "a": [c.decls, ty, ej]}, r,
                        ("s", json.dumps([c.decls, ty, ej], sort_keys=True)))
                    bump("structure error " + ("grouped" if r["err"]["grouped"] else "plain"))
                    for _, k in r["err"]["msgs"]:
                        bump("errkind " + k.split(":")[0])
        finally:
            reg.reset()

    # 1. hand-picked cases
    for i, (decls, ty, jsons) in enumerate(hand_cases()):
        c, ty2 = build_hand(f"{seed}x{i}", decls, ty)
        exercise(c, ty2, jsons, f"hand{i}", [n for n, _ in c.decls])
        bump("hand cases")

    # 2. random type trees × conforming and non-conforming instances
    n_inst = 0
    for ci in range(n_cases):
        fname, feat = FEATURE_SETS[ci % len(FEATURE_SETS)]
        c = Case(rng, f"{seed}r{ci}", dict(feat, depth=rng.choice([2, 3, 4])))
        top = rng.choice(["dc", "dc", "dc", "any-ty", "selfref"])
        if top == "dc":
            ty = {"dc": c.gen_class(0)}
        elif top == "selfref":
            ty = {"dc": c.gen_class(0, selfref=rng.choice(["dc", "fwd"]))}
        else:
            ty = c.gen_ty(0)
        order = list(c.decls)
        rng.shuffle(order)              # the order of the declaration table is immaterial to the code
        c.decls = order
        dmap = {n: d for n, d in c.decls}
        feats = ty_features(ty, dmap)
        for f in feats:
            bump("type has " + f)
        bump("featureset " + fname)
        for k, v in c.stats.items():
            bump(k, v)
        jsons = []
        for _ in range(rng.randint(3, 6)):
            jsons.append(c.gen_conf(ty))
        for _ in range(rng.randint(2, 4)):
            jsons.append(c.mutate(c.gen_conf(ty)))
        n_inst += len(jsons)
        exercise(c, ty, jsons, f"rand{ci}", [n for n, _ in c.decls])
        # hook registration closure
        if isinstance(ty, dict) and "dc" in ty:
            reg = Registry(cc)
            try:
                cls = c.classes[ty["dc"]]
                try:
                    cc.unstructure_to_dict(_blank_instance(cls))
                except Exception:
                    pass
                add(f"rand{ci}:regTy", {"f": "regTy", "a": [c.decls, ty]}, reg.names(),
                    ("g", json.dumps([c.decls, ty], sort_keys=True)))
                bump("regTy")
            finally:
                reg.reset()
        if len(samples) < 5 and ci % 7 == 3:
            samples.append({"decls": c.decls, "ty": ty, "json": jsons[0]})

    # 2b. cycles of SEVERAL classes, decoded / encoded from changing roots in one process: whatever the converter remembers per class
    #     between calls (hook registration walks, memo tables) must give the same answers as a fresh walk from every root
    for ci in range(max(3, int(round(24 * scale)))):
        k = rng.choice([2, 2, 3])
        names = ["Author", "Book", "Shelf"][:k]
        ren_all = rng.random() < 0.8
        decls = []
        for idx, n in enumerate(names):
            nxt, prv = names[(idx + 1) % k], names[(idx - 1) % k]
            fields = [{"n": "display_name", "t": "str", "d": "req"}, {"n": "class_", "t": {"opt": "str"}, "d": "none"},
                      {"n": "next_items", "t": {"list": {"dc": nxt}}, "d": "list"}, {"n": "owner", "t": {"opt": {"dc": prv}}, "d": "none"}]
            rename = ren_all or idx == 0
            load = [["displayName", "display_name"], ["class", "class_"], ["nextItems", "next_items"]] if rename else None
            dump = [[b, a] for a, b in load] if rename else None
            decls.append([n, {"fields": fields, "load": load, "dump": dump}])
        c, _, ren = build_from_decls(f"{seed}cy{ci}", decls, None)

        def doc(idx, depth):
            n = names[idx]
            renamed = ren_all or idx == 0
            d = {("displayName" if renamed else "display_name"): f"{n}-{depth}"}
            if rng.random() < 0.6:
                d["class" if renamed else "class_"] = "c"
            if depth > 0:
                d["nextItems" if renamed else "next_items"] = [doc((idx + 1) % k, depth - 1) for _ in range(rng.randint(0, 2))]
                if rng.random() < 0.5:
                    d["owner"] = doc((idx - 1) % k, depth - 1)
            return d
        roots = [rng.randrange(k) for _ in range(rng.randint(2, 4))]
        if len(set(roots)) == 1:
            roots.append((roots[0] + 1) % k)
        for step, ri in enumerate(roots):
            exercise(c, {"dc": ren[names[ri]]}, [doc(ri, rng.randint(1, 3)) for _ in range(rng.randint(1, 2))], f"cycle{ci}.{step}", [n for n, _ in c.decls])
        bump("class cycles with changing roots")

    # 3. the serializer
    _serializer_cases(rng, scale, cc, Ser, add, bump)

    # 4. unstructuring instances that were constructed directly
    _unstructure_cases(rng, scale, cc, add, bump)

    replies = drive(driver, reqs)
    disagreements = []
    n_dis = 0
    for label, req, impl, rep in zip(labels, reqs, impls, replies):
        if rep != impl:
            n_dis += 1
            if len(disagreements) < 50:
                disagreements.append({"label": label, "request": req, "model": rep, "impl": impl})
    sys.modules.pop(NS_NAME, None)
    return {
        "comparisons": len(reqs),
        "disagreements": disagreements,
        "n_disagreements": n_dis,
        "nontrivial": len(nontrivial_keys),
        "rule": ("random dataclass families (depth ≤ 4, Meta maps: none/bijective/partial/load-only/dump-only/inconsistent/"
                 "duplicate wire key, fields: leaves, Any, list, dict, Optional, nested/self-referential dataclasses, enums, "
                 "plain and discriminated unions) created with make_dataclass, 3-6 conforming + 2-4 mutated JSON documents "
                 "each, plus hand-picked witnesses and object graphs for the serializer; a case is non-trivial when it is a "
                 "distinct (declarations, type, document[, registry]) request — every request reaches structuring/"
                 "unstructuring/serialising code, none is a default branch"),
        "samples": samples,
        "distribution": dict(sorted(dist.items())),
    }


def _blank_instance(cls):
    kw = {}
    for f in dataclasses.fields(cls):
        if f.default is dataclasses.MISSING and f.default_factory is dataclasses.MISSING:
            kw[f.name] = None
    return cls(**kw)


# ------------------------------------------------------------------------------------------------ serializer

def unrolled_size(heap, root, depth: int = 48, cap: int = 30000) -> int:
    """Number of nodes the serializer / converter visits when it walks the object graph WITHOUT memoising shared or cyclic parts,
    followed to `depth` levels and capped at `cap`.  A simple cycle costs `depth`; a cycle with fan-out >= 2 (a list holding the
    same ancestor twice) is exponential - such graphs keep the real code busy for minutes before the interpreter stack ends the
    walk, so the generators skip them (the heap model would agree, but nothing is learned from a 2**40-step run)."""
    objs = {i: d for i, d in heap}
    memo: dict = {}

    def kids(v):
        if isinstance(v, dict) and "ref" in v:
            return [v["ref"]]
        return []

    def children(i):
        d = objs.get(i, {})
        if "list" in d:
            return [c for v in d["list"] for c in kids(v)]
        if "dict" in d:
            return [c for _k, v in d["dict"] for c in kids(v)]
        return [c for _n, v in d.get("f", []) for c in kids(v)]

    def size(i, dep):
        if dep == 0:
            return 1
        key = (i, dep)
        if key in memo:
            return memo[key]
        memo[key] = cap          # re-entrancy guard while computing
        t = 1
        for c in children(i):
            t += size(c, dep - 1)
            if t >= cap:
                t = cap
                break
        memo[key] = t
        return t
    r = kids(root)
    return sum(size(i, depth) for i in r) if r else 1


def heap_has_cycle(heap, root) -> bool:
    """Does the object graph reachable from `root` contain a cycle?  (`unstructure_to_dict` takes tree-shaped values; on a cyclic
    graph the real code recurses until RecursionError - the serializer's cycle handling is a separate set of cases.)"""
    objs = {i: d for i, d in heap}

    def kids(i):
        d = objs.get(i, {})
        vals = d["list"] if "list" in d else [v for _k, v in d["dict"]] if "dict" in d else [v for _n, v in d.get("f", [])]
        return [v["ref"] for v in vals if isinstance(v, dict) and "ref" in v]
    state: dict = {}
    stack = [(root["ref"], iter(kids(root["ref"])))] if isinstance(root, dict) and "ref" in root else []
    if stack:
        state[stack[0][0]] = 1
    while stack:
        i, it = stack[-1]
        nxt = next(it, None)
        if nxt is None:
            state[i] = 2
            stack.pop()
        elif state.get(nxt) == 1:
            return True
        elif nxt not in state:
            state[nxt] = 1
            stack.append((nxt, iter(kids(nxt))))
    return False


class HeapGen:
    """A random object graph over the classes of a Case: heap description for the model + the live objects."""

    def __init__(self, case: Case, rng: random.Random, p_reuse: float):
        self.c = case
        self.rng = rng
        self.p_reuse = p_reuse
        self.heap: list = []           # [[id, obj-desc]]
        self.live: dict = {}           # id → python object
        self.by_class: dict = {}       # class name → [ids]
        self.lists: dict = {}          # json(elem type) → [ids]
        self.dicts: dict = {}
        self.feats: set = set()
        self.size = 0

    def new_id(self):
        return len(self.heap)

    def hval(self, t, depth):
        rng = self.rng
        if isinstance(t, str):
            if t == "str":
                return rng.choice(STRS), None
            if t in ("int", "float"):
                return rng.choice(INTS), None
            if t == "bool":
                return rng.random() < 0.5, None
            if t == "bytes":
                b = rng.choice(B64_OK)
                return {"bytes": b}, None
            if t == "datetime":
                d = _dt.datetime.fromisoformat(rng.choice(DT_OK).replace("Z", "+00:00"))
                return {"dt": d.isoformat()}, None
            if t == "date":
                return {"date": rng.choice(DATE_OK)}, None
            if t == "uuid":
                self.feats.add("uuid")
                return {"uuid": rng.choice(UUIDS)}, None
            if t == "time":
                self.feats.add("time")
                return {"time": _dt.time.fromisoformat(rng.choice(TIMES)).isoformat()}, None
            if t == "none":
                return None, None
            if t == "any":
                r = rng.random()
                if r < 0.35 or depth > 5:
                    return self.hval(rng.choice(["str", "int", "bool", "none", "bytes", "datetime", "uuid", "time"]), depth)
                if r < 0.55 and self.live and rng.random() < self.p_reuse * 2:
                    i = rng.choice(list(self.live))
                    self.feats.add("any-reuse")
                    return {"ref": i}, None
                if r < 0.7:
                    return self.hval({"list": "any"}, depth)
                if r < 0.85:
                    return self.hval({"dict": "any"}, depth)
                if self.c.classes:
                    return self.hval({"dc": rng.choice(list(self.c.classes))}, depth)
                return self.hval("str", depth)
        if "list" in t:
            key = json.dumps(t["list"], sort_keys=True)
            if self.lists.get(key) and rng.random() < self.p_reuse:
                self.feats.add("list-reuse")
                return {"ref": rng.choice(self.lists[key])}, None
            i = self.new_id()
            desc = {"list": []}
            self.heap.append([i, desc])
            self.live[i] = []
            self.lists.setdefault(key, []).append(i)
            for _ in range(rng.randint(0, 3 if depth < 4 else 0)):
                desc["list"].append(self.hval(t["list"], depth + 1)[0])
            return {"ref": i}, None
        if "dict" in t:
            key = json.dumps(t["dict"], sort_keys=True)
            if self.dicts.get(key) and rng.random() < self.p_reuse:
                self.feats.add("dict-reuse")
                return {"ref": rng.choice(self.dicts[key])}, None
            i = self.new_id()
            desc = {"dict": []}
            self.heap.append([i, desc])
            self.live[i] = {}
            self.dicts.setdefault(key, []).append(i)
            for k in rng.sample(STRS[:12], rng.randint(0, 3 if depth < 4 else 0)):
                desc["dict"].append([k, self.hval(t["dict"], depth + 1)[0]])
            return {"ref": i}, None
        if "opt" in t:
            if rng.random() < 0.3 or depth > 6:
                return None, None
            return self.hval(t["opt"], depth + 1)
        if "enum" in t:
            return {"enum": t["enum"], "v": rng.choice(t["members"])}, None
        if "dc" in t or "fwd" in t:
            name = t.get("dc") or t.get("fwd")
            if self.by_class.get(name) and (rng.random() < self.p_reuse or depth > 6):
                self.feats.add("inst-reuse")
                return {"ref": rng.choice(self.by_class[name])}, None
            i = self.new_id()
            desc = {"inst": name, "f": []}
            self.heap.append([i, desc])
            self.live[i] = object.__new__(self.c.classes[name])
            self.by_class.setdefault(name, []).append(i)
            for f in self.c.decl_of(name)["fields"]:
                if depth > 6 and f["d"] != "req":
                    v = None if f["d"] == "none" else self.hval(f["t"], depth + 1)[0]
                else:
                    v = self.hval(f["t"], depth + 1)[0]
                desc["f"].append([f["n"], v])
            return {"ref": i}, None
        if "union" in t:
            return self.hval(rng.choice(t["union"]), depth + 1)
        raise AssertionError(t)

    def materialise(self):
        """Fill the live python objects from the heap description."""
        def val(h):
            if h is None or isinstance(h, (bool, int, str)):
                return h
            if "ref" in h:
                return self.live[h["ref"]]
            if "bytes" in h:
                return base64.b64decode(h["bytes"])
            if "bytearray" in h:
                return bytearray(base64.b64decode(h["bytearray"]))
            if "dt" in h:
                return _dt.datetime.fromisoformat(h["dt"])
            if "date" in h:
                return _dt.date.fromisoformat(h["date"])
            if "enum" in h:
                return self.c.enums[h["enum"]][0](h["v"])
            if "uuid" in h:
                return uuid.UUID(h["uuid"])
            if "time" in h:
                return _dt.time.fromisoformat(h["time"])
            raise AssertionError(h)
        for i, desc in self.heap:
            o = self.live[i]
            if "list" in desc:
                o.extend(val(x) for x in desc["list"])
            elif "dict" in desc:
                for k, x in desc["dict"]:
                    o[k] = val(x)
            else:
                for n, x in desc["f"]:
                    object.__setattr__(o, n, val(x))
        return val


def enc_pv(x, ids):
    if x is None or isinstance(x, bool):
        return x
    if isinstance(x, enum.Enum) and isinstance(x, (str, int)):
        return enc_pv(x.value, ids)
    if isinstance(x, int) or isinstance(x, str):
        return x
    if isinstance(x, float):
        return int(x) if x.is_integer() else {"opaque": "float", "v": repr(x)}
    if isinstance(x, list):
        return [enc_pv(v, ids) for v in x]
    if isinstance(x, dict):
        return {"o": [[k, enc_pv(v, ids)] for k, v in x.items()]}
    if dataclasses.is_dataclass(x) and not isinstance(x, type):
        return {"leak": ids.get(id(x), -1)}
    if isinstance(x, uuid.UUID):
        return {"opaque": "uuid", "v": str(x)}
    if isinstance(x, _dt.time):
        return {"opaque": "time", "v": x.isoformat()}
    if isinstance(x, bytearray):
        return {"opaque": "bytearray", "v": base64.b64encode(bytes(x)).decode("ascii")}
    if isinstance(x, bytes):
        return {"opaque": "bytes", "v": base64.b64encode(x).decode("ascii")}
    if isinstance(x, _dt.datetime):
        return {"opaque": "datetime", "v": x.isoformat()}
    if isinstance(x, _dt.date):
        return {"opaque": "date", "v": x.isoformat()}
    return {"opaque": type(x).__name__, "v": repr(x)}


def _nesting(x, limit=120):
    """Nesting depth of lists/dicts, iteratively, capped at `limit`."""
    level, depth = [x], 0
    while level and depth < limit:
        nxt = []
        for y in level:
            if isinstance(y, list):
                nxt.extend(y)
            elif isinstance(y, dict):
                nxt.extend(y.values())
        level = nxt
        depth += 1
    return depth


def impl_serialize(Ser, obj, ids):
    """`MODEL:fuel` = the traversal does not terminate by itself: CPython stops it with RecursionError — or, when
    cattrs happens to swallow that RecursionError while generating a hook, the call returns a copy of the cycle
    unrolled to the depth of the interpreter's recursion limit (seen with limit 600: 196 levels).  The generated
    graphs are at most ~20 levels deep, so a result nested deeper than 120 levels is such an unrolling.
    (F26, repaired: the model never answers `MODEL:fuel` any more - `C16.serializer_terminates` - so either is a disagreement.)"""
    try:
        out = Ser.serialize(obj)
    except RecursionError:
        return {"uerr": "MODEL:fuel"}
    except TypeError:
        return {"uerr": "typeError"}
    except AttributeError:
        return {"uerr": "attrError"}
    if _nesting(out) >= 120:
        return {"uerr": "MODEL:fuel", "unrolled": True}
    return {"ok": enc_pv(out, ids)}


SER_HAND = [
    # (fields of class N, heap, root): the witnesses of the theorems
    ("resolved self reference", "dc", [[0, {"inst": "N", "f": [["name", "a"], ["nxt", {"ref": 0}]]}]], {"ref": 0}),
    ("resolved 2-cycle", "dc", [[0, {"inst": "N", "f": [["name", "a"], ["nxt", {"ref": 1}]]}],
                                [1, {"inst": "N", "f": [["name", "b"], ["nxt", {"ref": 0}]]}]], {"ref": 0}),
    ("forward-ref self reference", "fwd", [[0, {"inst": "N", "f": [["name", "a"], ["nxt", {"ref": 0}]]}]], {"ref": 0}),
    ("forward-ref 2-cycle", "fwd", [[0, {"inst": "N", "f": [["name", "a"], ["nxt", {"ref": 1}]]}],
                                   [1, {"inst": "N", "f": [["name", "b"], ["nxt", {"ref": 0}]]}]], {"ref": 0}),
    ("acyclic chain", "dc", [[0, {"inst": "N", "f": [["name", "a"], ["nxt", {"ref": 1}]]}],
                             [1, {"inst": "N", "f": [["name", "b"], ["nxt", None]]}]], {"ref": 0}),
    ("list containing itself", "dc", [[0, {"list": [1, {"ref": 0}]}]], {"ref": 0}),
    ("dict containing itself", "dc", [[0, {"dict": [["x", {"ref": 0}]]}]], {"ref": 0}),
    ("shared, acyclic", "dc", [[0, {"list": [{"ref": 1}, {"ref": 1}]}],
                               [1, {"inst": "N", "f": [["name", "s"], ["nxt", None]]}]], {"ref": 0}),
    ("none stripping", "dc", [[0, {"dict": [["a", None], ["b", {"ref": 1}], ["d", {"ref": 2}]]}],
                              [1, {"dict": [["c", None]]}], [2, {"list": [None, {"ref": 1}]}]], {"ref": 0}),
    ("dict of unregistered instance", "dc", [[0, {"dict": [["k", {"ref": 1}]]}],
                                             [1, {"inst": "N", "f": [["name", "s"], ["nxt", None]]}]], {"ref": 0}),
    ("list: dict first, instance second", "dc", [[0, {"list": [{"ref": 1}, {"ref": 2}, {"ref": 1}]}],
                                                 [1, {"dict": [["k", {"ref": 2}]]}],
                                                 [2, {"inst": "N", "f": [["name", "s"], ["nxt", None]]}]], {"ref": 0}),
    ("immediates", "dc", [], None), ("immediates", "dc", [], 5), ("immediates", "dc", [], "s"),
    ("immediates", "dc", [], {"bytes": "aGk="}), ("immediates", "dc", [], {"bytearray": "aGk="}),
    ("immediates", "dc", [], {"dt": "2020-01-01T00:00:00"}), ("immediates", "dc", [], {"uuid": UUIDS[0]}),
    ("immediates", "dc", [], {"time": TIMES[0]}), ("immediates", "dc", [], {"date": DATE_OK[0]}),
]


def _serializer_cases(rng, scale, cc, Ser, add, bump):
    n_cases = max(4, int(round(220 * scale)))
    # hand-picked graphs
    for hi, (label, kind, heap, root) in enumerate(SER_HAND):
        c = Case(random.Random(hi), f"s{rng.randrange(10**9)}h{hi}", {"meta_modes": ["none"]})
        # class N: name: str, nxt: Optional[N] (resolved or forward reference), wire key of `name` is "Name"
        nm = c.fresh("N")
        ref = {"dc": nm} if kind == "dc" else {"fwd": nm}
        fields = [{"n": "name", "t": "str", "d": "req"}, {"n": "nxt", "t": {"opt": ref}, "d": "none"}]
        cls = dataclasses.make_dataclass(nm, [("name", str), ("nxt", Any, dataclasses.field(default=None))])
        cls.__module__ = NS_NAME
        setattr(_ns_module(), nm, cls)
        cls.Meta = type("Meta", (), {"key_transform_with_load": {"Name": "name"}, "key_transform_with_dump": {"name": "Name"}})
        c.classes[nm] = cls
        real = Optional[cls] if kind == "dc" else Optional[ForwardRef(nm)]
        cls.__dataclass_fields__["nxt"].type = real
        cls.__annotations__["nxt"] = real
        c.decls.append([nm, {"fields": fields, "load": [["Name", "name"]], "dump": [["name", "Name"]]}])
        heap2 = json.loads(json.dumps(heap).replace('"N"', json.dumps(nm)))
        _ser_one(c, heap2, root, f"serhand{hi}:{label}", cc, Ser, add, bump)
        bump("serializer hand graphs")
    for si in range(n_cases):
        feat = dict(FEATURE_SETS[rng.choice([0, 1, 2])][1], depth=rng.choice([1, 2, 3]))
        c = Case(rng, f"s{rng.randrange(10**9)}r{si}", feat)
        roots = [c.gen_class(0, selfref=rng.choice([None, "dc", "fwd", "fwd"])) for _ in range(rng.randint(1, 2))]
        p_reuse = rng.choice([0.0, 0.0, 0.15, 0.4])
        hg = HeapGen(c, rng, p_reuse)
        top = rng.choice(["inst", "inst", "inst", "list", "dict", "any"])
        if top == "inst":
            root, _ = hg.hval({"dc": roots[0]}, 0)
        elif top == "list":
            root, _ = hg.hval({"list": rng.choice([{"dc": roots[0]}, "any"])}, 0)
        elif top == "dict":
            root, _ = hg.hval({"dict": rng.choice([{"dc": roots[0]}, "any"])}, 0)
        else:
            root, _ = hg.hval("any", 0)
        if len(hg.heap) > 400 or unrolled_size(hg.heap, root) >= 30000:
            continue
        for f in hg.feats:
            bump("serializer graph has " + f)
        bump("serializer top " + top)
        _ser_one(c, hg.heap, root, f"ser{si}", cc, Ser, add, bump, hg)


def heap_to_val(heap, h):
    """A tree-shaped heap value → the driver's `val` encoding."""
    objs = {i: d for i, d in heap}

    def go(x):
        if x is None or isinstance(x, (bool, int, str)):
            return x
        if "ref" in x:
            d = objs[x["ref"]]
            if "list" in d:
                return [go(y) for y in d["list"]]
            if "dict" in d:
                return {"dict": [[k, go(y)] for k, y in d["dict"]]}
            return {"inst": d["inst"], "f": [[n, go(y)] for n, y in d["f"]]}
        return x                                   # bytes / dt / date / time / uuid / enum / opaque share the encoding
    return go(h)


def _unstructure_cases(rng, scale, cc, add, bump):
    """`unstructure_to_dict` on directly constructed (tree-shaped) instances: hooked leaves, enums, unions and `Any`
    positions holding dataclass instances (whose keys depend on the registry)."""
    for ui in range(max(4, int(round(160 * scale)))):
        feat = dict(FEATURE_SETS[rng.choice([0, 1, 2, 2])][1], depth=rng.choice([1, 2, 3]))
        c = Case(rng, f"u{rng.randrange(10**9)}r{ui}", feat)
        root_cls = c.gen_class(0)
        hg = HeapGen(c, rng, 0.0)
        root, _ = hg.hval(rng.choice([{"dc": root_cls}, {"dc": root_cls}, {"list": {"dc": root_cls}}, "any"]), 0)
        if len(hg.heap) > 200 or unrolled_size(hg.heap, root) >= 30000 or heap_has_cycle(hg.heap, root):
            continue
        val = hg.materialise()
        obj = val(root)
        reg = Registry(cc)
        try:
            for _ in range(2):                     # the second call sees the hooks the first one registered
                before = reg.names()
                u = impl_unstructure(cc, obj)
                u["reg"] = reg.names()
                add(f"unstr{ui}", {"f": "unstructure", "a": [c.decls, heap_to_val(hg.heap, root), before]}, u,
                    ("u", json.dumps([c.decls, heap_to_val(hg.heap, root), before], sort_keys=True)))
                bump("direct unstructure " + ("ok" if "ok" in u else u["uerr"]))
        finally:
            reg.reset()


def _ser_one(c, heap, root, label, cc, Ser, add, bump, hg=None):
    if hg is None:
        hg = HeapGen(c, random.Random(0), 0.0)
        hg.heap = heap
        for i, desc in heap:
            hg.live[i] = [] if "list" in desc else {} if "dict" in desc else object.__new__(c.classes[desc["inst"]])
    val = hg.materialise()
    obj = val(root)
    ids = {id(o): i for i, o in hg.live.items()}
    reg = Registry(cc)
    try:
        before = reg.names()
        r = impl_serialize(Ser, obj, ids)
        if r.pop("unrolled", False):
            bump("serialize returned a recursion-limit-deep unrolling instead of raising")
        if "ok" in r:
            r["reg"] = reg.names()
        add(label, {"f": "serialize", "a": [c.decls, heap, root, before]}, r,
            ("z", json.dumps([c.decls, heap, root], sort_keys=True)))
        bump("serialize " + ("ok" if "ok" in r else r["uerr"]))
    finally:
        reg.reset()



# ------------------------------------------------------------------------------------------------ oracle

def build_from_decls(tag: str, decls: list, ty):
    """Fresh python classes for an arbitrary declaration table (two passes: create, then patch the field types, so
    that the table may be in any order and classes may reference each other)."""
    c = Case(random.Random(0), tag, {})
    ren = {n: f"{n}_{tag}" for n, _ in decls}

    def rn(t):
        if isinstance(t, str):
            return t
        t = dict(t)
        for k in ("list", "dict", "opt"):
            if k in t:
                t[k] = rn(t[k])
        if "dc" in t:
            t["dc"] = ren.get(t["dc"], t["dc"])
        if "fwd" in t:
            t["fwd"] = ren.get(t["fwd"], t["fwd"])
        if "enum" in t:
            t["enum"] = t["enum"] + "_" + tag
        if "union" in t:
            t["union"] = [rn(a) for a in t["union"]]
            if t.get("disc") and t["disc"]["mapping"] is not None:
                t["disc"] = {"prop": t["disc"]["prop"], "mapping": [[v, ren.get(n, n)] for v, n in t["disc"]["mapping"]]}
        return t

    def mk_enums(t):
        if isinstance(t, dict):
            if "enum" in t and t["enum"] not in c.enums:
                base = str if all(isinstance(m, str) for m in t["members"]) else int
                c.enums[t["enum"]] = (enum.Enum(t["enum"], [(f"M{i}", v) for i, v in enumerate(t["members"])], type=base),
                                      t["members"])
            for k in ("list", "dict", "opt"):
                if k in t:
                    mk_enums(t[k])
            for a in t.get("union", []):
                mk_enums(a)

    ty2 = rn(ty) if ty is not None else None
    if ty2 is not None:
        mk_enums(ty2)
    new_decls = []
    for n, d in decls:
        fields = [{"n": f["n"], "t": rn(f["t"]), "d": f["d"]} for f in d["fields"]]
        for f in fields:
            mk_enums(f["t"])
        specs = []
        for f in fields:
            if f["d"] == "req":
                specs.append((f["n"], Any))
            elif f["d"] == "none":
                specs.append((f["n"], Any, dataclasses.field(default=None)))
            elif f["d"] == "list":
                specs.append((f["n"], Any, dataclasses.field(default_factory=list)))
            else:
                specs.append((f["n"], Any, dataclasses.field(default_factory=dict)))
        cls = dataclasses.make_dataclass(ren[n], specs, kw_only=True)
        cls.__module__ = NS_NAME
        setattr(_ns_module(), ren[n], cls)
        attrs = {}
        if d["load"] is not None:
            attrs["key_transform_with_load"] = {k: v for k, v in d["load"]}
        if d["dump"] is not None:
            attrs["key_transform_with_dump"] = {k: v for k, v in d["dump"]}
        if attrs:
            cls.Meta = type("Meta", (), attrs)
        c.classes[ren[n]] = cls
        new_decls.append([ren[n], {"fields": fields, "load": d["load"], "dump": d["dump"]}])
    for n, d in new_decls:
        cls = c.classes[n]
        for f in d["fields"]:
            real = c.pytype(f["t"])
            cls.__dataclass_fields__[f["n"]].type = real
            cls.__annotations__[f["n"]] = real
    c.decls = new_decls
    ren["__tag__"] = tag
    return c, ty2, ren


def _eval_inheritance(case: dict):
    """decode -> encode of a conforming document of a dataclass DERIVED from another dataclass gives the document back, for every
    order in which base and derived class meet the process-wide converter."""
    from typing import Optional
    from pyopenapi_gen.core import cattrs_converter as cc
    v, order, salt = case["variant"], case["order"], case["salt"]
    base_meta = v % 2 == 0                       # base with / without key maps
    ns: dict = {}

    def meta(load: dict):
        return type("Meta", (), {"key_transform_with_load": dict(load), "key_transform_with_dump": {b: a for a, b in load.items()}})
    base_load = {"id": "id_", "displayName": "display_name"} if base_meta else {}
    bf = [("id_" if base_meta else "id", int), ("display_name" if base_meta else "displayName", Optional[str], dataclasses.field(default=None))]
    A = dataclasses.make_dataclass(f"InhBase{salt}", bf, kw_only=True)
    if base_meta:
        A.Meta = meta(base_load)
    derived_load = dict(base_load, **{"accessLevel": "access_level", "class": "class_", "x-tag": "x_tag"})
    df = [("access_level", int), ("class_", Optional[str], dataclasses.field(default=None)), ("x_tag", Optional[str], dataclasses.field(default=None))]
    if v % 3 == 2:
        df = df[:2]
        derived_load.pop("x-tag")
    B = dataclasses.make_dataclass(f"InhDerived{salt}", df, bases=(A,), kw_only=True)
    B.Meta = meta(derived_load)
    H = dataclasses.make_dataclass(f"InhHolder{salt}", [("first", A), ("second", B)], kw_only=True)
    for c in (A, B, H):
        c.__module__ = NS_NAME
        setattr(_ns_module(), c.__name__, c)
    inv = {b: a for a, b in derived_load.items()}
    doc_a = {("id"): 1, "displayName": "n"}
    doc_b = {"id": 7, "displayName": "dn", "accessLevel": 9, "class": "root"}
    if "x-tag" in derived_load:
        doc_b["x-tag"] = "t"
    try:
        if order == "base-first":
            cc.unstructure_to_dict(cc.structure_from_dict(doc_a, A))
            back = cc.unstructure_to_dict(cc.structure_from_dict(doc_b, B))
        elif order == "derived-first":
            back = cc.unstructure_to_dict(cc.structure_from_dict(doc_b, B))
            back_a = cc.unstructure_to_dict(cc.structure_from_dict(doc_a, A))
            if not py_tolerated(doc_a, back_a):
                return {"class": "inheritance-roundtrip", "observed": back_a, "expected": doc_a}
        else:
            back = cc.unstructure_to_dict(cc.structure_from_dict({"first": doc_a, "second": doc_b}, H))["second"]
    except Exception as e:  # noqa: BLE001
        return {"class": "inheritance-roundtrip", "observed": f"{type(e).__name__}: {str(e)[:200]}", "expected": doc_b}
    if not py_tolerated(doc_b, back) or any(k not in doc_b and val not in (None, [], {}) for k, val in back.items()):
        return {"class": "inheritance-roundtrip", "observed": back, "expected": doc_b}
    return None


def py_tolerated(j, out) -> bool:
    """C03's tolerance: `out` is `j` up to key order; `out` may have extra keys holding None, [] or {}."""
    if isinstance(j, dict):
        if not isinstance(out, dict):
            return False
        for k, v in j.items():
            if k not in out or not py_tolerated(v, out[k]):
                return False
        return all(k in j or v is None or v == [] or v == {} for k, v in out.items())
    if isinstance(j, list):
        return isinstance(out, list) and len(j) == len(out) and all(py_tolerated(a, b) for a, b in zip(j, out))
    if isinstance(j, bool) or isinstance(out, bool):
        return isinstance(j, bool) and isinstance(out, bool) and j == out
    if j is None:
        return out is None
    if isinstance(j, (int, float)):
        return isinstance(out, (int, float)) and j == out
    return isinstance(out, str) and isinstance(j, str) and str(out) == j and _plain_json(out) == j


def _plain_json(x):
    return json.loads(json.dumps(x))


def _has_null_key(x) -> bool:
    if isinstance(x, dict):
        return any(v is None or _has_null_key(v) for v in x.values())
    if isinstance(x, list):
        return any(_has_null_key(v) for v in x)
    return False


def _cleanup(reg):
    reg.reset()


def _with_case(case):
    tag = f"o{abs(hash(json.dumps(case, sort_keys=True, default=str))) % 10**9}_{random.getrandbits(32)}"
    return build_from_decls(tag, case["decls"], case.get("ty"))


def evaluate(case) -> Optional[dict]:
    """Evaluate ONE oracle case on the real implementation.  None = the property holds; otherwise
    {"class", "observed", "expected"}."""
    cc, Ser = _impl()
    c, ty, ren = _with_case(case)
    reg = Registry(cc)
    try:
        return _evaluate(case, c, ty, ren, cc, Ser)
    finally:
        reg.reset()


def _leaf_class(case_feats):
    if "uuid" in case_feats:
        return "leaf-uuid-unsupported"
    return "leaf-time-unsupported"


def _evaluate(case, c, ty, ren, cc, Ser):
    prop = case["prop"]
    if prop == "inheritance":
        return _eval_inheritance(case)
    if prop == "same_name_twice":
        # two DIFFERENT families of dataclasses with identical module + qualified names, decoded one after the other in one process
        # (a model module that was re-generated and re-imported; classes built by a factory): nothing may be keyed by name
        tag = "sn%d" % (abs(hash(json.dumps(case, sort_keys=True, default=str))) % 10**9)
        for which in ("first", "second", "first"):
            sub = dict(case[which], prop="decode_encode")
            c2, ty2, ren2 = build_from_decls(tag, sub["decls"], sub.get("ty"))
            r = _evaluate(sub, c2, ty2, ren2, cc, Ser)
            if r is not None:
                return {"class": "same-name-classes-confused" if which != "first" or r["class"] != "roundtrip-decode-fails" else r["class"],
                        "observed": f"[{which}] {r['class']}: {str(r['observed'])[:260]}", "expected": r["expected"]}
        return None
    if prop == "changing_roots":
        # ONE family of classes (a cycle of several dataclasses), decoded and encoded from changing roots in one process; a step
        # {"root", "json", "via"}: via = "roundtrip" (decode then encode) or "encode_built" (encode an instance that was decoded
        # by an EARLIER step of another root - so the first encode walk of this process starts at that root)
        kept = {}
        for k, st in enumerate(case["steps"]):
            T = c.pytype({"dc": ren[st["root"]]})
            try:
                if st["via"] == "encode_built" and st.get("of") in kept:
                    v = kept[st["of"]]
                    want = case["steps"][st["of"]]["json"]
                else:
                    v = cc.structure_from_dict(st["json"], T)
                    want = st["json"]
                    kept[k] = v
                    if st["via"] == "decode_only":
                        continue
                plain = _plain_json(cc.unstructure_to_dict(v))
            except Exception as e:                               # noqa: BLE001
                return {"class": "changing-roots-roundtrip-fails", "observed": f"step {k} (root {st['root']}, {st['via']}): {type(e).__name__}: {str(e)[:260]}",
                        "expected": "every conforming document of every class of the family round-trips, whatever was decoded or encoded before"}
            if not py_tolerated(want, plain):
                return {"class": "changing-roots-roundtrip-lossy", "observed": {"step": k, "root": st["root"], "via": st["via"], "encoded": plain}, "expected": want}
        return None
    if prop in ("decode_encode", "unsupported_leaf"):
        T = c.pytype(ty)
        j = case["json"]
        try:
            v = cc.structure_from_dict(j, T)
        except ValueError as e:
            if prop == "unsupported_leaf":
                return {"class": case["leaf_class"], "observed": "ValueError: " + str(e)[:200],
                        "expected": "a conforming document with a uuid/time value decodes"}
            return {"class": "roundtrip-decode-fails", "observed": "ValueError: " + str(e)[:300],
                    "expected": "conforming document decodes"}
        except Exception as e:                                   # noqa: BLE001
            return {"class": "error-not-valueerror", "observed": type(e).__name__ + ": " + str(e)[:200],
                    "expected": "ValueError or success"}
        try:
            out = cc.unstructure_to_dict(v)
            plain = _plain_json(out)
        except Exception as e:                                   # noqa: BLE001
            cls = case.get("leaf_class", "roundtrip-encode-fails")
            return {"class": cls, "observed": type(e).__name__ + ": " + str(e)[:200], "expected": "JSON"}
        if not py_tolerated(j, plain):
            return {"class": case.get("lossy_class", "roundtrip-lossy"), "observed": plain, "expected": j}
        # encode then decode gives an equal instance
        try:
            v2 = cc.structure_from_dict(plain, T)
        except Exception as e:                                   # noqa: BLE001
            return {"class": "encode-decode-fails", "observed": type(e).__name__ + ": " + str(e)[:200],
                    "expected": "re-decoding the encoder's own output succeeds"}
        if v2 != v:
            return {"class": "encode-decode-mismatch", "observed": repr(v2)[:300], "expected": repr(v)[:300]}
        return None
    if prop == "error_names_field":
        T = c.pytype(ty)
        try:
            cc.structure_from_dict(case["json"], T)
        except ValueError as e:
            msg = str(e)
            if f"- {case['path']}: " in msg:
                return None
            return {"class": case["fail_class"], "observed": msg[:400],
                    "expected": f"ValueError naming `{case['path']}`"}
        except Exception as e:                                   # noqa: BLE001
            return {"class": "error-not-valueerror", "observed": type(e).__name__ + ": " + str(e)[:200],
                    "expected": "ValueError"}
        return {"class": "error-not-reported", "observed": "no exception", "expected": f"ValueError naming `{case['path']}`"}
    if prop == "union_variant":
        T = c.pytype(ty)
        j = case["json"]
        want = case.get("variant")
        want = ren.get(want, want) if want is not None else None
        try:
            v = cc.structure_from_dict(j, T)
        except ValueError as e:
            if case["expect"] == "error":
                return None
            return {"class": "union-decode-fails", "observed": "ValueError: " + str(e)[:300],
                    "expected": "payload of a listed variant decodes"}
        except Exception as e:                                   # noqa: BLE001
            return {"class": "error-not-valueerror", "observed": type(e).__name__ + ": " + str(e)[:200],
                    "expected": "ValueError or success"}
        if case["expect"] == "error":
            return {"class": case["fail_class"], "observed": repr(v)[:300], "expected": "ValueError"}
        if want is not None and type(v).__name__ != want:
            return {"class": case["fail_class"], "observed": f"decoded as {type(v).__name__}: {v!r}"[:300],
                    "expected": f"an instance of {want}"}
        try:
            plain = _plain_json(cc.unstructure_to_dict(v)) if dataclasses.is_dataclass(v) else _plain_json(
                cc.converter.unstructure(v))
        except Exception as e:                                   # noqa: BLE001
            return {"class": "roundtrip-encode-fails", "observed": type(e).__name__ + ": " + str(e)[:200], "expected": "JSON"}
        if not py_tolerated(j, plain):
            return {"class": case["fail_class"], "observed": plain, "expected": j}
        return None
    if prop == "serializer":
        hg = HeapGen(c, random.Random(0), 0.0)
        heap = json.loads(json.dumps(case["heap"]))
        for i, desc in heap:
            if "inst" in desc:
                desc["inst"] = ren.get(desc["inst"], desc["inst"])
        hg.heap = heap
        for i, desc in heap:
            hg.live[i] = [] if "list" in desc else {} if "dict" in desc else object.__new__(c.classes[desc["inst"]])

        def fix_enum(h):
            if isinstance(h, dict) and "enum" in h:
                h = dict(h)
                h["enum"] = h["enum"] + "_" + ren["__tag__"]
            return h
        for i, desc in heap:
            if "list" in desc:
                desc["list"] = [fix_enum(x) for x in desc["list"]]
            elif "dict" in desc:
                desc["dict"] = [[k, fix_enum(x)] for k, x in desc["dict"]]
            else:
                desc["f"] = [[n, fix_enum(x)] for n, x in desc["f"]]
        val = hg.materialise()
        obj = val(fix_enum(case["root"]))
        try:
            out = Ser.serialize(obj)
        except RecursionError:
            return {"class": "serializer-cycle-recursion", "observed": "RecursionError", "expected": "a result"}
        except Exception as e:                                   # noqa: BLE001
            return {"class": "serializer-raises", "observed": type(e).__name__ + ": " + str(e)[:200], "expected": "a result"}
        if _nesting(out) >= 120:
            return {"class": "serializer-cycle-recursion",
                    "observed": "a copy of the cycle unrolled to the recursion limit (nesting ≥ 120)", "expected": "a finite cut"}
        if _has_null_key(out):
            return {"class": "serializer-null-key", "observed": repr(out)[:300], "expected": "no None-valued key"}
        try:
            json.dumps(out)
        except TypeError as e:
            cls = "serializer-not-json"
            if re.search(r"Object of type (UUID|time) is not JSON", str(e)):
                cls = "leaf-uuid-unsupported" if "UUID" in str(e) else "leaf-time-unsupported"
            elif re.search(r"Object of type K\w+ is not JSON", str(e)):
                cls = "serializer-dict-leaks-instance"      # a live dataclass instance inside the result
            return {"class": cls, "observed": "json.dumps: " + str(e)[:200], "expected": "JSON-serialisable data"}
        if case.get("twice"):
            # the same dict-of-instances after the instance's class has been registered
            first = _plain_json(out)
            for i, desc in heap:
                if "inst" in desc:
                    Ser.serialize(hg.live[i])
            second = _plain_json(Ser.serialize(obj))
            if first != second:
                return {"class": "serializer-registry-dependent", "observed": [first, second],
                        "expected": "the same output for the same object"}
        return None
    raise AssertionError(prop)


def replay(case) -> bool:
    """Re-run one oracle case; True iff it still violates the property."""
    try:
        return evaluate(case) is not None
    finally:
        sys.modules.pop(NS_NAME, None)


def _strip_names(decls, ty, tagged_prefixes):
    return decls, ty


def _int_paths(c: Case, t, path, lossy, out, depth=0):
    """All positions typed `int` reachable in type `t`: (json-path steps, error path, crosses Optional/union)."""
    if depth > 6:
        return
    if t == "int":
        out.append((list(path), lossy))
        return
    if isinstance(t, str):
        return
    if "list" in t:
        _int_paths(c, t["list"], path + [("[]", None)], lossy, out, depth + 1)
    elif "dict" in t:
        _int_paths(c, t["dict"], path + [("{}", None)], lossy, out, depth + 1)
    elif "opt" in t:
        _int_paths(c, t["opt"], path, True, out, depth + 1)
    elif "dc" in t:
        d = c.decl_of(t["dc"])
        for f in d["fields"]:
            _int_paths(c, f["t"], path + [(f["n"], c.load_key(d, f["n"]))], lossy, out, depth + 1)


def _conf_with_fault(c: Case, t, steps):
    """A conforming document for `t` in which the position reached by `steps` exists and holds the string "x"."""
    if not steps:
        return "x"
    while isinstance(t, dict) and "opt" in t:
        t = t["opt"]
    (name, wire), rest = steps[0], steps[1:]
    if name == "[]":
        items = [c.gen_conf(t["list"], 2) for _ in range(c.rng.randint(0, 2))]
        items.insert(c.rng.randint(0, len(items)), _conf_with_fault(c, t["list"], rest))
        return items
    if name == "{}":
        d = {k: c.gen_conf(t["dict"], 2) for k in c.rng.sample(STRS[:8], c.rng.randint(0, 2))}
        d["faulty"] = _conf_with_fault(c, t["dict"], rest)
        return d
    d = c.decl_of(t["dc"])
    obj = c.gen_conf_obj(t["dc"], 2)
    f = next(f for f in d["fields"] if f["n"] == name)
    obj[wire] = _conf_with_fault(c, f["t"], rest)
    return obj


def _err_path(steps):
    out = ""
    for name, _ in steps:
        if name in ("[]", "{}"):
            out += "[]"
        else:
            out += ("." if out else "") + name
    return out


# The stored witnesses of REPAIRED serializer findings: evaluated by every oracle run, whatever the seed.
FORMER_WITNESSES = [
    # F26: an instance whose `nxt: Optional["K"]` and `anyref: Any` both hold the instance itself
    json.loads('{"prop": "serializer", "decls": [["Kq0e0_1", {"fields": [{"n": "f", "t": {"opt": "str"}, "d": "none"}, {"n": "nxt", "t": {"opt": {"fwd": "Kq0e0_1"}}, "d": "none"}, {"n": "anyref", "t": "any", "d": "none"}], "load": [["a", "f"], ["Kind", "anyref"], ["\\u00e9", "nxt"]], "dump": [["anyref", "Kind"], ["nxt", "\\u00e9"], ["f", "a"]]}]], "ty": null, "heap": [[0, {"inst": "Kq0e0_1", "f": [["f", "x y"], ["nxt", {"ref": 0}], ["anyref", {"ref": 0}]]}]], "root": {"ref": 0}}'),
    # F48: a dict holding instances of a class with a forward-referenced child list, serialised before and after registration
    json.loads('{"prop": "serializer", "decls": [["Kq0e7_1", {"fields": [{"n": "b", "t": "bool", "d": "req"}, {"n": "user_id", "t": "bytes", "d": "req"}, {"n": "k2", "t": "bytes", "d": "req"}, {"n": "kind", "t": {"opt": {"dict": "any"}}, "d": "none"}, {"n": "nxt", "t": {"list": {"fwd": "Kq0e7_1"}}, "d": "list"}], "load": [["$ref", "nxt"], ["q\\"q", "b"], ["a-b", "user_id"], ["b", "k2"], ["_", "kind"]], "dump": [["kind", "_"], ["nxt", "$ref"], ["k2", "b"], ["b", "q\\"q"], ["user_id", "a-b"]]}]], "ty": null, "heap": [[0, {"dict": [["_1", {"ref": 1}], ["a", {"ref": 10}]]}], [1, {"inst": "Kq0e7_1", "f": [["b", true], ["user_id", {"bytes": "AAEC"}], ["k2", {"bytes": ""}], ["kind", {"ref": 2}], ["nxt", {"ref": 3}]]}], [2, {"dict": [["a", -40]]}], [3, {"list": [{"ref": 4}, {"ref": 7}]}], [4, {"inst": "Kq0e7_1", "f": [["b", true], ["user_id", {"bytes": "aGVsbG8gd29ybGQ="}], ["k2", {"bytes": ""}], ["kind", {"ref": 5}], ["nxt", {"ref": 6}]]}], [5, {"dict": []}], [6, {"list": []}], [7, {"inst": "Kq0e7_1", "f": [["b", false], ["user_id", {"bytes": "/+8="}], ["k2", {"bytes": "aGk="}], ["kind", {"ref": 8}], ["nxt", {"ref": 9}]]}], [8, {"dict": []}], [9, {"list": []}], [10, {"inst": "Kq0e7_1", "f": [["b", true], ["user_id", {"bytes": "/+8="}], ["k2", {"bytes": "aGVsbG8gd29ybGQ="}], ["kind", null], ["nxt", {"ref": 6}]]}]], "root": {"ref": 0}, "twice": true}'),
]


def oracle(seed: int = 16, scale: float = 1.0) -> dict:
    rng = random.Random(seed * 7919 + 1)
    cases: list[dict] = [json.loads(json.dumps(w)) for w in FORMER_WITNESSES]
    plain_feat = {"unions": False, "disc": False, "bad_leaf": 0.0, "meta_modes": ["none", "bij", "bij", "partial"],
                  "none_on_nonopt": 0.0, "canonical": True}

    # 1. decode/encode and encode/decode on union-free generated-style models
    n1 = max(3, int(round(300 * scale)))
    for ci in range(n1):
        c = Case(rng, f"q{seed}a{ci}", dict(plain_feat, depth=rng.choice([2, 3, 4])))
        ty = {"dc": c.gen_class(0)}
        if c.stats.get("meta-collide"):
            continue
        for _ in range(3):
            cases.append({"prop": "decode_encode", "decls": c.decls, "ty": ty, "json": c.gen_conf(ty)})
    # 1b. cycles of several classes, changing roots, decode-only steps followed by encodes rooted elsewhere
    for ci in range(max(3, int(round(60 * scale)))):
        k = rng.choice([2, 2, 3])
        names = ["Author", "Book", "Shelf"][:k]
        ren_all = rng.random() < 0.7
        decls = []
        for idx, n in enumerate(names):
            nxt, prv = names[(idx + 1) % k], names[(idx - 1) % k]
            rename = ren_all or idx == 0
            load = [["displayName", "display_name"], ["class", "class_"], ["nextItems", "next_items"]] if rename else None
            decls.append([n, {"fields": [{"n": "display_name", "t": "str", "d": "req"}, {"n": "class_", "t": {"opt": "str"}, "d": "none"},
                                         {"n": "next_items", "t": {"list": {"dc": nxt}}, "d": "list"}, {"n": "owner", "t": {"opt": {"dc": prv}}, "d": "none"}],
                              "load": load, "dump": [[b, a] for a, b in load] if rename else None}])

        def doc(idx, depth, force_nested=False):
            renamed = ren_all or idx == 0
            d = {("displayName" if renamed else "display_name"): f"{names[idx]}-{depth}", ("class" if renamed else "class_"): "c"}
            if depth > 0:
                d["nextItems" if renamed else "next_items"] = [doc((idx + 1) % k, depth - 1) for _ in range(rng.randint(1 if force_nested else 0, 2))]
                d["owner"] = doc((idx - 1) % k, depth - 1)
            return d
        steps = []
        first = rng.randrange(k)
        steps.append({"root": names[first], "json": doc(first, 2, True), "via": rng.choice(["decode_only", "roundtrip"])})
        other = (first + rng.randint(1, k - 1)) % k
        steps.append({"root": names[other], "json": doc(other, 2, True), "via": "decode_only"})
        steps.append({"root": names[other], "json": None, "via": "encode_built", "of": 1})
        steps.append({"root": names[first], "json": None, "via": "encode_built", "of": 0})
        for _ in range(rng.randint(0, 2)):
            ri = rng.randrange(k)
            steps.append({"root": names[ri], "json": doc(ri, rng.randint(1, 2)), "via": "roundtrip"})
        cases.append({"prop": "changing_roots", "decls": decls, "ty": None, "steps": steps})
    # 2. the same with uuid / time leaves somewhere (the inputs that used to trigger F10)
    for ci in range(max(2, int(round(40 * scale)))):
        leaf = rng.choice(BAD_LEAVES)
        c = Case(rng, f"q{seed}b{ci}", dict(plain_feat, depth=2))
        inner = c.gen_class(1)
        name = c.fresh()
        shape = rng.choice(["bare", "opt", "list"])
        ft = leaf if shape == "bare" else {"opt": leaf} if shape == "opt" else {"list": leaf}
        c.decls.append([name, {"fields": [{"n": "ident", "t": ft, "d": "req"},
                                          {"n": "inner", "t": {"opt": {"dc": inner}}, "d": "none"}],
                               "load": None, "dump": None}])
        c.classes[name] = None
        val = rng.choice(UUIDS) if leaf == "uuid" else rng.choice(TIME_CANON)
        j = {"ident": val if shape != "list" else [val]}
        cases.append({"prop": "unsupported_leaf", "decls": c.decls, "ty": {"dc": name}, "json": j,
                      "leaf_class": f"leaf-{leaf}-unsupported"})
    # 3. error reporting: one fault at a known position
    for ci in range(max(3, int(round(220 * scale)))):
        c = Case(rng, f"q{seed}c{ci}", dict(plain_feat, depth=rng.choice([2, 3])))
        ty = {"dc": c.gen_class(0)}
        if c.stats.get("meta-collide"):
            continue
        paths: list = []
        _int_paths(c, ty, [], False, paths)
        if not paths:
            continue
        lossy_paths = [p for p in paths if p[1]]
        steps, lossy = rng.choice(lossy_paths) if lossy_paths and rng.random() < 0.4 else rng.choice(paths)
        cases.append({"prop": "error_names_field", "decls": c.decls, "ty": ty, "json": _conf_with_fault(c, ty, steps),
                      "path": _err_path(steps),
                      "fail_class": "error-path-lost-through-optional" if lossy else "error-path-wrong"})
    # 4. unions
    for ci in range(max(4, int(round(300 * scale)))):
        c = Case(rng, f"q{seed}d{ci}", dict(plain_feat, depth=1))
        kind = rng.choice(["dcs", "dcs", "prims", "disc", "disc", "disc-unmapped", "disc-broken"])
        if kind == "prims":
            args = rng.sample(["str", "int", "bool", "date", "datetime", {"list": "int"}, {"list": "str"}], rng.randint(2, 3))
            ty = {"union": args, "disc": None}
            i = rng.randrange(len(args))
            cases.append({"prop": "union_variant", "decls": [], "ty": ty, "json": c.gen_conf(args[i]), "expect": "ok",
                          "variant": None, "fail_class": "union-prim-coercion"})
            continue
        names = []
        pool = rng.sample([p for p in PYNAMES if p != "kind"], 5)
        for _ in range(rng.randint(2, 3)):
            nm = c.fresh()
            fs = [{"n": p, "t": rng.choice(["int", "str", "bool"]), "d": rng.choice(["req", "req", "none"])}
                  for p in rng.sample(pool, rng.randint(1, 4))]
            for f in fs:
                if f["d"] == "none":
                    f["t"] = {"opt": f["t"]}
            if kind.startswith("disc"):
                fs.insert(0, {"n": "kind", "t": "str", "d": "req"})
            c.decls.append([nm, {"fields": fs, "load": None, "dump": None}])
            c.classes[nm] = None
            names.append(nm)
        args = [{"dc": n} for n in names]
        if kind == "dcs":
            ty = {"union": args, "disc": None}
            i = rng.randrange(len(names))
            j = c.gen_conf_obj(names[i], 0)
            for f in c.decl_of(names[i])["fields"]:      # a FULL instance of the variant: every property present
                if f["n"] not in j:
                    j[f["n"]] = c.gen_conf(f["t"] if not isinstance(f["t"], dict) else f["t"]["opt"], 1)
            cases.append({"prop": "union_variant", "decls": c.decls, "ty": ty, "json": j, "expect": "ok",
                          "variant": names[i], "fail_class": "union-firstmatch-lossy"})
            continue
        values = rng.sample(DISC_VALUES, len(names))
        perm = names[:]
        rng.shuffle(perm)                                 # the mapping need not follow the member order
        mapping = [[values[k], perm[k]] for k in range(len(names))]
        if rng.random() < 0.4:
            # a free-form member next to the mapped variants: it must not turn a mapped-but-undecodable payload into a raw dict
            args = args + [{"dict": "any"}]
            rng.shuffle(args)
        ty = {"union": args, "disc": {"prop": "kind", "mapping": mapping}}
        k = rng.randrange(len(names))
        j = c.gen_conf_obj(perm[k], 0)
        j["kind"] = values[k]
        if kind == "disc":
            cases.append({"prop": "union_variant", "decls": c.decls, "ty": ty, "json": j, "expect": "ok",
                          "variant": perm[k], "fail_class": "union-disc-wrong-variant"})
        elif kind == "disc-unmapped":
            j["kind"] = rng.choice(["nope", 7, None, True])
            cases.append({"prop": "union_variant", "decls": c.decls, "ty": ty, "json": j, "expect": "error",
                          "variant": None, "fail_class": "union-disc-unmapped-guessed"})
        else:
            req = [f["n"] for f in c.decl_of(perm[k])["fields"] if f["d"] == "req" and f["n"] != "kind"]
            if not req:
                continue
            victim = rng.choice(req)
            vt = next(f["t"] for f in c.decl_of(perm[k])["fields"] if f["n"] == victim)
            if vt != "int" or rng.random() < 0.5:
                del j[victim]
            else:
                j[victim] = {"not": "a scalar"}        # present but undecodable (int(dict) raises; str()/bool() would coerce)
            cases.append({"prop": "union_variant", "decls": c.decls, "ty": ty, "json": j, "expect": "error",
                          "variant": None, "fail_class": "union-disc-retried"})
    # 4b. two families of classes that share their names (and module) but not their fields / key maps
    for ci in range(max(3, int(round(40 * scale)))):
        subs = []
        for k in range(2):
            c = Case(rng, f"s{ci}", dict(plain_feat, depth=rng.choice([1, 2]), meta_modes=["bij", "bij", "none"]))
            ty = {"dc": c.gen_class(0)}
            if c.stats.get("meta-collide"):
                break
            subs.append({"decls": c.decls, "ty": ty, "json": c.gen_conf(ty)})
        if len(subs) == 2 and subs[0]["ty"] == subs[1]["ty"] and subs[0]["decls"] != subs[1]["decls"]:
            cases.append({"prop": "same_name_twice", "decls": [], "ty": None, "first": subs[0], "second": subs[1]})
    # 5. the serializer
    for ci in range(max(3, int(round(160 * scale)))):
        feat = dict(plain_feat, depth=rng.choice([1, 2]), bad_leaf=rng.choice([0.0, 0.0, 0.1]))
        c = Case(rng, f"q{seed}e{ci}", feat)
        root_cls = c.gen_class(0, selfref=rng.choice([None, "dc", "fwd", "fwd"]))
        hg = HeapGen(c, rng, rng.choice([0.0, 0.2, 0.5]))
        top = rng.choice(["inst", "inst", "list", "dict"])
        root, _ = hg.hval({"dc": root_cls} if top == "inst" else {"list": {"dc": root_cls}} if top == "list"
                          else {"dict": {"dc": root_cls}}, 0)
        if len(hg.heap) > 300 or unrolled_size(hg.heap, root) >= 30000:
            continue
        case = {"prop": "serializer", "decls": c.decls, "ty": None, "heap": hg.heap, "root": root}
        if hg.feats & {"uuid", "time"}:
            case["leaf_class"] = _leaf_class(hg.feats)
        if top == "dict":
            case["twice"] = True
        cases.append(case)

    # 6. dataclass INHERITANCE (a user extends a generated model): the derived class's own key maps apply, whatever was converted before
    for ci in range(max(4, int(round(24 * scale)))):
        cases.append({"prop": "inheritance", "decls": [], "ty": None, "variant": ci % 6, "order": ["base-first", "derived-first", "holder"][ci % 3],
                      "salt": rng.randrange(10**6)})

    failures = []
    evaluations = 0
    try:
        for case in cases:
            case = json.loads(json.dumps(case))           # what replay() will be given
            r = evaluate(case)
            evaluations += 1
            if r is not None:
                failures.append({"class": r["class"], "case": case, "observed": r["observed"], "expected": r["expected"]})
    finally:
        sys.modules.pop(NS_NAME, None)
    return {"evaluations": evaluations, "failures": failures}


# ------------------------------------------------------------------------------------------------ main

if __name__ == "__main__":
    seed = int(sys.argv[1]) if len(sys.argv) > 1 else 16
    scale = float(sys.argv[2]) if len(sys.argv) > 2 else 1.0
    import time as _time
    t0 = _time.time()
    res = run(seed, scale, DEFAULT_DRIVER)
    t1 = _time.time()
    for d in res["disagreements"][:8]:
        print(json.dumps(d)[:3000])
    print(json.dumps(res["distribution"], indent=1))
    print(f"{res['comparisons']} comparisons, {res['nontrivial']} nontrivial, {res['n_disagreements']} disagreements "
          f"({t1 - t0:.1f}s)")
    orc = oracle(seed, scale)
    t2 = _time.time()
    by_class: dict = {}
    for f in orc["failures"]:
        by_class[f["class"]] = by_class.get(f["class"], 0) + 1
    print(f"oracle: {orc['evaluations']} evaluations, failures by class: {json.dumps(by_class, sort_keys=True)} ({t2 - t1:.1f}s)")
