"""C15 — spec text can never alter the structure of generated code.

The recorded finding F25 is identified per CELL (text position x payload class) of the oracle's matrix: known_findings.json lists the
cells that fail on the unchanged tree; a failure in any other cell is a violation.  Random payloads are attributed through the
dangerous characters they contain (the characters of the dictionary classes that are known to fail at the same position).
"""
from __future__ import annotations

from .. import findings
from . import _generic as g

PROP = "C15"
CORR = "vf.corr.c15"
CLASS_CHARS = {"dquote": ['"'], "triple-dquote": ['"""'], "trailing-dquote": ['"'], "backslash-n": ["\\"], "trailing-backslash": ["\\"], "bad-escape": ["\\"],
               "named-escape": ["\\"], "escaped-A": ["\\"], "newline": ["\n"], "cr": ["\r"], "nul": ["\x00"], "formfeed": ["\x0c", "\x0b", "\x1c", "\x1d", "\x1e", "\x85"],
               "u2028": [" ", " "], "astral": None}


def known_cell(cells: set, position: str, payload_class: str, payload: str) -> bool:
    if (position, payload_class) in cells:
        return True
    if payload_class.startswith("random"):
        for (pos, cls) in cells:
            if pos != position or cls.startswith("random"):
                continue
            chars = CLASS_CHARS.get(cls)
            if chars is None:
                if any(ord(c) > 0xFFFF for c in payload):
                    return True
            elif any(ch in payload for ch in chars):
                return True
    return False


def check(run, ctx) -> None:
    import importlib
    import time
    from ..common import seed
    known = findings.Known(run, PROP)
    g.run_corr(run, ctx, CORR, "PyLex (refereed by ast) + Sinks (every renderer vs the real one)", quick=0.8, thorough=6.0)
    # the sink "scalar default of a dataclass field" through the real DataclassGenerator._get_field_default (theorems claimed from Pog.DcProps)
    g.run_corr(run, ctx, "vf.corr.dc", "Dc (DataclassGenerator defaults vs Pog.Dc)", quick=0.2, thorough=2.0)
    mod = importlib.import_module(CORR)
    t0 = time.time()
    res = mod.oracle(seed(), g.scale_of(ctx, 0.7, 5.0))
    run.cov["evaluations"] += int(res.get("evaluations", 0))
    run.cov.setdefault("oracle_evaluations", {})["position x payload matrix through the whole generator"] = int(res.get("evaluations", 0))
    run.cov.setdefault("oracle_wall_s", {})["matrix"] = round(time.time() - t0, 1)
    cells = {tuple(c) for c in (known.entries.get("F25", {}).get("cells") or [])}
    seen_known = 0
    per = {}
    for f in res.get("failures", []):
        c = f.get("case", {})
        pos, cls, payload = c.get("position", "?"), c.get("payload_class", "?"), c.get("payload", "")
        per[f.get("class", "?")] = per.get(f.get("class", "?"), 0) + 1
        if known.listed("F25") and known_cell(cells, pos, cls, payload):
            seen_known += 1
            known.hit("F25", {"position": pos, "payload_class": cls})
        elif len(run.violations) < 5:
            run.violation("input", {"oracle": "matrix", "module": CORR, "class": f.get("class"), "case": c}, observed=f.get("observed"), expected=f.get("expected"),
                          what=f"hostile text at {pos} ({cls}: {payload[:40]!r}) is not rendered inertly: {str(f.get('observed'))[:200]} - this (position, payload) cell is not a recorded finding")
    run.cov.setdefault("oracle_failure_classes", {})["matrix"] = per
    run.cov["known_cells_hit"] = seen_known
    known.report_unreplayed()


def search(run, ctx) -> None:
    check(run, ctx)


def replay(run, ctx, rec) -> bool:
    return g.replay_generic(rec)
