import Pog.Lemmas.Plan
/-
  C10 — when the output package already exists and `force` is not given, generation never creates,
  modifies or deletes anything under the project root: on a match it succeeds, on a difference or on
  any failure part-way through it raises, and in all three cases the existing tree is byte-identical
  afterwards.  In every mode the only paths under the project root that are ever written or removed
  lie inside the output package directory, the core package directory, and the `__init__.py` files
  of their ancestor packages.

  Proved of the model `Pog.Plan` (all FULL, hypotheses = the paths are resolved and the temporary
  directory and the project root are not nested):

    core_target_is_core_dir          the `os.path.relpath` round trip of `CoreEmitter` lands in `core_dir`
    noforce_writes_under_tmp         diff path: every primitive names paths below the temporary root only
                                     (appends: the debug log in `gettempdir()`); it contains no `rmtree`
    noforce_preserves_root           diff path, EVERY injected fault position, every `OSError`, all three
                                     outcomes: files and directories at or below the project root unchanged
    noforce_never_copies_back        … in particular nothing is written on "no differences" either
    force_writes_contained           force/first-run path: every named path below the project root is in the
                                     output package, the core package, or is an ancestor package directory /
                                     its `__init__.py`
    result_classification            match → success, difference → `GenerationError`, fault → exception
    fault_raises                     a fault position inside the plan always ends in an exception

  About the STRING prefix test `str(core_dir).startswith(str(out_dir))` (client_generator.py:364):
    prefix_test_sound                it is implied by "core inside out", so it never ADDS a write outside the
                                     allowed set …
    prefix_test_skips_core_ancestors_counterexample   ✗ … but it is not equivalent: for `out = a`,
                                     `core = ab.core` the second loop is skipped and `ab/__init__.py` is never
                                     created although `ab` is not inside `a`
    core_ancestor_inits_partial      the loop does cover every ancestor of the core package when the test is false
  Degenerate package names (pathlib drops empty components):
    dot_package_is_project_root      `output_package = "."` makes `out_dir == project_root`; with `force`
                                     the plan starts with `rmtree(project_root)`
-/
namespace Pog.C10
open Pog Pog.Diff Pog.Plan

/-- `CoreEmitter(core_dir=os.path.relpath(core, out)).emit(out)` writes into
    `os.path.join(out, relpath)`; resolved, that is `core` again — for ALL resolved `out`, `core`
    (embedded, sibling, nested, deeper, unrelated). -/
theorem core_target_is_core_dir (out core : Path) (ho : cleanPath out = true) (hc : cleanPath core = true) :
    normalise (out ++ relpath core out) = core :=
  coreTarget_eq out core ho hc

example : cleanPath ["srv".toList, "proj".toList, "a".toList, "b".toList, "client".toList] = true ∧
    relpath ["srv".toList, "proj".toList, "a".toList, "core".toList]
      ["srv".toList, "proj".toList, "a".toList, "b".toList, "client".toList] = ["..".toList, "..".toList, "core".toList] := by
  decide

/-- The hypothesis shared by the diff-path theorems: the temporary directory returned by
    `TemporaryDirectory()` is not inside the project root, the project root is not inside it, and
    the debug log (`gettempdir()/pyopenapi_gen_file_write_debug.log`) is not inside the project root. -/
abbrev TmpApart (c : PlanCfg) : Prop := Apart c.root c.tmpRoot c.debugLog

/-- every primitive of a list names only paths for which `P` holds, appends go to `log`, no `rmtree` -/
abbrev AllIn (P : Path → Prop) (log : Path) (ops : List Op) : Prop := OpsIn P log ops

/-- Without `force` over an existing package, every `makedirs`/`write`/`rename`/`rewrite` of the
    plan names a path at or below the fresh temporary root, every append goes to the debug log in
    the temp dir, and there is no `rmtree` at all. -/
theorem noforce_writes_under_tmp (c : PlanCfg) (sp : PlanSpec)
    (hf : c.force = false) (he : c.outExists = true) (hclean : cleanPath c.tmpRoot = true) :
    AllIn (fun p => c.tmpRoot <+: p) c.debugLog (planOps c sp) := by
  have hd : c.diffMode = true := by simp [PlanCfg.diffMode, hf, he]
  unfold planOps plan
  rw [if_pos hd]
  exact diffPlan_in c sp hclean

/-- spelled out on paths: whatever a primitive of the diff plan names is below the temp root or is the log -/
theorem noforce_targets (c : PlanCfg) (sp : PlanSpec)
    (hf : c.force = false) (he : c.outExists = true) (hclean : cleanPath c.tmpRoot = true) :
    ∀ o ∈ planOps c sp, ∀ p ∈ o.act.targets, c.tmpRoot <+: p ∨ p = c.debugLog := by
  intro o ho p hp
  have := noforce_writes_under_tmp c sp hf he hclean o ho
  cases hact : o.act with
  | mkdirs q => rw [hact] at this hp; simp only [Act.targets, List.mem_singleton] at hp; subst hp; exact Or.inl this
  | write q _ => rw [hact] at this hp; simp only [Act.targets, List.mem_singleton] at hp; subst hp; exact Or.inl this
  | append q _ => rw [hact] at this hp; simp only [Act.targets, List.mem_singleton] at hp; subst hp; exact Or.inr this
  | rename s d =>
    rw [hact] at this hp
    simp only [Act.targets, List.mem_cons, List.not_mem_nil, or_false] at hp
    rcases hp with rfl | rfl
    · exact Or.inl this.1
    · exact Or.inl this.2
  | rmtree q => rw [hact] at this; exact absurd this (by simp [ActIn])
  | rewrite q => rw [hact] at this hp; simp only [Act.targets, List.mem_singleton] at hp; subst hp; exact Or.inl this

/-- the hypotheses are satisfiable: project `/srv/proj`, `TMPDIR=/tmp`, temp root `/tmp/tmpab12` -/
example :
    let c : PlanCfg := ⟨["srv".toList, "proj".toList], "a.b.client".toList, some "a.core".toList, false, true, true,
      ["tmp".toList], "tmpab12".toList⟩
    cleanPath c.tmpRoot = true ∧ ¬ c.root <+: c.tmpRoot ∧ ¬ c.tmpRoot <+: c.root ∧ ¬ c.root <+: c.debugLog := by
  decide

/-- C10, first half.  `generate(..., force=False)` over an existing output package: for EVERY
    position of an injected exception (`fault`), whether or not a primitive raises `OSError`, and
    whichever of the three outcomes results, the files (with their bytes) and the directories at or
    below the project root are exactly what they were. -/
theorem noforce_preserves_root (post : Str → Str) (c : PlanCfg) (sp : PlanSpec) (fs : FS) (fault : Nat)
    (hf : c.force = false) (he : fs.pathExists c.outDir = true)
    (hclean : cleanPath c.tmpRoot = true) (hap : TmpApart c) :
    ((runGenerate post c sp fs fault).1).under c.root = fs.under c.root := by
  unfold runGenerate
  simp only []
  have hd : ({ c with outExists := fs.pathExists c.outDir } : PlanCfg).diffMode = true := by
    simp [PlanCfg.diffMode, hf, he]
  rw [if_pos hd]
  split
  · rfl
  · have hops := noforce_writes_under_tmp { c with outExists := fs.pathExists c.outDir } sp hf he hclean
    show (cleanupTmp _ c.tmpRoot).under c.root = _
    rw [cleanup_under hap, execOps_under hap post _ hops]
    simp only [FS.under, FS.mk.injEq, true_and]
    apply filter_append_of_none
    intro x hx
    simp only [List.mem_singleton] at hx
    subst hx
    exact hap.not_under List.prefix_rfl

/-- a file system on which the hypotheses hold: the package directory exists -/
example :
    let c : PlanCfg := ⟨["srv".toList, "proj".toList], "client".toList, none, false, true, true, ["tmp".toList], "t1".toList⟩
    let fs : FS := ⟨[(["srv".toList, "proj".toList, "client".toList, "client.py".toList], "x".toList)],
      [[], ["srv".toList], ["srv".toList, "proj".toList], ["srv".toList, "proj".toList, "client".toList], ["tmp".toList]]⟩
    fs.pathExists c.outDir = true ∧ fs.isDir c.tmpDir = true := by decide

/-- In particular the success outcome ("No differences found, using existing files") copies
    nothing back: the tree below the project root is the old one — and so it is after
    "Differences found". -/
theorem noforce_never_copies_back (post : Str → Str) (c : PlanCfg) (sp : PlanSpec) (fs : FS)
    (hf : c.force = false) (he : fs.pathExists c.outDir = true)
    (hclean : cleanPath c.tmpRoot = true) (hap : TmpApart c) :
    ∀ outcome, (runGenerate post c sp fs (planOps { c with outExists := true } sp).length).2 = outcome →
      ((runGenerate post c sp fs (planOps { c with outExists := true } sp).length).1).under c.root = fs.under c.root :=
  fun _ _ => noforce_preserves_root post c sp fs _ hf he hclean hap

/-! ## outcome classification -/

/-- The three outcomes of the diff path, in terms of the run of the plan `r` on the file system
    with the fresh temporary directory:  no exception and no difference → success;  no exception
    and a difference (`_show_diffs` on the package, or on the core when it is a different
    directory) → `GenerationError("Differences found …")`;  any exception part-way → it propagates. -/
theorem result_classification (post : Str → Str) (c : PlanCfg) (sp : PlanSpec) (fs : FS) (fault : Nat)
    (hf : c.force = false) (he : fs.pathExists c.outDir = true) (htmp : fs.isDir c.tmpDir = true) :
    let c' : PlanCfg := { c with outExists := true }
    let r := execOps post (planOps c' sp) { fs with dirs := fs.dirs ++ [c.tmpRoot] } fault
    let diff := noForceHasDiff (r.1.subtree c.outDir) (r.1.subtree c.tmpOut) (r.1.subtree c.coreDir)
      (r.1.subtree c.tmpCore) (decide (c.coreDir ≠ c.outDir))
    (r.2 = none → diff = false → (runGenerate post c sp fs fault).2 = Outcome.success) ∧
    (r.2 = none → diff = true → (runGenerate post c sp fs fault).2 = Outcome.raisedDiff) ∧
    (r.2 ≠ none → (runGenerate post c sp fs fault).2 = Outcome.raisedOther) := by
  intro c' r diff
  have hd : ({ c with outExists := fs.pathExists c.outDir } : PlanCfg).diffMode = true := by
    simp [PlanCfg.diffMode, hf, he]
  have hrun : (runGenerate post c sp fs fault).2 =
      (match r.2 with
        | some _ => Outcome.raisedOther
        | none => if diff = true then Outcome.raisedDiff else Outcome.success) := by
    unfold runGenerate
    simp only []
    rw [if_pos hd]
    simp only [htmp, Bool.not_true, Bool.false_eq_true, if_false]
    simp only [he]
    rfl
  refine ⟨?_, ?_, ?_⟩
  · intro h1 h2; rw [hrun, h1]; simp [h2]
  · intro h1 h2; rw [hrun, h1]; simp [h2]
  · intro h1
    rw [hrun]
    cases hr : r.2 with
    | none => exact absurd hr h1
    | some _ => rfl

/-- A fault position inside the plan always ends in an exception (and by `noforce_preserves_root`
    leaves the project untouched). -/
theorem fault_raises (post : Str → Str) (c : PlanCfg) (sp : PlanSpec) (fs : FS) (fault : Nat)
    (hf : c.force = false) (he : fs.pathExists c.outDir = true) (htmp : fs.isDir c.tmpDir = true)
    (hlt : fault < (planOps { c with outExists := true } sp).length) :
    (runGenerate post c sp fs fault).2 = Outcome.raisedOther :=
  (result_classification post c sp fs fault hf he htmp).2.2 (execOps_fault_lt post _ _ fault hlt)

/-! ## containment in force / first-run mode -/

/-- C10, second half.  On the force / first-run path every path named by any primitive
    (`makedirs`, write, append, rename source and target, `rmtree`, formatter rewrite) that lies at or
    below the project root is inside the output package, inside the core package, or is an ancestor
    package directory of one of them or that directory's `__init__.py`.  (The only named path outside
    the project root is the debug log and possibly the parent of the project root in `makedirs`.) -/
theorem force_writes_contained (c : PlanCfg) (sp : PlanSpec) (hd : c.diffMode = false)
    (hclean : cleanPath c.root = true) :
    ∀ o ∈ planOps c sp, ∀ p ∈ o.act.targets, c.root <+: p → Allowed c p ∨ p = c.debugLog := by
  have ht : coreTarget c.outDir c.coreDir = c.coreDir :=
    coreTarget_eq _ _ (cleanPath_pkgToPath hclean _) (cleanPath_pkgToPath hclean _)
  have allow : ∀ p, Under2 c.outDir c.coreDir p → Allowed c p := by
    rintro p (h | h)
    · exact Or.inl h
    · exact Or.inr (Or.inl h)
  have fromIn : ∀ ops, OpsIn (Under2 c.outDir c.coreDir) c.debugLog ops →
      ∀ o ∈ ops, ∀ p ∈ o.act.targets, c.root <+: p → Allowed c p ∨ p = c.debugLog := by
    intro ops hops o ho p hp _
    rcases targets_of_actIn (hops o ho) p hp with h | h
    · exact Or.inl (allow p h)
    · exact Or.inr h
  intro o ho
  unfold planOps plan at ho
  rw [if_neg (by simp [hd])] at ho
  simp only [forcePlan, List.flatMap_cons, List.flatMap_nil, List.append_nil, List.mem_append] at ho
  rcases ho with ho | ho | ho | ho | ho | ho | ho | ho | ho | ho
  · -- setup
    intro p hp hroot
    simp only [List.mem_cons, List.not_mem_nil, or_false] at ho
    rcases ho with (ho | ho) | ho
    · split at ho
      · simp only [List.mem_singleton] at ho
        subst ho
        simp only [always, Act.targets, List.mem_singleton] at hp
        subst hp
        exact Or.inl (Or.inl List.prefix_rfl)
      · cases ho
    · rcases ho with rfl | rfl
      · simp only [always, Act.targets, List.mem_singleton] at hp
        subst hp
        exact Or.inl (Or.inr (Or.inr ⟨_, hroot, Or.inl (parentDir_prefix _), Or.inl rfl⟩))
      · simp only [always, Act.targets, List.mem_singleton] at hp
        subst hp
        exact Or.inl (Or.inl List.prefix_rfl)
    · split at ho
      · simp only [List.mem_cons, List.not_mem_nil, or_false] at ho
        rcases ho with rfl | rfl
        · simp only [always, Act.targets, List.mem_singleton] at hp
          subst hp
          exact Or.inl (Or.inr (Or.inr ⟨_, hroot, Or.inr (parentDir_prefix _), Or.inl rfl⟩))
        · simp only [always, Act.targets, List.mem_singleton] at hp
          subst hp
          exact Or.inl (Or.inr (Or.inl List.prefix_rfl))
      · cases ho
  · -- the two `__init__.py` loops
    intro p hp _
    rcases ho with ho | ho
    · exact Or.inl (initLoop_allowed c _ (Or.inl rfl) o ho p hp)
    · split at ho
      · exact Or.inl (initLoop_allowed c _ (Or.inr rfl) o ho p hp)
      · cases ho
  · exact fromIn _ (excOps_in sp c.root c.coreDir c.outDir c.outputPackage c.debugLog) o ho
  · have h := coreOps_in sp c.debugLog c.outDir c.coreDir
    rw [ht] at h
    exact fromIn _ h o ho
  · exact fromIn _ (modelOps_in sp c.outDir c.coreDir c.debugLog) o ho
  · exact fromIn _ (endpointOps_in sp c.debugLog c.outDir c.coreDir 0) o ho
  · exact fromIn _ (clientOps_in sp c.debugLog c.outDir c.coreDir) o ho
  · exact fromIn _ (mockOps_in sp c.debugLog c.outDir c.coreDir 1) o ho
  · -- rich __init__.py
    intro p hp _
    split at ho
    · simp only [List.mem_singleton] at ho
      subst ho
      simp only [always, Act.targets, List.mem_singleton] at hp
      subst hp
      exact Or.inl (Or.inl (List.prefix_append _ _))
    · cases ho
  · -- post-processing
    split at ho
    · cases ho
    · refine fromIn _ (postOps_in ?_) o ho
      intro p hp
      rcases generatedPy_under sp c.outDir c.coreDir 1 c.richInit p hp with h | h
      · exact h
      · rw [ht] at h; exact h

example :
    let c : PlanCfg := ⟨["srv".toList, "proj".toList], "a.b.client".toList, some "a.core".toList, true, true, true,
      ["tmp".toList], "t1".toList⟩
    c.diffMode = false ∧ cleanPath c.root = true := by decide

/-! ## the string prefix test -/

/-- If the core directory really is inside the output directory the string test is true as well
    (so the second loop is skipped only … and also in other cases, see below): the test can only
    REMOVE `__init__.py` writes, never add one outside the allowed set. -/
theorem prefix_test_sound (out core : Path) (hout : out ≠ []) (h : out <+: core) :
    strPrefixTest core out = true := by
  obtain ⟨t, rfl⟩ := h
  unfold strPrefixTest startsWith
  rw [pathStr_append_ne_nil out hout]
  exact List.isPrefixOf_iff_prefix.mpr (List.prefix_append _ _)

example : (["p".toList, "client".toList] : Path) ≠ [] ∧
    (["p".toList, "client".toList] : Path) <+: ["p".toList, "client".toList, "core".toList] := by decide

/-- ✗ The converse fails: `out = <root>/a`, `core = <root>/ab/core` (`output_package="a"`,
    `core_package="ab.core"`).  `"/srv/proj/ab/core".startswith("/srv/proj/a")` is true, the loop
    over the core package's ancestors is skipped, and `ab/__init__.py` is never written by
    `generate` (the file `ab/core/__init__.py` comes from `CoreEmitter`): package `ab` is left
    without `__init__.py`.  With `core_package="b.core"` the same file IS written. -/
theorem prefix_test_skips_core_ancestors_counterexample :
    let root : Path := ["srv".toList, "proj".toList]
    let c : PlanCfg := ⟨root, "a".toList, some "ab.core".toList, true, false, true, ["tmp".toList], "t".toList⟩
    let c' : PlanCfg := { c with corePackage := some "b.core".toList }
    let sp : PlanSpec := ⟨[], [], [], [], [], [], [], [], [], fun _ => [], fun _ => [], [], fun _ => [],
      fun _ => [], fun _ => [], fun _ => [], []⟩
    strPrefixTest c.coreDir c.outDir = true ∧ ¬ c.outDir <+: c.coreDir ∧
    (∀ o ∈ planOps c sp, root ++ ["ab".toList, fInit] ∉ o.act.targets) ∧
    (∃ o ∈ planOps c' sp, root ++ ["b".toList, fInit] ∈ o.act.targets) := by
  refine ⟨by decide, by decide, by decide +kernel, by decide +kernel⟩

/-- When the test is false, the second loop writes (unless present) the `__init__.py` of EVERY
    directory from the core package up to, excluding, the project root. -/
theorem core_ancestor_inits_partial (c : PlanCfg) (sp : PlanSpec) (hd : c.diffMode = false)
    (htest : strPrefixTest c.coreDir c.outDir = false) :
    ∀ d, c.root <+: d → d <+: c.coreDir → d ≠ c.root →
      (⟨.ifAbsent (d ++ [fInit]), .write (d ++ [fInit]) []⟩ : Op) ∈ planOps c sp := by
  intro d h1 h2 h3
  unfold planOps plan
  rw [if_neg (by simp [hd])]
  simp only [forcePlan, List.flatMap_cons, List.flatMap_nil, List.append_nil, List.mem_append]
  refine Or.inr (Or.inl (Or.inr ?_))
  simp only [htest, Bool.not_false, if_true]
  refine List.mem_map.mpr ⟨d, ?_, rfl⟩
  -- `d` is one of the directories the loop visits
  unfold ancestorsTo
  have key : ∀ (n : Nat) (cur : Path), d <+: cur → cur.length - d.length < n → d ∈ upChain c.root n cur := by
    intro n
    induction n with
    | zero => intro cur _ hn; omega
    | succ n ih =>
      intro cur hcur hn
      simp only [upChain]
      have hne : cur ≠ c.root := by
        intro heq
        rw [heq] at hcur
        exact h3 (hcur.eq_of_length_le h1.length_le)
      rw [if_neg hne]
      by_cases hdc : d = cur
      · rw [hdc]; exact List.mem_cons_self
      · refine List.mem_cons_of_mem _ ?_
        obtain ⟨t, rfl⟩ := hcur
        have ht : t ≠ [] := by
          intro ht; subst ht; simp at hdc
        have hcne : (d ++ t).isEmpty = false := by
          cases t with
          | nil => exact absurd rfl ht
          | cons x xs => cases d <;> rfl
        simp only [hcne, Bool.false_eq_true, if_false]
        refine ih _ ?_ ?_
        · rw [List.dropLast_append_of_ne_nil ht]; exact List.prefix_append _ _
        · have : t.length ≠ 0 := by
            intro h0; exact ht (List.eq_nil_of_length_eq_zero h0)
          simp only [List.length_dropLast, List.length_append] at hn ⊢
          omega
  exact key _ _ h2 (by have := h2.length_le; omega)

example :
    let c : PlanCfg := ⟨["srv".toList, "proj".toList], "a.b.client".toList, some "x.y.core".toList, true, false, true,
      ["tmp".toList], "t1".toList⟩
    c.diffMode = false ∧ strPrefixTest c.coreDir c.outDir = false := by decide

/-! ## degenerate package names -/

/-- `output_package = "."` passes the `if not output_package` check, `".".split(".")` is
    `["", ""]`, pathlib drops empty components: the output directory IS the project root, and the
    force plan begins with `shutil.rmtree(project_root)`. -/
theorem dot_package_is_project_root (root : Path) :
    pkgToPath root ".".toList = root ∧
    (∀ (sp : PlanSpec) (core : Option Str) (tmp : Path) (n : Str),
      (planOps ⟨root, ".".toList, core, true, true, true, tmp, n⟩ sp).head? = some (always (.rmtree root))) := by
  have h : pkgToPath root ['.'] = root := by
    simp [pkgToPath, splitOnC]
  refine ⟨h, ?_⟩
  intro sp core tmp n
  simp [planOps, plan, PlanCfg.diffMode, forcePlan, PlanCfg.outDir, h]

end Pog.C10
