import Pog.Model.Basic
import Pog.Gen.Status
/-
  Model of the status-code → exception-class table (`core/http_status_codes.py`) and of the
  exception-alias registry of a (possibly shared) core package
  (`emitters/exceptions_emitter.py`, `visit/exception_visitor.py`).

  What is modelled, branch for branch:
    * `is_error_code` / `is_client_error` / `is_server_error`  (bounds come from `Pog.Gen`)
    * the `if is_client_error … elif is_server_error … else: continue` base-class choice
    * `get_exception_class_name` (table lookup, rename, `Error<code>` fallback)
    * `ExceptionVisitor.visit`  : which codes a spec contributes
    * `ExceptionsEmitter._is_shared_core`, `_update_registry`, `_generate_for_codes`, `emit`
      (as far as the SET of alias classes and the registry file are concerned)

  Abstracted (see the report): a spec is the list `declared` of the numeric response status
  codes of all its operations (`int(resp.status_code)` for the `str.isdigit()` ones); paths are
  already `Path.resolve()`d and split into components; the text of the emitted classes is not
  modelled, only which codes get a class (the class name is `aliasName code`, its base
  `aliasBase code`).
-/
namespace Pog

/-! ## `core/http_status_codes.py` -/

/-- `is_error_code` -/
def isErrorCode (n : Nat) : Bool := decide (Gen.isErrorCodeLo ≤ n) && decide (n < Gen.isErrorCodeHi)
/-- `is_client_error` -/
def isClientError (n : Nat) : Bool := decide (Gen.isClientErrorLo ≤ n) && decide (n < Gen.isClientErrorHi)
/-- `is_server_error` -/
def isServerError (n : Nat) : Bool := decide (Gen.isServerErrorLo ≤ n) && decide (n < Gen.isServerErrorHi)

/-- The base class an alias class derives from. -/
inductive Base where
  | clientError
  | serverError
  deriving DecidableEq, Repr

def Base.name : Base → Str
  | .clientError => "ClientError".toList
  | .serverError => "ServerError".toList

/-- The `if is_client_error(code): … elif is_server_error(code): … else: continue` of both
    `ExceptionVisitor.visit` and `_generate_for_codes`; `none` = `continue` (no class emitted). -/
def aliasBase (code : Nat) : Option Base :=
  if isClientError code then some .clientError
  else if isServerError code then some .serverError
  else none

/-- The chain of `if name == X: return Y` statements of `get_exception_class_name`. -/
def applyRenames (name : Str) : List (Str × Str) → Str
  | [] => name
  | (x, y) :: rest => if name = x then y else applyRenames name rest

/-- `get_exception_class_name`. -/
def aliasName (code : Nat) : Str :=
  match Gen.httpExceptionNames.lookup code with
  | some name => applyRenames name Gen.exceptionRenames
  | none => Gen.exceptionFallbackPrefix ++ natStr code

/-! ## `sorted(...)` and `sorted(set(...))` on status codes -/

def insertNat (x : Nat) : List Nat → List Nat
  | [] => [x]
  | y :: ys => if x ≤ y then x :: y :: ys else y :: insertNat x ys

/-- python `sorted(xs)` for a list of ints (duplicates kept). -/
def sortedNat (l : List Nat) : List Nat := l.foldr insertNat []

def insertUniq (x : Nat) : List Nat → List Nat
  | [] => [x]
  | y :: ys => if x < y then x :: y :: ys else if x = y then y :: ys else y :: insertUniq x ys

/-- python `sorted(set(xs))`. -/
def sortUniq (l : List Nat) : List Nat := l.foldr insertUniq []

/-- The third component returned by `ExceptionVisitor.visit`:
    `sorted([code for code in {all numeric codes} if is_error_code(code)])`. -/
def specCodes (declared : List Nat) : List Nat := sortUniq (declared.filter isErrorCode)

/-- The codes for which a class is emitted by the loop shared by `visit` and
    `_generate_for_codes` (codes outside both ranges hit `continue`). -/
def genFor (codes : List Nat) : List Nat := codes.filter (fun c => (aliasBase c).isSome)

/-! ## `_is_shared_core` -/

/-- A resolved absolute path as its list of components (`[]` is the filesystem root). -/
abbrev Path := List Str

/-- `Path.parent` (the parent of the root is the root). -/
def parentDir (p : Path) : Path := p.dropLast

/-- `_is_shared_core`: `projectRoot = none` stands for `overall_project_root` being `None` or `""`
    (both falsy). -/
def isSharedCore (projectRoot : Option Path) (coreDir : Path) : Bool :=
  match projectRoot with
  | none => false
  | some root => parentDir coreDir == root || parentDir (parentDir coreDir) == root

/-- `_is_shared_core(core_dir, client_package_name)` since the repair of F22: the old heuristic, or - for a client package given
    as its path components below the project root - the core directory is neither the client's directory nor inside it. -/
def isSharedCoreFor (projectRoot : Option Path) (coreDir : Path) (clientPkg : Option Path) : Bool :=
  match projectRoot with
  | none => false
  | some root =>
    parentDir coreDir == root || parentDir (parentDir coreDir) == root ||
      (match clientPkg with
       | some (c :: cs) => !(root ++ (c :: cs)).isPrefixOf coreDir
       | _ => false)

/-! ## the registry -/

/-- What is on disk in the core package: `.exception_registry.json` (client ↦ codes, python dict
    order) and the codes that have a class in `exception_aliases.py`. -/
structure State where
  registry : List (Str × List Nat)
  aliases : List Nat
  deriving DecidableEq, Repr

def State.empty : State := ⟨[], []⟩

/-- One run of `ExceptionsEmitter.emit` into the core package. -/
structure Gen where
  /-- `client_package_name` -/
  client : Option Str
  /-- numeric status codes of all responses of all operations of the spec -/
  declared : List Nat
  /-- the answer of `_is_shared_core(output_dir)` for this run's layout -/
  shared : Bool
  deriving DecidableEq, Repr

/-- python `registry[c] = codes` on an insertion-ordered dict. -/
def regSet (c : Str) (codes : List Nat) : List (Str × List Nat) → List (Str × List Nat)
  | [] => [(c, codes)]
  | (k, v) :: rest => if k = c then (k, codes) :: rest else (k, v) :: regSet c codes rest

/-- `sorted(set().union(*registry.values()))` — the return value of `_update_registry`. -/
def allCodes (reg : List (Str × List Nat)) : List Nat := sortUniq (reg.flatMap (·.2))

/-- `if client_package_name and self._is_shared_core(output_dir)` -/
def Gen.usesRegistry (g : Gen) : Bool :=
  match g.client with
  | some (_ :: _) => g.shared
  | _ => false

/-- `emit`: registry branch (update the registry, regenerate for the union) or plain branch
    (the file is overwritten with this spec's classes only, the registry is not touched). -/
def step (s : State) (g : Gen) : State :=
  match g.client with
  | some (ch :: ct) =>
    if g.shared then
      let reg := regSet (ch :: ct) (sortedNat (specCodes g.declared)) s.registry
      ⟨reg, genFor (allCodes reg)⟩
    else ⟨s.registry, genFor (specCodes g.declared)⟩
  | _ => ⟨s.registry, genFor (specCodes g.declared)⟩

/-- The state of the core package after a history of generations (oldest first). -/
def run (hist : List Gen) : State := hist.foldl step State.empty

/-- The states after every step. -/
def trace (s : State) : List Gen → List State
  | [] => []
  | g :: gs => step s g :: trace (step s g) gs

/-- The status-specific exception classes the generated endpoints of client `c` raise: the error
    codes of the spec of its LATEST generation. -/
def needs (hist : List Gen) (c : Str) : List Nat :=
  match hist.reverse.find? (fun g => decide (g.client = some c)) with
  | some g => specCodes g.declared
  | none => []

end Pog
