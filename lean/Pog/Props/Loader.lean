import Pog.Lemmas.Loader
/-
  Property theorems about the inside of one operation of `parse_operations` (model `Pog/Model/Loader.lean`:
  parameters, request body, the `responses` loop, `parse_response`, `post_process_operation`).
  (To be claimed from C04 / C05 / C06 / C07 / C19 / C20.)

    1  response_status_is_declared_key            full   (C06)  + response_int_key_raises, kept_operation_passes_respError
    2  response_content_keys_preserved            full   (C05)  + dangling_response_ref_is_its_own_node,
                                                                  dangling_bare_response_ref, response_ref_resolves
    3  stream_flag_iff                            full   (C05/C19)
       stream_flag_perm_invariant                 full
       ✗ stream_format_perm_invariant             `stream_format` is NOT invariant under re-ordering of the content mapping
         stream_format_perm_counterexample
         stream_format_perm_partial               (hypothesis: all stream media types of the content agree on the format)
    4  promotion_name_media / promotion_name_response / promotion_name_parameter / promotion_name_body     full (C19/C20)
       respPromoName_eq_iff                       full: two response promotion names coincide iff `opId ++ code` coincide
       promotion_names_differ_unless_prefix       full; promotion_names_injective_same_operation   full
       ✗ promotion_names_injective                FALSE for arbitrary keys and inside ONE response / request body
         promotion_name_collision_arbitrary_keys, promotion_name_collision_same_response,
         promotion_name_collision_request_body, promotion_name_collision_parameters,
         promotion_name_collision_after_sanitize
         promotion_names_injective_partial        (hypothesis: both keys are `default` or digit + two characters)
       response_vs_body_promotion_names_disjoint  full
    5  parameters_order_and_count                 full   (C04/C07) + parameters_carry_operation_id
       parameters_operation_level_wins            full   (C04; F4 repaired: the operation-level parameter overrides the path-level one
                                                          with the same (name, in)) + parameters_override_former_witness (was
                                                          `parameters_not_merged`), parameters_override_is_python_eq
       parameters_no_duplicate_key                full   (C01/C20) no two parsed parameters share (name, in) when neither declared list does
    6  parse_is_local                             full   (C19)  + parse_depends_on_lookups_only
    +  ✗ post_process_names_distinct              `post_process_operation` gives ONE name to different schemas
         post_process_response_name_collision_counterexample, post_process_request_name_collision_counterexample
-/
namespace Pog.LoaderProps
open Pog Pog.Ops Pog.Loader

private def s (x : String) : Str := x.toList

/-- an oracle that never raises and returns an anonymous, non-binary schema -/
def plainOracle : Oracle := fun _ _ => some {}

private def jobj (kvs : List (String × JsonV)) : JsonV := .obj (kvs.map (fun kv => (kv.1.toList, kv.2)))
private def jstr (x : String) : JsonV := .str x.toList

/-- `{"type": "object", "properties": {<p>: {"type": "string"}}}` -/
private def objSchema (p : String) : JsonV :=
  jobj [("type", jstr "object"), ("properties", jobj [(p, jobj [("type", jstr "string")])])]

/-! ## 1. status codes are the declared keys -/

/-- **response_status_is_declared_key** (C06).  For every operation node whose parse does not raise, the status codes
    of the parsed responses are the keys of the `responses` mapping, in order — whatever the entries are: inline
    responses, a `$ref` to one `components.responses` entry used under several keys, a `$ref` to a schema.  (Every
    response is parsed under the key it is DECLARED under; the referenced component has no code of its own.) -/
theorem response_status_is_declared_key (u : UInfo) (orc : Oracle) (c : Comps) (i : OpIn) (out : OpOut)
    (h : parseOp u orc c i = .ok out) :
    i.responses.map (fun p => normKey p.1) = out.responses.map (fun r => StatusKey.strKey r.status) := by
  obtain ⟨_, _, _, _, _, _, resps, _, _, _, _, h4, hout⟩ := parseOp_ok h
  rw [hout]
  have := parseResponses_status h4
  simpa [normResponses, List.map_map, Function.comp_def] using this

/-- One component response used under two keys, plus a schema `$ref` under a third: three responses, under the
    declared keys. -/
example :
    (parseOp UInfo.ascii plainOracle
      { responses := [(s "Err", jobj [("description", jstr "e"),
                                      ("content", jobj [("application/json", jobj [("schema", objSchema "m")])])])] }
      { opId := s "getUser",
        responses := [(.strKey (s "404"), jobj [("$ref", jstr "#/components/responses/Err")]),
                      (.strKey (s "default"), jobj [("$ref", jstr "#/components/responses/Err")]),
                      (.strKey (s "200"), jobj [("$ref", jstr "#/components/schemas/User")])] }).toOption.map
      (fun o => o.responses.map (fun r => (r.status, r.content.map (·.1))))
    = some [(s "404", [s "application/json"]), (s "default", [s "application/json"]), (s "200", [s "application/json"])] := by
  decide +kernel

/-- An unquoted integer key (YAML `200:`) is read as its decimal string (F16 repaired): the parsed status is that string. -/
theorem normKey_int (n : Int) : normKey (.intKey n) = .strKey (toString n).toList := rfl

/-- A key that is neither a string nor an integer (YAML `1.5:`, `true:`) still makes the whole operation raise
    (`code must be a string`): with theorem 1, a kept operation has only string / integer keys. -/
theorem response_bad_key_raises (u : UInfo) (orc : Oracle) (c : Comps) (i : OpIn) (r : Str) (node : JsonV)
    (hm : (StatusKey.badKey r, node) ∈ i.responses) : ∀ out, parseOp u orc c i ≠ .ok out := by
  intro out h
  have h1 := response_status_is_declared_key u orc c i out h
  have : normKey (StatusKey.badKey r) ∈ i.responses.map (fun p => normKey p.1) := List.mem_map.mpr ⟨_, hm, rfl⟩
  rw [h1] at this
  obtain ⟨x, _, hx⟩ := List.mem_map.mp this
  cases hx

theorem respError_normKey (opId : Str) (ks : List StatusKey) :
    Ops.respError opId (ks.map normKey) = Ops.respError opId ks := by
  induction ks with
  | nil => rfl
  | cons k rest ih =>
    cases k with
    | strKey t => simp only [List.map_cons, normKey, Ops.respError, ih]
    | intKey n => simp only [List.map_cons, normKey, Ops.respError, ih]
    | badKey r => simp only [List.map_cons, normKey, Ops.respError]

/-- Link with the control skeleton (`Pog.Ops.parseOne`): an operation this model keeps passes the response-key check
    `Ops.respError` of that model (no float / bool / null key, no empty id with responses). -/
theorem kept_operation_passes_respError (u : UInfo) (orc : Oracle) (c : Comps) (i : OpIn) (out : OpOut)
    (h : parseOp u orc c i = .ok out) : Ops.respError i.opId (i.responses.map (·.1)) = none := by
  obtain ⟨_, _, _, _, _, _, _, _, _, _, _, h4, _⟩ := parseOp_ok h
  have := parseResponses_respError h4
  rw [← respError_normKey]
  simpa [normResponses, List.map_map, Function.comp_def] using this

/-! ## 2. content keys -/

/-- **response_content_keys_preserved** (C05).  Each parsed response has, in order, exactly the media types of the
    content mapping of its RESOLVED node (`ContentKeysOf`: `resolveResponse` of the declared node is a mapping whose
    `content` member — absent = empty — lists them). -/
theorem response_content_keys_preserved (u : UInfo) (orc : Oracle) (c : Comps) (i : OpIn) (out : OpOut)
    (h : parseOp u orc c i = .ok out) :
    out.responses.length = i.responses.length ∧
      ∀ p ∈ (normResponses i.responses).zip out.responses, ContentKeysOf c.responses p.1 p.2 := by
  obtain ⟨_, _, _, _, _, _, resps, _, _, _, _, h4, hout⟩ := parseOp_ok h
  rw [hout]
  have := parseResponses_content_keys h4
  exact ⟨by simpa [normResponses] using this.1, this.2⟩

/-- A `$ref` into `components.responses` resolves to the table entry exactly when that entry exists and is TRUTHY. -/
theorem response_ref_resolves (tbl : List (Str × JsonV)) (kvs : List (Str × JsonV)) (r : Str) (v : JsonV)
    (h1 : aget kvs "$ref".toList = some (.str r)) (h2 : startsWith r respPrefix = true)
    (h3 : aget tbl (lastSeg r) = some v) (h4 : pyTruthy v = true) :
    resolveResponse tbl (.obj kvs) = v := by
  rw [resolveResponse_ref h1 h2, refOr_truthy _ h3 h4]

/-- What the code does with a DANGLING `#/components/responses/X` (no entry `X`, or a falsy one such as `{}`): because of
    `raw_responses.get(ref_name, {}) or rn_node` the `$ref` node ITSELF is parsed as the response — no exception, no
    warning; its content is whatever `content` sibling the `$ref` node happens to have. -/
theorem dangling_response_ref_is_its_own_node (tbl : List (Str × JsonV)) (kvs : List (Str × JsonV)) (r : Str)
    (h1 : aget kvs "$ref".toList = some (.str r)) (h2 : startsWith r respPrefix = true)
    (h3 : aget tbl (lastSeg r) = none ∨ ∃ v, aget tbl (lastSeg r) = some v ∧ pyTruthy v = false) :
    resolveResponse tbl (.obj kvs) = .obj kvs := by
  rw [resolveResponse_ref h1 h2]
  rcases h3 with h3 | ⟨v, h3, h4⟩
  · exact refOr_none _ h3
  · exact refOr_falsy _ h3 h4

/-- … so a bare dangling reference silently becomes a response WITHOUT content (not streaming, no schema request). -/
theorem dangling_bare_response_ref (u : UInfo) (orc : Oracle) (tbl : List (Str × JsonV)) (opId code r : Str)
    (hop : opId ≠ []) (h2 : startsWith r respPrefix = true) (h3 : aget tbl (lastSeg r) = none) :
    parseResponse u orc opId (.strKey code) (resolveResponse tbl (.obj [("$ref".toList, .str r)]))
      = .ok (⟨code, [], false, none⟩, []) := by
  have h1 : aget [("$ref".toList, JsonV.str r)] "$ref".toList = some (.str r) := by simp [aget]
  rw [dangling_response_ref_is_its_own_node tbl _ r h1 h2 (Or.inl h3)]
  have hc : contentOf [("$ref".toList, JsonV.str r)] = .ok [] := by
    simp only [contentOf, aget]
    rw [if_neg (by decide)]
  rw [parseResponse_eq u orc opId code _ [] hop hc]
  rfl

example : resolveResponse [(s "E", .obj [])] (jobj [("$ref", jstr "#/components/responses/E")])
    = jobj [("$ref", jstr "#/components/responses/E")] := by decide +kernel

/-! ## 3. the stream flag -/

/-- **stream_flag_iff** (C05/C19).  `stream` is set iff some media type of the response, lower-cased, is a key of the
    (generated) `STREAM_FORMATS` table, or some content schema came back with `format == "binary"`.
    (`stream_table_values_truthy`, by `decide` over the table, is what makes `if fmt:` equivalent to "is a key".) -/
theorem stream_flag_iff (u : UInfo) (orc : Oracle) (opId : Str) (sc : StatusKey) (node : JsonV) (r : IRResp)
    (ev : List Event) (h : parseResponse u orc opId sc node = .ok (r, ev)) :
    r.stream = true ↔
      (∃ e ∈ r.content, u.lowerS e.1 ∈ Pog.Gen.streamFormats.map (·.1)) ∨ (∃ e ∈ r.content, e.2.isBinary = true) := by
  obtain ⟨code, kvs, c, content, _, _, _, _, _, hr, _⟩ := parseResponse_ok h
  rw [hr]
  simp only [streamOf_flag, Bool.or_eq_true, List.any_eq_true, streamLookup_isSome_iff]

example : (parseResponse UInfo.ascii plainOracle (s "op") (.strKey (s "200"))
    (jobj [("content", jobj [("Text/Event-Stream", jobj [])])])).toOption.map (fun x => (x.1.stream, x.1.streamFormat))
    = some (true, some (s "event-stream")) := by decide +kernel

/-- The FLAG does not depend on the order of the content mapping: a permuted mapping is accepted iff the original is,
    and yields the same status, the same flag and the permuted content. -/
theorem stream_flag_perm_invariant (u : UInfo) (orc : Oracle) (opId code : Str) (c c' : List (Str × JsonV))
    (hp : c.Perm c') (r : IRResp) (ev : List Event) (h : respOfContent u orc opId code c = .ok (r, ev)) :
    ∃ r' ev', respOfContent u orc opId code c' = .ok (r', ev') ∧ r'.status = r.status ∧ r'.stream = r.stream ∧
      r.content.Perm r'.content := by
  unfold respOfContent at h
  split at h
  · cases h
  · rename_i content hc
    injection h with h
    injection h with h1 _
    obtain ⟨content', hc', hperm⟩ := respContent_perm hp hc
    refine ⟨⟨code, content', (streamOf u content').1, (streamOf u content').2⟩, contentEvents content', ?_, ?_, ?_, ?_⟩
    · simp only [respOfContent, hc']
    · rw [← h1]
    · rw [← h1]; exact (streamOf_flag_perm u hperm).symm
    · rw [← h1]; exact hperm

/-- ✗ **stream_format_perm_invariant** is FALSE: `stream_format` is taken from the LAST stream media type of the mapping.
    `{octet-stream, event-stream}` gives `event-stream`, the same mapping written the other way round gives
    `octet-stream`.  (Nothing downstream reads `IRResponse.stream_format`: the only other occurrence in the repository is
    the field declaration in `ir.py` — the generators branch on `stream` and on the media type — so the order dependence
    is not observable in generated code.) -/
theorem stream_format_perm_counterexample :
    let c : List (Str × JsonV) := [(s "application/octet-stream", .obj []), (s "text/event-stream", .obj [])]
    c.Perm c.reverse ∧
    (respOfContent UInfo.ascii plainOracle (s "op") (s "200") c).toOption.map (·.1.streamFormat)
      = some (some (s "event-stream")) ∧
    (respOfContent UInfo.ascii plainOracle (s "op") (s "200") c.reverse).toOption.map (·.1.streamFormat)
      = some (some (s "octet-stream")) :=
  ⟨(List.reverse_perm _).symm, by decide +kernel, by decide +kernel⟩

/-- **stream_format_perm_partial**: when all stream media types present agree on the format (in particular when there
    is at most one), `stream_format` is order independent too. -/
theorem stream_format_perm_partial (u : UInfo) (orc : Oracle) (opId code : Str) (c c' : List (Str × JsonV))
    (hp : c.Perm c') (r r' : IRResp) (ev ev' : List Event)
    (h : respOfContent u orc opId code c = .ok (r, ev)) (h' : respOfContent u orc opId code c' = .ok (r', ev'))
    (hu : ∀ f ∈ r.content.filterMap (fun e => streamLookup u e.1),
          ∀ g ∈ r.content.filterMap (fun e => streamLookup u e.1), f = g) :
    r'.streamFormat = r.streamFormat ∧ r'.stream = r.stream := by
  unfold respOfContent at h h'
  split at h
  · cases h
  · rename_i content hc
    split at h'
    · cases h'
    · rename_i content' hc'
      injection h with h; injection h with h1 _
      injection h' with h'; injection h' with h1' _
      obtain ⟨content'', hc'', hperm⟩ := respContent_perm hp hc
      rw [hc'] at hc''
      injection hc'' with hc''
      subst hc''
      rw [← h1] at hu
      have := streamOf_format_perm u hperm hu
      rw [← h1, ← h1']
      simp only [this, and_self]

example : ∀ f ∈ ([(s "application/json", ContentEntry.placeholder), (s "text/event-stream", .placeholder)]).filterMap
      (fun e => streamLookup UInfo.ascii e.1),
    ∀ g ∈ ([(s "application/json", ContentEntry.placeholder), (s "text/event-stream", .placeholder)]).filterMap
      (fun e => streamLookup UInfo.ascii e.1), f = g := by decide +kernel

/-! ## 4. promotion names -/

/-- **promotion_name_media** (C19/C20).  The request made for one media node of a response carries the promotion name
    `promo` exactly when the media node is not itself a schema `$ref` and its `schema` is an inline object-like node
    (`objLike`); every other request is anonymous. -/
theorem promotion_name_media (orc : Oracle) (promo : Str) (mn : JsonV) (req : ParseReq) (out : ParseOut)
    (h : respMedia orc promo mn = .ok (.parsed req out)) :
    (req.name = some promo ↔ (mediaIsSchemaRef mn = .ok false ∧ objLike req.node = true)) ∧
    (req.name = none ∨ req.name = some promo) := by
  rcases mediaReq_some (respMedia_parsed h).1 with ⟨hr, hreq⟩ | ⟨hr, kvs, _, _, hname⟩
  · subst hreq
    refine ⟨⟨fun e => (by cases e), fun ⟨e, _⟩ => ?_⟩, Or.inl rfl⟩
    rw [hr] at e
    cases e
  · cases ho : objLike req.node with
    | false =>
      rw [ho] at hname
      refine ⟨⟨fun e => ?_, fun ⟨_, e⟩ => (by cases e)⟩, Or.inl hname⟩
      rw [hname] at e; cases e
    | true =>
      rw [ho] at hname
      exact ⟨⟨fun _ => ⟨hr, rfl⟩, fun _ => hname⟩, Or.inr hname⟩

/-- **promotion_name_response**: inside `parse_response(code, …, opId)` every request comes from a media node of the
    content mapping under the same media type, and `promo` is `opId ++ code ++ "Response"` (`respPromoName`). -/
theorem promotion_name_response (u : UInfo) (orc : Oracle) (opId code : Str) (node : JsonV) (r : IRResp)
    (ev : List Event) (h : parseResponse u orc opId (.strKey code) node = .ok (r, ev))
    (mt : Str) (req : ParseReq) (out : ParseOut) (hm : (mt, ContentEntry.parsed req out) ∈ r.content) :
    ∃ kvs c mn, node = .obj kvs ∧ contentOf kvs = .ok c ∧ (mt, mn) ∈ c ∧
      respMedia orc (respPromoName opId code) mn = .ok (.parsed req out) ∧
      (req.name = some (respPromoName opId code) ↔ (mediaIsSchemaRef mn = .ok false ∧ objLike req.node = true)) ∧
      (req.name = none ∨ req.name = some (respPromoName opId code)) := by
  obtain ⟨code', kvs, c, content, hsc, hnode, _, hc, hcont, hr, _⟩ := parseResponse_ok h
  injection hsc with hsc
  subst hsc
  rw [hr] at hm
  obtain ⟨mn, hmn, hmedia⟩ := respContent_mem hcont hm
  have := promotion_name_media orc _ mn req out hmedia
  exact ⟨kvs, c, mn, hnode, hc, hmn, hmedia, this.1, this.2⟩

example : (respMedia plainOracle (respPromoName (s "getUser") (s "200")) (jobj [("schema", objSchema "a")])).toOption.map
    (fun e => e.req.map (·.name)) = some (some (some (s "getUser200Response"))) := by decide +kernel

/-- **promotion_name_parameter**: a parameter schema is requested under `{opId}Param{SanitizedName}`
    (`paramPromoName`; without the `{opId}Param` prefix when the id is empty) exactly when it is an inline object-like node,
    anonymously otherwise; the promoted item enum of an "array of string enums" parameter is registered under
    `{opId}Param{SanitizedName}Item` (and named `sanitize_class_name` of that) when the parameter name is truthy. -/
theorem promotion_name_parameter (orc : Oracle) (opId : Str) (node : JsonV) (p : IRParam) (ev : List Event)
    (h : parseParam orc opId node = .ok (p, ev)) :
    (∀ req, p.schema = .parsed req →
      ev = [.parse req] ∧
      ((objLike req.node = true ∧ ∃ n, p.name = .str n ∧ req.name = some (paramPromoName opId n)) ∨
       (objLike req.node = false ∧ req.name = none))) ∧
    (∀ k it, p.schema = .enumArray k it →
      it = k.map sanClass ∧
      ((pyTruthy p.name = true ∧ ∃ n, p.name = .str n ∧ k = some (paramEnumName opId n) ∧
          ev = [.regEnum (paramEnumName opId n)]) ∨
       (pyTruthy p.name = false ∧ k = none ∧ ev = []))) := by
  obtain ⟨kvs, pname, sc, _, _, hs, hp⟩ := parseParam_ok h
  subst hp
  constructor
  · intro req hreq
    simp only at hreq
    subst hreq
    obtain ⟨h1, h2, _, h4⟩ := paramSchema_parsed hs
    rw [h1]
    exact ⟨h2, h4⟩
  · intro k it hk
    simp only at hk
    subst hk
    obtain ⟨_, h2, h3⟩ := paramSchema_enumArray hs
    exact ⟨h2, h3⟩

example : (parseParam plainOracle (s "listPets") (jobj [("name", jstr "filter-by"), ("schema", objSchema "a")])).toOption.map
    (fun x => x.2) = some [.parse ⟨some (s "listPetsParamFilterBy"), objSchema "a"⟩] := by decide +kernel

/-- **promotion_name_body**: every media type of a request body is requested under `{opId}RequestBody` when its schema
    is an inline object-like node, anonymously otherwise. -/
theorem promotion_name_body (orc : Oracle) (promo : Str) (media : JsonV) (req : ParseReq) (out : ParseOut)
    (h : bodyMedia orc promo media = .ok (req, out)) :
    req.name = if objLike req.node then some promo else none := by
  unfold bodyMedia at h
  split at h
  · simp only at h
    split at h
    · cases h
    · injection h with h; injection h with h _; subst h; rfl
  · cases h

/-- Two response promotion names coincide exactly when the concatenations `opId ++ code` do. -/
theorem respPromoName_eq_iff (a c a' c' : Str) : respPromoName a c = respPromoName a' c' ↔ a ++ c = a' ++ c' :=
  Pog.Loader.respPromoName_eq_iff a c a' c'

/-- ✗ **promotion_names_injective** (different (operation, response, media type) ⇒ different requested name) is FALSE.
    (a) The loader never validates the keys of `responses`, and `(a, 200)` / `(a2, 00)` concatenate to the same text. -/
theorem promotion_name_collision_arbitrary_keys :
    respPromoName (s "a") (s "200") = respPromoName (s "a2") (s "00") ∧ (s "a", s "200") ≠ (s "a2", s "00") := by
  decide

/-- (b) inside ONE response the media type is not part of the name: two different inline object schemas under
    `application/json` and `application/xml` are both requested as `op200Response`. -/
theorem promotion_name_collision_same_response :
    (parseResponse UInfo.ascii plainOracle (s "op") (.strKey (s "200"))
      (jobj [("content", jobj [("application/json", jobj [("schema", objSchema "a")]),
                               ("application/xml", jobj [("schema", objSchema "b")])])])).toOption.map (·.2)
      = some [.parse ⟨some (s "op200Response"), objSchema "a"⟩, .parse ⟨some (s "op200Response"), objSchema "b"⟩] ∧
    objSchema "a" ≠ objSchema "b" := by
  decide +kernel

/-- (c) the same for the media types of a request body (`opRequestBody` twice). -/
theorem promotion_name_collision_request_body :
    (parseBody plainOracle [] (s "op")
      (jobj [("content", jobj [("application/json", jobj [("schema", objSchema "a")]),
                               ("multipart/form-data", jobj [("schema", objSchema "b")])])])).toOption.map (·.2)
      = some [.parse ⟨some (s "opRequestBody"), objSchema "a"⟩, .parse ⟨some (s "opRequestBody"), objSchema "b"⟩] := by
  decide +kernel

/-- (d) parameters: the name goes through `sanitize_class_name`, `a-b` and `a_b` (or a path-level and an operation-level
    parameter of the same name) meet. -/
theorem promotion_name_collision_parameters :
    paramPromoName (s "op") (s "a-b") = paramPromoName (s "op") (s "a_b") ∧ s "a-b" ≠ s "a_b" := by
  decide +kernel

/-- (e) and the requested name is itself sanitised by `_parse_schema` / `IRSchema.__post_init__`: operation ids that
    differ only in word separators request DIFFERENT names that become the SAME class name. -/
theorem promotion_name_collision_after_sanitize :
    respPromoName (s "get_user") (s "200") ≠ respPromoName (s "getUser") (s "200") ∧
    sanClass (respPromoName (s "get_user") (s "200")) = sanClass (respPromoName (s "getUser") (s "200")) := by
  decide +kernel

/-- **promotion_names_injective_partial**: for keys OpenAPI allows — `default`, or a digit followed by two characters
    (`200`, `2XX`) — the response promotion name determines both the operation id and the key. -/
theorem promotion_names_injective_partial (a c a' c' : Str) (hc : isStatusKey c = true) (hc' : isStatusKey c' = true)
    (h : respPromoName a c = respPromoName a' c') : a = a' ∧ c = c' :=
  respPromoName_inj_status hc hc' h

example : isStatusKey (s "2XX") = true ∧ isStatusKey (s "default") = true ∧ isStatusKey (s "404") = true := by decide

/-- Two different operations can only request the same response name when one operation id is a prefix of the other. -/
theorem promotion_names_differ_unless_prefix (a c a' c' : Str) (h : respPromoName a c = respPromoName a' c') :
    a <+: a' ∨ a' <+: a :=
  respPromoName_prefix h

/-- Inside one operation, responses declared under different keys request different names. -/
theorem promotion_names_injective_same_operation (a c c' : Str) (h : respPromoName a c = respPromoName a c') : c = c' :=
  respPromoName_inj_same_op h

/-- A response promotion name is never a request-body promotion name (`…Response` / `…RequestBody`). -/
theorem response_vs_body_promotion_names_disjoint (a c a' : Str) : respPromoName a c ≠ rbPromoName a' :=
  respPromo_ne_rbPromo a c a'

/-! ## 5. parameters -/

/-- **parameters_order_and_count** (C04/C07).  Both parameter lists of a kept operation are parsed, one `IRParameter` per
    declared node, each carrying `node["name"]` of its (resolved) node; the parameters of the operation are the path-level
    ones that no operation-level parameter overrides (`mergeParams`: same `name` and same `in`), in order, followed by ALL
    the operation-level ones, in order - a sub-list of the plain concatenation, nothing re-ordered, and exactly the
    concatenation when no operation-level parameter repeats a path-level (name, in). -/
theorem parameters_order_and_count (u : UInfo) (orc : Oracle) (c : Comps) (i : OpIn) (out : OpOut)
    (h : parseOp u orc c i = .ok out) :
    ∃ base ev1 own ev2,
      parseParams orc c.parameters i.opId i.pathParams = .ok (base, ev1) ∧
      parseParams orc c.parameters i.opId i.params = .ok (own, ev2) ∧
      out.params = mergeParams base own ∧ base.length = i.pathParams.length ∧ own.length = i.params.length ∧
      (base ++ own).map (·.name) = (i.pathParams ++ i.params).map (paramNameOf c.parameters) ∧
      out.params.Sublist (base ++ own) ∧ own <:+ out.params ∧
      ((∀ p ∈ base, ∀ q ∈ own, sameParamKey p q = false) → out.params = base ++ own) := by
  obtain ⟨base, ev1, own, ev2, _, _, _, _, h1, h2, _, _, hout⟩ := parseOp_ok h
  refine ⟨base, ev1, own, ev2, h1, h2, by rw [hout], parseParams_length h1, parseParams_length h2, ?_, ?_, ?_, ?_⟩
  · simp only [List.map_append, parseParams_names h1, parseParams_names h2]
  · rw [hout]; exact mergeParams_sublist base own
  · rw [hout]; exact mergeParams_suffix base own
  · intro hd; rw [hout]; exact mergeParams_of_distinct hd

/-- Each parameter is parsed with THIS operation's id: a named schema request of a parameter is
    `{opId}Param{SanitizedName}` of that very parameter. -/
theorem parameters_carry_operation_id (u : UInfo) (orc : Oracle) (c : Comps) (i : OpIn) (out : OpOut)
    (h : parseOp u orc c i = .ok out) :
    ∀ p ∈ out.params, ∀ req, p.schema = .parsed req →
      req.name = none ∨ ∃ n, p.name = .str n ∧ req.name = some (paramPromoName i.opId n) := by
  obtain ⟨base, ev1, own, ev2, _, _, _, _, h1, h2, _, _, hout⟩ := parseOp_ok h
  intro p hp req hreq
  rw [hout] at hp
  have : ∃ node ev, parseParam orc i.opId node = .ok (p, ev) := by
    rcases mem_mergeParams.mp hp with ⟨hp, _⟩ | hp
    · exact parseParams_mem h1 p hp
    · exact parseParams_mem h2 p hp
  obtain ⟨node, ev, hpp⟩ := this
  rcases ((promotion_name_parameter orc i.opId node p ev hpp).1 req hreq).2 with ⟨_, n, hn, hr⟩ | ⟨_, hr⟩
  · exact Or.inr ⟨n, hn, hr⟩
  · exact Or.inl hr

/-- **parameters_operation_level_wins** (F4 repaired; OpenAPI: "a parameter at the operation level overrides the one of the
    path item with the same name and location").  Every operation-level parameter is a parameter of the operation; a
    path-level one is exactly when NO operation-level parameter has its (name, in) (Python `==` on both). -/
theorem parameters_operation_level_wins (u : UInfo) (orc : Oracle) (c : Comps) (i : OpIn) (out : OpOut)
    (h : parseOp u orc c i = .ok out) :
    ∃ base ev1 own ev2,
      parseParams orc c.parameters i.opId i.pathParams = .ok (base, ev1) ∧
      parseParams orc c.parameters i.opId i.params = .ok (own, ev2) ∧
      (∀ p ∈ own, p ∈ out.params) ∧
      (∀ p ∈ base, (∀ q ∈ own, sameParamKey p q = false) → p ∈ out.params) ∧
      (∀ p ∈ out.params, p ∈ own ∨ (p ∈ base ∧ ∀ q ∈ own, sameParamKey p q = false)) := by
  obtain ⟨base, ev1, own, ev2, _, _, _, _, h1, h2, _, _, hout⟩ := parseOp_ok h
  refine ⟨base, ev1, own, ev2, h1, h2, ?_, ?_, ?_⟩
  · intro p hp; rw [hout]; exact mem_mergeParams.mpr (Or.inr hp)
  · intro p hp hd; rw [hout]; exact mem_mergeParams.mpr (Or.inl ⟨hp, hd⟩)
  · intro p hp
    rw [hout] at hp
    rcases mem_mergeParams.mp hp with hb | ho
    · exact Or.inr hb
    · exact Or.inl ho

/-- The declared nodes of one `parameters` list have pairwise different (name, in): `node["name"]` /
    `node.get("in", "query")` of the RESOLVED nodes, compared as Python compares them (`pyEqJ`). -/
def DeclKeysDistinct (tbl : List (Str × JsonV)) (ps : List JsonV) : Prop :=
  ps.Pairwise (fun a b =>
    (pyEqJ (paramNameOf tbl a) (paramNameOf tbl b) && pyEqJ (paramInOf tbl a) (paramInOf tbl b)) = false)

/-- **parameters_no_duplicate_key** (C01/C20; F4 repaired).  When neither the path-level list nor the operation-level list
    declares one (name, in) twice (what OpenAPI demands of each list), the parsed parameter list of a kept operation has no
    two entries with the same (name, in) - whatever the two lists share with each other.  (Before the repair the lists
    were concatenated: a parameter declared at both levels was there twice and the emitted `def` had a duplicate argument.) -/
theorem parameters_no_duplicate_key (u : UInfo) (orc : Oracle) (c : Comps) (i : OpIn) (out : OpOut)
    (h : parseOp u orc c i = .ok out)
    (hb : DeclKeysDistinct c.parameters i.pathParams) (ho : DeclKeysDistinct c.parameters i.params) :
    out.params.Pairwise (fun a b => sameParamKey a b = false) := by
  obtain ⟨base, ev1, own, ev2, _, _, _, _, h1, h2, _, _, hout⟩ := parseOp_ok h
  have key : ∀ {ps : List JsonV} {l : List IRParam} {ev : List Event},
      parseParams orc c.parameters i.opId ps = .ok (l, ev) → DeclKeysDistinct c.parameters ps →
      l.Pairwise (fun a b => sameParamKey a b = false) := by
    intro ps l ev hp hd
    have hk := parseParams_keys hp
    have h1 : (l.map (fun p => (p.name, p.pin))).Pairwise
        (fun (a b : JsonV × JsonV) => (pyEqJ a.1 b.1 && pyEqJ a.2 b.2) = false) := by
      rw [hk]
      exact List.pairwise_map.mpr hd
    exact List.pairwise_map.mp h1
  rw [hout]
  exact mergeParams_pairwise (key h1 hb) (key h2 ho)

/-- The hypotheses are satisfiable with an override present: `id`/path at both levels, plus an operation-level `id`/query. -/
example :
    let pl := [jobj [("name", jstr "id"), ("in", jstr "path"), ("schema", jobj [("type", jstr "string")])]]
    let ol := [jobj [("name", jstr "id"), ("in", jstr "path"), ("schema", jobj [("type", jstr "integer")])],
               jobj [("name", jstr "id"), ("schema", jobj [("type", jstr "string")])]]
    DeclKeysDistinct [] pl ∧ DeclKeysDistinct [] ol ∧
    (parseOp UInfo.ascii plainOracle {} { opId := s "getUser", pathParams := pl, params := ol }).toOption.map
      (fun o => o.params.map (fun p => (p.name, p.pin)))
      = some [(jstr "id", jstr "path"), (jstr "id", jstr "query")] := by
  refine ⟨?_, ?_, by decide +kernel⟩
  · exact List.pairwise_singleton _ _
  · refine List.Pairwise.cons ?_ (List.pairwise_singleton _ _)
    intro b hb
    rw [List.mem_singleton.mp hb]
    decide +kernel

/-- The FORMER WITNESS of F4 (was `parameters_not_merged`: both entries were in the result): the operation-level `id`/path
    replaces the path-level one - one entry, carrying the operation-level schema. -/
theorem parameters_override_former_witness :
    (parseOp UInfo.ascii plainOracle {}
      { opId := s "getUser",
        pathParams := [jobj [("name", jstr "id"), ("in", jstr "path"), ("schema", jobj [("type", jstr "string")])]],
        params := [jobj [("name", jstr "id"), ("in", jstr "path"), ("schema", jobj [("type", jstr "integer")])]] }).toOption.map
      (fun o => o.params.map (fun p => (p.name, p.pin, p.schema)))
    = some [(jstr "id", jstr "path", .parsed ⟨none, jobj [("type", jstr "integer")]⟩)] := by
  decide +kernel

/-- The comparison is Python's `==`: the same name in ANOTHER location is a different parameter (both are kept), and
    `name: true` / `name: 1` are the same key. -/
theorem parameters_override_is_python_eq :
    (parseOp UInfo.ascii plainOracle {}
      { opId := s "op",
        pathParams := [jobj [("name", jstr "id"), ("in", jstr "path")], jobj [("name", .bool true), ("in", jstr "query")]],
        params := [jobj [("name", jstr "id")], jobj [("name", .int 1)]] }).toOption.map
      (fun o => o.params.map (fun p => (p.name, p.pin)))
    = some [(jstr "id", jstr "path"), (jstr "id", jstr "query"), (.int 1, jstr "query")] := by
  decide +kernel

/-! ## 6. locality -/

/-- The component tables are read only by looking up the referenced names. -/
theorem parse_depends_on_lookups_only (u : UInfo) (orc : Oracle) (c c' : Comps) (i : OpIn)
    (h1 : ∀ k, aget c.parameters k = aget c'.parameters k)
    (h2 : ∀ k, aget c.responses k = aget c'.responses k)
    (h3 : ∀ k, aget c.requestBodies k = aget c'.requestBodies k) :
    parseOp u orc c i = parseOp u orc c' i :=
  parseOp_congr u orc c c' i h1 h2 h3

/-- **parse_is_local** (C19).  What is computed for one operation is a function of its node, the path-level parameter
    list, its id, the component tables AS MAPPINGS and the results of the `_parse_schema` calls it makes: re-ordering
    the entries of `components.parameters`, `components.responses`, `components.requestBodies` (distinct keys) changes
    nothing.  (The opaque `_parse_schema` results — the `Oracle` — are NOT local: they depend on the registry state left
    by the operations parsed before; that dependence is the subject of the parser model.) -/
theorem parse_is_local (u : UInfo) (orc : Oracle) (c c' : Comps) (i : OpIn)
    (hp : c.parameters.Perm c'.parameters) (hpn : (c.parameters.map (·.1)).Nodup)
    (hr : c.responses.Perm c'.responses) (hrn : (c.responses.map (·.1)).Nodup)
    (hb : c.requestBodies.Perm c'.requestBodies) (hbn : (c.requestBodies.map (·.1)).Nodup) :
    parseOp u orc c i = parseOp u orc c' i :=
  parseOp_congr u orc c c' i (aget_perm hp hpn) (aget_perm hr hrn) (aget_perm hb hbn)

example : ([(s "A", JsonV.null), (s "B", JsonV.null)]).Perm [(s "B", JsonV.null), (s "A", JsonV.null)] ∧
    (([(s "A", JsonV.null), (s "B", JsonV.null)]).map (·.1)).Nodup :=
  ⟨List.Perm.swap _ _ _, by decide⟩

/-! ## + the post-processor -/

/-- an oracle returning an anonymous object schema with properties -/
def objOracle : Oracle := fun _ _ => some { objProps := true }

/-- ✗ **post_process_names_distinct** is FALSE.  Two responses (`200`, `201`) whose anonymous schemas are objects with
    properties are BOTH renamed `{OpId}Response` by `post_process_operation`, and `parsed_schemas["OpResponse"]` is
    written twice: the second schema replaces the first in the registry. -/
theorem post_process_response_name_collision_counterexample :
    ((parseOp UInfo.ascii objOracle {}
      { opId := s "op",
        responses := [(.strKey (s "200"), jobj [("content", jobj [("application/json", jobj [("schema", jobj [("$ref", jstr "#/components/schemas/A")])])])]),
                      (.strKey (s "201"), jobj [("content", jobj [("application/json", jobj [("schema", jobj [("$ref", jstr "#/components/schemas/B")])])])])] }).toOption.map
      (postProcess (s "op")))
    = some { bodyNames := [],
             respNames := [(s "200", [(s "application/json", some (s "OpResponse"))]),
                           (s "201", [(s "application/json", some (s "OpResponse"))])],
             events := [.regSet (s "OpResponse"), .regSet (s "OpResponse")] } := by
  decide +kernel

/-- … and every anonymous content schema of a request body is renamed `{OpId}Request`, whatever its media type. -/
theorem post_process_request_name_collision_counterexample :
    ((parseOp UInfo.ascii plainOracle {}
      { opId := s "op",
        requestBody := some (jobj [("content", jobj [("application/json", jobj [("schema", jobj [("type", jstr "string")])]),
                                                     ("text/plain", jobj [("schema", jobj [("type", jstr "integer")])])])]) }).toOption.map
      (postProcess (s "op")))
    = some { bodyNames := [(s "application/json", some (s "OpRequest")), (s "text/plain", some (s "OpRequest"))],
             respNames := [],
             events := [.regSet (s "OpRequest"), .regSet (s "OpRequest")] } := by
  decide +kernel

end Pog.LoaderProps
