#!/venv/bin/python
"""ClientGen: correspondence of the Lean model `Pog/Model/ClientGen.lean` with the real `ClientVisitor`
(src/pyopenapi_gen/visit/client_visitor.py), and the direct oracle.

run()     real python vs compiled Lean driver on the same inputs
  V  `ClientVisitor().visit(spec, RenderContext)` on random tag assignments: the `tag_tuples` it computes, the sequence of
     import requests it makes on the context, the skeleton of `APIClientProtocol` / `APIClient` read off the RETURNED TEXT
     (line reader of the CodeWriter layout, and CPython's `ast` when the text compiles), "does imports + text compile",
     which `@property` definitions survive in the finished class (the class body is executed with stub tag clients)
                                                                         vs  cgVisit
  M  `generate_client_mock_class` (a) on the visitor's tuples, (b) inside the REAL `MocksEmitter.emit` (only the leaf
     `generate_endpoint_mock_class` is a stub): tuples, skeleton of `MockAPIClient`, default mocks, import lines, compiles
                                                                         vs  cgMockTuples / cgMock
  A  `ClientVisitor._tag_attr_name` (F64 repaired: the name under which a tag client is exposed; a module name that collides
     with one of the client's own members gets a trailing underscore) on the module names of all cases, the own member names
     and their `_`-variants                                              vs  cgTagAttr
oracle()  the properties themselves on the real visitor (no Lean): every tag of every operation is reachable as a property
          of a constructed `APIClient` and yields the tag client of its group; property names are identifiers distinct from the
          client's own names; Protocol / APIClient / MockAPIClient expose the same properties; `mock_client.py` compiles.
          The tag client of a group is looked up under the name of the i-th `@property` of the generated `APIClient` (the i-th
          tuple), never under a name derived here.
          F64 (a tag named like one of APIClient's own members: request, close, transport, base_url, self) is REPAIRED: the
          inputs are still generated (pool OWN, HAND), the classes property-shadowed-by-method,
          property-named-like-instance-attribute, mock-client-self-argument and - for ASCII tags - tag-client-unreachable,
          api-client-construction-fails, private-attr-collision, duplicate-property-name map to no finding any more.
          What is left (reported as a new finding by the F64 work package, classes with the suffix `-nonascii`): two tags with
          different keys whose module names coincide or differ by a leading underscore only through non-ASCII characters
          (`aé`/`a`, `ké`/`_K`), and module names that CPython's NFKC normalisation of identifiers changes (`ﬁ`).
"""
from __future__ import annotations

import ast
import json
import os
import random
import re
import shutil
import subprocess
import sys
import tempfile
import unicodedata

HERE = os.path.dirname(os.path.abspath(__file__))

# ------------------------------------------------------------------------------------------------ helpers


class _Scratch:
    def __init__(self, tag: str):
        self.tag = tag

    def __enter__(self):
        base = os.environ.get("VERIF_SCRATCH_DIR", "/tmp")
        os.makedirs(base, exist_ok=True)
        self.dir = tempfile.mkdtemp(prefix=f"cgen_{self.tag}_", dir=base)
        self.tmp = os.path.join(self.dir, "tmp")
        os.makedirs(self.tmp)
        self.old_tempdir = tempfile.tempdir
        self.old_env = os.environ.get("TMPDIR")
        tempfile.tempdir = self.tmp
        os.environ["TMPDIR"] = self.tmp
        return self

    def __exit__(self, *exc):
        tempfile.tempdir = self.old_tempdir
        if self.old_env is None:
            os.environ.pop("TMPDIR", None)
        else:
            os.environ["TMPDIR"] = self.old_env
        shutil.rmtree(self.dir, ignore_errors=True)
        return False


def _uinfo(strings) -> dict:
    tbl = {}
    for s in strings:
        for c in s:
            if ord(c) >= 128 and str(ord(c)) not in tbl:
                tbl[str(ord(c))] = {"w": bool(re.match(r"\w", c)), "d": c.isdigit(), "l": c.lower(), "U": c.upper(),
                                    "iu": c.isupper()}
    return tbl


def _drive(driver: str, reqs: list[dict]) -> list:
    if not reqs:
        return []
    out = []
    B = 2000
    for i in range(0, len(reqs), B):
        chunk = reqs[i:i + B]
        data = "\n".join(json.dumps(r, ensure_ascii=True) for r in chunk) + "\n"
        p = subprocess.run([driver], input=data, capture_output=True, text=True, timeout=600)
        if p.returncode != 0:
            raise RuntimeError(f"driver exited {p.returncode}: {p.stderr[-2000:]}")
        lines = p.stdout.split("\n")
        if lines and lines[-1] == "":
            lines.pop()
        if len(lines) != len(chunk):
            raise RuntimeError(f"driver answered {len(lines)} lines for {len(chunk)} requests")
        out.extend(json.loads(l) for l in lines)
    return out


def _quiet():
    import logging
    import warnings
    logging.disable(logging.CRITICAL)
    warnings.simplefilter("ignore")


def _nfkc(x):
    """CPython normalises identifiers to NFKC while parsing: what `ast` shows for the names of the model."""
    if isinstance(x, str):
        return unicodedata.normalize("NFKC", x)
    if isinstance(x, list):
        return [_nfkc(e) for e in x]
    if isinstance(x, dict):
        return {k: _nfkc(v) for k, v in x.items()}
    return x


# ------------------------------------------------------------------------------------------------ inputs

PLAIN = ["Users", "users", "USERS", "User Group", "user_group", "UserGroup", "user-group", "admin-ops", "AdminOps", "admin_ops",
         "Pets", "pets", "orders", "Data Sources", "data-sources", "DataSources", "dataSources", "data_sources", "a1", "a_1", "A1",
         "v2", "V2", "HTTPServer", "httpServer", "default", "Default"]
KEYWORDISH = ["import", "class", "None", "none", "True", "def", "async", "match", "type", "list", "id", "Import", "CLASS", "is", "Is"]
OWN = ["config", "Config", "request", "Request", "re-quest", "close", "CLOSE", "transport", "Transport", "base_url", "base-url",
       "BaseUrl", "_base_url", "baseUrl", "base url", "__aenter__", "aenter", "__init__", "init", "self", "request_", "_request"]
DIGITS = ["1st", "2", "42", "3d-models", "v1.2", "007", "a-1", "1_a"]
NONASCII = ["用户", "été", "Été", "aé", "a", "ké", "\u212a", "_\u212a", "k", "ß", "SS", "İ", "données", "ÉCOLE", "école", "ﬁ", "fi", "ǅ", "x²", "٣", "a٣"]
SYMBOLS = ["", "-", "_", "__", "$", " ", ".", "-_-", "a b", "a.b", "A-B"]
POOLS = [("plain", PLAIN, 0.40), ("keyword", KEYWORDISH, 0.13), ("own", OWN, 0.17), ("digits", DIGITS, 0.08),
         ("nonascii", NONASCII, 0.12), ("symbols", SYMBOLS, 0.10)]
FIXED_NAMES = ["request", "close", "__aenter__", "__aexit__", "__init__", "config", "transport", "_base_url"]
OWN_MEMBERS = FIXED_NAMES + ["self"]   # what APIClient / APIClientProtocol / MockAPIClient define themselves

HAND = [
    [], [[]], [[], []], [["Users", "admin-ops"], ["users"], []], [["request"]], [["close"], ["transport"]], [["config"]],
    [["base_url"]], [["base-url"], ["Users"]], [["aé"], ["a"]], [["ké"], ["_\u212a"]], [["-"]], [[""]], [["_"], ["x"]], [["Users"], ["users"]],
    [["a1"], ["a_1"]], [["dataSources"], ["data_sources"]], [["import"], ["class"], ["None"]], [["1st"]], [["用户"]], [["ﬁ"]],
    [["b"], ["a"]], [["B", "a"], ["A", "b"]], [["Users", "users", "USERS"]], [["$"], ["-"]], [["request", "close"], ["transport", "config"]],
]


def _rand_tag(rng: random.Random) -> tuple[str, str]:
    k = rng.random()
    acc = 0.0
    for name, pool, w in POOLS:
        acc += w
        if k < acc:
            return name, rng.choice(pool)
    alphabet = "abAB1_- .éÉ"
    return "random", "".join(rng.choice(alphabet) for _ in range(rng.randint(0, 6)))


def _rand_case(rng: random.Random) -> list[list[str]]:
    base = [_rand_tag(rng)[1] for _ in range(rng.randint(1, 4))]
    n_ops = rng.randint(0, 6)
    return [[rng.choice(base) if rng.random() < 0.7 else _rand_tag(rng)[1] for _ in range(rng.choice([0, 1, 1, 1, 2, 3]))]
            for _ in range(n_ops)]


def _features(tagss: list[list[str]]) -> list[str]:
    f = []
    flat = [t for ts in tagss for t in ts]
    if not tagss:
        f.append("no-operation")
    if any(not ts for ts in tagss):
        f.append("untagged-op")
    if any(len(ts) > 1 for ts in tagss):
        f.append("multi-tag-op")
    for name, pool, _ in POOLS:
        if name != "plain" and any(t in pool for t in flat):
            f.append(name)
    if any(ord(c) >= 128 for t in flat for c in t) and "nonascii" not in f:
        f.append("nonascii")
    return f


# ------------------------------------------------------------------------------------------------ impl side


def _mk_ctx(root: str):
    from pyopenapi_gen.context.render_context import RenderContext
    out = os.path.join(root, "pkg")
    os.makedirs(out, exist_ok=True)
    return RenderContext(core_package_name="pkg.core", package_root_for_generated_code=out, overall_project_root=root,
                         parsed_schemas={}, output_package_name="pkg"), out


def _mk_spec(tagss):
    from pyopenapi_gen import HTTPMethod, IROperation, IRSpec
    ops = [IROperation(operation_id=f"op{i}", method=HTTPMethod.GET, path=f"/p{i}", summary=None, description=None, tags=list(t))
           for i, t in enumerate(tagss)]
    return IRSpec(title="t", version="1", operations=ops)


class _ReqSpy:
    """Records, in program order, the calls the visitor makes on the context (not the nested ones the context makes itself)."""

    def __init__(self, ctx):
        self.reqs: list = []
        self.depth = 0
        ic = ctx.import_collector
        o_add, o_ty, o_rel = ctx.add_import, ctx.add_typing_imports_for_type, ic.add_relative_import

        def add_import(logical_module, name=None, is_typing_import=False):
            if self.depth == 0:
                self.reqs.append(["logical", logical_module, name])
            self.depth += 1
            try:
                return o_add(logical_module, name, is_typing_import)
            finally:
                self.depth -= 1

        def add_typing(type_str):
            if self.depth == 0:
                self.reqs.append(["typing", type_str])
            self.depth += 1
            try:
                return o_ty(type_str)
            finally:
                self.depth -= 1

        def add_rel(module, name):
            if self.depth == 0:
                self.reqs.append(["relative", module, name])
            self.depth += 1
            try:
                return o_rel(module, name)
            finally:
                self.depth -= 1

        ctx.add_import = add_import
        ctx.add_typing_imports_for_type = add_typing
        ic.add_relative_import = add_rel


_DEF = re.compile(r"^(async )?def ([^(]*)\((.*)$")
_CLS = re.compile(r"^class ([^(:]*)(?:\((.*)\))?:$")
_ATTR = re.compile(r"^self\.([^\s:=]*)(?::| =)")
_RET = re.compile(r"^\s*->\s*(.*):$")
_FROM = re.compile(r"^(\s*)from (\S*) import (.*)$")


def _unq(a: str) -> str:
    a = a.strip()
    if len(a) >= 2 and a[0] == a[-1] and a[0] in "'\"":
        return a[1:-1]
    return a


def _pname(p: str) -> str:
    return p.strip().rstrip(",").split(":")[0].split("=")[0].strip()


def _skel_text(code: str) -> dict:
    """Skeleton of every class of a CodeWriter text (works on texts that do not compile).  Also: def line numbers of properties,
    `from … import …` lines before the first class, `else Mock…()` defaults."""
    lines = code.split("\n")
    classes: dict = {}
    order = []
    cur = None
    in_doc = False
    pending = False
    pre_imports = []
    i = 0
    n = len(lines)
    while i < n:
        ln = lines[i]
        s = ln.strip()
        ind = len(ln) - len(ln.lstrip(" "))
        i += 1
        if in_doc:
            if s.endswith('"""'):
                in_doc = False
            continue
        if s.startswith('"""'):
            if not (len(s) >= 6 and s.endswith('"""')):
                in_doc = True
            continue
        if cur is None:
            m = _FROM.match(ln)
            if m:
                for nm in m.group(3).split(", "):
                    pre_imports.append([len(m.group(1)) > 0, m.group(2), nm])
        if ind == 0 and s.startswith("class "):
            m = _CLS.match(s)
            cur = {"name": m.group(1), "bases": [b.strip() for b in m.group(2).split(",")] if m.group(2) else [], "hasInit": False,
                   "initParams": [], "attrs": [], "initBodyEmpty": False, "props": [], "methods": [], "_lines": [], "_defaults": []}
            classes[cur["name"]] = cur
            order.append(cur["name"])
            pending = False
            continue
        if cur is None or ind != 4:
            continue
        if s == "@property":
            pending = True
            continue
        m = _DEF.match(s)
        if not m:
            continue
        name, rest = m.group(2), m.group(3)
        def_line = i  # 1-based number of the `def` line
        if rest == "":
            params = []
            tail = ""
            while i < n:
                t = lines[i].strip()
                i += 1
                if t.startswith(")"):
                    tail = t[1:]
                    break
                params.append(_pname(t))
        else:
            ps, tail = rest.split(")", 1)
            params = [_pname(p) for p in ps.split(",")]
        r = _RET.match(tail)
        ann = _unq(r.group(1)) if r else None
        body = []
        j = i
        while j < n:
            t = lines[j]
            ts = t.strip()
            tind = len(t) - len(t.lstrip(" "))
            if ts != "" and tind <= 4:
                break
            if ts != "":
                body.append(ts)
            j += 1
        if name == "__init__":
            cur["hasInit"] = True
            cur["initParams"] = params
            cur["initBodyEmpty"] = len(body) == 0
            for b in body:
                a = _ATTR.match(b)
                if a:
                    cur["attrs"].append(a.group(1))
                d = re.search(r" else ([^\s()]*)\(\)$", b)
                if d:
                    cur["_defaults"].append(d.group(1))
        elif pending:
            cur["props"].append([name, ann])
            cur["_lines"].append(def_line)
        else:
            cur["methods"].append(name)
        pending = False
    return {"classes": classes, "order": order, "imports": pre_imports}


def _pub(sk: dict) -> dict:
    return {k: v for k, v in sk.items() if not k.startswith("_")}


def _skel_ast(text: str) -> dict:
    tree = ast.parse(text)
    out = {}
    for node in tree.body:
        if not isinstance(node, ast.ClassDef):
            continue
        sk = {"name": node.name, "bases": [ast.unparse(b) for b in node.bases], "hasInit": False, "initParams": [], "attrs": [],
              "initBodyEmpty": False, "props": [], "methods": []}
        for st in node.body:
            if not isinstance(st, (ast.FunctionDef, ast.AsyncFunctionDef)):
                continue
            is_prop = any(isinstance(d, ast.Name) and d.id == "property" for d in st.decorator_list)
            if st.name == "__init__":
                sk["hasInit"] = True
                sk["initParams"] = [a.arg for a in st.args.posonlyargs + st.args.args + st.args.kwonlyargs]
                for b in st.body:
                    tg = b.targets[0] if isinstance(b, ast.Assign) else b.target if isinstance(b, ast.AnnAssign) else None
                    if isinstance(tg, ast.Attribute) and isinstance(tg.value, ast.Name) and tg.value.id == "self":
                        sk["attrs"].append(tg.attr)
            elif is_prop:
                r = st.returns
                ann = r.id if isinstance(r, ast.Name) else r.value if isinstance(r, ast.Constant) else ast.unparse(r) if r else None
                sk["props"].append([st.name, ann])
            else:
                sk["methods"].append(st.name)
        out[node.name] = sk
    return out


def _compiles(text: str):
    try:
        compile(text, "<generated>", "exec")
        return True, None
    except (SyntaxError, ValueError) as e:
        return False, f"{type(e).__name__}: {e.msg if isinstance(e, SyntaxError) else e}"


def _rendered_endpoint_imports(imports_code: str) -> list:
    out = set()
    for ln in imports_code.split("\n"):
        m = _FROM.match(ln)
        if m and m.group(2).startswith(".endpoints."):
            for nm in m.group(3).split(", "):
                out.add((m.group(2), nm))
    return sorted([list(p) for p in out])


class _Stub:
    def __init__(self, *a, **k):
        self.args = a


def _exec_client(code: str, tuples: list) -> dict:
    """Execute the class statements `visit` returned (no import line) with stub tag clients and stub core classes."""
    import typing
    ns: dict = {"Protocol": typing.Protocol, "runtime_checkable": typing.runtime_checkable, "Any": typing.Any, "Dict": typing.Dict,
                "__name__": "generated_client"}
    for nm in ("ClientConfig", "HttpTransport", "HttpxTransport", "ApiKeyAuth"):
        ns[nm] = type(nm, (_Stub,), {"base_url": "http://api.test", "timeout": 1.0})
    for _, cls, _m in tuples:
        for nm in (cls, cls + "Protocol"):
            ns[_nfkc(nm)] = type(nm, (_Stub,), {})
    exec(compile(code, "<client>", "exec"), ns)  # noqa: S102 - text produced by /repo for stub inputs, no import statement
    return ns


def _survivors(code: str, tuples: list, prop_lines: list, props: list) -> list:
    """For the i-th `@property` of APIClient: is it still the property of that name in the finished class?"""
    ns = _exec_client(code, tuples)
    cls = ns["APIClient"]
    res = []
    for (name, _ann), ln in zip(props, prop_lines):
        obj = cls.__dict__.get(_nfkc(name))
        res.append(isinstance(obj, property) and obj.fget.__code__.co_firstlineno in (ln, ln - 1))
    return res


def _impl_visit(tagss, root: str) -> dict:
    from pyopenapi_gen.visit.client_visitor import ClientVisitor

    shutil.rmtree(root, ignore_errors=True)
    ctx, out = _mk_ctx(root)
    spec = _mk_spec(tagss)
    seen = []

    class CV(ClientVisitor):
        def generate_client_protocol(self, spec, context, tag_tuples):
            seen.append([list(t) for t in tag_tuples])
            return super().generate_client_protocol(spec, context, tag_tuples)

    ctx.set_current_file(os.path.join(out, "client.py"))
    spy = _ReqSpy(ctx)
    try:
        code = CV().visit(spec, ctx)
    except Exception as e:  # noqa: BLE001
        return {"raise": type(e).__name__}
    imports_code = ctx.render_imports()
    text = imports_code + "\n\n" + code
    ok, err = _compiles(text)
    return {"tuples": seen[0], "code": code, "imports_code": imports_code, "text": text, "reqs": spy.reqs, "compiles": ok, "error": err,
            "pkg": ctx.get_current_package_name_for_generated_code(), "core": ctx.core_package_name}


def _impl_mock_direct(tagss, tuples, root: str) -> dict:
    from pyopenapi_gen.visit.client_visitor import ClientVisitor

    shutil.rmtree(root, ignore_errors=True)
    ctx, out = _mk_ctx(root)
    os.makedirs(os.path.join(out, "mocks"), exist_ok=True)
    ctx.set_current_file(os.path.join(out, "mocks", "mock_client.py"))
    spy = _ReqSpy(ctx)
    code = ClientVisitor().generate_client_mock_class(_mk_spec(tagss), ctx, [tuple(t) for t in tuples])
    text = ctx.render_imports() + "\n\n" + code
    ok, err = _compiles(text)
    return {"code": code, "text": text, "reqs": spy.reqs, "compiles": ok, "error": err}


def _impl_mock_pipeline(tagss, root: str) -> dict:
    """REAL `MocksEmitter.emit`; only the leaf `generate_endpoint_mock_class` is a stub."""
    from pyopenapi_gen.emitters.mocks_emitter import MocksEmitter
    from pyopenapi_gen.visit.client_visitor import ClientVisitor

    shutil.rmtree(root, ignore_errors=True)
    ctx, out = _mk_ctx(root)
    seen = []

    class MEV:
        def generate_endpoint_mock_class(self, tag, operations, context):
            return ""

    class CV(ClientVisitor):
        def generate_client_mock_class(self, spec, context, tag_tuples):
            code = super().generate_client_mock_class(spec, context, tag_tuples)
            seen.append(([list(t) for t in tag_tuples], code))
            return code

    me = MocksEmitter(ctx)
    me.endpoint_visitor = MEV()
    me.client_visitor = CV()
    try:
        me.emit(_mk_spec(tagss), out)
    except Exception as e:  # noqa: BLE001
        return {"raise": type(e).__name__}
    with open(os.path.join(out, "mocks", "mock_client.py"), encoding="utf-8") as fh:
        text = fh.read()
    ok, err = _compiles(text)
    return {"tuples": seen[0][0], "code": seen[0][1], "text": text, "compiles": ok, "error": err}


def _ascii_modules(tuples) -> bool:
    return all(ord(c) < 128 for t in tuples for c in t[2])


# ------------------------------------------------------------------------------------------------ run


def _model_skel(m: dict) -> dict:
    return {k: v for k, v in m.items() if k != "survives"}


def run(seed: int, scale: float, driver: str) -> dict:
    _quiet()
    rng = random.Random(seed)
    comparisons = 0
    disagreements: list[dict] = []
    dist: dict = {}
    samples: list = []
    nontrivial: set = set()

    def bump(k, n=1):
        dist[k] = dist.get(k, 0) + n

    def check(label, request, model, impl):
        nonlocal comparisons
        comparisons += 1
        if model != impl:
            if len(disagreements) < 50:
                disagreements.append({"label": label, "request": request, "model": model, "impl": impl})
            return False
        return True

    cases = [c for c in HAND]
    for _ in range(max(20, int(700 * scale))):
        cases.append(_rand_case(rng))

    attr_inputs: set = set(OWN_MEMBERS)
    for m in OWN_MEMBERS:
        attr_inputs.update([m + "_", "_" + m, m.lstrip("_"), m[1:], m.upper(), m + "s"])

    with _Scratch("run") as sc:
        reqs = []
        for c in cases:
            u = _uinfo(t for ts in c for t in ts)
            reqs.append({"f": "cgVisit", "a": [c, "pkg.core", "pkg"], "u": u})
            reqs.append({"f": "cgTagTuplesTotal", "a": [c], "u": u})
            reqs.append({"f": "cgMockTuples", "a": [c], "u": u})
        model = _drive(driver, reqs)
        mock_reqs = []
        mock_meta = []
        for ci, c in enumerate(cases):
            mv, mtot, mmt = model[ci * 3:ci * 3 + 3]
            impl = _impl_visit(c, os.path.join(sc.dir, "v"))
            feats = _features(c)
            for f in feats:
                bump("case:" + f)
            if "raise" in impl:
                check("visit-raises", c, mv, impl["raise"])
                continue
            if mv is None:
                check("visit-raises", c, None, "no exception")
                continue
            check("tag_tuples", c, mv["tuples"], impl["tuples"])
            check("tag_tuples-total", c, mtot, impl["tuples"])
            check("import-requests", c, mv["reqs"], impl["reqs"])
            tx = _skel_text(impl["code"])
            check("class-order", c, ["APIClientProtocol", "APIClient"], tx["order"])
            check("protocol-skeleton", c, _model_skel(mv["protocol"]), _pub(tx["classes"].get("APIClientProtocol", {})))
            check("api-skeleton", c, _model_skel(mv["api"]), _pub(tx["classes"].get("APIClient", {})))
            check("rendered-endpoint-imports", c, sorted(set(map(tuple, mv["endpointImports"]))),
                  sorted(map(tuple, _rendered_endpoint_imports(impl["imports_code"]))))
            tuples = impl["tuples"]
            if _ascii_modules(tuples):
                check("visit-compiles", c, mv["syntaxOk"], impl["compiles"])
            else:
                bump("visit:non-ascii-module(compile not compared)")
            if impl["compiles"]:
                ax = _skel_ast(impl["text"])
                check("protocol-skeleton-ast", c, _nfkc(_model_skel(mv["protocol"])), ax.get("APIClientProtocol"))
                check("api-skeleton-ast", c, _nfkc(_model_skel(mv["api"])), ax.get("APIClient"))
                try:
                    surv = _survivors(impl["code"], tuples, tx["classes"]["APIClient"]["_lines"], tx["classes"]["APIClient"]["props"])
                except Exception as e:  # noqa: BLE001
                    surv = f"raise {type(e).__name__}: {e}"
                # NFKC can merge two names the model keeps apart (`ﬁ` / `fi`): compared on NFKC-stable names only
                if all(_nfkc(t[2]) == t[2] for t in tuples):
                    check("property-survives", c, mv["api"]["survives"], surv)
            else:
                bump("visit:syntax-error")
            mods = [t[2] for t in tuples]
            attr_inputs.update(mods)
            # the inputs of the repaired F64: MODULE names that are (or whose `_<module>` is) a member of the client itself
            shadow = [m for m in mods if m in FIXED_NAMES or m == "self"]
            priv = [m for m in mods if ("_" + m) in mods or ("_" + m) in FIXED_NAMES]
            if shadow:
                bump("visit:module-named-like-client-member")
            if priv:
                bump("visit:private-attr-of-module-name-would-collide")
            if len(set(mods)) < len(mods):
                bump("visit:duplicate-module-name")
            names = [p[0] for p in tx["classes"].get("APIClient", {}).get("props", [])]
            if names != mods:
                bump("visit:property-renamed-by-tag-attr-name")
            if len({t for ts in c for t in (ts or ["default"])}) > len(tuples):
                bump("visit:tag-variants-share-key")
            if any(m != t[0] for m, t in zip(mods, tuples)):
                bump("visit:module-name-differs-from-tag")
            if (shadow or priv or len(set(mods)) < len(mods) or not impl["compiles"] or len(feats) > 0
                    or len({t for ts in c for t in (ts or ["default"])}) > len(tuples)):
                nontrivial.add(json.dumps(c, ensure_ascii=False))
            if len(samples) < 4 and ci in (3, 4, 9, len(HAND) + 1):
                samples.append({"tags": c, "model_tuples": mv["tuples"], "impl_tuples": impl["tuples"], "compiles": impl["compiles"]})

            # ---- mock: (a) the function on the visitor's tuples, (b) the real MocksEmitter
            da = _impl_mock_direct(c, tuples, os.path.join(sc.dir, "ma"))
            mock_reqs.append({"f": "cgMock", "a": [tuples]})
            mock_meta.append(("direct", c, tuples, da))
            pb = _impl_mock_pipeline(c, os.path.join(sc.dir, "mb"))
            if "raise" in pb:
                check("mocks-emitter-raises", c, None, pb["raise"])
            else:
                check("mock-tuples", c, mmt, pb["tuples"])
                mock_reqs.append({"f": "cgMock", "a": [pb["tuples"]]})
                mock_meta.append(("pipeline", c, pb["tuples"], pb))
                if sorted(t[2] for t in pb["tuples"]) != sorted(mods):
                    bump("mock:pipeline-properties-differ-from-APIClient")
        mm = _drive(driver, mock_reqs)
        for (kind, c, tuples, d), m in zip(mock_meta, mm):
            tx = _skel_text(d["code"])
            sk = tx["classes"].get("MockAPIClient", {})
            check(f"mock-skeleton-{kind}", c, _model_skel(m["mock"]), _pub(sk))
            check(f"mock-defaults-{kind}", c, m["defaults"], sk.get("_defaults"))
            check(f"mock-text-imports-{kind}", c, m["textImports"], tx["imports"])
            if kind == "direct":
                check("mock-import-requests", c, m["reqs"], d["reqs"])
            if _ascii_modules(tuples):
                check(f"mock-compiles-{kind}", c, m["syntaxOk"], d["compiles"])
            if d["compiles"]:
                ax = _skel_ast(d["text"])
                check(f"mock-skeleton-ast-{kind}", c, _nfkc(_model_skel(m["mock"])), ax.get("MockAPIClient"))
            else:
                bump(f"mock:{kind}:syntax-error")
            if not tuples:
                bump(f"mock:{kind}:empty-init-body")

        # ---- A: `_tag_attr_name` alone
        from pyopenapi_gen.visit.client_visitor import ClientVisitor
        fn = getattr(ClientVisitor, "_tag_attr_name", None)
        ai = sorted(attr_inputs)
        am = _drive(driver, [{"f": "cgTagAttr", "a": [m]} for m in ai])
        for m, mo in zip(ai, am):
            im = fn(m) if fn is not None else "<ClientVisitor has no _tag_attr_name: the module name is used as it is>"
            check("tag-attr-name", m, mo, im)
            bump("tag-attr:renamed" if mo != m else "tag-attr:kept")

    return {"comparisons": comparisons, "disagreements": disagreements, "nontrivial": len(nontrivial),
            "rule": "tag lists of 0-6 operations with 0-3 tags each, drawn from pools (plain case/punctuation variants, keyword-like, the "
                    "client's own member names, digits, non-ASCII, symbols-only) + hand-written cases; a case is non-trivial when it "
                    "contains a tag outside the plain pool, an untagged or multi-tag operation, tag variants sharing a key, a module name "
                    "colliding with a client member / another module name / a private attribute, or a text that does not compile; "
                    "_tag_attr_name alone on every module name met, the own member names and their variants",
            "samples": samples, "distribution": dist}


# ------------------------------------------------------------------------------------------------ oracle


def _norm_key(t: str) -> str:
    from pyopenapi_gen.core.utils import NameSanitizer
    return NameSanitizer.normalize_tag_key(t)


def _evaluate(tagss, root: str) -> list[dict]:
    """The properties on the real code for one list of operation tags; returns the violations."""
    from pyopenapi_gen.core.utils import NameSanitizer

    fails: list[dict] = []

    def fail(cls, observed, expected):
        fails.append({"class": cls, "case": {"tags": tagss}, "observed": observed, "expected": expected})

    v = _impl_visit(tagss, os.path.join(root, "v"))
    if "raise" in v:
        fail("client-visitor-raises", v["raise"], "client.py is generated")
        return fails
    tuples = v["tuples"]
    tx = _skel_text(v["code"])
    api = tx["classes"]["APIClient"]
    proto = tx["classes"]["APIClientProtocol"]
    names = [p[0] for p in api["props"]]
    keys = {_norm_key(t) for ts in tagss for t in (ts or ["default"])}

    # (1) one property per distinct normalised key, named after a tag of that key
    if len(names) != len(keys):
        fail("property-count", len(names), len(keys))
    # (2) names are identifiers, distinct from each other and from the client's own members
    bad = [n for n in names if not n.isidentifier() or __import__("keyword").iskeyword(n)]
    if bad:
        fail("property-name-not-identifier", bad, "valid identifiers")
    if not v["compiles"]:
        fail("client-syntax-error", v["error"], "client.py compiles")
    own = [n for n in names if n in ("request", "close", "__aenter__", "__aexit__", "__init__")]
    if own:
        fail("property-shadowed-by-method", own, "property names differ from request/close/__aenter__/__aexit__")
    own = [n for n in names if n in ("config", "transport", "_base_url")]
    if own:
        fail("property-named-like-instance-attribute", own, "property names differ from config/transport/_base_url")
    # Collisions BETWEEN two tag clients.  For ASCII tags there is none (Pog.ClientGenProps.property_names_pairwise_distinct_partial,
    # private_attr_names_distinct_from_public_partial); the ones that non-ASCII tags produce (`aé`/`a`, `ké`/`_K`) are not F64 - they
    # get their own class ids (suffix -nonascii) and are attributed by the tags INVOLVED in the collision, not by the case.
    nonascii_tag = [any(ord(ch) >= 128 for ch in t[0]) for t in tuples]
    explained: set = set()          # property names whose trouble is a collision between tag clients that involves a non-ASCII tag
    if len(set(names)) != len(names):
        dups = sorted(n for n in set(names) if names.count(n) > 1)
        na = all(any(nonascii_tag[i] for i, n in enumerate(names) if n == d and i < len(tuples)) for d in dups) and len(names) == len(tuples)
        if na:
            explained.update(dups)
        fail("duplicate-property-name" + ("-nonascii" if na else ""), dups, "pairwise distinct property names")
    tag_attrs = api["attrs"][3:]
    priv = [a for a in tag_attrs if a in names or a in ("config", "transport", "_base_url")]
    if priv:
        na = len(tag_attrs) == len(names) == len(tuples)
        for i, a in enumerate(tag_attrs):
            if a in ("config", "transport", "_base_url"):
                na = False
            elif a in names and na:
                na = nonascii_tag[i] or any(nonascii_tag[j] for j, n in enumerate(names) if n == a)
        if na:
            explained.update(a for a in priv)
            explained.update(n for i, n in enumerate(names) if tag_attrs[i] in priv)
        fail("private-attr-collision" + ("-nonascii" if na else ""), priv,
             "`_<attr>` differs from every property and from config/transport/_base_url")

    # (1, semantically) every tag of every operation reaches the tag client of its group on a constructed APIClient
    if v["compiles"]:
        try:
            ns = _exec_client(v["code"], tuples)
            client = ns["APIClient"](ns["ClientConfig"](), ns["HttpTransport"]())
            reach = {}
            pname_of = {}
            # the i-th `@property` of the generated APIClient belongs to the i-th tuple; `client.<name>` in a user's source is
            # NFKC-normalised by CPython's parser like the `def <name>` of the generated text
            for (tag, cls, mod), pname in zip(tuples, names):
                try:
                    obj = getattr(client, _nfkc(pname))
                except Exception as e:  # noqa: BLE001
                    obj = e
                reach[_norm_key(tag)] = (type(obj).__name__, getattr(obj, "args", None), cls)
                pname_of[_norm_key(tag)] = pname
            unreachable = []
            for k in sorted(keys):
                got = reach.get(k)
                if got is None or got[0] != got[2] or len(got[1]) != 2 or not isinstance(got[1][1], str):
                    unreachable.append([k, None if got is None else [got[0], got[2]]])
            if unreachable:
                na = all(pname_of.get(k) in explained for k, _ in unreachable)
                fail("tag-client-unreachable" + ("-nonascii" if na else ""), unreachable,
                     "client.<property of the group> is the tag client of the group, built with (transport, base_url: str)")
        except Exception as e:  # noqa: BLE001
            na = bool(explained) and not any(f["class"] in ("private-attr-collision", "property-named-like-instance-attribute",
                                                           "property-shadowed-by-method") for f in fails)
            fail("api-client-construction-fails" + ("-nonascii" if na else ""), f"{type(e).__name__}: {e}",
                 "APIClient(config, transport) can be constructed")

    # (4) the three surfaces: Protocol vs APIClient (same call), MockAPIClient of the mocks emitter
    if [p[0] for p in proto["props"]] != names or [p[1] for p in proto["props"]] != [p[1] + "Protocol" for p in api["props"]]:
        fail("protocol-properties-differ", proto["props"], api["props"])
    mk = _impl_mock_pipeline(tagss, os.path.join(root, "m"))
    if "raise" in mk:
        fail("mocks-emitter-raises", mk["raise"], "mock_client.py is generated")
        return fails
    mock = _skel_text(mk["code"])["classes"]["MockAPIClient"]
    mnames = [p[0] for p in mock["props"]]
    if mock["initParams"] != ["self"] + mnames:
        fail("mock-init-keywords-differ-from-properties", mock["initParams"], ["self"] + mnames)
    if sorted(mnames) != sorted(names):
        multi = any(len(ts) > 1 for ts in tagss)
        fail("mock-groups-by-first-raw-tag" if multi else "mock-tag-case-variants-collide" if len(mnames) > len(set(mnames))
             else "mock-client-props-differ", sorted(mnames), sorted(names))
    elif mnames != names:
        fail("mock-client-props-order", mnames, names)
    elif [p[1] for p in mock["props"]] != [p[1] for p in proto["props"]]:
        fail("mock-client-prop-types-differ", mock["props"], proto["props"])
    # (5) the body of MockAPIClient.__init__ is never empty; the file compiles
    # F31 repaired: the body is never empty (a document without operations gets `pass`)
    if mock["initBodyEmpty"]:
        fail("mock-client-empty-init", "empty __init__ body", "a body (at least `pass`)")
    if not mk["compiles"]:
        if mock["initBodyEmpty"]:
            fail("mock-client-empty-init", mk["error"], "mock_client.py compiles")
        elif len(mnames) > len(set(mnames)):
            # F23 repaired: the keywords of MockAPIClient.__init__ are APIClient's property names.  A duplicate that APIClient has too (two
            # keys with one module name, non-ASCII tags: class `duplicate-property-name`) is that defect seen on the mock; a duplicate among
            # the mock's keywords alone (spellings of one tag filed as two groups) would be F23 again
            fail("mock-client-duplicate-argument" if len(names) == len(set(names)) else "mock-client-duplicate-property-name",
                 mk["error"], "mock_client.py compiles")
        elif "self" in mnames:
            fail("mock-client-self-argument", mk["error"], "mock_client.py compiles")
        else:
            fail("mock-client-syntax-error", mk["error"], "mock_client.py compiles")
    return fails


def oracle(seed: int, scale: float) -> dict:
    _quiet()
    rng = random.Random(seed + 1)
    cases = [c for c in HAND]
    for _ in range(max(20, int(300 * scale))):
        cases.append(_rand_case(rng))
    failures: list[dict] = []
    evaluations = 0
    with _Scratch("oracle") as sc:
        for c in cases:
            evaluations += 1
            failures.extend(_evaluate(c, sc.dir))
    return {"evaluations": evaluations, "failures": failures}


def replay(case) -> bool:
    _quiet()
    c = case.get("case", case)
    cls = case.get("class")
    with _Scratch("replay") as sc:
        fs = _evaluate(c["tags"], sc.dir)
    return any(cls is None or f["class"] == cls for f in fs)


if __name__ == "__main__":
    sys.path.insert(0, "/repo/src")
    drv = os.path.join(HERE, ".lake", "build", "bin", "driver")
    r = run(20260930, float(os.environ.get("SCALE", "1.0")), drv)
    print(f"{r['comparisons']} comparisons, {len(r['disagreements'])} disagreements, {r['nontrivial']} non-trivial")
    for d in r["disagreements"][:8]:
        print(json.dumps(d, ensure_ascii=False)[:1500])
    print(json.dumps(r["distribution"], ensure_ascii=False, indent=1))
    o = oracle(20260930, float(os.environ.get("SCALE", "1.0")))
    by: dict = {}
    for f in o["failures"]:
        by.setdefault(f["class"], []).append(f)
    print(f"oracle: {o['evaluations']} evaluations, {len(o['failures'])} failures in classes {sorted(by)}")
    for k, v in sorted(by.items()):
        print(f"  {k}: {len(v)}  e.g. {json.dumps(v[0]['case'], ensure_ascii=False)} observed={json.dumps(v[0]['observed'], ensure_ascii=False)[:160]}"
              f" replay={replay(v[0])}")
