import Pog.Model.Json
import Pog.Model.Ops
import Pog.Gen.Loader
/-
  M-loader: what happens INSIDE one operation of `parse_operations` once its id is known.

    core/loader/operations/parser.py:93-154     path-level + operation-level parameters (the operation-level one overrides a path-level
                                                one with the same name and location - `mergeParams`), `requestBody`, the `responses` loop
                                                with its three cases (`$ref` to `#/components/responses/…` incl. the
                                                `raw_responses.get(ref_name, {}) or rn_node` fallback, `$ref` to a schema, inline)
    core/loader/parameters/parser.py            `resolve_parameter_node_if_ref`, `parse_parameter`
    core/loader/operations/request_body.py      `parse_request_body`
    core/loader/responses/parser.py             `parse_response` (content loop, STREAM_FORMATS on `mt.lower()`, the
                                                `format == "binary"` fallback, `stream_format`: last match wins)
    core/loader/operations/post_processor.py    `post_process_operation` (`postProcess`)

  The control skeleton of `parse_operations` (method keys, id derivation, `try/except -> warning`) is `Pog.Ops.parseOps`;
  an `Except.error` here is the exception that skeleton turns into a warning (`Ops.RawOp.parseRaises` / `respError`).

  NODES are `JsonV` values (what `json.load` / `yaml.safe_load` hand to the loader): every `isinstance(x, Mapping)`,
  `"k" in x`, `x.get("k")`, truthiness test and attribute access of the Python is interpreted on them, so a node of the
  wrong shape raises what Python raises (`errMsg` is the text of the warning).  The keys of the `responses` mapping are
  `Pog.Ops.StatusKey` (`intKey` = an unquoted integer key, read as its decimal string by the operations parser since the repair
  of F16 - `normKey`; `badKey` = every other non-`str` key YAML can produce, still rejected by `parse_response`).

  `_parse_schema` is an OPAQUE call (modelled in `Pog/Model/Parser.lean`): the model records the request
  `(requested name, node)` and reads the result back through an `Oracle` (a function of the request; `none` = the call
  raised).  Of the result only what the loader reads is kept (`ParseOut`): `format == "binary"`, `name`,
  `_from_unresolved_ref`, `type == "object" and (properties or additional_properties)`.

  NOT in the language (the model is silent about them): `parameters` members that are not JSON lists, a `responses` member
  that is not a mapping, component tables that are not mappings, non-`str` keys anywhere but in `responses`, floats, an
  `operationId` that is not a `str`, JSON objects with a repeated key (a Python `dict` has none: the content loop
  `content[mt] = …` is therefore a `map`), two content entries sharing ONE anonymous `IRSchema` object (the renaming of
  `post_process_operation` would alias).  NOT tracked: `description`s, `final_module_stem` of a promoted parameter enum.
-/
namespace Pog.Loader
open Pog Pog.Ops

/-! ### Python built-ins on nodes -/

/-- `type(x).__name__` -/
def pyTypeName : JsonV → Str
  | .null => "NoneType".toList
  | .bool _ => "bool".toList
  | .int _ => "int".toList
  | .str _ => "str".toList
  | .arr _ => "list".toList
  | .obj _ => "dict".toList

def hasKey (kvs : List (Str × JsonV)) (k : Str) : Bool := (aget kvs k).isSome

/-- `ref.split("/")[-1]` -/
def lastSeg (r : Str) : Str := (r.reverse.takeWhile (fun c => c != '/')).reverse

def paramPrefix : Str := "#/components/parameters/".toList
def respPrefix : Str := "#/components/responses/".toList
def rbPrefix : Str := "#/components/requestBodies/".toList
def schemaPrefix : Str := "#/components/schemas/".toList

/-- `table.get(name, {}) or dflt` (responses, request bodies) and
    `r = table.get(name); r if r else dflt` (parameters): a missing OR FALSY entry gives `dflt`. -/
def refOr (tbl : List (Str × JsonV)) (name : Str) (dflt : JsonV) : JsonV :=
  match aget tbl name with
  | some v => if pyTruthy v then v else dflt
  | none => dflt

/-- The test shared by parameters, request bodies and responses:
    `isinstance(n, Mapping) and "$ref" not in n and (n.get("type") == "object" or "properties" in n or "allOf" in n
     or "anyOf" in n or "oneOf" in n)` -/
def objLike : JsonV → Bool
  | .obj kvs =>
    !hasKey kvs "$ref".toList &&
      (aget kvs "type".toList == some (.str "object".toList) || hasKey kvs "properties".toList || hasKey kvs "allOf".toList
        || hasKey kvs "anyOf".toList || hasKey kvs "oneOf".toList)
  | _ => false

/-! ### results -/

/-- What the loader reads back from the `IRSchema` returned by `_parse_schema`. -/
structure ParseOut where
  binary : Bool := false        -- `format == "binary"`
  name : Option Str := none     -- `name`
  unresolved : Bool := false    -- `_from_unresolved_ref`
  objProps : Bool := false      -- `type == "object" and (properties or additional_properties)`
  deriving DecidableEq, Repr

/-- `_parse_schema(name, node, context, allow_self_reference=False)` -/
structure ParseReq where
  name : Option Str
  node : JsonV
  deriving DecidableEq, Repr

/-- `none` = the call raised. -/
abbrev Oracle := Option Str → JsonV → Option ParseOut

inductive Event
  | parse (r : ParseReq)
  /-- `if enum_name not in context.parsed_schemas: context.parsed_schemas[enum_name] = items_schema` -/
  | regEnum (key : Str)
  deriving DecidableEq, Repr

inductive Err
  | paramDataNotMapping            -- TypeError("param_node_data must be a Mapping")
  | nodeNotMapping                 -- TypeError("node must be a Mapping")      (parse_parameter, parse_response)
  | paramNoName                    -- ValueError("Parameter node must have a name")
  | reNonStr (ty : Str)            -- `re.findall(…, name)` inside `sanitize_class_name` on a non-`str`
  | notSubscriptable (ty : Str)    -- `sch['items']['enum'][:3]` inside the (eagerly evaluated) log f-string
  | sliceKey                       -- the same on a dict: KeyError(slice(None, 3, None))
  | rbNotMapping                   -- TypeError("rb_node must be a Mapping")
  | opIdRb                         -- ValueError("operation_id must be provided")
  | opIdResp                       -- ValueError("operation_id_for_promo must be provided")
  | codeNotStr                     -- TypeError("code must be a string")
  | noAttr (ty attr : Str)         -- AttributeError: '<ty>' object has no attribute '<attr>'
  | schemaRaised                   -- the opaque `_parse_schema` call raised
  deriving DecidableEq, Repr

/-- `str(e)`: the text after the colon of the `Skipping operation parsing for …` warning (`schemaRaised`: whatever
    `_parse_schema` said — not modelled, the correspondence compares the class only). -/
def errMsg : Err → Str
  | .paramDataNotMapping => "param_node_data must be a Mapping".toList
  | .nodeNotMapping => "node must be a Mapping".toList
  | .paramNoName => "Parameter node must have a name".toList
  | .reNonStr ty => "expected string or bytes-like object, got '".toList ++ ty ++ "'".toList
  | .notSubscriptable ty => "'".toList ++ ty ++ "' object is not subscriptable".toList
  | .sliceKey => "slice(None, 3, None)".toList
  | .rbNotMapping => "rb_node must be a Mapping".toList
  | .opIdRb => "operation_id must be provided".toList
  | .opIdResp => "operation_id_for_promo must be provided".toList
  | .codeNotStr => "code must be a string".toList
  | .noAttr ty attr => "'".toList ++ ty ++ "' object has no attribute '".toList ++ attr ++ "'".toList
  | .schemaRaised => "<_parse_schema raised>".toList

inductive ParamSchema
  /-- the "array of string enums" special case: `IRSchema(type="array", items=IRSchema(name=enum_name, …))`;
      `key` is `enum_name` (the registry key), `itemName` the name after `IRSchema.__post_init__` -/
  | enumArray (key : Option Str) (itemName : Option Str)
  | parsed (r : ParseReq)
  /-- `IRSchema(name=None)` -/
  | blank
  deriving DecidableEq, Repr

structure IRParam where
  name : JsonV          -- `node["name"]` (any JSON value)
  pin : JsonV           -- `node.get("in", "query")`
  required : Bool       -- `bool(node.get("required", False))`
  schema : ParamSchema
  deriving DecidableEq, Repr

inductive ContentEntry
  | parsed (r : ParseReq) (out : ParseOut)
  /-- `IRSchema(name=None, _from_unresolved_ref=True)`: a media node with neither a schema `$ref` nor a `schema` -/
  | placeholder
  deriving DecidableEq, Repr

def ContentEntry.isBinary : ContentEntry → Bool
  | .parsed _ o => o.binary
  | .placeholder => false

def ContentEntry.req : ContentEntry → Option ParseReq
  | .parsed r _ => some r
  | .placeholder => none

structure IRResp where
  status : Str
  content : List (Str × ContentEntry)
  stream : Bool
  streamFormat : Option Str
  deriving DecidableEq, Repr

structure IRReqBody where
  required : Bool
  content : List (Str × ParseReq × ParseOut)
  deriving DecidableEq, Repr

/-- `components` as far as the loader looks into it (`context.raw_spec_components["parameters"]`, `raw_responses`,
    `raw_request_bodies`). -/
structure Comps where
  parameters : List (Str × JsonV) := []
  responses : List (Str × JsonV) := []
  requestBodies : List (Str × JsonV) := []
  deriving DecidableEq, Repr

structure OpIn where
  opId : Str
  pathParams : List JsonV := []                 -- `entry.get("parameters", [])`
  params : List JsonV := []                     -- `node_op.get("parameters", [])`
  requestBody : Option JsonV := none            -- `node_op["requestBody"]` when the key is there
  responses : List (StatusKey × JsonV) := []    -- `node_op.get("responses", {}).items()`
  deriving DecidableEq, Repr

structure OpOut where
  params : List IRParam
  body : Option IRReqBody
  responses : List IRResp
  events : List Event           -- `_parse_schema` calls and enum registrations, in execution order
  deriving DecidableEq, Repr

/-! ### parameters (parameters/parser.py) -/

/-- `resolve_parameter_node_if_ref` -/
def resolveParam (tbl : List (Str × JsonV)) (p : JsonV) : Except Err JsonV :=
  match p with
  | .obj kvs =>
    match aget kvs "$ref".toList with
    | some (.str r) => if startsWith r paramPrefix then .ok (refOr tbl (lastSeg r) p) else .ok p
    | _ => .ok p
  | _ => .error .paramDataNotMapping

/-- `f"{operation_id_for_promo}Param" if operation_id_for_promo else ""` -/
def paramPromoBase (opId : Str) : Str := if opId.isEmpty then [] else opId ++ "Param".toList

/-- the promotion name of an inline object-like parameter schema:
    `f"{base_param_promo_name}{NameSanitizer.sanitize_class_name(param_name)}"` -/
def paramPromoName (opId pname : Str) : Str := paramPromoBase opId ++ sanClass pname

/-- the name of the promoted item enum of an "array of string enums" parameter (both arms of the `if/elif`) -/
def paramEnumName (opId pname : Str) : Str := paramPromoName opId pname ++ "Item".toList

/-- A promotion name built only when `cond` holds; `NameSanitizer.sanitize_class_name(param_name)` runs `re.findall` on
    whatever `node["name"]` is and raises on a non-`str`. -/
def promoFor (cond : Bool) (opId suffix : Str) (pname : JsonV) : Except Err (Option Str) :=
  if cond then
    match pname with
    | .str n => .ok (some (paramPromoName opId n ++ suffix))
    | v => .error (.reNonStr (pyTypeName v))
  else .ok none

/-- The value of `sch["items"]["enum"]` when the long `and` chain of parser.py:89-98 holds. -/
def enumArrayItems : JsonV → Option JsonV
  | .obj kvs =>
    if aget kvs "type".toList == some (.str "array".toList) then
      match aget kvs "items".toList with
      | some (.obj ikvs) =>
        if aget ikvs "type".toList == some (.str "string".toList) && !hasKey ikvs "$ref".toList then aget ikvs "enum".toList
        else none
      | _ => none
    else none
  | _ => none

/-- `enum[:3]`: `none` = fine (list, str). -/
def sliceErr : JsonV → Option Err
  | .arr _ => none
  | .str _ => none
  | .obj _ => some .sliceKey
  | v => some (.notSubscriptable (pyTypeName v))

/-- The schema part of `parse_parameter`: `pname` is `node["name"]`, `sch` is `node.get("schema")`. -/
def paramSchema (orc : Oracle) (opId : Str) (pname sch : JsonV) : Except Err (ParamSchema × List Event) :=
  -- name_for_inline_param_schema (computed, and its sanitiser run, even when the enum-array arm is taken)
  match promoFor (objLike sch) opId [] pname with
  | .error e => .error e
  | .ok inlineName =>
    match enumArrayItems sch with
    | some ev =>
      -- `if operation_id_for_promo and param_name: … elif param_name: …`
      match promoFor (pyTruthy pname) opId "Item".toList pname with
      | .error e => .error e
      | .ok enumName =>
        match sliceErr ev with
        | some e => .error e
        | none =>
          .ok (.enumArray enumName (enumName.map sanClass),
               match enumName with
               | some k => [.regEnum k]
               | none => [])
    | none =>
      if pyTruthy sch then
        match orc inlineName sch with
        | none => .error .schemaRaised
        | some _ => .ok (.parsed ⟨inlineName, sch⟩, [.parse ⟨inlineName, sch⟩])
      else .ok (.blank, [])

/-- `parse_parameter(node, context, operation_id_for_promo=opId)` -/
def parseParam (orc : Oracle) (opId : Str) (node : JsonV) : Except Err (IRParam × List Event) :=
  match node with
  | .obj kvs =>
    match aget kvs "name".toList with
    | none => .error .paramNoName
    | some pname =>
      match paramSchema orc opId pname ((aget kvs "schema".toList).getD .null) with
      | .error e => .error e
      | .ok (sc, ev) =>
        .ok (⟨pname, (aget kvs "in".toList).getD (.str "query".toList),
              pyTruthy ((aget kvs "required".toList).getD (.bool false)), sc⟩, ev)
  | _ => .error .nodeNotMapping

/-- one pass of `for p in nodes: params.append(parse_parameter(resolve_parameter_node_if_ref(p, ctx), ctx, opId))` -/
def parseParams (orc : Oracle) (tbl : List (Str × JsonV)) (opId : Str) :
    List JsonV → Except Err (List IRParam × List Event)
  | [] => .ok ([], [])
  | p :: ps =>
    match resolveParam tbl p with
    | .error e => .error e
    | .ok node =>
      match parseParam orc opId node with
      | .error e => .error e
      | .ok (ip, ev) =>
        match parseParams orc tbl opId ps with
        | .error e => .error e
        | .ok (ips, evs) => .ok (ip :: ips, ev ++ evs)

/-! ### content mappings -/

/-- `node.get("content", {}).items()` -/
def contentOf (kvs : List (Str × JsonV)) : Except Err (List (Str × JsonV)) :=
  match aget kvs "content".toList with
  | none => .ok []
  | some (.obj c) => .ok c
  | some v => .error (.noAttr (pyTypeName v) "items".toList)

/-! ### request body (operations/request_body.py) -/

def rbPromoName (opId : Str) : Str := opId ++ "RequestBody".toList

/-- one iteration of the content loop of `parse_request_body` -/
def bodyMedia (orc : Oracle) (promo : Str) (media : JsonV) : Except Err (ParseReq × ParseOut) :=
  match media with
  | .obj mk =>
    let msn := (aget mk "schema".toList).getD .null
    let name := if objLike msn then some promo else none
    match orc name msn with
    | none => .error .schemaRaised
    | some o => .ok (⟨name, msn⟩, o)
  | v => .error (.noAttr (pyTypeName v) "get".toList)

def bodyContent (orc : Oracle) (promo : Str) : List (Str × JsonV) → Except Err (List (Str × ParseReq × ParseOut))
  | [] => .ok []
  | (mt, media) :: rest =>
    match bodyMedia orc promo media with
    | .error e => .error e
    | .ok r =>
      match bodyContent orc promo rest with
      | .error e => .error e
      | .ok rs => .ok ((mt, r) :: rs)

/-- the node `parse_request_body` works on after its `$ref` step -/
def resolveBody (tbl : List (Str × JsonV)) (rb : JsonV) : JsonV :=
  match rb with
  | .obj kvs =>
    match aget kvs "$ref".toList with
    | some (.str r) => if startsWith r rbPrefix then refOr tbl (lastSeg r) rb else rb
    | _ => rb
  | _ => rb

/-- `parse_request_body(rb_node, raw_request_bodies, context, opId)` -/
def parseBody (orc : Oracle) (tbl : List (Str × JsonV)) (opId : Str) (rb : JsonV) :
    Except Err (Option IRReqBody × List Event) :=
  match rb with
  | .obj _ =>
    if opId.isEmpty then .error .opIdRb else
    match resolveBody tbl rb with
    | .obj rk =>
      let required := pyTruthy ((aget rk "required".toList).getD (.bool false))
      match contentOf rk with
      | .error e => .error e
      | .ok c =>
        match bodyContent orc (rbPromoName opId) c with
        | .error e => .error e
        | .ok content =>
          .ok (if content.isEmpty then none else some ⟨required, content⟩, content.map (fun e => .parse e.2.1))
    | v => .error (.noAttr (pyTypeName v) "get".toList)
  | _ => .error .rbNotMapping

/-! ### responses (operations/parser.py:126-154, responses/parser.py) -/

/-- `f"{operation_id_for_promo}{code}Response"` -/
def respPromoName (opId code : Str) : Str := opId ++ code ++ "Response".toList

/-- the node built for `$ref: #/components/schemas/X` used as a response -/
def schemaRefResponse (r : Str) : JsonV :=
  .obj [("description".toList, .str ("Response with ".toList ++ lastSeg r ++ " schema".toList)),
        ("content".toList, .obj [("application/json".toList, .obj [("schema".toList, .obj [("$ref".toList, .str r)])])])]

/-- `resp_node_resolved` of operations/parser.py:131-153 -/
def resolveResponse (tbl : List (Str × JsonV)) (rn : JsonV) : JsonV :=
  match rn with
  | .obj kvs =>
    match aget kvs "$ref".toList with
    | some (.str r) =>
      if startsWith r respPrefix then refOr tbl (lastSeg r) rn
      else if startsWith r schemaPrefix then schemaRefResponse r
      else rn
    | _ => rn
  | _ => rn

/-- first arm of the content loop: `isinstance(mn, Mapping) and "$ref" in mn and mn["$ref"].startswith("#/components/schemas/")`;
    `error` = `mn["$ref"]` has no `startswith`. -/
def mediaIsSchemaRef : JsonV → Except Err Bool
  | .obj kvs =>
    match aget kvs "$ref".toList with
    | none => .ok false
    | some (.str r) => .ok (startsWith r schemaPrefix)
    | some v => .error (.noAttr (pyTypeName v) "startswith".toList)
  | _ => .ok false

/-- The `_parse_schema` request of one media node of a response (`none` = the placeholder arm). -/
def mediaReq (promo : Str) (mn : JsonV) : Except Err (Option ParseReq) :=
  match mediaIsSchemaRef mn with
  | .error e => .error e
  | .ok true => .ok (some ⟨none, mn⟩)
  | .ok false =>
    match mn with
    | .obj kvs =>
      match aget kvs "schema".toList with
      | some msn => .ok (some ⟨if objLike msn then some promo else none, msn⟩)
      | none => .ok none
    | _ => .ok none

/-- one iteration of the content loop of `parse_response` (without the stream bookkeeping) -/
def respMedia (orc : Oracle) (promo : Str) (mn : JsonV) : Except Err ContentEntry :=
  match mediaReq promo mn with
  | .error e => .error e
  | .ok none => .ok .placeholder
  | .ok (some r) =>
    match orc r.name r.node with
    | none => .error .schemaRaised
    | some o => .ok (.parsed r o)

def respContent (orc : Oracle) (promo : Str) : List (Str × JsonV) → Except Err (List (Str × ContentEntry))
  | [] => .ok []
  | (mt, mn) :: rest =>
    match respMedia orc promo mn with
    | .error e => .error e
    | .ok c =>
      match respContent orc promo rest with
      | .error e => .error e
      | .ok cs => .ok ((mt, c) :: cs)

/-- `fmt = STREAM_FORMATS.get(mt.lower()); if fmt: …` -/
def streamLookup (u : UInfo) (mt : Str) : Option Str :=
  match aget Pog.Gen.streamFormats (u.lowerS mt) with
  | some f => if f.isEmpty then none else some f
  | none => none

def octetStream : Str := "octet-stream".toList

/-- `(stream_flag, stream_format)`: the LAST media type found in `STREAM_FORMATS` decides the format; only when there is
    none, a content schema with `format == "binary"` sets the flag (format `"octet-stream"`). -/
def streamOf (u : UInfo) (content : List (Str × ContentEntry)) : Bool × Option Str :=
  match (content.filterMap (fun e => streamLookup u e.1)).getLast? with
  | some f => (true, some f)
  | none => if content.any (fun e => e.2.isBinary) then (true, some octetStream) else (false, none)

def contentEvents (content : List (Str × ContentEntry)) : List Event :=
  content.filterMap (fun e => e.2.req.map Event.parse)

/-- `parse_response` from its content mapping on. -/
def respOfContent (u : UInfo) (orc : Oracle) (opId code : Str) (c : List (Str × JsonV)) :
    Except Err (IRResp × List Event) :=
  match respContent orc (respPromoName opId code) c with
  | .error e => .error e
  | .ok content =>
    let st := streamOf u content
    .ok (⟨code, content, st.1, st.2⟩, contentEvents content)

/-- `parse_response(code, node, context, operation_id_for_promo=opId)` -/
def parseResponse (u : UInfo) (orc : Oracle) (opId : Str) (code : StatusKey) (node : JsonV) :
    Except Err (IRResp × List Event) :=
  match code with
  | .intKey _ => .error .codeNotStr
  | .badKey _ => .error .codeNotStr
  | .strKey code =>
    match node with
    | .obj kvs =>
      if opId.isEmpty then .error .opIdResp else
      match contentOf kvs with
      | .error e => .error e
      | .ok c => respOfContent u orc opId code c
    | _ => .error .nodeNotMapping

/-- `for sc, rn_node in responses.items(): resps.append(parse_response(sc, <resolved>, context, opId))` -/
def parseResponses (u : UInfo) (orc : Oracle) (tbl : List (Str × JsonV)) (opId : Str) :
    List (StatusKey × JsonV) → Except Err (List IRResp × List Event)
  | [] => .ok ([], [])
  | (sc, rn) :: rest =>
    match parseResponse u orc opId sc (resolveResponse tbl rn) with
    | .error e => .error e
    | .ok (r, ev) =>
      match parseResponses u orc tbl opId rest with
      | .error e => .error e
      | .ok (rs, evs) => .ok (r :: rs, ev ++ evs)

/-- operations/parser.py (F16 repaired): `if isinstance(sc, int) and not isinstance(sc, bool): sc = str(sc)` before `parse_response`. -/
def normKey : StatusKey → StatusKey
  | .intKey n => .strKey (toString n).toList
  | k => k

def normResponses (rs : List (StatusKey × JsonV)) : List (StatusKey × JsonV) := rs.map (fun p => (normKey p.1, p.2))

/-! ### one operation -/

/-- `rb = None; if "requestBody" in node_op: rb = parse_request_body(…)` -/
def parseBodyOpt (orc : Oracle) (tbl : List (Str × JsonV)) (opId : Str) :
    Option JsonV → Except Err (Option IRReqBody × List Event)
  | none => .ok (none, [])
  | some rb => parseBody orc tbl opId rb

/-! ### Python `==` on nodes, and the override of path-level parameters -/

mutual
/-- Python `==` on JSON-shaped values (`IRParameter.name` / `.param_in` are copied verbatim from the node, so they can be any
    of them): `True == 1`, lists element-wise, dicts as MAPPINGS (same length, every key of the left one is a key of the
    right one with an equal value: key order is irrelevant; a `dict` has no repeated key). -/
def pyEqJ : JsonV → JsonV → Bool
  | .null, .null => true
  | .bool a, .bool b => a == b
  | .bool a, .int n => n == (if a then 1 else 0)
  | .int n, .bool a => n == (if a then 1 else 0)
  | .int a, .int b => a == b
  | .str a, .str b => a == b
  | .arr a, .arr b => pyEqList a b
  | .obj a, .obj b => a.length == b.length && pyEqKvs a b
  | _, _ => false
def pyEqList : List JsonV → List JsonV → Bool
  | [], [] => true
  | x :: xs, y :: ys => pyEqJ x y && pyEqList xs ys
  | _, _ => false
def pyEqKvs : List (Str × JsonV) → List (Str × JsonV) → Bool
  | [], _ => true
  | (k, x) :: xs, b =>
    (match aget b k with
     | some y => pyEqJ x y
     | none => false) && pyEqKvs xs b
end

/-- `bp.name == p.name and bp.param_in == p.param_in` -/
def sameParamKey (a b : IRParam) : Bool := pyEqJ a.name b.name && pyEqJ a.pin b.pin

/-- operations/parser.py (F4 repaired): `[bp for bp in base_params if not any(<same name and location> for p in op_params)]
    + op_params` - an operation-level parameter OVERRIDES the path-level one with the same (name, in); both lists keep
    their order.  (Both lists are PARSED first: the `_parse_schema` calls / enum registrations of an overridden
    path-level parameter still happen.) -/
def mergeParams (base own : List IRParam) : List IRParam :=
  base.filter (fun bp => !own.any (fun p => sameParamKey bp p)) ++ own

/-- operations/parser.py:93-154 for one operation node. -/
def parseOp (u : UInfo) (orc : Oracle) (c : Comps) (i : OpIn) : Except Err OpOut :=
  match parseParams orc c.parameters i.opId i.pathParams with
  | .error e => .error e
  | .ok (base, ev1) =>
    match parseParams orc c.parameters i.opId i.params with
    | .error e => .error e
    | .ok (own, ev2) =>
      match parseBodyOpt orc c.requestBodies i.opId i.requestBody with
      | .error e => .error e
      | .ok (body, ev3) =>
        match parseResponses u orc c.responses i.opId (normResponses i.responses) with
        | .error e => .error e
        | .ok (resps, ev4) => .ok ⟨mergeParams base own, body, resps, ev1 ++ ev2 ++ ev3 ++ ev4⟩

/-! ### `post_process_operation` -/

inductive PostEv
  /-- `context.parsed_schemas[key] = sch` (overwrites) -/
  | regSet (key : Str)
  /-- `if key not in context.parsed_schemas: context.parsed_schemas[key] = sch` -/
  | regIfAbsent (key : Str)
  deriving DecidableEq, Repr

/-- Python truthiness of `str | None`. -/
def nameTruthy : Option Str → Bool
  | some (_ :: _) => true
  | _ => false

def requestName (opId : Str) : Str := sanClass (opId ++ "Request".toList)
def responseName (opId : Str) : Str := sanClass (opId ++ "Response".toList)

/-- one content schema of the request body: its name afterwards and the registry writes -/
def postBodyEntry (opId : Str) (o : ParseOut) : Option Str × List PostEv :=
  if !nameTruthy o.name then (some (requestName opId), [.regSet (requestName opId)])
  else (o.name, match o.name with
                | some n => [.regIfAbsent n]
                | none => [])

/-- one content schema of a response -/
def postRespEntry (opId : Str) (stream : Bool) (e : ContentEntry) : Option Str × List PostEv :=
  match e with
  | .placeholder => (none, [])
  | .parsed _ o =>
    match o.name with
    | none =>
      if o.unresolved then (none, [])
      else if stream then (none, [])
      else if o.objProps then (some (responseName opId), [.regSet (responseName opId)])
      else (none, [])
    | some n => (some n, if nameTruthy (some n) then [.regIfAbsent n] else [])

structure PostOut where
  bodyNames : List (Str × Option Str)                 -- media type ↦ schema name afterwards
  respNames : List (Str × List (Str × Option Str))    -- status ↦ media type ↦ schema name afterwards
  events : List PostEv
  deriving DecidableEq, Repr

def postProcess (opId : Str) (o : OpOut) : PostOut :=
  let b : List (Str × Option Str × List PostEv) := match o.body with
    | none => []
    | some rb => rb.content.map (fun e => (e.1, postBodyEntry opId e.2.2))
  let r : List (Str × List (Str × Option Str × List PostEv)) := o.responses.map (fun resp => (resp.status, resp.content.map (fun e => (e.1, postRespEntry opId resp.stream e.2))))
  { bodyNames := b.map (fun e => (e.1, e.2.1)),
    respNames := r.map (fun e => (e.1, e.2.map (fun x => (x.1, x.2.1)))),
    events := b.flatMap (fun e => e.2.2) ++ r.flatMap (fun e => e.2.flatMap (fun x => x.2.2)) }

end Pog.Loader
