import Pog.Lemmas.ParserFaithful2
/-
  `Simple2` as a decision procedure.  The correspondence harness does not trust its own generator about what is
  inside the proved fragment: it hands the document, a rank table and the two limits to the driver, the driver
  evaluates `inFragment2`, and `inFragment2_sound` (Pog/Props/C02b.lean) is the theorem that a `true` answer
  implies the conclusion of `parse_faithful_partial2` for exactly the `buildSchemas maxDepth fuel decls` the
  driver then runs.
-/
namespace Pog.Prs
open Pog

/-- rank function given as a table (absent names have rank 0) -/
def rankOf (rs : List (Str × Nat)) (n : Str) : Nat :=
  match rs.find? (fun r => r.1 == n) with
  | some r => r.2
  | none => 0

theorem simple2_iff (decls : Decls) (rank : Str → Nat) :
    Simple2 decls rank ↔
      ((decls.map (·.1)).Nodup ∧
       (∀ d ∈ decls, simpleNode2 (decls.map (·.1)) d.2 = true) ∧
       (∀ d ∈ decls, d.1 ≠ [] ∧ sanClass d.1 = d.1) ∧
       (∀ d ∈ decls, topCost rank d.2 ≤ rank d.1 ∧ ∀ kv ∈ nodeProps d.2, propCost rank kv.2 ≤ rank d.1) ∧
       (∀ d ∈ decls, ∀ k ∈ mapKeys d.2,
          mapCtx d.1 k ∉ decls.map (·.1) ∧ sanClass (mapCtx d.1 k) = mapCtx d.1 k) ∧
       (∀ d ∈ decls, ∀ d' ∈ decls, ∀ k ∈ mapKeys d.2, ∀ k' ∈ mapKeys d'.2,
          mapCtx d.1 k = mapCtx d'.1 k' → d.1 = d'.1 ∧ k = k')) :=
  ⟨fun h => ⟨h.nodup, h.node, h.name, h.cost, h.ctxFresh, h.ctxInj⟩,
   fun ⟨a, b, c, d, e, f⟩ => ⟨a, b, c, d, e, f⟩⟩

instance (decls : Decls) (rank : Str → Nat) : Decidable (Simple2 decls rank) :=
  decidable_of_iff _ (simple2_iff decls rank).symm

/-- the hypotheses of `parse_faithful_partial2` for `buildSchemas maxDepth fuel decls`, decided -/
def inFragment2 (maxDepth fuel : Nat) (decls : Decls) (rs : List (Str × Nat)) : Bool :=
  decide (Simple2 decls (rankOf rs)) &&
  decls.all (fun d => decide (rankOf rs d.1 + 1 < fuel)) &&
  decls.all (fun d => decide (rankOf rs d.1 + 1 ≤ maxDepth))

end Pog.Prs
