"""./check Cxx [--tier quick|thorough] [--replay FILE]

Decision procedure (DESIGN.md 2.3):
  sync tables -> prove (lake build + axiom audit + forbidden-token grep) -> correspondence ->
  known findings -> oracle -> (if proof/correspondence broke: widened search) -> evidence.
Exit 0 held / 1 violation / 2 infrastructure failure.
"""
from __future__ import annotations

import argparse
import importlib
import json
import os
import sys
import time
import traceback
from pathlib import Path

from . import common
from .common import Run, VERIF


class Ctx:
    def __init__(self, run: Run, tier: str):
        self.run = run
        self.tier = tier
        self.thorough = tier == "thorough"
        self._driver = None
        self.proof_failures: list[str] = []      # theorem / build problems
        self.corr_failures: list[dict] = []      # model vs implementation disagreements
        self.widen = False                       # set when proof or correspondence broke

    @property
    def driver(self):
        if self._driver is None:
            from .lean import Driver
            self._driver = Driver()
        return self._driver

    def budget(self, quick: int, thorough: int) -> int:
        b = thorough if self.thorough else (min(thorough, quick * 3) if self.widen else quick)
        scale = float(os.environ.get("VERIF_BUDGET_SCALE", "1"))
        return max(1, int(b * scale))

    def corr_fail(self, name: str, case, impl, model) -> None:
        if len(self.corr_failures) < 50:
            self.corr_failures.append({"correspondence": name, "case": case, "impl": impl, "model": model})


def salvage(prop: str, idx: dict, log: str, theorems: dict):
    """When `lake build` fails ONLY inside `_counterexample` theorems / examples of this property's Props file, re-check the file
    with those declarations removed.  Returns ({theorem: axioms}, [dropped theorem names]) or None when anything else is broken."""
    import re
    import subprocess
    from . import lean
    from .common import LEAN
    mods = idx.get("modules", [f"Pog.Props.{prop}"])
    if len(mods) != 1:
        return None
    rel = Path("Pog") / "Props" / f"{prop}.lean"
    errlines = {}
    for m in re.finditer(r"error: ([^\s:]+\.lean):(\d+):\d+", log):
        errlines.setdefault(m.group(1), set()).add(int(m.group(2)))
    if not errlines or set(errlines) - {str(rel)}:
        return None   # an error in a model / lemma / table file: genuinely broken
    src = (LEAN / rel).read_text().split("\n")
    # top-level declarations start at column 0 with one of these keywords (doc comments/attributes attach to the next one)
    starts = [i for i, l in enumerate(src) if re.match(r"(theorem|example|lemma|def|abbrev|instance|structure|inductive|namespace|end|open|section|/--|@\[)", l)]
    starts.append(len(src))

    def block_of(line_no: int):
        i = line_no - 1
        b = max(x for x in starts if x <= i)
        # walk back over a preceding doc comment / attribute line belonging to this declaration
        e = min(x for x in starts if x > i)
        return b, e
    drop_ranges, dropped = [], []
    for ln in sorted(errlines[str(rel)]):
        b, e = block_of(ln)
        head = src[b]
        k = b
        while not re.match(r"(theorem|example)", src[k]) and k + 1 < e:
            k += 1
        head = src[k]
        m = re.match(r"theorem\s+([A-Za-z0-9_']+)", head)
        if m:
            name = f"Pog.{prop}.{m.group(1)}"
            if theorems.get(name) != "counterexample":
                return None
            if name not in dropped:
                dropped.append(name)
        elif not head.startswith("example"):
            return None
        # extend to the end of this theorem/example (next top-level start after k)
        e2 = min(x for x in starts if x > k)
        # a doc comment / attribute immediately above belongs to the dropped declaration
        while True:
            prev = [x for x in starts if x < b]
            if prev and re.match(r"(/--|@\[)", src[max(prev)]):
                b = max(prev)
            else:
                break
        drop_ranges.append((b, e2))
    keep = [l for i, l in enumerate(src) if not any(b <= i < e for b, e in drop_ranges)]
    audit_dir = LEAN / ".audit"
    audit_dir.mkdir(exist_ok=True)
    tmp = audit_dir / f"Salvage_{prop}.lean"
    rest = [t for t in theorems if t not in dropped]
    tmp.write_text("\n".join(keep) + "\n" + "\n".join(f"#print axioms {t}" for t in rest) + "\n")
    with lean.LakeLock():
        p = subprocess.run(["lake", "env", "lean", str(tmp)], cwd=LEAN, capture_output=True, text=True, timeout=1200)
    out = p.stdout + p.stderr
    if p.returncode != 0 or re.search(r"\berror\b", out):
        return None
    res = {}
    for t in rest:
        m = re.search(r"'" + re.escape(t) + r"' depends on axioms: \[([^\]]*)\]", out)
        if m:
            res[t] = [a.strip() for a in m.group(1).replace("\n", " ").split(",") if a.strip()]
        elif re.search(r"'" + re.escape(t) + r"' does not depend on any axioms", out):
            res[t] = []
        else:
            res[t] = ["<missing>"]
    return res, dropped


def prove(run: Run, ctx: Ctx, prop: str) -> None:
    from . import extract_tables, lean
    t0 = time.time()
    rep = extract_tables.sync()
    run.cov["tables_regenerated"] = rep
    for name, r in rep.items():
        if "error" in r:
            ctx.proof_failures.append(f"table {name} could not be regenerated: {r['error']}")
    idx = lean.props_index().get(prop, {})
    modules = idx.get("modules", [f"Pog.Props.{prop}"])
    theorems = idx.get("theorems", {})
    ok, log = lean.lake_build(modules + ["driver"])
    run.cov["checker_cmd"] = f"cd lean && lake build {' '.join(modules)} driver && lake env lean .audit/Audit_{prop}.lean  # '#print axioms' on each listed theorem"
    run.cov["obligations"] = len(theorems)
    discharged = 0
    th_report = {}
    if not ok:
        errs = [l for l in log.splitlines() if "error" in l.lower()][:20]
        run.cov["build_log_tail"] = log[-3000:]
        salvaged = salvage(prop, idx, log, theorems)
        if salvaged is not None:
            # Only `_counterexample` theorems (Lean witnesses of recorded findings) stopped checking: the defect they exhibit is
            # gone from the model's tables/definitions.  That is not a broken obligation of the property; the remaining theorems
            # were re-checked in a copy of the Props file with those declarations removed.
            axioms, dropped = salvaged
            run.notes.append("counterexample theorems no longer hold (recorded finding fixed?): " + ", ".join(dropped))
            run.cov["counterexamples_no_longer_holding"] = dropped
            for t, kind in theorems.items():
                if t in dropped:
                    th_report[t] = {"kind": kind, "status": "no-longer-holds"}
                    discharged += 1   # not an obligation of the property
                    continue
                ax = axioms.get(t, ["<missing>"])
                bad = [a for a in ax if a not in lean.ALLOWED_AXIOMS]
                if bad:
                    ctx.proof_failures.append(f"theorem {t}: {'missing from build' if bad == ['<missing>'] else 'uses axioms ' + ','.join(bad)}")
                    th_report[t] = {"kind": kind, "status": "failed", "axioms": ax}
                else:
                    discharged += 1
                    th_report[t] = {"kind": kind, "status": "proved", "axioms": ax}
        else:
            ctx.proof_failures.append("lake build failed: " + " | ".join(errs)[:2000])
            for t, kind in theorems.items():
                th_report[t] = {"kind": kind, "status": "build-failed"}
    else:
        axioms, out = lean.audit(prop, list(theorems), modules)
        for t, kind in theorems.items():
            ax = axioms.get(t, ["<missing>"])
            bad = [a for a in ax if a not in lean.ALLOWED_AXIOMS]
            if bad:
                ctx.proof_failures.append(f"theorem {t}: {'missing from build' if bad == ['<missing>'] else 'uses axioms ' + ','.join(bad)}")
                th_report[t] = {"kind": kind, "status": "failed", "axioms": ax}
            else:
                discharged += 1
                th_report[t] = {"kind": kind, "status": "proved", "axioms": ax}
    hits = lean.grep_forbidden()
    if hits:
        ctx.proof_failures.append("forbidden tokens in lean sources: " + "; ".join(hits[:10]))
        discharged = 0
    run.cov["discharged"] = discharged
    run.cov["theorems"] = th_report
    run.cov["prove_wall_s"] = round(time.time() - t0, 1)
    if ctx.thorough and ok and os.environ.get("VERIF_NO_LEANCHECKER") != "1":
        import subprocess
        try:
            p = subprocess.run(["lake", "env", "leanchecker", *modules], cwd=common.LEAN, capture_output=True, text=True, timeout=1500)
            run.cov["leanchecker"] = {"rc": p.returncode, "tail": (p.stdout + p.stderr)[-400:]}
            if p.returncode != 0:
                ctx.proof_failures.append("leanchecker rejected the compiled modules: " + (p.stdout + p.stderr)[-400:])
        except Exception as e:  # infrastructure, not a violation
            run.cov["leanchecker"] = {"error": str(e)}
    run.cov["trusted_base"] = [
        "Lean 4.33.0 kernel; axioms allowed: propext, Classical.choice, Quot.sound (checked by '#print axioms' on every listed theorem)",
        "no sorry/admit/axiom/native_decide/bv_decide/implemented_by/unsafe/maxHeartbeats 0 (grep over lean/Pog, comments stripped)",
        "vf/extract_tables.py (ast-based translator of source literals into lean/Pog/Gen)",
        "the correspondence harness vf/props/%s.py (generators, canonicalisation) and the compiled Lean driver" % prop,
    ] + idx.get("trusted", [])


def main(argv=None) -> int:
    ap = argparse.ArgumentParser()
    ap.add_argument("prop")
    ap.add_argument("--tier", default=os.environ.get("VERIF_TIER", "quick"), choices=["quick", "thorough"])
    ap.add_argument("--replay")
    args = ap.parse_args(argv)
    prop = args.prop
    # watchdog: a check that does not finish is an infrastructure failure (exit 2 after dumping every thread's stack), never a verdict
    try:
        import faulthandler
        limit = int(os.environ.get("VERIF_WATCHDOG_S", "10800" if args.tier == "thorough" else "2400"))
        if limit > 0:
            faulthandler.dump_traceback_later(limit, exit=False)
            import threading

            def _bail():
                sys.stderr.write(f"watchdog: {prop} did not finish within {limit}s\n")
                sys.stderr.flush()
                os._exit(2)
            t = threading.Timer(limit + 2, _bail)
            t.daemon = True
            t.start()
    except Exception:
        pass
    common.scratch()
    common.use_repo_src()
    import logging
    import warnings
    logging.disable(logging.WARNING)
    warnings.simplefilter("ignore")
    run = Run(prop, args.tier)
    ctx = Ctx(run, args.tier)
    try:
        mod = importlib.import_module(f"vf.props.{prop}")
    except ModuleNotFoundError:
        print(f"no check for {prop}", file=sys.stderr)
        return 2
    if args.replay:
        rec = json.loads(open(args.replay).read())
        bad = mod.replay(run, ctx, rec)
        print("STILL-VIOLATES" if bad else "no longer violates")
        return 1 if bad else 0
    rc = 0
    try:
        prove(run, ctx, prop)
        ctx.widen = bool(ctx.proof_failures)
        # tie, part 3: fingerprints of the functions this property's models mirror.  A change is never a violation; it means the
        # hand model may have drifted from the code, so every correspondence / oracle of the property runs with the widened budget.
        try:
            from . import fingerprints
            fp = fingerprints.changed_for(prop)
            run.cov["fingerprints"] = {**fp, "changed": fp["changed"][:40]}
            if fp["changed"] and os.environ.get("VERIF_NO_FP_BOOST") != "1":
                ctx.widen = True
                run.notes.append(f"{len(fp['changed'])} watched function(s) differ from the fingerprint baseline {fp.get('baseline_commit')}: widened budgets")
        except Exception as e:   # infrastructure only
            run.notes.append(f"fingerprints unavailable: {type(e).__name__}: {e}")
        mod.check(run, ctx)
        if (ctx.proof_failures or ctx.corr_failures) and not run.violations:
            # A broken proof / correspondence is not itself a violation: search for a failing input.
            ctx.widen = True
            run.notes.append("proof or correspondence broke; widened failing-input search")
            if hasattr(mod, "search"):
                mod.search(run, ctx)
            if not run.violations:
                broken = ctx.proof_failures + [f"correspondence {c['correspondence']}" for c in ctx.corr_failures[:5]]
                run.violation("no-failing-input-found", ctx.corr_failures[:5] or None, broken="; ".join(broken)[:3000],
                              what="the property is no longer shown to hold: " + "; ".join(broken)[:300])
        run.cov["proof_failures"] = ctx.proof_failures
        run.cov["correspondence_failures"] = ctx.corr_failures[:10]
        if run.violations:
            rc = 1
    except Exception:
        run.infra_errors.append(traceback.format_exc())
        traceback.print_exc()
        rc = 2
    run.write_evidence()
    return rc


if __name__ == "__main__":
    sys.exit(main())
